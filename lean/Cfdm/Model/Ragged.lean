import Cfdm.Model.Arr
/-
C06 — data compressed by convention (CF 9.3 ragged arrays, CF 8.2 gathering).

Model of the decision core of
  cfdm/data/raggedcontiguousarray.py        `RaggedContiguousArray.subarrays`
  cfdm/data/raggedindexedarray.py           `RaggedIndexedArray.subarrays`
  cfdm/data/raggedindexedcontiguousarray.py `RaggedIndexedContiguousArray.subarrays`
  cfdm/data/gatheredarray.py                `GatheredArray._uncompressed_indices`
  cfdm/data/subarray/raggedsubarray.py      `RaggedSubarray.__getitem__`
  cfdm/data/subarray/gatheredsubarray.py    `GatheredSubarray.__getitem__`
  cfdm/data/abstract/compressedarray.py     `CompressedArray.__getitem__` (assembly)
  cfdm/field.py                             `Field.compress`, `_derive_count`
as the code performs it, and next to it the CF definitions (the specification),
written independently of the algorithm.

Only the sample dimension and the dimensions it expands to are modelled; the
element type `α` is arbitrary, so that an element may itself be a whole slab of
trailing dimensions (extra trailing dimensions are carried along element-wise,
extra leading dimensions by mapping the decoder over them — this is what the
driver does).  `none` is a masked element.

Core Lean only (the driver links this file).
-/
namespace Cfdm.Ragged
open Cfdm.Arr

/-- A possibly masked element. -/
abbrev M (α : Type) := Option α

/-! ## Compressed-array indices as the `subarrays()` methods build them -/

/-- One entry of `c_indices` for the sample dimension: a `slice(start, stop)` or an
integer array (`np.where(index == i)[0]`). -/
inductive CIdx where
  | slice (start stop : Nat)
  | pos (l : List Nat)
  deriving Repr, DecidableEq

/-- `itertools.accumulate([s] + count)`. -/
def accumulate : Nat → List Nat → List Nat
  | s, [] => [s]
  | s, n :: ns => s :: accumulate (s + n) ns

/-- `zip(c[:-1], c[1:])`. -/
def pairs : List Nat → List (Nat × Nat)
  | a :: b :: rest => (a, b) :: pairs (b :: rest)
  | _ => []

/-- `RaggedContiguousArray.subarrays`, sample dimension:
`c = accumulate([0] + count); [slice(i, j) for i, j in zip(c[:-1], c[1:])]`. -/
def subarraysContiguousFrom (s : Nat) (count : List Nat) : List CIdx :=
  (pairs (accumulate s count)).map (fun p => .slice p.1 p.2)

def subarraysContiguous (count : List Nat) : List CIdx := subarraysContiguousFrom 0 count

/-- `np.where(index == i)[0]`, positions counted from `p`. -/
def whereFrom (i : Nat) : Nat → List Nat → List Nat
  | _, [] => []
  | p, x :: xs => if x = i then p :: whereFrom i (p + 1) xs else whereFrom i (p + 1) xs

def whereEq (index : List Nat) (i : Nat) : List Nat := whereFrom i 0 index

/-- `np.unique(index).tolist()` for non-negative integers: the values that occur,
ascending. -/
def unique (index : List Nat) : List Nat :=
  (List.range (index.foldl max 0 + 1)).filter (fun v => index.contains v)

/-- `RaggedIndexedArray.subarrays` as it is after the proposed repair: one entry
per instance `0 … ninst-1` of the uncompressed shape. -/
def subarraysIndexed (ninst : Nat) (index : List Nat) : List CIdx :=
  (List.range ninst).map (fun i => .pos (whereEq index i))

/-- `RaggedIndexedArray.subarrays` as coded now: one entry per *distinct value* of
the index variable (`for i in np.unique(index)`). -/
def subarraysIndexedOld (index : List Nat) : List CIdx :=
  (unique index).map (fun i => .pos (whereEq index i))

/-- `np.cumsum(count)`. -/
def cumsum : Nat → List Nat → List Nat
  | _, [] => []
  | s, n :: ns => (s + n) :: cumsum (s + n) ns

/-- The slice of profile `j`:
`start = 0 if not j else count_partial_sums[j-1]; slice(start, count_partial_sums[j])`. -/
def profileSlice (cps : List Nat) (j : Nat) : CIdx :=
  .slice (if j = 0 then 0 else cps.getD (j - 1) 0) (cps.getD j 0)

/-- The entries appended to `ind` for instance `i`: its profiles' slices, then
`(slice(0, 0),) * (max_n_profiles - profile_locations.size)`. -/
def icBlock (cps index : List Nat) (maxProf i : Nat) : List CIdx :=
  let locs := whereEq index i
  locs.map (profileSlice cps) ++ List.replicate (maxProf - locs.length) (.slice 0 0)

/-- `RaggedIndexedContiguousArray.subarrays` after the proposed repair. -/
def subarraysIndexedContiguous (ninst maxProf : Nat) (count index : List Nat) : List CIdx :=
  (List.range ninst).flatMap (icBlock (cumsum 0 count) index maxProf)

/-- … and as coded now (`for i in np.unique(index)`). -/
def subarraysIndexedContiguousOld (maxProf : Nat) (count index : List Nat) : List CIdx :=
  (unique index).flatMap (icBlock (cumsum 0 count) index maxProf)

/-! ## Subarrays and assembly -/

/-- `Subarray._select_data`: `data[indices]` on the sample dimension.  A Python
slice clips; an integer array picks. -/
def selectData {α} (c : List (M α)) : CIdx → List (M α)
  | .slice a b => (c.take b).drop a
  | .pos l => l.map (fun k => c.getD k none)

/-- `RaggedSubarray.__getitem__`: `u = masked_all(ncols); u[0:len(data)] = data`. -/
def raggedRow {α} (ncols : Nat) (data : List (M α)) : List (M α) :=
  data ++ List.replicate (ncols - data.length) none

/-- `CompressedArray.__getitem__`: `u = masked_all(shape)`, then
`for u_indices, …, c_indices, … in zip(*self.subarrays()): u[u_indices] = subarray[...]`.
The uncompressed rows `0 … nrows-1` (row-major over the leading compressed
dimensions) are zipped with the compressed indices; `zip` stops at the shorter. -/
def assembleRows {α} (nrows ncols : Nat) (cis : List CIdx) (c : List (M α)) : List (List (M α)) :=
  let filled := (cis.take nrows).map (fun ci => raggedRow ncols (selectData c ci))
  filled ++ List.replicate (nrows - filled.length) (List.replicate ncols none)

/-- `RaggedContiguousArray[...]`, shape `(nrows, ncols)`. -/
def decodeContiguous {α} (count : List Nat) (nrows ncols : Nat) (c : List (M α)) :=
  assembleRows nrows ncols (subarraysContiguous count) c

/-- `RaggedIndexedArray[...]`, shape `(nrows, ncols)` (repaired code). -/
def decodeIndexed {α} (index : List Nat) (nrows ncols : Nat) (c : List (M α)) :=
  assembleRows nrows ncols (subarraysIndexed nrows index) c

def decodeIndexedOld {α} (index : List Nat) (nrows ncols : Nat) (c : List (M α)) :=
  assembleRows nrows ncols (subarraysIndexedOld index) c

/-- `RaggedIndexedContiguousArray[...]`, shape `(ninst, maxProf, nelem)`, as the
list of its `ninst * maxProf` rows in row-major order (repaired code). -/
def decodeIndexedContiguous {α} (count index : List Nat) (ninst maxProf nelem : Nat)
    (c : List (M α)) :=
  assembleRows (ninst * maxProf) nelem (subarraysIndexedContiguous ninst maxProf count index) c

def decodeIndexedContiguousOld {α} (count index : List Nat) (ninst maxProf nelem : Nat)
    (c : List (M α)) :=
  assembleRows (ninst * maxProf) nelem (subarraysIndexedContiguousOld maxProf count index) c

/-! ## Gathering -/

/-- Product of extents. -/
def prod : List Nat → Nat
  | [] => 1
  | n :: ns => n * prod ns

/-- `np.unravel_index(q, dims)` (row-major). -/
def unravel : List Nat → Nat → List Nat
  | [], _ => []
  | _ :: ns, q => (q / prod ns) :: unravel ns (q % prod ns)

/-- `GatheredSubarray.__getitem__`:
`u = masked_all(dims); u[np.unravel_index(list, dims)] = data`
(element `k` of the compressed dimension goes to multi-index `unravel(list[k])`, in order). -/
def gatherAssign {α} (dims : List Nat) : List Nat → List (M α) → (List Nat → M α) → (List Nat → M α)
  | q :: qs, x :: xs, u => gatherAssign dims qs xs (fun idx => if idx = unravel dims q then x else u idx)
  | _, _, u => u

/-- `GatheredArray[...]` over the compressed dimensions `dims`. -/
def decodeGathered {α} (dims : List Nat) (l : List Nat) (c : List (M α)) : List Nat → M α :=
  gatherAssign dims l c (fun _ => none)

/-! ## `Field.compress` -/

/-- `_derive_count` for one row: `last = d.size; for i in d[::-1]: if i is not masked: break; last -= 1`. -/
def deriveCount {α} (row : List (M α)) : Nat :=
  (row.reverse.dropWhile Option.isNone).length

/-- The packing loop
`for last, d in zip(count, flattened_data): if not last: continue; compressed[start:end] = d[:last]; start += last`. -/
def packFrom {α} (acc : List (M α)) : List Nat → List (List (M α)) → List (M α)
  | last :: ns, d :: ds => packFrom (if last = 0 then acc else acc ++ d.take last) ns ds
  | _, _ => acc

def pack {α} (count : List Nat) (rows : List (List (M α))) : List (M α) := packFrom [] count rows

/-- The index variable loop of `compress('indexed')`:
`for i, last in enumerate(count): if not last: continue; index[start:end] = i`. -/
def indexFromCounts : Nat → List Nat → List Nat
  | _, [] => []
  | i, n :: ns => List.replicate n i ++ indexFromCounts (i + 1) ns

structure Compressed (α : Type) where
  count : List Nat
  index : List Nat
  c : List (M α)

/-- `compress('contiguous')` after the proposed repair: every count is kept. -/
def compressContiguous {α} (rows : List (List (M α))) : Compressed α :=
  let count := rows.map deriveCount
  { count := count, index := [], c := pack count rows }

/-- … as coded now: `Count(data=[n for n in count if n])`. -/
def compressContiguousOld {α} (rows : List (List (M α))) : Compressed α :=
  let count := rows.map deriveCount
  { count := count.filter (· ≠ 0), index := [], c := pack count rows }

/-- `compress('indexed')` (unchanged by the repair). -/
def compressIndexed {α} (rows : List (List (M α))) : Compressed α :=
  let count := rows.map deriveCount
  { count := [], index := indexFromCounts 0 count, c := pack count rows }

/-- Number of profiles of an instance after the proposed repair: up to the last
profile that has an element (`n = len(c); while n and not c[n-1]: n -= 1`). -/
def nProfiles (cnts : List Nat) : Nat := (cnts.reverse.dropWhile (· = 0)).length

/-- … as coded now: `sum(n > 0 for n in count[start:end])`. -/
def nProfilesOld (cnts : List Nat) : Nat := (cnts.filter (· ≠ 0)).length

/-- `compress('indexed_contiguous')` of a `(ninst, maxProf, nelem)` array given as
nested lists, after the proposed repair. -/
def compressIndexedContiguous {α} (a : List (List (List (M α)))) : Compressed α :=
  let cnts := a.map (fun inst => inst.map deriveCount)
  let nprof := cnts.map nProfiles
  { count := (cnts.zip nprof).flatMap (fun p => p.1.take p.2)
    index := indexFromCounts 0 nprof
    c := pack cnts.flatten a.flatten }

/-- … as coded now: zero counts dropped everywhere. -/
def compressIndexedContiguousOld {α} (a : List (List (List (M α)))) : Compressed α :=
  let cnts := a.map (fun inst => inst.map deriveCount)
  { count := cnts.flatten.filter (· ≠ 0)
    index := indexFromCounts 0 (cnts.map nProfilesOld)
    c := pack cnts.flatten a.flatten }

/-! ## Specification: the CF conventions -/

/-- A `nrows × ncols` table of a function. -/
def table {β} (nrows ncols : Nat) (f : Nat → Nat → β) : List (List β) :=
  (List.range nrows).map (fun i => (List.range ncols).map (fun j => f i j))

/-- CF 9.3.3 contiguous ragged array: instance `i` owns the `count[i]` samples that
follow those of the instances before it. -/
def specContiguous {α} (count : List Nat) (c : List (M α)) (i j : Nat) : M α :=
  if j < count.getD i 0 then c.getD ((count.take i).sum + j) none else none

/-- The sample that is element `j` of instance `i` in an indexed ragged array:
the sample `p` with `index[p] = i` that has exactly `j` samples of instance `i`
before it (CF 9.3.4: a sample belongs to the instance its index value names, and
the samples of an instance keep their order). -/
def sampleOf (index : List Nat) (i j : Nat) : Option Nat :=
  (List.range index.length).find? (fun p => index[p]? = some i && (index.take p).count i = j)

/-- CF 9.3.4 indexed ragged array. -/
def specIndexed {α} (index : List Nat) (c : List (M α)) (i j : Nat) : M α :=
  match sampleOf index i j with
  | some p => c.getD p none
  | none => none

/-- CF 9.3.5 indexed contiguous: profile `p` belongs to instance `index[p]`
(indexed rule over profiles), and owns `count[p]` samples (contiguous rule). -/
def specIndexedContiguous {α} (count index : List Nat) (c : List (M α)) (i j k : Nat) : M α :=
  match sampleOf index i j with
  | some p => specContiguous count c p k
  | none => none

/-- Row-major flat index of a multi-index (CF 8.2: the list variable holds the
one-dimensional, C-order indices over the compressed dimensions). -/
def ravel : List Nat → List Nat → Nat
  | _ :: ns, i :: is => i * prod ns + ravel ns is
  | _, _ => 0

/-- The value of the last sample `k` with `list[k] = t` (for a CF-valid list, whose
values are distinct, the only one). -/
def lastHit {α} (t : Nat) : List Nat → List (M α) → Option (M α)
  | q :: qs, x :: xs =>
    match lastHit t qs xs with
    | some y => some y
    | none => if q = t then some x else none
  | _, _ => none

/-- CF 8.2 compression by gathering: `u[idx] = c[k]` where `list[k]` is the flat
index of `idx`; every other element is missing. -/
def specGathered {α} (dims : List Nat) (l : List Nat) (c : List (M α)) (idx : List Nat) : M α :=
  (lastHit (ravel dims idx) l c).getD none

/-- `idx` is a valid multi-index of `dims`. -/
def InRange : List Nat → List Nat → Prop
  | [], [] => True
  | n :: ns, i :: is => i < n ∧ InRange ns is
  | _, _ => False

/-! ## The uncompressed array as an `Arr`, for subspacing (`CompressedArray.__getitem__`
ends with `netcdf_indexer(u, …)[indices]`, the C03 machinery). -/

/-- A list of rows as a 2-d array. -/
def rowsToArr {α} (nrows ncols : Nat) (rows : List (List (M α))) : Arr (M α) :=
  { shape := [nrows, ncols]
    get := fun idx => (rows.getD (idx.getD 0 0) []).getD (idx.getD 1 0) none }

/-- A row-major list of `n0 * n1` rows as a 3-d array. -/
def rowsToArr3 {α} (n0 n1 n2 : Nat) (rows : List (List (M α))) : Arr (M α) :=
  { shape := [n0, n1, n2]
    get := fun idx => (rows.getD (idx.getD 0 0 * n1 + idx.getD 1 0) []).getD (idx.getD 2 0) none }

end Cfdm.Ragged
