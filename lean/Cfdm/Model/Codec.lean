import Cfdm.Generated.CoordRefTables
/-
C01 — the single-construct netCDF codec of cfdm on the abstract field.

Anchors (cfdm 1.11.2.0):
  read_write/netcdf/netcdfwrite.py  `_write_field_or_domain`, `_write_dimension_coordinate`,
      `_write_scalar_coordinate`, `_write_auxiliary_coordinate`, `_write_bounds`,
      `_write_cell_measure`, `_write_field_ancillary`, `_netcdf_name`,
      `_create_netcdf_variable_name`, `_write_netcdf_variable`
  read_write/netcdf/netcdfread.py   `read` (which variables become fields),
      `_create_field_or_domain`, `_create_bounded_construct`, `_create_cell_measure`,
      `_create_field_ancillary`, `_check_bounds`, `_check_auxiliary_or_scalar_coordinate`,
      `_check_cell_measures`, `_check_ancillary_variables`, `_reference`

Abstraction (DESIGN.md Appendix B).  Arrays are known by identity (`ArrRef.id` = hash of data
type, values and mask computed by the harness; the shape follows from the axes spanned),
property values are opaque tokens, reference attributes (`coordinates`, `bounds`, `climatology`,
`cell_measures`, `ancillary_variables`, `cell_methods`) are token lists / records, construct keys
are opaque: the modelled reader uses the netCDF name of the variable / dimension a construct was
made from as its key (the real reader numbers them `domainaxis0`, …; keys are compared up to a
bijection everywhere).  Trailing string-length dimensions of `char` variables and the storage
options (format, compression, shuffle, fletcher32, endianness, chunking, data type) are outside
the model.

The model covers fields whose metadata are domain axes, dimension / auxiliary coordinates (with
bounds, climatology), cell measures (external or not), field ancillaries, cell methods, domain
ancillaries and coordinate references, for the structural options `scalar` and `coordinates`.
Domains, compression and geometries are outside it, and so is the sharing of one netCDF variable
by two equal constructs (`_already_in_file`, excluded by `noShared`) other than a domain ancillary
that is equal to a coordinate construct or to an earlier domain ancillary (`danPlan`).

Stage B (coordinate references): domain ancillaries are metadata constructs of type `dan`;
coordinate references (`MRef`) carry coordinate conversion parameters, datum parameters,
coordinates and `term → domain ancillary` pairs.  In the dataset the `formula_terms` and
`grid_mapping` attributes are kept in two tables of the file keyed by variable name
(`NcFile.formulaTerms`, `NcFile.gridMapping`), so that `NcVar` is what it was for stage A; a
grid mapping variable is a variable without dimensions and data whose attributes are the
parameters.  Not modelled: non-name parameters of a formula-terms reference (written as scalar
variables), two equal grid mappings sharing one variable, domains, compression, geometries.

Core Lean only (plus the regenerated tables) so that the driver can be compiled.
-/
namespace Cfdm.Codec

abbrev Key := String
/-- Properties / attributes in insertion order; values are opaque tokens. -/
abbrev Props := List (String × String)

inductive CType where
  | dim | aux | msr | fan
  /-- domain ancillary -/
  | dan
  deriving DecidableEq, Repr

/-- An array known by identity. -/
structure ArrRef where
  id : Nat
  /-- `dtype.kind in 'SU'` -/
  isStr : Bool
  deriving DecidableEq, Repr

structure MBounds where
  props : Props
  ncvar : Option String
  ncdim : Option String
  data : ArrRef
  /-- size of the trailing dimension -/
  nverts : Nat
  deriving DecidableEq, Repr

structure MConstruct where
  ctype : CType
  props : Props
  ncvar : Option String
  data : Option ArrRef
  bounds : Option MBounds := none
  climatology : Bool := false
  measure : Option String := none
  external : Bool := false
  deriving DecidableEq, Repr

structure MAxis where
  size : Nat
  ncdim : Option String
  unlimited : Bool
  deriving DecidableEq, Repr

structure MCellMethod where
  /-- domain axis keys, or free strings such as `area` -/
  axes : List String
  method : Option String
  /-- `within`, `where`, `over`, `interval` (one token per interval), `comment` -/
  quals : Props
  deriving DecidableEq, Repr

/-- A metadata construct inside a field: key, construct, the axes it spans. -/
abbrev Entry := Key × MConstruct × List Key

/-- A coordinate reference construct. -/
structure MRef where
  ncvar : Option String
  /-- keys of coordinate constructs (a set: sorted by the abstraction) -/
  coords : List Key
  /-- coordinate conversion parameters (`grid_mapping_name`, `standard_name`,
  `computed_standard_name` with literal values) -/
  params : Props
  /-- datum parameters -/
  datum : Props
  /-- coordinate conversion domain ancillaries: term, key (or `None`) -/
  terms : List (String × Option Key)
  deriving DecidableEq, Repr

structure MField where
  props : Props
  ncvar : Option String
  data : ArrRef
  dataAxes : List Key
  axes : List (Key × MAxis)
  cons : List Entry
  cms : List MCellMethod
  /-- coordinate references, in construct order -/
  refs : List (Key × MRef) := []
  deriving DecidableEq, Repr

/-! ## The abstract dataset -/

structure NcDim where
  name : String
  size : Nat
  unlimited : Bool
  deriving DecidableEq, Repr

structure NcVar where
  name : String
  dims : List String
  isStr : Bool
  /-- identity of the array written; `none` for a variable without data -/
  data : Option Nat
  /-- the attributes that are not references to other variables -/
  attrs : Props
  bounds : Option String := none
  climatology : Option String := none
  coordinates : List String := []
  cellMeasures : List (String × String) := []
  ancillary : List String := []
  cellMethods : List MCellMethod := []
  deriving DecidableEq, Repr

structure NcFile where
  dims : List NcDim
  vars : List NcVar
  /-- global attributes other than `Conventions` / `external_variables` -/
  globals : Props
  /-- the `external_variables` global attribute -/
  externals : List String
  /-- the parsed `formula_terms` attributes (`term: variable` pairs) by variable name -/
  formulaTerms : List (String × List (String × String)) := []
  /-- the parsed `grid_mapping` attributes by variable name: `(variable, [])` for the short form
  `"variable"`, else `variable: coordinate …` groups -/
  gridMapping : List (String × List (String × List String)) := []
  deriving DecidableEq, Repr

inductive Err where
  /-- `ValueError` (cell measure without measure / external without a name) -/
  | valueError
  /-- the netCDF library refuses a second object of the same name -/
  | nameInUse
  /-- `KeyError` on `axis_to_ncdim` -/
  | keyError
  deriving DecidableEq, Repr

structure Opts where
  /-- `cfdm.write(..., scalar=)` -/
  scalar : Bool := true
  /-- `cfdm.write(..., coordinates=)` -/
  coordinates : Bool := false
  deriving DecidableEq, Repr

/-! ## Small helpers -/

/-- `sorted(...)` on strings (insertion sort; Python compares code points, as `String.lt`). -/
def insertKey (a : Key) : List Key → List Key
  | [] => [a]
  | b :: bs => if a ≤ b then a :: b :: bs else b :: insertKey a bs

def sortKeys : List Key → List Key
  | [] => []
  | a :: as => insertKey a (sortKeys as)

/-- Sort entries by key (`sorted(d.items())`). -/
def insertEntry (e : Entry) : List Entry → List Entry
  | [] => [e]
  | b :: bs => if e.1 ≤ b.1 then e :: b :: bs else b :: insertEntry e bs

def sortEntries : List Entry → List Entry
  | [] => []
  | a :: as => insertEntry a (sortEntries as)

def Entry.key (e : Entry) : Key := e.1
def Entry.con (e : Entry) : MConstruct := e.2.1
def Entry.axes (e : Entry) : List Key := e.2.2

def MField.axisKeys (f : MField) : List Key := f.axes.map (·.1)
def MField.axis? (f : MField) (a : Key) : Option MAxis := f.axes.lookup a
def MField.ofType (f : MField) (t : CType) : List Entry := f.cons.filter (fun e => e.con.ctype == t)

/-- `f.constructs.filter_by_axis(axis, axis_mode='and')`: constructs spanning the axis. -/
def MField.spanning (f : MField) (a : Key) : List Entry := f.cons.filter (fun e => e.axes.contains a)

/-- `f.auxiliary_coordinates(filter_by_axis=[axis], axis_mode='exact')`. -/
def MField.exactAux (f : MField) (a : Key) : List Entry :=
  f.cons.filter (fun e => e.con.ctype == .aux && e.axes == [a])

/-- The dimension coordinate construct of an axis: the first one spanning exactly `(axis,)`. -/
def MField.dimCoordOf (f : MField) (a : Key) : Option Entry :=
  f.cons.find? (fun e => e.con.ctype == .dim && e.axes == [a])

/-! ## Writer, part 1: the loop over the domain axes

`for axis, domain_axis in sorted(domain_axes.items())` decides for every axis whether it becomes
a netCDF dimension with a coordinate variable, a scalar coordinate variable, a dimension without
coordinates, or nothing; and whether the field's data get the axis inserted. -/

inductive Role where
  /-- `_write_dimension_coordinate`: coordinate variable `key` and a dimension of the same name -/
  | coordVar (e : Entry)
  /-- `_write_scalar_coordinate` of the dimension coordinate `key` -/
  | scalarDim (e : Entry)
  /-- a dimension without coordinate variable -/
  | plain
  /-- no netCDF dimension -/
  | none
  deriving DecidableEq, Repr

structure AxSt where
  /-- the local list `data_axes` (appended to only in the branch without dimension coordinate) -/
  dataLocal : List Key
  /-- the data axes of the (copied) field `f`, after `insert_dimension(position=0)` calls -/
  dataField : List Key
  roles : List (Key × Role)
  deriving DecidableEq, Repr

def axisStep (o : Opts) (f : MField) (st : AxSt) (a : Key) : AxSt :=
  match f.dimCoordOf a with
  | some e =>
    if st.dataLocal.contains a then
      { st with roles := st.roles ++ [(a, .coordVar e)] }
    else if !o.scalar || (f.spanning a).length ≥ 2 then
      -- (fixes/C01-inserted-axis-auxiliary-coordinate.patch: `data_axes.append(axis)` here too)
      { st with roles := st.roles ++ [(a, .coordVar e)], dataField := a :: st.dataField,
                dataLocal := st.dataLocal ++ [a] }
    else
      { st with roles := st.roles ++ [(a, .scalarDim e)] }
  | none =>
    let sp := f.spanning a
    let st1 :=
      if !st.dataLocal.contains a && !sp.isEmpty && sp != f.exactAux a then
        { st with dataField := a :: st.dataField, dataLocal := st.dataLocal ++ [a] }
      else st
    if st1.dataLocal.contains a then { st1 with roles := st1.roles ++ [(a, .plain)] }
    else { st1 with roles := st1.roles ++ [(a, .none)] }

def axesPhase (o : Opts) (f : MField) : AxSt :=
  (sortKeys f.axisKeys).foldl (axisStep o f) ⟨f.dataAxes, f.dataAxes, []⟩

/-- The loop as it is without fixes/C01-inserted-axis-auxiliary-coordinate.patch: the local list
`data_axes` is not updated when the axis of a dimension coordinate is inserted into the data. -/
def axisStepOld (o : Opts) (f : MField) (st : AxSt) (a : Key) : AxSt :=
  match f.dimCoordOf a with
  | some e =>
    if st.dataLocal.contains a then
      { st with roles := st.roles ++ [(a, .coordVar e)] }
    else if !o.scalar || (f.spanning a).length ≥ 2 then
      { st with roles := st.roles ++ [(a, .coordVar e)], dataField := a :: st.dataField }
    else
      { st with roles := st.roles ++ [(a, .scalarDim e)] }
  | none =>
    let sp := f.spanning a
    let st1 :=
      if !st.dataLocal.contains a && !sp.isEmpty && sp != f.exactAux a then
        { st with dataField := a :: st.dataField, dataLocal := st.dataLocal ++ [a] }
      else st
    if st1.dataLocal.contains a then { st1 with roles := st1.roles ++ [(a, .plain)] }
    else { st1 with roles := st1.roles ++ [(a, .none)] }

def axesPhaseOld (o : Opts) (f : MField) : AxSt :=
  (sortKeys f.axisKeys).foldl (axisStepOld o f) ⟨f.dataAxes, f.dataAxes, []⟩

def roleOf (roles : List (Key × Role)) (a : Key) : Role := (roles.lookup a).getD .none

/-! ## Writer, part 2: netCDF names

`_netcdf_name(base)`: `base` if free, else `base_1`, `base_2`, … (the counter kept in
`write_vars` is never updated, so the search always starts at 1); blanks become underscores
*after* the test; the name is added to `ncvar_names`.  With `dimsize` and `role` the first
existing dimension of that role and size is returned instead. -/

inductive Slot where
  /-- the netCDF variable of a metadata construct -/
  | con (k : Key)
  /-- the bounds variable of a coordinate construct -/
  | bvar (k : Key)
  /-- the trailing dimension of that bounds variable -/
  | bdim (k : Key)
  /-- the netCDF dimension of a domain axis without coordinate variable -/
  | axis (a : Key)
  /-- the data variable -/
  | field
  /-- the grid mapping variable of a coordinate reference -/
  | gm (k : Key)
  deriving DecidableEq, Repr

structure NSt where
  /-- `ncvar_names ∪ ncdim_to_size` -/
  used : List String
  /-- `dimensions_with_role['bounds']` with their sizes -/
  bdims : List (String × Nat)
  names : List (Slot × String)
  deriving DecidableEq, Repr

def candidates (base : String) (n : Nat) : List String :=
  (List.range n).map (fun k => base ++ "_" ++ toString (k + 1))

def fresh (used : List String) (base : String) : Option String :=
  if !used.contains base then some base
  else (candidates base (used.length + 1)).find? (fun c => !used.contains c)

/-- `str.replace(' ', '_')` -/
def underscore (s : String) : String := String.ofList (s.toList.map (fun c => if c = ' ' then '_' else c))

/-- `_netcdf_name(base)` followed by the creation of the netCDF object: a name that is in use
(possible only through the blank replacement) is refused by the library. -/
def allocName (st : NSt) (slot : Slot) (base : String) : Except Err NSt :=
  match fresh st.used base with
  | none => .error .nameInUse
  | some n =>
    let n' := underscore n
    if st.used.contains n' then .error .nameInUse
    else .ok { st with used := n' :: st.used, names := st.names ++ [(slot, n')] }

/-- A name used without consulting `_netcdf_name` (the axis' `nc_get_dimension` for an unnamed
dimension coordinate; the variable name of an external cell measure is not even recorded). -/
def rawName (st : NSt) (slot : Slot) (name : String) : Except Err NSt :=
  if st.used.contains name then .error .nameInUse
  else .ok { st with used := name :: st.used, names := st.names ++ [(slot, name)] }

def stdName (p : Props) : Option String := p.lookup "standard_name"

/-- `_create_netcdf_variable_name(parent, default)` up to the call of `_netcdf_name`. -/
def baseName (ncvar : Option String) (p : Props) (default : String) : String :=
  match ncvar with
  | some n => n
  | none => (stdName p).getD default

/-- `_write_bounds`: the trailing dimension (reused by role and size), then the variable
(default `<coord>_bounds` if the dimension is new, else `bounds`). -/
def allocBounds (st : NSt) (k : Key) (coordName : String) (b : MBounds) : Except Err NSt :=
  let base := b.ncdim.getD ("bounds" ++ toString b.nverts)
  match st.bdims.find? (fun d => d.2 == b.nverts) with
  | some d =>
    allocName { st with names := st.names ++ [(.bdim k, d.1)] } (.bvar k) (b.ncvar.getD "bounds")
  | none =>
    match allocName st (.bdim k) base with
    | .error e => .error e
    | .ok st1 =>
      let d := (st1.names.lookup (.bdim k)).getD ""
      allocName { st1 with bdims := st1.bdims ++ [(d, b.nverts)] } (.bvar k)
        (b.ncvar.getD (coordName ++ "_bounds"))

def nameOf (names : List (Slot × String)) (s : Slot) : String := (names.lookup s).getD ""

/-- Name a coordinate-like construct and its bounds. -/
def allocCoord (st : NSt) (e : Entry) (default : String) : Except Err NSt :=
  match allocName st (.con e.key) (baseName e.con.ncvar e.con.props default) with
  | .error err => .error err
  | .ok st1 =>
    match e.con.bounds with
    | none => .ok st1
    | some b => allocBounds st1 e.key (nameOf st1.names (.con e.key)) b

/-- `_write_dimension_coordinate`, naming part: variable name, else the axis' netCDF dimension
name (unchecked), else `coordinate`. -/
def allocDimCoord (st : NSt) (e : Entry) (ax : Option MAxis) : Except Err NSt :=
  let named :=
    match e.con.ncvar, stdName e.con.props, ax.bind (·.ncdim) with
    | some n, _, _ => allocName st (.con e.key) n
    | none, some s, _ => allocName st (.con e.key) s
    | none, none, some d => rawName st (.con e.key) d
    | none, none, none => allocName st (.con e.key) "coordinate"
  match named with
  | .error err => .error err
  | .ok st1 =>
    match e.con.bounds with
    | none => .ok st1
    | some b => allocBounds st1 e.key (nameOf st1.names (.con e.key)) b

/-- Names allocated during the loop over the axes. -/
def allocAxis (f : MField) (st : NSt) (ar : Key × Role) : Except Err NSt :=
  match ar.2 with
  | .coordVar e => allocDimCoord st e (f.axis? ar.1)
  | .scalarDim e => allocCoord st e "scalar"
  | .plain => allocName st (.axis ar.1) (((f.axis? ar.1).bind (·.ncdim)).getD "dim")
  | .none => .ok st

def foldlE {α σ} (step : σ → α → Except Err σ) : σ → List α → Except Err σ
  | s, [] => .ok s
  | s, a :: as =>
    match step s a with
    | .error e => .error e
    | .ok s' => foldlE step s' as

/-- Is the auxiliary coordinate written as a scalar coordinate variable?
(`len(axes) > 1 or axes[0] in data_axes` — the *local* list.) -/
def auxIsScalar (dataLocal : List Key) (e : Entry) : Bool :=
  match e.axes with
  | [a] => !dataLocal.contains a
  | _ => false

def allocAux (dataLocal : List Key) (st : NSt) (e : Entry) : Except Err NSt :=
  allocCoord st e (if auxIsScalar dataLocal e then "scalar" else "auxiliary")

def allocMeasure (st : NSt) (e : Entry) : Except Err NSt :=
  if e.con.measure.isNone then .error .valueError
  else if e.con.external then
    match e.con.ncvar with
    | none => .error .valueError
    | some n => .ok { st with names := st.names ++ [(.con e.key, n)] }
  else allocName st (.con e.key) (baseName e.con.ncvar e.con.props "cell_measure")

def allocAnc (st : NSt) (e : Entry) : Except Err NSt :=
  allocName st (.con e.key) (baseName e.con.ncvar e.con.props "ancillary_data")


/-! ## Stage B, writer: coordinate references and domain ancillaries -/

def MRef.sn (r : MRef) : Option String := r.params.lookup "standard_name"
def MRef.csn (r : MRef) : Option String := r.params.lookup "computed_standard_name"
def MRef.gmName (r : MRef) : Option String := r.params.lookup "grid_mapping_name"
/-- `get_coordinate_conversion_parameters(ref).get("standard_name", False)` -/
def MRef.isFT (r : MRef) : Bool := r.sn.isSome
/-- `….get("grid_mapping_name", False)` -/
def MRef.isGM (r : MRef) : Bool := r.gmName.isSome

def Entry.isCoordinate (e : Entry) : Bool := e.con.ctype == .dim || e.con.ctype == .aux
def MField.coord? (f : MField) (k : Key) : Option Entry := f.cons.find? (fun e => e.key == k && e.isCoordinate)
def MField.dan? (f : MField) (k : Key) : Option Entry := f.cons.find? (fun e => e.key == k && e.con.ctype == .dan)

def mapE {α β} (g : α → Except Err β) : List α → Except Err (List β)
  | [] => .ok []
  | a :: as =>
    match g a with
    | .error e => .error e
    | .ok b =>
      match mapE g as with
      | .error e => .error e
      | .ok bs => .ok (b :: bs)

/-- The owning coordinate as the loop before the axes finds it: the reference has a standard name and
a computed standard name, and exactly one of its coordinates is 1-d with that standard name. -/
def csnOwner (f : MField) (r : MRef) : Except Err (Option Key) :=
  match r.sn, r.csn with
  | some sn, some _ =>
    if r.coords.all (fun k => (f.coord? k).isSome) then
      match r.coords.filter (fun k =>
          match f.coord? k with
          | some e => e.axes.length == 1 && stdName e.con.props == some sn
          | none => false) with
      | [k] => .ok (some k)
      | _ => .ok none
    else .error .keyError  -- `field_coordinates[key]`
  | _, _ => .ok none

/-- `set_properties(coord, {"computed_standard_name": csn})` when the coordinate has none;
`ValueError("Standard name could not be computed.")` when it has another one. -/
def setCsn (f : MField) (k : Key) (csn : String) : Except Err MField :=
  match f.coord? k with
  | none => .error .keyError
  | some e =>
    match e.con.props.lookup "computed_standard_name" with
    | none =>
      .ok { f with cons := f.cons.map (fun x =>
              if x.key == k then (x.1, { x.2.1 with props := x.2.1.props ++ [("computed_standard_name", csn)] }, x.2.2) else x) }
    | some x => if x == csn then .ok f else .error .valueError

def csnStep (g : MField) (or : Option Key × MRef) : Except Err MField :=
  match or.1, or.2.csn with
  | some k, some c => setCsn g k c
  | _, _ => .ok g

/-- The writer works on a copy of the field whose parametric coordinates carry
`computed_standard_name`. -/
def applyCsn (f : MField) : Except Err MField :=
  let fts := (f.refs.filter (fun kr => kr.2.isFT)).map (·.2)
  match mapE (csnOwner f) fts with
  | .error e => .error e
  | .ok owners => foldlE csnStep f (owners.zip fts)

/-- The owning coordinate as the `formula_terms` section finds it: exactly one coordinate of the
reference has the reference's standard name. -/
def ftOwner (f : MField) (r : MRef) : Option Entry :=
  match r.sn with
  | none => none
  | some sn =>
    match r.coords.filterMap (fun k => (f.coord? k).filter (fun e => stdName e.con.props == some sn)) with
    | [e] => some e
    | _ => none

/-- Dictionaries are compared as sets of items. -/
def insertP (a : String × String) : Props → Props
  | [] => [a]
  | b :: bs => if a.1 < b.1 || (a.1 == b.1 && a.2 ≤ b.2) then a :: b :: bs else b :: insertP a bs
def sortP : Props → Props
  | [] => []
  | a :: as => insertP a (sortP as)

/-- `construct0.equals(construct1, ignore_type=True)`: properties, data, bounds. -/
def sameContent (x e : Entry) : Bool :=
  sortP x.con.props == sortP e.con.props && x.con.data == e.con.data &&
  (match x.con.bounds, e.con.bounds with
   | none, none => true
   | some b, some b' => sortP b.props == sortP b'.props && b.data == b'.data
   | _, _ => false)

/-- The variables a domain ancillary can turn out to be (`_already_in_file(anc, ncdimensions,
ignore_type=True)`): coordinate variables and N-d auxiliary coordinate variables. -/
def sharable (f : MField) (ax : AxSt) : List Entry :=
  ax.roles.filterMap (fun ar => match ar.2 with | .coordVar e => some e | _ => none)
  ++ (sortEntries (f.ofType .aux)).filter (fun e => !auxIsScalar ax.dataLocal e)

def danStep (f : MField) (ax : AxSt) (acc : List (Entry × Option Entry)) (e : Entry) : List (Entry × Option Entry) :=
  let cands := sharable f ax ++ (acc.filter (fun p => p.2.isNone)).map (·.1)
  acc ++ [(e, cands.find? (fun x => x.axes == e.axes && sameContent x e))]

/-- The domain ancillaries in the order of writing, each with the variable already in the file that
it is equal to, if any. -/
def danPlan (f : MField) (ax : AxSt) : List (Entry × Option Entry) :=
  (sortEntries (f.ofType .dan)).foldl (danStep f ax) []

/-- The default variable name of a domain ancillary: the first term that refers to it. -/
def danDefault (f : MField) (k : Key) : String :=
  match (f.refs.flatMap (fun kr => kr.2.terms)).find? (fun tk => tk.2 == some k) with
  | some tk => tk.1
  | none => "domain_ancillary"

def allocDan (f : MField) (st : NSt) (pe : Entry × Option Entry) : Except Err NSt :=
  match pe.2 with
  | some x =>
    .ok { st with names := st.names ++ [(.con pe.1.key, nameOf st.names (.con x.key))]
            ++ (match x.con.bounds with
                | some _ => [(.bvar pe.1.key, nameOf st.names (.bvar x.key)), (.bdim pe.1.key, nameOf st.names (.bdim x.key))]
                | none => []) }
  | none => allocCoord st pe.1 (danDefault f pe.1.key)

def datumEq (a b : Props) : Bool := sortP a == sortP b

/-- `_create_vertical_datum(ref, owning_coord_key)` -/
def vdatumStep (f : MField) (gms : List (Key × MRef)) (kr : Key × MRef) : List (Key × MRef) :=
  match ftOwner f kr.2 with
  | none => gms
  | some o =>
    if kr.2.datum.isEmpty then gms else
    match gms.filter (fun g => datumEq g.2.datum kr.2.datum) with
    | [g] =>
      gms.map (fun x =>
        if x.1 == g.1 then (x.1, { x.2 with coords := if x.2.coords.contains o.key then x.2.coords else x.2.coords ++ [o.key] })
        else x)
    | _ =>
      gms ++ [(kr.1, { ncvar := none, coords := [o.key], params := [("grid_mapping_name", "latitude_longitude")],
                       datum := kr.2.datum, terms := [] })]

/-- `g["grid_mapping_refs"]` when the grid mapping variables are written. -/
def gmRefs (f : MField) : List (Key × MRef) :=
  (f.refs.filter (fun kr => kr.2.isFT)).foldl (vdatumStep f) (f.refs.filter (fun kr => kr.2.isGM))

/-- `_write_grid_mapping`, naming part. -/
def allocGM (st : NSt) (kr : Key × MRef) : Except Err NSt :=
  match allocName st (.gm kr.1) (kr.2.ncvar.getD (kr.2.gmName.getD "grid_mapping")) with
  | .error e => .error e
  | .ok st1 => if kr.2.datum.any (fun d => (kr.2.params.lookup d.1).isSome) then .error .valueError else .ok st1

/-- All names, in the order in which the writer asks for them. -/
def naming (f : MField) (ax : AxSt) : Except Err (List (Slot × String)) :=
  match foldlE (allocAxis f) ⟨[], [], []⟩ ax.roles with
  | .error e => .error e
  | .ok s1 =>
  match foldlE (allocAux ax.dataLocal) s1 (sortEntries (f.ofType .aux)) with
  | .error e => .error e
  | .ok s2 =>
  match foldlE (allocDan f) s2 (danPlan f ax) with
  | .error e => .error e
  | .ok s2d =>
  match foldlE allocMeasure s2d (sortEntries (f.ofType .msr)) with
  | .error e => .error e
  | .ok s3 =>
  match foldlE allocGM s3 (gmRefs f) with
  | .error e => .error e
  | .ok s3g =>
  match foldlE allocAnc s3g (f.ofType .fan) with
  | .error e => .error e
  | .ok s4 =>
  match allocName s4 .field (baseName f.ncvar f.props "data") with
  | .error e => .error e
  | .ok s5 => .ok s5.names

/-! ## Writer, part 3: dimensions, variables and reference attributes -/

/-- `axis_to_ncdim` -/
def axisDim (names : List (Slot × String)) (roles : List (Key × Role)) (a : Key) : Option String :=
  match roleOf roles a with
  | .coordVar e => some (nameOf names (.con e.key))
  | .plain => some (nameOf names (.axis a))
  | _ => none

/-- `[axis_to_ncdim[axis] for axis in axes]` once every look-up is known to succeed. -/
def dimsOf (names : List (Slot × String)) (roles : List (Key × Role)) (axes : List Key) : List String :=
  axes.map (fun a => (axisDim names roles a).getD "")

/-- The properties a bounds variable does not repeat when its coordinate has them. -/
def omitBoundsProps : List String :=
  ["units", "standard_name", "axis", "positive", "calendar", "month_lengths", "leap_year", "leap_month"]

/-- `climatological_time_axes` of a field: axes of one-axis cell methods with `within`/`over`. -/
def climAxes (f : MField) : List Key :=
  f.cms.filterMap (fun cm =>
    if cm.quals.any (fun q => q.1 == "within" || q.1 == "over") then
      match cm.axes with
      | [a] => if f.axisKeys.contains a then some a else none
      | _ => none
    else none)

def isClim (f : MField) (e : Entry) : Bool := (climAxes f).any (fun a => e.axes == [a])

def boundsVar (names : List (Slot × String)) (e : Entry) (cdims : List String) (b : MBounds) : NcVar :=
  { name := nameOf names (.bvar e.key)
    dims := cdims ++ [nameOf names (.bdim e.key)]
    isStr := b.data.isStr
    data := some b.data.id
    attrs := b.props.filter (fun p => !(omitBoundsProps.contains p.1 && (e.con.props.lookup p.1).isSome)) }

def coordVar (f : MField) (names : List (Slot × String)) (e : Entry) (cdims : List String) : NcVar :=
  let bname := e.con.bounds.map (fun _ => nameOf names (.bvar e.key))
  { name := nameOf names (.con e.key)
    dims := cdims
    isStr := (e.con.data.map (·.isStr)).getD false
    data := e.con.data.map (·.id)
    attrs := e.con.props
    bounds := if isClim f e then none else bname
    climatology := if isClim f e then bname else none }

/-- The variable(s) of a coordinate construct: its bounds, then the construct itself. -/
def coordVars (f : MField) (names : List (Slot × String)) (e : Entry) (cdims : List String) : List NcVar :=
  match e.con.bounds with
  | none => [coordVar f names e cdims]
  | some b => [boundsVar names e cdims b, coordVar f names e cdims]

def plainVar (names : List (Slot × String)) (e : Entry) (cdims : List String) : NcVar :=
  { name := nameOf names (.con e.key)
    dims := cdims
    isStr := (e.con.data.map (·.isStr)).getD false
    data := e.con.data.map (·.id)
    attrs := e.con.props }

/-- Properties written as global attributes ("description of file contents"). -/
def globalNames : List String :=
  ["comment", "Conventions", "featureType", "history", "institution", "references", "source", "title"]

def isGlobal (p : String × String) : Bool := globalNames.contains p.1

/-- The constructs that get a netCDF variable, in the order of writing: the dimension
coordinates met by the loop over the axes, the auxiliary coordinates and the cell measures in
key order, the field ancillaries. -/
def roleEntry (ar : Key × Role) : Option Entry :=
  match ar.2 with
  | .coordVar e => some e
  | .scalarDim e => some e
  | _ => none

def written (f : MField) (ax : AxSt) : List Entry :=
  ax.roles.filterMap roleEntry
  ++ sortEntries (f.ofType .aux)
  ++ (sortEntries (f.ofType .msr)).filter (fun e => !e.con.external)
  ++ f.ofType .fan

/-- The netCDF dimensions of a construct's variable. -/
def cdimsOf (names : List (Slot × String)) (ax : AxSt) (e : Entry) : List String :=
  match e.con.ctype with
  | .dim =>
    match e.axes with
    | [a] => (match roleOf ax.roles a with
              | .coordVar e' => [nameOf names (.con e'.key)]
              | _ => [])
    | _ => []
  | .aux => if auxIsScalar ax.dataLocal e then [] else dimsOf names ax.roles e.axes
  | _ => dimsOf names ax.roles e.axes

def entryVars (f : MField) (names : List (Slot × String)) (ax : AxSt) (e : Entry) : List NcVar :=
  match e.con.ctype with
  | .dim => coordVars f names e (cdimsOf names ax e)
  | .aux => coordVars f names e (cdimsOf names ax e)
  | _ => [plainVar names e (cdimsOf names ax e)]

def axisNcDim (f : MField) (names : List (Slot × String)) (ar : Key × Role) : List NcDim :=
  match f.axis? ar.1 with
  | none => []
  | some ax =>
    match ar.2 with
    | .coordVar e => [⟨nameOf names (.con e.key), ax.size, ax.unlimited⟩]
    | .plain => [⟨nameOf names (.axis ar.1), ax.size, ax.unlimited⟩]
    | _ => []

def dedupDims : List NcDim → List NcDim → List NcDim
  | acc, [] => acc
  | acc, d :: ds => if acc.any (fun x => x.name == d.name) then dedupDims acc ds else dedupDims (acc ++ [d]) ds

/-- The bounds dimensions: one per distinct allocated name. -/
def boundsDims (f : MField) (names : List (Slot × String)) : List NcDim :=
  dedupDims [] (f.cons.filterMap (fun e => e.con.bounds.map (fun b => (⟨nameOf names (.bdim e.key), b.nverts, false⟩ : NcDim))))

/-- `axis_map = axis_to_ncdim.copy(); axis_map.update(axis_to_ncscalar)`; unknown axes kept. -/
def cmAxisName (f : MField) (names : List (Slot × String)) (ax : AxSt) (a : String) : String :=
  -- axis_to_ncscalar: the last scalar coordinate written for the axis wins
  match ((sortEntries (f.ofType .aux)).filter (fun e => auxIsScalar ax.dataLocal e && e.axes == [a])).getLast? with
  | some e => nameOf names (.con e.key)
  | none =>
    match roleOf ax.roles a with
    | .scalarDim e => nameOf names (.con e.key)
    | _ => (axisDim names ax.roles a).getD a

/-- The axes whose netCDF dimension `_netcdf_dimensions` looks up (a missing one is a `KeyError`). -/
def neededAxes (f : MField) (ax : AxSt) : List Key :=
  ((sortEntries (f.ofType .aux)).filter (fun e => !auxIsScalar ax.dataLocal e)).flatMap (·.axes)
  ++ (sortEntries (f.ofType .dan)).flatMap (·.axes)
  ++ ((sortEntries (f.ofType .msr)).filter (fun e => !e.con.external)).flatMap (·.axes)
  ++ (f.ofType .fan).flatMap (·.axes)
  ++ ax.dataField

def coordTokens (o : Opts) (f : MField) (ax : AxSt) (names : List (Slot × String)) : List String :=
  ax.roles.filterMap (fun ar =>
    match ar.2 with
    | .coordVar e => if o.coordinates then some (nameOf names (.con e.key)) else none
    | .scalarDim e => some (nameOf names (.con e.key))
    | _ => none)
  ++ (sortEntries (f.ofType .aux)).map (fun e => nameOf names (.con e.key))

def dataVar (o : Opts) (f : MField) (ax : AxSt) (names : List (Slot × String)) : NcVar :=
  { name := nameOf names .field
    dims := dimsOf names ax.roles ax.dataField
    isStr := f.data.isStr
    data := some f.data.id
    attrs := f.props.filter (fun p => !isGlobal p)
    coordinates := coordTokens o f ax names
    cellMeasures := (sortEntries (f.ofType .msr)).map (fun e => (e.con.measure.getD "", nameOf names (.con e.key)))
    ancillary := (f.ofType .fan).map (fun e => nameOf names (.con e.key))
    cellMethods := f.cms.map (fun cm => { cm with axes := cm.axes.map (cmAxisName f names ax) }) }


/-- The variables of the domain ancillaries that are not already in the file: bounds, then the
construct (whose variable gets no `bounds` attribute). -/
def danEntryVars (names : List (Slot × String)) (ax : AxSt) (pe : Entry × Option Entry) : List NcVar :=
  match pe.2 with
  | some _ => []
  | none =>
    let cdims := dimsOf names ax.roles pe.1.axes
    match pe.1.con.bounds with
    | none => [plainVar names pe.1 cdims]
    | some b => [boundsVar names pe.1 cdims b, plainVar names pe.1 cdims]

/-- `_write_grid_mapping`: a variable without dimensions or data whose attributes are the datum and
the coordinate conversion parameters. -/
def gmVar (names : List (Slot × String)) (kr : Key × MRef) : NcVar :=
  { name := nameOf names (.gm kr.1), dims := [], isStr := false, data := none, attrs := kr.2.datum ++ kr.2.params }

/-- The `formula_terms` attributes of the owning coordinate's variable and of its bounds variable:
`term: variable` for every domain ancillary; in the bounds variable's attribute the bounds variable
of a term that spans the vertical axis. -/
def ftAttrs (f : MField) (names : List (Slot × String)) (kr : Key × MRef) : List (String × List (String × String)) :=
  match ftOwner f kr.2 with
  | none => []
  | some o =>
    let z := o.axes.headD ""
    let terms := kr.2.terms.filterMap (fun tk => tk.2.bind (fun k => (f.dan? k).map (fun d => (tk.1, d))))
    let ft := terms.map (fun td => (td.1, nameOf names (.con td.2.key)))
    -- `g["bounds"].get(ncvar)`: the variable of a construct with bounds has a bounds variable
    let bft := terms.map (fun td =>
      if td.2.con.bounds.isSome && td.2.axes.contains z then (td.1, nameOf names (.bvar td.2.key))
      else (td.1, nameOf names (.con td.2.key)))
    if ft.isEmpty then []
    else (nameOf names (.con o.key), ft)
         :: (if o.con.bounds.isSome then [(nameOf names (.bvar o.key), bft)] else [])

def ftTable (f : MField) (names : List (Slot × String)) : List (String × List (String × String)) :=
  (f.refs.filter (fun kr => kr.2.isFT)).flatMap (ftAttrs f names)

/-- The `grid_mapping` attribute of the data variable. -/
def gmAttr (f : MField) (names : List (Slot × String)) : List (String × List String) :=
  match gmRefs f with
  | [] => []
  | [g] => [(nameOf names (.gm g.1), [])]
  | gs => gs.map (fun g => (nameOf names (.gm g.1), sortKeys (g.2.coords.map (fun k => nameOf names (.con k)))))

def gmTable (f : MField) (names : List (Slot × String)) : List (String × List (String × List String)) :=
  match gmAttr f names with
  | [] => []
  | a => [(nameOf names .field, a)]

/-- `g["key_to_ncvar"][key]` for the coordinates of several grid mappings. -/
def gmKeysOK (f : MField) (names : List (Slot × String)) : Bool :=
  (gmRefs f).length ≤ 1 || (gmRefs f).all (fun g => g.2.coords.all (fun k => (names.lookup (.con k)).isSome))

def emit (o : Opts) (f : MField) (ax : AxSt) (names : List (Slot × String)) : Except Err NcFile :=
  if (neededAxes f ax).all (fun a => (axisDim names ax.roles a).isSome) && gmKeysOK f names then
    .ok { dims := ax.roles.flatMap (axisNcDim f names) ++ boundsDims f names
          vars := (written f ax).flatMap (entryVars f names ax)
                  ++ (danPlan f ax).flatMap (danEntryVars names ax) ++ (gmRefs f).map (gmVar names)
                  ++ [dataVar o f ax names]
          globals := f.props.filter isGlobal
          externals := ((sortEntries (f.ofType .msr)).filter (fun e => e.con.external)).map
                         (fun e => nameOf names (.con e.key))
          formulaTerms := ftTable f names
          gridMapping := gmTable f names }
  else .error .keyError

/-- The writer once `computed_standard_name` has been copied onto the parametric coordinates. -/
def writeField' (o : Opts) (f : MField) : Except Err NcFile :=
  match naming f (axesPhase o f) with
  | .error e => .error e
  | .ok names => emit o f (axesPhase o f) names

/-- `cfdm.write(f, file, scalar=…, coordinates=…)` for one field. -/
def writeField (o : Opts) (f : MField) : Except Err NcFile :=
  match applyCsn f with
  | .error e => .error e
  | .ok f' => writeField' o f'

/-- The writer without fixes/C01-inserted-axis-auxiliary-coordinate.patch. -/
def writeFieldOld (o : Opts) (f : MField) : Except Err NcFile :=
  match applyCsn f with
  | .error e => .error e
  | .ok f' =>
    match naming f' (axesPhaseOld o f') with
    | .error e => .error e
    | .ok names => emit o f' (axesPhaseOld o f') names

/-! ## Reader

Every loop of `_create_field_or_domain` adds, per dimension / token, constructs that depend on the
dataset and on the data variable only, so each is written as a map over the dimensions / tokens. -/

def NcFile.var? (nc : NcFile) (n : String) : Option NcVar := nc.vars.find? (fun v => v.name == n)
def NcFile.dim? (nc : NcFile) (n : String) : Option NcDim := nc.dims.find? (fun d => d.name == n)

/-- `_find_coordinate_variable` without groups: `variable_dimensions.get(ncdim) == (ncdim,)`. -/
def NcFile.coordVar? (nc : NcFile) (d : String) : Option NcVar :=
  match nc.var? d with
  | some v => if v.dims == [d] then some v else none
  | none => none

def subset (a b : List String) : Bool := a.all b.contains

/-- The attribute naming the bounds variable: `bounds`, else `climatology`. -/
def boundsAttr (v : NcVar) : Option String :=
  match v.bounds with
  | some b => some b
  | none => v.climatology

/-- `_check_bounds` and the creation of the bounds: the bounds variable must span the
coordinate's dimensions plus one. -/
def readBoundsVar (nc : NcFile) (v b : NcVar) : Option MBounds :=
  if b.dims.length == v.dims.length + 1 && b.dims.take v.dims.length == v.dims then
    match b.dims.getLast?, b.data with
    | some last, some id =>
      some { props := b.attrs
             ncvar := some b.name
             ncdim := if v.dims.contains last then none else some last
             data := ⟨id, b.isStr⟩
             nverts := ((nc.dim? last).map (·.size)).getD 0 }
    | _, _ => none
  else none

/-- `_create_bounded_construct`, bounds part: the variable named by `bounds` (else
`climatology`) when it exists and passes `_check_bounds`. -/
def readBounds (nc : NcFile) (v : NcVar) : Option MBounds :=
  (boundsAttr v).bind (fun bn => (nc.var? bn).bind (readBoundsVar nc v))

/-- A dimension / auxiliary coordinate construct from a variable. -/
def readCoord (nc : NcFile) (t : CType) (v : NcVar) : MConstruct :=
  { ctype := t
    props := v.attrs
    ncvar := some v.name
    data := v.data.map (fun id => ⟨id, v.isStr⟩)
    bounds := readBounds nc v
    climatology := v.bounds.isNone && v.climatology.isSome && (readBounds nc v).isSome }

/-- What `_reference` is called with when a coordinate made from `v` is attached. -/
def coordRefs (nc : NcFile) (v : NcVar) : List String :=
  v.name :: (match readBounds nc v with | some b => [b.ncvar.getD ""] | none => [])

/-- The domain axis of a netCDF dimension of the data variable. -/
def dimAxis (nc : NcFile) (d : String) : Key × MAxis :=
  (d, ⟨((nc.dim? d).map (·.size)).getD 0, some d, ((nc.dim? d).map (·.unlimited)).getD false⟩)

def dimEntry (nc : NcFile) (d : String) : Option Entry :=
  (nc.coordVar? d).map (fun v => (v.name, readCoord nc .dim v, [d]))

def dimRefs (nc : NcFile) (d : String) : List String :=
  match nc.coordVar? d with
  | some v => coordRefs nc v
  | none => []

/-- The variable a `coordinates` token stands for, when it is used at all. -/
def tokenVar (nc : NcFile) (fdims : List String) (t : String) : Option NcVar :=
  if fdims.contains t then none else
  match nc.var? t with
  | none => none
  | some v => if subset v.dims fdims then some v else none

/-- A scalar coordinate variable gets a size-1 domain axis of its own. -/
def varAxis (v : NcVar) : Option (Key × MAxis) :=
  if v.dims.isEmpty then some (v.name, ⟨1, none, false⟩) else none

def tokenAxis (nc : NcFile) (fdims : List String) (t : String) : Option (Key × MAxis) :=
  (tokenVar nc fdims t).bind varAxis

/-- 0-d numeric ⇒ dimension coordinate, 0-d string ⇒ auxiliary coordinate, else auxiliary. -/
def varEntry (nc : NcFile) (v : NcVar) : Entry :=
  if v.dims.isEmpty then
    if v.isStr then (v.name, readCoord nc .aux v, [v.name])
    else (v.name, readCoord nc .dim v, [v.name])
  else (v.name, readCoord nc .aux v, v.dims)

def tokenEntry (nc : NcFile) (fdims : List String) (t : String) : Option Entry :=
  (tokenVar nc fdims t).map (varEntry nc)

def tokenRefs (nc : NcFile) (fdims : List String) (t : String) : List String :=
  match tokenVar nc fdims t with
  | some v => coordRefs nc v
  | none => []

/-- `_check_cell_measures`: every named variable is external or in the file with dimensions of
the data variable. -/
def measuresOK (nc : NcFile) (fdims : List String) (ms : List (String × String)) : Bool :=
  ms.all (fun m =>
    nc.externals.contains m.2 ||
    (match nc.var? m.2 with
     | some v => subset v.dims fdims
     | none => false))

def measureEntry (nc : NcFile) (m : String × String) : Option Entry :=
  if nc.externals.contains m.2 then
    some (m.2, { ctype := .msr, props := [], ncvar := some m.2, data := none, measure := some m.1, external := true }, [])
  else
    (nc.var? m.2).map (fun v =>
      (m.2, { ctype := .msr, props := v.attrs, ncvar := some m.2, data := v.data.map (fun id => ⟨id, v.isStr⟩),
              measure := some m.1 }, v.dims))

def measureRefs (nc : NcFile) (self : String) (m : String × String) : List String :=
  if m.2 == self then [] else
  if nc.externals.contains m.2 || (nc.var? m.2).isSome then [m.2] else []

/-- `_check_ancillary_variables`: a missing variable or wrong dimensions drop the attribute. -/
def ancillaryOK (nc : NcFile) (fdims : List String) (ts : List String) : Bool :=
  ts.all (fun t => match nc.var? t with | some v => subset v.dims fdims | none => false)

def ancEntry (nc : NcFile) (t : String) : Option Entry :=
  (nc.var? t).map (fun v =>
    (t, { ctype := .fan, props := v.attrs, ncvar := some t, data := v.data.map (fun id => ⟨id, v.isStr⟩) }, v.dims))

def ancRefs (nc : NcFile) (t : String) : List String := if (nc.var? t).isSome then [t] else []

def usedMeasures (nc : NcFile) (v : NcVar) : List (String × String) :=
  if measuresOK nc v.dims v.cellMeasures then v.cellMeasures else []

def usedAncillary (nc : NcFile) (v : NcVar) : List String :=
  if ancillaryOK nc v.dims v.ancillary then v.ancillary else []

/-- `_create_field_or_domain(field_ncvar)`: the field without its coordinate references and domain
ancillaries. -/
def readVarA (nc : NcFile) (v : NcVar) : MField :=
  { props := nc.globals.filter (fun g => (v.attrs.lookup g.1).isNone) ++ v.attrs
    ncvar := some v.name
    data := ⟨v.data.getD 0, v.isStr⟩
    dataAxes := v.dims
    axes := v.dims.map (dimAxis nc) ++ v.coordinates.filterMap (tokenAxis nc v.dims)
    cons := v.dims.filterMap (dimEntry nc) ++ v.coordinates.filterMap (tokenEntry nc v.dims)
            ++ (usedMeasures nc v).filterMap (measureEntry nc) ++ (usedAncillary nc v).filterMap (ancEntry nc)
    cms := v.cellMethods }

/-- The variables that building a field from `v` references (`_reference`), stage A. -/
def varRefsA (nc : NcFile) (v : NcVar) : List String :=
  v.dims.flatMap (dimRefs nc) ++ v.coordinates.flatMap (tokenRefs nc v.dims)
  ++ (usedMeasures nc v).flatMap (measureRefs nc v.name) ++ (usedAncillary nc v).flatMap (ancRefs nc)

/-! ## Stage B, reader: `formula_terms` and `grid_mapping` -/

/-- The construct key the modelled reader gives the domain ancillary made from a variable (a
coordinate made from the same variable has the variable's name as its key). -/
def danKey (n : String) : Key := "@" ++ n
def ftKey (n : String) : Key := "@ft@" ++ n
def gmKey (n : String) : Key := "@gm@" ++ n

def NcFile.dimsOf (nc : NcFile) (n : String) : List String := ((nc.var? n).map (·.dims)).getD []

/-- `z_ncdim in dimensions`; a scalar coordinate variable has no vertical dimension
(fixes/C01-scalar-parametric-coordinate-read.patch; the code as it is raises `IndexError`). -/
def inDims (z : Option String) (d : List String) : Bool :=
  match z with
  | some zd => d.contains zd
  | none => false

/-- `_check_formula_terms`, the coordinate variable's attribute: a term whose variable is missing
is `None`. -/
def coordTerms (nc : NcFile) (ft : List (String × String)) : List (String × Option String) :=
  ft.map (fun tn => (tn.1, if (nc.var? tn.2).isSome then some tn.2 else none))

/-- One `term: variable` of the bounds variable's `formula_terms`. -/
def boundsTermVal (nc : NcFile) (z : Option String) (ct : List (String × Option String)) (tn : String × String) : Option String :=
  if (nc.var? tn.2).isNone then none else
  match ct.lookup tn.1 with
  | none => none
  | some none => none
  | some (some parent) =>
    let d := nc.dimsOf parent
    let dd := nc.dimsOf tn.2
    if !inDims z d then (if tn.2 != parent then none else some tn.2)
    else if dd.length != d.length + 1 then none
    else if d != dd.take d.length then none
    else some tn.2

/-- `g["formula_terms"][coord_ncvar]["bounds"]`. -/
def boundsTerms (nc : NcFile) (cv : NcVar) (z : Option String) (ct : List (String × Option String)) : List (String × Option String) :=
  match cv.bounds with
  | none => []
  | some bn =>
    if (nc.var? bn).isNone then [] else
    match nc.formulaTerms.lookup bn with
    | some bft => bft.map (fun tn => (tn.1, boundsTermVal nc z ct tn))
    | none =>
      -- a bounds variable without `formula_terms` (not what cfdm writes): terms that do not span the
      -- vertical dimension stand for themselves
      ct.map (fun tn => (tn.1, tn.2.bind (fun n => if !inDims z (nc.dimsOf n) then some n else none)))

/-- The domain ancillary construct made from the variable `nv` (called `n`), its bounds being the
variable `b` named by the bounds variable's `formula_terms`, else what `nv`'s own `bounds` attribute
names (`_create_bounded_construct(domain_ancillary=True, bounds_ncvar=…)`). -/
def danCon (nc : NcFile) (n : String) (nv : NcVar) (b : Option String) : MConstruct :=
  { ctype := .dan, props := nv.attrs, ncvar := some n, data := nv.data.map (fun id => ⟨id, nv.isStr⟩),
    bounds := (match b with
               | some bn => (nc.var? bn).bind (readBoundsVar nc nv)
               | none => readBounds nc nv) }

/-- The bounds variable of a term: what the bounds `formula_terms` names, unless it is the term's
own variable. -/
def danBounds (bt : List (String × Option String)) (tn : String × String) : Option String :=
  let b0 := (bt.lookup tn.1).bind id
  if b0 == some tn.2 then none else b0

/-- The domain ancillary of a term (`_create_domain_ancillary`); `none` when the variable "spans
incorrect dimensions". -/
def readDan (nc : NcFile) (fdims : List String) (bt : List (String × Option String)) (tn : String × String) : Option Entry :=
  match nc.var? tn.2 with
  | none => none
  | some nv =>
    if subset nv.dims fdims then some (danKey tn.2, danCon nc tn.2 nv (danBounds bt tn), nv.dims)
    else none

structure FTRead where
  coord : Key
  dans : List Entry
  ref : Key × MRef
  deriving Repr

/-- The coordinate reference and domain ancillaries that a coordinate with a `formula_terms`
attribute gives (`_create_formula_terms_ref`). -/
def readFT (nc : NcFile) (v : NcVar) (c : Entry) : Option FTRead :=
  match c.con.ncvar with
  | none => none
  | some cn =>
    match nc.formulaTerms.lookup cn, nc.var? cn with
    | some ft, some cv =>
      let z := cv.dims.head?
      let ct := coordTerms nc ft
      let bt := boundsTerms nc cv z ct
      let withVar := ct.filterMap (fun tn => tn.2.map (fun n => (tn.1, n)))
      let ds := withVar.map (readDan nc v.dims bt)
      if ds.all Option.isSome then
        some { coord := c.key
               dans := ds.filterMap id
               ref := (ftKey cn,
                       { ncvar := none, coords := [c.key]
                         params := ["standard_name", "computed_standard_name"].filterMap (fun p => (c.con.props.lookup p).map (fun x => (p, x)))
                         datum := []
                         terms := ct.map (fun tn => (tn.1, tn.2.map danKey)) }) }
      else none
    | _, _ => none

structure GMSt where
  /-- `g["vertical_crs"]`: coordinate key, coordinate reference -/
  vcrs : List (Key × Key × MRef)
  out : List (Key × MRef)
  /-- grid mapping variables that have become constructs (`ncvar_to_key`) -/
  seen : List String
  /-- grid mapping variables that only gave a vertical reference its datum: referenced by the data
  variable as well (fixes/C01-vertical-datum-grid-mapping-referenced.patch; the reader as it is does
  not record them, `readFileOld`) -/
  used : List String := []
  deriving Repr

def isDatumParam (p : String × String) : Bool := Cfdm.Generated.datumParameters.contains p.1

/-- `for vcoord, vcr in g["vertical_crs"].items(): if vcoord in coordinates: …` -/
def gmVertical (datum : Props) : List (Key × Key × MRef) → List Key → Bool → List (Key × Key × MRef) × List Key × Bool
  | [], cs, cn => ([], cs, cn)
  | v :: vs, cs, cn =>
    if cs.contains v.1 then
      let cs' := cs.erase v.1
      let r := gmVertical datum vs cs' (!cs'.isEmpty)
      ((v.1, v.2.1, { v.2.2 with datum := datum }) :: r.1, r.2.1, r.2.2)
    else
      let r := gmVertical datum vs cs cn
      (v :: r.1, r.2.1, r.2.2)

/-- One `variable: coordinate …` group of the `grid_mapping` attribute. -/
def gmStep (nc : NcFile) (coords : List Entry) (danVars : List String) (st : GMSt) (g : String × List String) : GMSt :=
  match nc.var? g.1 with
  | none => st
  | some gv =>
    if g.2.any (fun c => (nc.var? c).isNone) then st else
    let toKey (n : String) : Option Key :=
      if (coords.map Entry.key).contains n then some n
      else if danVars.contains n then some (danKey n)
      else if st.seen.contains n then some (gmKey n)
      else none
    let cs0 := g.2.filterMap toKey
    let datum := gv.attrs.filter isDatumParam
    let conv := gv.attrs.filter (fun p => !isDatumParam p)
    let mk (cs : List Key) : Key × MRef := (gmKey g.1, { ncvar := some g.1, coords := cs, params := conv, datum := datum, terms := [] })
    if cs0.isEmpty then
      let table := ((gv.attrs.lookup "grid_mapping_name").bind (fun n => Cfdm.Generated.coordRefCoordinates.lookup n)).getD []
      let inferred := table.flatMap (fun n => (coords.filter (fun e => stdName e.con.props == some n)).map Entry.key)
      { st with vcrs := st.vcrs.map (fun v => (v.1, v.2.1, { v.2.2 with datum := datum }))
                out := st.out ++ [mk inferred], seen := st.seen ++ [g.1] }
    else
      let r := gmVertical datum st.vcrs cs0 true
      if r.2.2 then { st with vcrs := r.1, out := st.out ++ [mk r.2.1], seen := st.seen ++ [g.1] }
      else { st with vcrs := r.1, used := st.used ++ [g.1] }

structure BRead where
  dans : List Entry
  refs : List (Key × MRef)
  /-- the variables referenced (`_reference`) -/
  referenced : List String
  /-- the grid mapping variables that became coordinate references (the others named by the
  attribute only gave a vertical reference its datum) -/
  createdGM : List String := []
  deriving Repr

def danRefs (e : Entry) : List String :=
  e.con.ncvar.toList ++ (match e.con.bounds with | some b => b.ncvar.toList | none => [])

/-- Coordinate references and domain ancillaries of the field made from `v`, given its
coordinate constructs. -/
def readB (nc : NcFile) (v : NcVar) (cons : List Entry) : BRead :=
  let coords := cons.filter Entry.isCoordinate
  let fts := coords.filterMap (readFT nc v)
  let dans := fts.flatMap (·.dans)
  let gm := (nc.gridMapping.lookup v.name).getD []
  let st := gm.foldl (gmStep nc coords (dans.filterMap (·.con.ncvar))) ⟨fts.map (fun x => (x.coord, x.ref)), [], [], []⟩
  { dans := dans
    refs := st.vcrs.map (·.2) ++ st.out
    referenced := dans.flatMap danRefs ++ st.seen ++ st.used
    createdGM := st.seen }

/-- `_create_field_or_domain(field_ncvar)`: the field. -/
def readVar (nc : NcFile) (v : NcVar) : MField :=
  let a := readVarA nc v
  let b := readB nc v a.cons
  { a with cons := a.cons ++ b.dans, refs := b.refs }

/-- The variables that building a field from `v` references (`_reference`). -/
def varRefs (nc : NcFile) (v : NcVar) : List String :=
  varRefsA nc v ++ (readB nc v (readVarA nc v).cons).referenced

/-- The loop that reinstates referenced variables all of whose referencers are referenced
(the list is edited while a copy of it is traversed). -/
def reinstate (referencers : String → List String) : List String → List String → List String → List String
  | [], _, out => out
  | n :: rest, cur, out =>
    if (referencers n).all cur.contains then reinstate referencers rest (cur.erase n) (out ++ [n])
    else reinstate referencers rest cur out

def referencersOf (nc : NcFile) (n : String) : List String :=
  (nc.vars.filter (fun w => (varRefs nc w).contains n)).map (·.name)

/-- `read`: a field from every variable; keep those never referenced, and those all of whose
referencers are themselves referenced; in the order of the variable names. -/
def readFile (nc : NcFile) : List MField :=
  let names := nc.vars.map (·.name)
  let referenced := sortKeys (names.filter (fun n => !(referencersOf nc n).isEmpty))
  let reinstated := reinstate (referencersOf nc) referenced referenced []
  let keep := names.filter (fun n => (referencersOf nc n).isEmpty || reinstated.contains n)
  (sortKeys keep).filterMap (fun n => (nc.var? n).map (readVar nc))

/-! ### The reader without fixes/C01-vertical-datum-grid-mapping-referenced.patch

A grid mapping variable that only gave a vertical coordinate reference its datum is not recorded as
referenced by the data variable: nothing else referring to it, it becomes a field of its own. -/

def varRefsOld (nc : NcFile) (v : NcVar) : List String :=
  let b := readB nc v (readVarA nc v).cons
  varRefsA nc v ++ b.dans.flatMap danRefs ++ b.createdGM

def referencersOfOld (nc : NcFile) (n : String) : List String :=
  (nc.vars.filter (fun w => (varRefsOld nc w).contains n)).map (·.name)

def readFileOld (nc : NcFile) : List MField :=
  let names := nc.vars.map (·.name)
  let referenced := sortKeys (names.filter (fun n => !(referencersOfOld nc n).isEmpty))
  let reinstated := reinstate (referencersOfOld nc) referenced referenced []
  let keep := names.filter (fun n => (referencersOfOld nc n).isEmpty || reinstated.contains n)
  (sortKeys keep).filterMap (fun n => (nc.var? n).map (readVar nc))

/-! ## What is inside the model -/

/-- Same content up to netCDF names (what `equal_components` compares).  The number of vertices
is the size of the trailing netCDF dimension of the bounds; it is part of the identity of the
bounds array and not a component of its own. -/
def MConstruct.strip (c : MConstruct) : MConstruct :=
  { c with ncvar := none, bounds := c.bounds.map (fun b => { b with ncvar := none, ncdim := none, nverts := 0 }) }

/-- No two constructs of the field would share a netCDF variable (`_already_in_file`): equal
content on the same netCDF dimensions — either the same axes, or both written as scalars. -/
def noShared (f : MField) (dataAxes : List Key) : Bool :=
  let isScalar (e : Entry) : Bool := match e.axes with | [a] => !dataAxes.contains a | _ => false
  let rec go : List Entry → Bool
    | [] => true
    | e :: es =>
      es.all (fun e' =>
        !((e.con.strip == e'.con.strip && (e.axes == e'.axes || (isScalar e && isScalar e')))
          || (match e.con.bounds, e'.con.bounds with
              | some b, some b' => b.props == b'.props && b.data == b'.data
                                   && (e.axes == e'.axes || (isScalar e && isScalar e'))
              | _, _ => false)))
      && go es
  go f.cons

end Cfdm.Codec
