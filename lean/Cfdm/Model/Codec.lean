/-
C01 — the single-construct netCDF codec of cfdm on the abstract field.

Anchors (cfdm 1.11.2.0):
  read_write/netcdf/netcdfwrite.py  `_write_field_or_domain`, `_write_dimension_coordinate`,
      `_write_scalar_coordinate`, `_write_auxiliary_coordinate`, `_write_bounds`,
      `_write_cell_measure`, `_write_field_ancillary`, `_netcdf_name`,
      `_create_netcdf_variable_name`, `_write_netcdf_variable`
  read_write/netcdf/netcdfread.py   `read` (which variables become fields),
      `_create_field_or_domain`, `_create_bounded_construct`, `_create_cell_measure`,
      `_create_field_ancillary`, `_check_bounds`, `_check_auxiliary_or_scalar_coordinate`,
      `_check_cell_measures`, `_check_ancillary_variables`, `_reference`

Abstraction (DESIGN.md Appendix B).  Arrays are known by identity (`ArrRef.id` = hash of data
type, values and mask computed by the harness; the shape follows from the axes spanned),
property values are opaque tokens, reference attributes (`coordinates`, `bounds`, `climatology`,
`cell_measures`, `ancillary_variables`, `cell_methods`) are token lists / records, construct keys
are opaque: the modelled reader uses the netCDF name of the variable / dimension a construct was
made from as its key (the real reader numbers them `domainaxis0`, …; keys are compared up to a
bijection everywhere).  Trailing string-length dimensions of `char` variables and the storage
options (format, compression, shuffle, fletcher32, endianness, chunking, data type) are outside
the model.

The model covers fields whose metadata are domain axes, dimension / auxiliary coordinates (with
bounds, climatology), cell measures (external or not), field ancillaries and cell methods, for
the structural options `scalar` and `coordinates`.  Coordinate references, domain ancillaries,
domains, compression and geometries are outside it (`modelled`), and so is the sharing of one
netCDF variable by two equal constructs (`_already_in_file`, excluded by `noShared`).

Import-free (core Lean only) so that the driver can be compiled.
-/
namespace Cfdm.Codec

abbrev Key := String
/-- Properties / attributes in insertion order; values are opaque tokens. -/
abbrev Props := List (String × String)

inductive CType where
  | dim | aux | msr | fan
  deriving DecidableEq, Repr

/-- An array known by identity. -/
structure ArrRef where
  id : Nat
  /-- `dtype.kind in 'SU'` -/
  isStr : Bool
  deriving DecidableEq, Repr

structure MBounds where
  props : Props
  ncvar : Option String
  ncdim : Option String
  data : ArrRef
  /-- size of the trailing dimension -/
  nverts : Nat
  deriving DecidableEq, Repr

structure MConstruct where
  ctype : CType
  props : Props
  ncvar : Option String
  data : Option ArrRef
  bounds : Option MBounds := none
  climatology : Bool := false
  measure : Option String := none
  external : Bool := false
  deriving DecidableEq, Repr

structure MAxis where
  size : Nat
  ncdim : Option String
  unlimited : Bool
  deriving DecidableEq, Repr

structure MCellMethod where
  /-- domain axis keys, or free strings such as `area` -/
  axes : List String
  method : Option String
  /-- `within`, `where`, `over`, `interval` (one token per interval), `comment` -/
  quals : Props
  deriving DecidableEq, Repr

/-- A metadata construct inside a field: key, construct, the axes it spans. -/
abbrev Entry := Key × MConstruct × List Key

structure MField where
  props : Props
  ncvar : Option String
  data : ArrRef
  dataAxes : List Key
  axes : List (Key × MAxis)
  cons : List Entry
  cms : List MCellMethod
  deriving DecidableEq, Repr

/-! ## The abstract dataset -/

structure NcDim where
  name : String
  size : Nat
  unlimited : Bool
  deriving DecidableEq, Repr

structure NcVar where
  name : String
  dims : List String
  isStr : Bool
  /-- identity of the array written; `none` for a variable without data -/
  data : Option Nat
  /-- the attributes that are not references to other variables -/
  attrs : Props
  bounds : Option String := none
  climatology : Option String := none
  coordinates : List String := []
  cellMeasures : List (String × String) := []
  ancillary : List String := []
  cellMethods : List MCellMethod := []
  deriving DecidableEq, Repr

structure NcFile where
  dims : List NcDim
  vars : List NcVar
  /-- global attributes other than `Conventions` / `external_variables` -/
  globals : Props
  /-- the `external_variables` global attribute -/
  externals : List String
  deriving DecidableEq, Repr

inductive Err where
  /-- `ValueError` (cell measure without measure / external without a name) -/
  | valueError
  /-- the netCDF library refuses a second object of the same name -/
  | nameInUse
  /-- `KeyError` on `axis_to_ncdim` -/
  | keyError
  deriving DecidableEq, Repr

structure Opts where
  /-- `cfdm.write(..., scalar=)` -/
  scalar : Bool := true
  /-- `cfdm.write(..., coordinates=)` -/
  coordinates : Bool := false
  deriving DecidableEq, Repr

/-! ## Small helpers -/

/-- `sorted(...)` on strings (insertion sort; Python compares code points, as `String.lt`). -/
def insertKey (a : Key) : List Key → List Key
  | [] => [a]
  | b :: bs => if a ≤ b then a :: b :: bs else b :: insertKey a bs

def sortKeys : List Key → List Key
  | [] => []
  | a :: as => insertKey a (sortKeys as)

/-- Sort entries by key (`sorted(d.items())`). -/
def insertEntry (e : Entry) : List Entry → List Entry
  | [] => [e]
  | b :: bs => if e.1 ≤ b.1 then e :: b :: bs else b :: insertEntry e bs

def sortEntries : List Entry → List Entry
  | [] => []
  | a :: as => insertEntry a (sortEntries as)

def Entry.key (e : Entry) : Key := e.1
def Entry.con (e : Entry) : MConstruct := e.2.1
def Entry.axes (e : Entry) : List Key := e.2.2

def MField.axisKeys (f : MField) : List Key := f.axes.map (·.1)
def MField.axis? (f : MField) (a : Key) : Option MAxis := f.axes.lookup a
def MField.ofType (f : MField) (t : CType) : List Entry := f.cons.filter (fun e => e.con.ctype == t)

/-- `f.constructs.filter_by_axis(axis, axis_mode='and')`: constructs spanning the axis. -/
def MField.spanning (f : MField) (a : Key) : List Entry := f.cons.filter (fun e => e.axes.contains a)

/-- `f.auxiliary_coordinates(filter_by_axis=[axis], axis_mode='exact')`. -/
def MField.exactAux (f : MField) (a : Key) : List Entry :=
  f.cons.filter (fun e => e.con.ctype == .aux && e.axes == [a])

/-- The dimension coordinate construct of an axis: the first one spanning exactly `(axis,)`. -/
def MField.dimCoordOf (f : MField) (a : Key) : Option Entry :=
  f.cons.find? (fun e => e.con.ctype == .dim && e.axes == [a])

/-! ## Writer, part 1: the loop over the domain axes

`for axis, domain_axis in sorted(domain_axes.items())` decides for every axis whether it becomes
a netCDF dimension with a coordinate variable, a scalar coordinate variable, a dimension without
coordinates, or nothing; and whether the field's data get the axis inserted. -/

inductive Role where
  /-- `_write_dimension_coordinate`: coordinate variable `key` and a dimension of the same name -/
  | coordVar (e : Entry)
  /-- `_write_scalar_coordinate` of the dimension coordinate `key` -/
  | scalarDim (e : Entry)
  /-- a dimension without coordinate variable -/
  | plain
  /-- no netCDF dimension -/
  | none
  deriving DecidableEq, Repr

structure AxSt where
  /-- the local list `data_axes` (appended to only in the branch without dimension coordinate) -/
  dataLocal : List Key
  /-- the data axes of the (copied) field `f`, after `insert_dimension(position=0)` calls -/
  dataField : List Key
  roles : List (Key × Role)
  deriving DecidableEq, Repr

def axisStep (o : Opts) (f : MField) (st : AxSt) (a : Key) : AxSt :=
  match f.dimCoordOf a with
  | some e =>
    if st.dataLocal.contains a then
      { st with roles := st.roles ++ [(a, .coordVar e)] }
    else if !o.scalar || (f.spanning a).length ≥ 2 then
      -- (fixes/C01-inserted-axis-auxiliary-coordinate.patch: `data_axes.append(axis)` here too)
      { st with roles := st.roles ++ [(a, .coordVar e)], dataField := a :: st.dataField,
                dataLocal := st.dataLocal ++ [a] }
    else
      { st with roles := st.roles ++ [(a, .scalarDim e)] }
  | none =>
    let sp := f.spanning a
    let st1 :=
      if !st.dataLocal.contains a && !sp.isEmpty && sp != f.exactAux a then
        { st with dataField := a :: st.dataField, dataLocal := st.dataLocal ++ [a] }
      else st
    if st1.dataLocal.contains a then { st1 with roles := st1.roles ++ [(a, .plain)] }
    else { st1 with roles := st1.roles ++ [(a, .none)] }

def axesPhase (o : Opts) (f : MField) : AxSt :=
  (sortKeys f.axisKeys).foldl (axisStep o f) ⟨f.dataAxes, f.dataAxes, []⟩

/-- The loop as it is without fixes/C01-inserted-axis-auxiliary-coordinate.patch: the local list
`data_axes` is not updated when the axis of a dimension coordinate is inserted into the data. -/
def axisStepOld (o : Opts) (f : MField) (st : AxSt) (a : Key) : AxSt :=
  match f.dimCoordOf a with
  | some e =>
    if st.dataLocal.contains a then
      { st with roles := st.roles ++ [(a, .coordVar e)] }
    else if !o.scalar || (f.spanning a).length ≥ 2 then
      { st with roles := st.roles ++ [(a, .coordVar e)], dataField := a :: st.dataField }
    else
      { st with roles := st.roles ++ [(a, .scalarDim e)] }
  | none =>
    let sp := f.spanning a
    let st1 :=
      if !st.dataLocal.contains a && !sp.isEmpty && sp != f.exactAux a then
        { st with dataField := a :: st.dataField, dataLocal := st.dataLocal ++ [a] }
      else st
    if st1.dataLocal.contains a then { st1 with roles := st1.roles ++ [(a, .plain)] }
    else { st1 with roles := st1.roles ++ [(a, .none)] }

def axesPhaseOld (o : Opts) (f : MField) : AxSt :=
  (sortKeys f.axisKeys).foldl (axisStepOld o f) ⟨f.dataAxes, f.dataAxes, []⟩

def roleOf (roles : List (Key × Role)) (a : Key) : Role := (roles.lookup a).getD .none

/-! ## Writer, part 2: netCDF names

`_netcdf_name(base)`: `base` if free, else `base_1`, `base_2`, … (the counter kept in
`write_vars` is never updated, so the search always starts at 1); blanks become underscores
*after* the test; the name is added to `ncvar_names`.  With `dimsize` and `role` the first
existing dimension of that role and size is returned instead. -/

inductive Slot where
  /-- the netCDF variable of a metadata construct -/
  | con (k : Key)
  /-- the bounds variable of a coordinate construct -/
  | bvar (k : Key)
  /-- the trailing dimension of that bounds variable -/
  | bdim (k : Key)
  /-- the netCDF dimension of a domain axis without coordinate variable -/
  | axis (a : Key)
  /-- the data variable -/
  | field
  deriving DecidableEq, Repr

structure NSt where
  /-- `ncvar_names ∪ ncdim_to_size` -/
  used : List String
  /-- `dimensions_with_role['bounds']` with their sizes -/
  bdims : List (String × Nat)
  names : List (Slot × String)
  deriving DecidableEq, Repr

def candidates (base : String) (n : Nat) : List String :=
  (List.range n).map (fun k => base ++ "_" ++ toString (k + 1))

def fresh (used : List String) (base : String) : Option String :=
  if !used.contains base then some base
  else (candidates base (used.length + 1)).find? (fun c => !used.contains c)

/-- `str.replace(' ', '_')` -/
def underscore (s : String) : String := String.ofList (s.toList.map (fun c => if c = ' ' then '_' else c))

/-- `_netcdf_name(base)` followed by the creation of the netCDF object: a name that is in use
(possible only through the blank replacement) is refused by the library. -/
def allocName (st : NSt) (slot : Slot) (base : String) : Except Err NSt :=
  match fresh st.used base with
  | none => .error .nameInUse
  | some n =>
    let n' := underscore n
    if st.used.contains n' then .error .nameInUse
    else .ok { st with used := n' :: st.used, names := st.names ++ [(slot, n')] }

/-- A name used without consulting `_netcdf_name` (the axis' `nc_get_dimension` for an unnamed
dimension coordinate; the variable name of an external cell measure is not even recorded). -/
def rawName (st : NSt) (slot : Slot) (name : String) : Except Err NSt :=
  if st.used.contains name then .error .nameInUse
  else .ok { st with used := name :: st.used, names := st.names ++ [(slot, name)] }

def stdName (p : Props) : Option String := p.lookup "standard_name"

/-- `_create_netcdf_variable_name(parent, default)` up to the call of `_netcdf_name`. -/
def baseName (ncvar : Option String) (p : Props) (default : String) : String :=
  match ncvar with
  | some n => n
  | none => (stdName p).getD default

/-- `_write_bounds`: the trailing dimension (reused by role and size), then the variable
(default `<coord>_bounds` if the dimension is new, else `bounds`). -/
def allocBounds (st : NSt) (k : Key) (coordName : String) (b : MBounds) : Except Err NSt :=
  let base := b.ncdim.getD ("bounds" ++ toString b.nverts)
  match st.bdims.find? (fun d => d.2 == b.nverts) with
  | some d =>
    allocName { st with names := st.names ++ [(.bdim k, d.1)] } (.bvar k) (b.ncvar.getD "bounds")
  | none =>
    match allocName st (.bdim k) base with
    | .error e => .error e
    | .ok st1 =>
      let d := (st1.names.lookup (.bdim k)).getD ""
      allocName { st1 with bdims := st1.bdims ++ [(d, b.nverts)] } (.bvar k)
        (b.ncvar.getD (coordName ++ "_bounds"))

def nameOf (names : List (Slot × String)) (s : Slot) : String := (names.lookup s).getD ""

/-- Name a coordinate-like construct and its bounds. -/
def allocCoord (st : NSt) (e : Entry) (default : String) : Except Err NSt :=
  match allocName st (.con e.key) (baseName e.con.ncvar e.con.props default) with
  | .error err => .error err
  | .ok st1 =>
    match e.con.bounds with
    | none => .ok st1
    | some b => allocBounds st1 e.key (nameOf st1.names (.con e.key)) b

/-- `_write_dimension_coordinate`, naming part: variable name, else the axis' netCDF dimension
name (unchecked), else `coordinate`. -/
def allocDimCoord (st : NSt) (e : Entry) (ax : Option MAxis) : Except Err NSt :=
  let named :=
    match e.con.ncvar, stdName e.con.props, ax.bind (·.ncdim) with
    | some n, _, _ => allocName st (.con e.key) n
    | none, some s, _ => allocName st (.con e.key) s
    | none, none, some d => rawName st (.con e.key) d
    | none, none, none => allocName st (.con e.key) "coordinate"
  match named with
  | .error err => .error err
  | .ok st1 =>
    match e.con.bounds with
    | none => .ok st1
    | some b => allocBounds st1 e.key (nameOf st1.names (.con e.key)) b

/-- Names allocated during the loop over the axes. -/
def allocAxis (f : MField) (st : NSt) (ar : Key × Role) : Except Err NSt :=
  match ar.2 with
  | .coordVar e => allocDimCoord st e (f.axis? ar.1)
  | .scalarDim e => allocCoord st e "scalar"
  | .plain => allocName st (.axis ar.1) (((f.axis? ar.1).bind (·.ncdim)).getD "dim")
  | .none => .ok st

def foldlE {α σ} (step : σ → α → Except Err σ) : σ → List α → Except Err σ
  | s, [] => .ok s
  | s, a :: as =>
    match step s a with
    | .error e => .error e
    | .ok s' => foldlE step s' as

/-- Is the auxiliary coordinate written as a scalar coordinate variable?
(`len(axes) > 1 or axes[0] in data_axes` — the *local* list.) -/
def auxIsScalar (dataLocal : List Key) (e : Entry) : Bool :=
  match e.axes with
  | [a] => !dataLocal.contains a
  | _ => false

def allocAux (dataLocal : List Key) (st : NSt) (e : Entry) : Except Err NSt :=
  allocCoord st e (if auxIsScalar dataLocal e then "scalar" else "auxiliary")

def allocMeasure (st : NSt) (e : Entry) : Except Err NSt :=
  if e.con.measure.isNone then .error .valueError
  else if e.con.external then
    match e.con.ncvar with
    | none => .error .valueError
    | some n => .ok { st with names := st.names ++ [(.con e.key, n)] }
  else allocName st (.con e.key) (baseName e.con.ncvar e.con.props "cell_measure")

def allocAnc (st : NSt) (e : Entry) : Except Err NSt :=
  allocName st (.con e.key) (baseName e.con.ncvar e.con.props "ancillary_data")

/-- All names, in the order in which the writer asks for them. -/
def naming (f : MField) (ax : AxSt) : Except Err (List (Slot × String)) :=
  match foldlE (allocAxis f) ⟨[], [], []⟩ ax.roles with
  | .error e => .error e
  | .ok s1 =>
  match foldlE (allocAux ax.dataLocal) s1 (sortEntries (f.ofType .aux)) with
  | .error e => .error e
  | .ok s2 =>
  match foldlE allocMeasure s2 (sortEntries (f.ofType .msr)) with
  | .error e => .error e
  | .ok s3 =>
  match foldlE allocAnc s3 (f.ofType .fan) with
  | .error e => .error e
  | .ok s4 =>
  match allocName s4 .field (baseName f.ncvar f.props "data") with
  | .error e => .error e
  | .ok s5 => .ok s5.names

/-! ## Writer, part 3: dimensions, variables and reference attributes -/

/-- `axis_to_ncdim` -/
def axisDim (names : List (Slot × String)) (roles : List (Key × Role)) (a : Key) : Option String :=
  match roleOf roles a with
  | .coordVar e => some (nameOf names (.con e.key))
  | .plain => some (nameOf names (.axis a))
  | _ => none

/-- `[axis_to_ncdim[axis] for axis in axes]` once every look-up is known to succeed. -/
def dimsOf (names : List (Slot × String)) (roles : List (Key × Role)) (axes : List Key) : List String :=
  axes.map (fun a => (axisDim names roles a).getD "")

/-- The properties a bounds variable does not repeat when its coordinate has them. -/
def omitBoundsProps : List String :=
  ["units", "standard_name", "axis", "positive", "calendar", "month_lengths", "leap_year", "leap_month"]

/-- `climatological_time_axes` of a field: axes of one-axis cell methods with `within`/`over`. -/
def climAxes (f : MField) : List Key :=
  f.cms.filterMap (fun cm =>
    if cm.quals.any (fun q => q.1 == "within" || q.1 == "over") then
      match cm.axes with
      | [a] => if f.axisKeys.contains a then some a else none
      | _ => none
    else none)

def isClim (f : MField) (e : Entry) : Bool := (climAxes f).any (fun a => e.axes == [a])

def boundsVar (names : List (Slot × String)) (e : Entry) (cdims : List String) (b : MBounds) : NcVar :=
  { name := nameOf names (.bvar e.key)
    dims := cdims ++ [nameOf names (.bdim e.key)]
    isStr := b.data.isStr
    data := some b.data.id
    attrs := b.props.filter (fun p => !(omitBoundsProps.contains p.1 && (e.con.props.lookup p.1).isSome)) }

def coordVar (f : MField) (names : List (Slot × String)) (e : Entry) (cdims : List String) : NcVar :=
  let bname := e.con.bounds.map (fun _ => nameOf names (.bvar e.key))
  { name := nameOf names (.con e.key)
    dims := cdims
    isStr := (e.con.data.map (·.isStr)).getD false
    data := e.con.data.map (·.id)
    attrs := e.con.props
    bounds := if isClim f e then none else bname
    climatology := if isClim f e then bname else none }

/-- The variable(s) of a coordinate construct: its bounds, then the construct itself. -/
def coordVars (f : MField) (names : List (Slot × String)) (e : Entry) (cdims : List String) : List NcVar :=
  match e.con.bounds with
  | none => [coordVar f names e cdims]
  | some b => [boundsVar names e cdims b, coordVar f names e cdims]

def plainVar (names : List (Slot × String)) (e : Entry) (cdims : List String) : NcVar :=
  { name := nameOf names (.con e.key)
    dims := cdims
    isStr := (e.con.data.map (·.isStr)).getD false
    data := e.con.data.map (·.id)
    attrs := e.con.props }

/-- Properties written as global attributes ("description of file contents"). -/
def globalNames : List String :=
  ["comment", "Conventions", "featureType", "history", "institution", "references", "source", "title"]

def isGlobal (p : String × String) : Bool := globalNames.contains p.1

/-- The constructs that get a netCDF variable, in the order of writing: the dimension
coordinates met by the loop over the axes, the auxiliary coordinates and the cell measures in
key order, the field ancillaries. -/
def roleEntry (ar : Key × Role) : Option Entry :=
  match ar.2 with
  | .coordVar e => some e
  | .scalarDim e => some e
  | _ => none

def written (f : MField) (ax : AxSt) : List Entry :=
  ax.roles.filterMap roleEntry
  ++ sortEntries (f.ofType .aux)
  ++ (sortEntries (f.ofType .msr)).filter (fun e => !e.con.external)
  ++ f.ofType .fan

/-- The netCDF dimensions of a construct's variable. -/
def cdimsOf (names : List (Slot × String)) (ax : AxSt) (e : Entry) : List String :=
  match e.con.ctype with
  | .dim =>
    match e.axes with
    | [a] => (match roleOf ax.roles a with
              | .coordVar e' => [nameOf names (.con e'.key)]
              | _ => [])
    | _ => []
  | .aux => if auxIsScalar ax.dataLocal e then [] else dimsOf names ax.roles e.axes
  | _ => dimsOf names ax.roles e.axes

def entryVars (f : MField) (names : List (Slot × String)) (ax : AxSt) (e : Entry) : List NcVar :=
  match e.con.ctype with
  | .dim => coordVars f names e (cdimsOf names ax e)
  | .aux => coordVars f names e (cdimsOf names ax e)
  | _ => [plainVar names e (cdimsOf names ax e)]

def axisNcDim (f : MField) (names : List (Slot × String)) (ar : Key × Role) : List NcDim :=
  match f.axis? ar.1 with
  | none => []
  | some ax =>
    match ar.2 with
    | .coordVar e => [⟨nameOf names (.con e.key), ax.size, ax.unlimited⟩]
    | .plain => [⟨nameOf names (.axis ar.1), ax.size, ax.unlimited⟩]
    | _ => []

def dedupDims : List NcDim → List NcDim → List NcDim
  | acc, [] => acc
  | acc, d :: ds => if acc.any (fun x => x.name == d.name) then dedupDims acc ds else dedupDims (acc ++ [d]) ds

/-- The bounds dimensions: one per distinct allocated name. -/
def boundsDims (f : MField) (names : List (Slot × String)) : List NcDim :=
  dedupDims [] (f.cons.filterMap (fun e => e.con.bounds.map (fun b => (⟨nameOf names (.bdim e.key), b.nverts, false⟩ : NcDim))))

/-- `axis_map = axis_to_ncdim.copy(); axis_map.update(axis_to_ncscalar)`; unknown axes kept. -/
def cmAxisName (f : MField) (names : List (Slot × String)) (ax : AxSt) (a : String) : String :=
  -- axis_to_ncscalar: the last scalar coordinate written for the axis wins
  match ((sortEntries (f.ofType .aux)).filter (fun e => auxIsScalar ax.dataLocal e && e.axes == [a])).getLast? with
  | some e => nameOf names (.con e.key)
  | none =>
    match roleOf ax.roles a with
    | .scalarDim e => nameOf names (.con e.key)
    | _ => (axisDim names ax.roles a).getD a

/-- The axes whose netCDF dimension `_netcdf_dimensions` looks up (a missing one is a `KeyError`). -/
def neededAxes (f : MField) (ax : AxSt) : List Key :=
  ((sortEntries (f.ofType .aux)).filter (fun e => !auxIsScalar ax.dataLocal e)).flatMap (·.axes)
  ++ ((sortEntries (f.ofType .msr)).filter (fun e => !e.con.external)).flatMap (·.axes)
  ++ (f.ofType .fan).flatMap (·.axes)
  ++ ax.dataField

def coordTokens (o : Opts) (f : MField) (ax : AxSt) (names : List (Slot × String)) : List String :=
  ax.roles.filterMap (fun ar =>
    match ar.2 with
    | .coordVar e => if o.coordinates then some (nameOf names (.con e.key)) else none
    | .scalarDim e => some (nameOf names (.con e.key))
    | _ => none)
  ++ (sortEntries (f.ofType .aux)).map (fun e => nameOf names (.con e.key))

def dataVar (o : Opts) (f : MField) (ax : AxSt) (names : List (Slot × String)) : NcVar :=
  { name := nameOf names .field
    dims := dimsOf names ax.roles ax.dataField
    isStr := f.data.isStr
    data := some f.data.id
    attrs := f.props.filter (fun p => !isGlobal p)
    coordinates := coordTokens o f ax names
    cellMeasures := (sortEntries (f.ofType .msr)).map (fun e => (e.con.measure.getD "", nameOf names (.con e.key)))
    ancillary := (f.ofType .fan).map (fun e => nameOf names (.con e.key))
    cellMethods := f.cms.map (fun cm => { cm with axes := cm.axes.map (cmAxisName f names ax) }) }

def emit (o : Opts) (f : MField) (ax : AxSt) (names : List (Slot × String)) : Except Err NcFile :=
  if (neededAxes f ax).all (fun a => (axisDim names ax.roles a).isSome) then
    .ok { dims := ax.roles.flatMap (axisNcDim f names) ++ boundsDims f names
          vars := (written f ax).flatMap (entryVars f names ax) ++ [dataVar o f ax names]
          globals := f.props.filter isGlobal
          externals := ((sortEntries (f.ofType .msr)).filter (fun e => e.con.external)).map
                         (fun e => nameOf names (.con e.key)) }
  else .error .keyError

/-- `cfdm.write(f, file, scalar=…, coordinates=…)` for one field. -/
def writeField (o : Opts) (f : MField) : Except Err NcFile :=
  match naming f (axesPhase o f) with
  | .error e => .error e
  | .ok names => emit o f (axesPhase o f) names

/-- The writer without fixes/C01-inserted-axis-auxiliary-coordinate.patch. -/
def writeFieldOld (o : Opts) (f : MField) : Except Err NcFile :=
  match naming f (axesPhaseOld o f) with
  | .error e => .error e
  | .ok names => emit o f (axesPhaseOld o f) names

/-! ## Reader

Every loop of `_create_field_or_domain` adds, per dimension / token, constructs that depend on the
dataset and on the data variable only, so each is written as a map over the dimensions / tokens. -/

def NcFile.var? (nc : NcFile) (n : String) : Option NcVar := nc.vars.find? (fun v => v.name == n)
def NcFile.dim? (nc : NcFile) (n : String) : Option NcDim := nc.dims.find? (fun d => d.name == n)

/-- `_find_coordinate_variable` without groups: `variable_dimensions.get(ncdim) == (ncdim,)`. -/
def NcFile.coordVar? (nc : NcFile) (d : String) : Option NcVar :=
  match nc.var? d with
  | some v => if v.dims == [d] then some v else none
  | none => none

def subset (a b : List String) : Bool := a.all b.contains

/-- The attribute naming the bounds variable: `bounds`, else `climatology`. -/
def boundsAttr (v : NcVar) : Option String :=
  match v.bounds with
  | some b => some b
  | none => v.climatology

/-- `_check_bounds` and the creation of the bounds: the bounds variable must span the
coordinate's dimensions plus one. -/
def readBoundsVar (nc : NcFile) (v b : NcVar) : Option MBounds :=
  if b.dims.length == v.dims.length + 1 && b.dims.take v.dims.length == v.dims then
    match b.dims.getLast?, b.data with
    | some last, some id =>
      some { props := b.attrs
             ncvar := some b.name
             ncdim := if v.dims.contains last then none else some last
             data := ⟨id, b.isStr⟩
             nverts := ((nc.dim? last).map (·.size)).getD 0 }
    | _, _ => none
  else none

/-- `_create_bounded_construct`, bounds part: the variable named by `bounds` (else
`climatology`) when it exists and passes `_check_bounds`. -/
def readBounds (nc : NcFile) (v : NcVar) : Option MBounds :=
  (boundsAttr v).bind (fun bn => (nc.var? bn).bind (readBoundsVar nc v))

/-- A dimension / auxiliary coordinate construct from a variable. -/
def readCoord (nc : NcFile) (t : CType) (v : NcVar) : MConstruct :=
  { ctype := t
    props := v.attrs
    ncvar := some v.name
    data := v.data.map (fun id => ⟨id, v.isStr⟩)
    bounds := readBounds nc v
    climatology := v.bounds.isNone && v.climatology.isSome && (readBounds nc v).isSome }

/-- What `_reference` is called with when a coordinate made from `v` is attached. -/
def coordRefs (nc : NcFile) (v : NcVar) : List String :=
  v.name :: (match readBounds nc v with | some b => [b.ncvar.getD ""] | none => [])

/-- The domain axis of a netCDF dimension of the data variable. -/
def dimAxis (nc : NcFile) (d : String) : Key × MAxis :=
  (d, ⟨((nc.dim? d).map (·.size)).getD 0, some d, ((nc.dim? d).map (·.unlimited)).getD false⟩)

def dimEntry (nc : NcFile) (d : String) : Option Entry :=
  (nc.coordVar? d).map (fun v => (v.name, readCoord nc .dim v, [d]))

def dimRefs (nc : NcFile) (d : String) : List String :=
  match nc.coordVar? d with
  | some v => coordRefs nc v
  | none => []

/-- The variable a `coordinates` token stands for, when it is used at all. -/
def tokenVar (nc : NcFile) (fdims : List String) (t : String) : Option NcVar :=
  if fdims.contains t then none else
  match nc.var? t with
  | none => none
  | some v => if subset v.dims fdims then some v else none

/-- A scalar coordinate variable gets a size-1 domain axis of its own. -/
def varAxis (v : NcVar) : Option (Key × MAxis) :=
  if v.dims.isEmpty then some (v.name, ⟨1, none, false⟩) else none

def tokenAxis (nc : NcFile) (fdims : List String) (t : String) : Option (Key × MAxis) :=
  (tokenVar nc fdims t).bind varAxis

/-- 0-d numeric ⇒ dimension coordinate, 0-d string ⇒ auxiliary coordinate, else auxiliary. -/
def varEntry (nc : NcFile) (v : NcVar) : Entry :=
  if v.dims.isEmpty then
    if v.isStr then (v.name, readCoord nc .aux v, [v.name])
    else (v.name, readCoord nc .dim v, [v.name])
  else (v.name, readCoord nc .aux v, v.dims)

def tokenEntry (nc : NcFile) (fdims : List String) (t : String) : Option Entry :=
  (tokenVar nc fdims t).map (varEntry nc)

def tokenRefs (nc : NcFile) (fdims : List String) (t : String) : List String :=
  match tokenVar nc fdims t with
  | some v => coordRefs nc v
  | none => []

/-- `_check_cell_measures`: every named variable is external or in the file with dimensions of
the data variable. -/
def measuresOK (nc : NcFile) (fdims : List String) (ms : List (String × String)) : Bool :=
  ms.all (fun m =>
    nc.externals.contains m.2 ||
    (match nc.var? m.2 with
     | some v => subset v.dims fdims
     | none => false))

def measureEntry (nc : NcFile) (m : String × String) : Option Entry :=
  if nc.externals.contains m.2 then
    some (m.2, { ctype := .msr, props := [], ncvar := some m.2, data := none, measure := some m.1, external := true }, [])
  else
    (nc.var? m.2).map (fun v =>
      (m.2, { ctype := .msr, props := v.attrs, ncvar := some m.2, data := v.data.map (fun id => ⟨id, v.isStr⟩),
              measure := some m.1 }, v.dims))

def measureRefs (nc : NcFile) (self : String) (m : String × String) : List String :=
  if m.2 == self then [] else
  if nc.externals.contains m.2 || (nc.var? m.2).isSome then [m.2] else []

/-- `_check_ancillary_variables`: a missing variable or wrong dimensions drop the attribute. -/
def ancillaryOK (nc : NcFile) (fdims : List String) (ts : List String) : Bool :=
  ts.all (fun t => match nc.var? t with | some v => subset v.dims fdims | none => false)

def ancEntry (nc : NcFile) (t : String) : Option Entry :=
  (nc.var? t).map (fun v =>
    (t, { ctype := .fan, props := v.attrs, ncvar := some t, data := v.data.map (fun id => ⟨id, v.isStr⟩) }, v.dims))

def ancRefs (nc : NcFile) (t : String) : List String := if (nc.var? t).isSome then [t] else []

def usedMeasures (nc : NcFile) (v : NcVar) : List (String × String) :=
  if measuresOK nc v.dims v.cellMeasures then v.cellMeasures else []

def usedAncillary (nc : NcFile) (v : NcVar) : List String :=
  if ancillaryOK nc v.dims v.ancillary then v.ancillary else []

/-- `_create_field_or_domain(field_ncvar)`: the field. -/
def readVar (nc : NcFile) (v : NcVar) : MField :=
  { props := nc.globals.filter (fun g => (v.attrs.lookup g.1).isNone) ++ v.attrs
    ncvar := some v.name
    data := ⟨v.data.getD 0, v.isStr⟩
    dataAxes := v.dims
    axes := v.dims.map (dimAxis nc) ++ v.coordinates.filterMap (tokenAxis nc v.dims)
    cons := v.dims.filterMap (dimEntry nc) ++ v.coordinates.filterMap (tokenEntry nc v.dims)
            ++ (usedMeasures nc v).filterMap (measureEntry nc) ++ (usedAncillary nc v).filterMap (ancEntry nc)
    cms := v.cellMethods }

/-- The variables that building a field from `v` references (`_reference`). -/
def varRefs (nc : NcFile) (v : NcVar) : List String :=
  v.dims.flatMap (dimRefs nc) ++ v.coordinates.flatMap (tokenRefs nc v.dims)
  ++ (usedMeasures nc v).flatMap (measureRefs nc v.name) ++ (usedAncillary nc v).flatMap (ancRefs nc)

/-- The loop that reinstates referenced variables all of whose referencers are referenced
(the list is edited while a copy of it is traversed). -/
def reinstate (referencers : String → List String) : List String → List String → List String → List String
  | [], _, out => out
  | n :: rest, cur, out =>
    if (referencers n).all cur.contains then reinstate referencers rest (cur.erase n) (out ++ [n])
    else reinstate referencers rest cur out

def referencersOf (nc : NcFile) (n : String) : List String :=
  (nc.vars.filter (fun w => (varRefs nc w).contains n)).map (·.name)

/-- `read`: a field from every variable; keep those never referenced, and those all of whose
referencers are themselves referenced; in the order of the variable names. -/
def readFile (nc : NcFile) : List MField :=
  let names := nc.vars.map (·.name)
  let referenced := sortKeys (names.filter (fun n => !(referencersOf nc n).isEmpty))
  let reinstated := reinstate (referencersOf nc) referenced referenced []
  let keep := names.filter (fun n => (referencersOf nc n).isEmpty || reinstated.contains n)
  (sortKeys keep).filterMap (fun n => (nc.var? n).map (readVar nc))

/-! ## What is inside the model -/

/-- Same content up to netCDF names (what `equal_components` compares).  The number of vertices
is the size of the trailing netCDF dimension of the bounds; it is part of the identity of the
bounds array and not a component of its own. -/
def MConstruct.strip (c : MConstruct) : MConstruct :=
  { c with ncvar := none, bounds := c.bounds.map (fun b => { b with ncvar := none, ncdim := none, nverts := 0 }) }

/-- No two constructs of the field would share a netCDF variable (`_already_in_file`): equal
content on the same netCDF dimensions — either the same axes, or both written as scalars. -/
def noShared (f : MField) (dataAxes : List Key) : Bool :=
  let isScalar (e : Entry) : Bool := match e.axes with | [a] => !dataAxes.contains a | _ => false
  let rec go : List Entry → Bool
    | [] => true
    | e :: es =>
      es.all (fun e' =>
        !((e.con.strip == e'.con.strip && (e.axes == e'.axes || (isScalar e && isScalar e')))
          || (match e.con.bounds, e'.con.bounds with
              | some b, some b' => b.props == b'.props && b.data == b'.data
                                   && (e.axes == e'.axes || (isScalar e && isScalar e'))
              | _, _ => false)))
      && go es
  go f.cons

end Cfdm.Codec
