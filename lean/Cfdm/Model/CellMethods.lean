/-
C01 — the `cell_methods` attribute: how cfdm writes a list of cell method constructs as a string
and how it parses the string back.

Anchors (cfdm 1.11.2.0):
  cellmethod.py                      `CellMethod.__str__`  (used by `get_cell_method_string`)
  read_write/netcdf/netcdfwrite.py   `_write_field_or_domain`, "cell_methods" section
                                     (`" ".join(cell_methods_strings)`)
  read_write/netcdf/netcdfread.py    `_parse_cell_methods`, `_parse_cell_methods_string` (the token loop)

Abstraction.  The attribute is modelled *after* the reader's two `re.sub` calls and `str.split()`:
a list of words (a word is a `List Char` without white space).  The writer side is
`CellMethod.__str__` followed by the same splitting, so that `"(interval: 1 hour comment: a b)"`
is the words `(`, `interval:`, `1`, `hour`, `comment:`, `a`, `b`, `)` and `"(a b)"` is `(`, `a`,
`b`, `)`.  A qualifier value, a method, an axis name and every word of a comment is one word; an
interval is the literal of its value and, optionally, its units (`str(Data)`); whether a literal is
accepted by `ast.literal_eval` / `Data` is a parameter (`lit`).

The parser mirrors the token loop statement by statement (`pop(0)`, the three inner `while` loops,
the `IndexError` that makes the whole attribute "incorrectly formatted").  `stop` is the test that
decides whether the word after an interval value is its units:
  * `stopOld`  — the code as it is: `cell_methods[0] != ")"`;
  * `stopNew`  — with fixes/C01-cell-method-interval-units.patch: also not `interval:` / `comment:`.

Import-free (core Lean only) so that the driver can be compiled.
-/
namespace Cfdm.CellMethods

abbrev Word := List Char

/-- A cell method construct: axes, method and the qualifiers cfdm knows. -/
structure CM where
  axes : List Word
  method : Word
  within : Option Word := none
  where_ : Option Word := none
  over : Option Word := none
  /-- `interval`: value literal and units of each `Data` -/
  intervals : List (Word × Option Word) := []
  /-- `comment`, as its words (`' '.join(words)`) -/
  comment : Option (List Word) := none
  deriving DecidableEq, Repr

def kwWithin : Word := "within".toList
def kwWhere : Word := "where".toList
def kwOver : Word := "over".toList
def kwInterval : Word := "interval:".toList
def kwComment : Word := "comment:".toList
def lpar : Word := ['(']
def rpar : Word := [')']

/-- `s.endswith(c)` -/
def endsWith (c : Char) (w : Word) : Bool := w.getLast? == some c

/-! ## Writer: `str(cm)` for every cell method, joined by blanks, as words -/

def writeInterval (i : Word × Option Word) : List Word :=
  kwInterval :: i.1 :: (match i.2 with | some u => [u] | none => [])

/-- `f" comment: {comment}"` after the intervals. -/
def commentWords : Option (List Word) → List Word
  | some c => kwComment :: c
  | none => []

/-- The parenthesised part of `CellMethod.__str__`. -/
def writeParen (cm : CM) : List Word :=
  if !cm.intervals.isEmpty then
    [lpar] ++ cm.intervals.flatMap writeInterval ++ commentWords cm.comment ++ [rpar]
  else
    match cm.comment with
    | some c => [lpar] ++ c ++ [rpar]
    | none => []

def writeQual (kw : Word) (q : Option Word) : List Word :=
  match q with
  | some v => [kw, v]
  | none => []

def writeCM (cm : CM) : List Word :=
  cm.axes.map (· ++ [':']) ++ [cm.method]
    ++ writeQual kwWithin cm.within ++ writeQual kwWhere cm.where_ ++ writeQual kwOver cm.over
    ++ writeParen cm

def writeCMs (cms : List CM) : List Word := cms.flatMap writeCM

/-! ## Reader: the token loop of `_parse_cell_methods_string` -/

def stopOld (w : Word) : Bool := w == rpar
def stopNew (w : Word) : Bool := w == rpar || w == kwInterval || w == kwComment

/-- `while cell_methods: if not cell_methods[0].endswith(":"): break; axes.append(pop(0)[:-1])` -/
def takeAxes : List Word → List Word × List Word
  | [] => ([], [])
  | w :: ws =>
    if endsWith ':' w then
      let r := takeAxes ws
      (w.dropLast :: r.1, r.2)
    else ([], w :: ws)

/-- The qualifiers collected by the `within` / `where` / `over` loop (a dictionary: later wins). -/
structure Portions where
  within : Option Word := none
  where_ : Option Word := none
  over : Option Word := none
  deriving DecidableEq, Repr

def Portions.set (p : Portions) (kw v : Word) : Portions :=
  if kw == kwWithin then { p with within := some v }
  else if kw == kwWhere then { p with where_ := some v }
  else { p with over := some v }

def isPortion (w : Word) : Bool := w == kwWithin || w == kwWhere || w == kwOver

/-- `while cell_methods[0] in ("within", "where", "over"): attr = pop(0); cm[attr] = pop(0);
if not cell_methods: break`.  Entered with a non-empty list.  `none` = `IndexError`. -/
def takePortions (p : Portions) : List Word → Option (Portions × List Word)
  | [] => some (p, [])
  | w :: ws =>
    if isPortion w then
      match ws with
      | [] => none
      | v :: rest => takePortions (p.set w v) rest
    else some (p, w :: ws)

/-- The comment loop: words up to one that ends with `)` or `:`. -/
def takeComment : List Word → List Word × List Word
  | [] => ([], [])
  | w :: ws =>
    if endsWith ')' w || endsWith ':' w then ([], w :: ws)
    else
      let r := takeComment ws
      (w :: r.1, r.2)

structure Paren where
  intervals : List (Word × Option Word) := []
  comment : Option (List Word) := none
  deriving DecidableEq, Repr

/-- The result of the loop over the parenthesised part: `bad` = `literal_eval` / `Data` refused an
interval (the attribute is reported and dropped), `none` = `IndexError`. -/
inductive PR where
  | ok (p : Paren) (rest : List Word)
  | bad
  | indexError
  deriving DecidableEq, Repr

/-- `while not re.search(r"^\)$", cell_methods[0]): term = pop(0)[:-1]; …` -/
def parenLoop (stop lit : Word → Bool) : Nat → Paren → List Word → PR
  | 0, _, _ => .indexError
  | _ + 1, _, [] => .indexError
  | fuel + 1, p, w :: ws =>
    if w == rpar then .ok p (w :: ws)
    else
      let term := w.dropLast
      if term == "interval".toList then
        match ws with
        | [] => .indexError
        | v :: ws1 =>
          match ws1 with
          | [] => .indexError
          | u :: ws2 =>
            if !lit v then .bad
            else if stop u then parenLoop stop lit fuel { p with intervals := p.intervals ++ [(v, none)] } (u :: ws2)
            else parenLoop stop lit fuel { p with intervals := p.intervals ++ [(v, some u)] } ws2
      else if term == "comment".toList then
        let r := takeComment ws
        parenLoop stop lit fuel { p with comment := some r.1 } r.2
      else parenLoop stop lit fuel p ws

/-- The parenthesised part `( … )`, when there is one, completes the cell method `cm0` (which has
`naxes` axes).  `none` = `IndexError`, `some none` = a bad interval. -/
def parseAfterPortions (stop lit : Word → Bool) (cm0 : CM) (naxes : Nat) (r2 : List Word) : Option (Option (CM × List Word)) :=
  match r2 with
  | [] => some (some (cm0, []))
  | w :: r3 =>
    if endsWith '(' w then
      match r3 with
      | [] => none
      | w1 :: r4 =>
        let body := if w1 == kwInterval || w1 == kwComment then w1 :: r4 else kwComment :: w1 :: r4
        match parenLoop stop lit (body.length + 1) {} body with
        | .indexError => none
        | .bad => some none
        | .ok pr rest =>
          -- `if cell_methods[0].endswith(")"): cell_methods.pop(0)` (the loop ended on `)`)
          if pr.intervals.length > 1 && pr.intervals.length != naxes then some none
          else some (some ({ cm0 with intervals := pr.intervals, comment := pr.comment }, rest.drop 1))
    else some (some (cm0, w :: r3))

/-- After the method `m`: the `within` / `where` / `over` loop, then the parenthesised part. -/
def parseAfterMethod (stop lit : Word → Bool) (axes : List Word) (m : Word) (r1 : List Word) : Option (Option (CM × List Word)) :=
  match r1 with
  | [] => some (some ({ axes := axes, method := m }, []))
  | _ :: _ =>
    match takePortions {} r1 with
    | none => none
    | some (p, r2) =>
      parseAfterPortions stop lit { axes := axes, method := m, within := p.within, where_ := p.where_, over := p.over }
        axes.length r2

/-- One cell method from the head of the list; `none` = `IndexError`, `some none` = a bad interval. -/
def parseOne (stop lit : Word → Bool) (ws : List Word) : Option (Option (CM × List Word)) :=
  let a := takeAxes ws
  match a.2 with
  | [] => some (some ({ axes := a.1, method := [] }, []))  -- `cm` without a method
  | m :: r1 => parseAfterMethod stop lit a.1 m r1

/-- `while cell_methods: …; out.append(cm)`.  `none`: the attribute is "incorrectly formatted"
(`IndexError`) or has a bad interval — cfdm reports it and the field gets no cell methods. -/
def parseLoop (stop lit : Word → Bool) : Nat → List Word → List CM → Option (List CM)
  | 0, _, _ => none
  | _ + 1, [], acc => some acc
  | fuel + 1, w :: ws, acc =>
    match parseOne stop lit (w :: ws) with
    | none => none
    | some none => none
    | some (some (cm, rest)) => parseLoop stop lit fuel rest (acc ++ [cm])

/-- `_parse_cell_methods(string)` on the words of the string. -/
def parse (stop lit : Word → Bool) (ws : List Word) : Option (List CM) :=
  parseLoop stop lit (ws.length + 1) ws []

end Cfdm.CellMethods
