import Cfdm.Model.Subsample
/-
C16 — model of the two latitude/longitude interpolation methods,
`quadratic_latitude_longitude` (`QuadraticLatitudeLongitudeSubarray`) and
`bi_quadratic_latitude_longitude` (`BiQuadraticLatitudeLongitudeSubarray`).

Mirrors cfdm/data/subarray/mixin/quadraticgeographicinterpolation.py (`_fcea2cv`, `_fcross`,
`_fcv`, `_fdot`, `_fminus`, `_fmultiply`, `_fplus`, `_fqv`), quadraticlatitudelongitudeinterpolation.py
and biquadraticlatitudelongitudeinterpolation.py, with the algebra in exact rationals and the
four transcendental primitives (`_fll2v`: degrees → unit vector, `_fv2lat`, `_fv2lon`: unit
vector → degrees, `_fsqrt`) as the fields of a structure `Geo`: they are NOT interpreted.  The
theorems hold for every `Geo`; what they need of it (that the tie points survive the round trip
latitude/longitude → vector → latitude/longitude) is an explicit hypothesis.

The subarea loop, `_s`, `_trim`, `_broadcast_bounds` and the block assignment are those of
`Cfdm/Model/Subsample.lean` (`subs`, `sGrid`, `trim`, `cells`, `assembleG`, `assemble2G`).

Core Lean only.
-/
namespace Cfdm.Subsample

structure V3 where
  x : Rat
  y : Rat
  z : Rat
deriving Repr, DecidableEq, Inhabited

/-- The primitives that cfdm takes from numpy. -/
structure Geo where
  /-- `_fll2v(lat, lon)` -/
  ll2v : Rat → Rat → V3
  /-- `_fv2lat(v)` -/
  v2lat : V3 → Rat
  /-- `_fv2lon(v)` -/
  v2lon : V3 → Rat
  /-- `_fsqrt(t) = t ** 0.5` -/
  sqrt : Rat → Rat

namespace V3
def add (a b : V3) : V3 := ⟨a.x + b.x, a.y + b.y, a.z + b.z⟩      -- `_fplus`
def sub (a b : V3) : V3 := ⟨a.x - b.x, a.y - b.y, a.z - b.z⟩      -- `_fminus`
def smul (r : Rat) (v : V3) : V3 := ⟨v.x * r, v.y * r, v.z * r⟩     -- `_fmultiply(r, v)`: `a * r`
def dot (a b : V3) : Rat := a.x * b.x + a.y * b.y + a.z * b.z       -- `_fdot`
def cross (a b : V3) : V3 :=                                         -- `_fcross`
  ⟨a.y * b.z - a.z * b.y, a.z * b.x - a.x * b.z, a.x * b.y - a.y * b.x⟩
end V3

/-- `_fqv`: `_fq` per component. -/
def fqv (va vb wv : V3) (s : Rat) : V3 :=
  ⟨quadratic va.x vb.x wv.x s, quadratic va.y vb.y wv.y s, quadratic va.z vb.z wv.z s⟩

/-- `_fcv`: `_fw` per component. -/
def fcv (va vb vp : V3) (s : Rat) : V3 :=
  ⟨fw va.x vb.x vp.x s, fw va.y vb.y vp.y s, fw va.z vb.z vp.z s⟩

/-- `_fcea2cv`: `ce`, `ca` may be absent. -/
def fcea2cv (G : Geo) (va vb : V3) (ce ca : Option Rat) : V3 :=
  let vr := V3.smul (1 / 2) (V3.add va vb)
  let rsqr := V3.dot vr vr
  let k : Rat := 1
  let k := match ce with | some c => k - c * c | none => k
  let k := match ca with | some c => k - c * c | none => k
  let cr := G.sqrt k - G.sqrt rsqr
  let cv := V3.smul cr vr
  let cv := match ce with | some c => V3.add cv (V3.smul c (V3.sub va vb)) | none => cv
  let cv := match ca with | some c => V3.add cv (V3.smul c (V3.cross va vb)) | none => cv
  cv

/-- A latitude or a longitude tie point pair: `(lat, lon)`. -/
abbrev LL := Rat × Rat

/-- `fv2ll` restricted to the coordinate the array holds (`latitude`: the dependent tie points
are longitudes). -/
def Geo.v2ll (G : Geo) (latitude : Bool) (v : V3) : Rat := if latitude then G.v2lat v else G.v2lon v

def pick (latitude : Bool) (ll : LL) : Rat := if latitude then ll.1 else ll.2

/-- `_quadratic_latitude_longitude_interpolation` at one interpolation variable `s`, for one
combination of the non-interpolated dimensions, with fixes/C16-quadratic-latitude-longitude-noncartesian.patch
(`cart` = `location_use_3d_cartesian` of this element). -/
def qllPoint (G : Geo) (latitude cart : Bool) (a b : LL) (ce ca : Option Rat) (s : Rat) : Rat :=
  let va := G.ll2v a.1 a.2
  let vb := G.ll2v b.1 b.2
  let cv := fcea2cv G va vb ce ca
  if cart then G.v2ll latitude (fqv va vb cv s)
  else
    let lla := pick latitude a
    let llb := pick latitude b
    let llab := G.v2ll latitude (fqv va vb cv (1 / 2))
    let cll := fw lla llb llab (1 / 2)
    quadratic lla llb cll s

/-- /repo HEAD: the latitude-longitude branch raises TypeError (`_fqv(va, vb, cv, 0.5)` passes
0.5 as the dimension). -/
def qllPointOld (G : Geo) (latitude cart : Bool) (a b : LL) (ce ca : Option Rat) (s : Rat) : Option Rat :=
  if cart then some (qllPoint G latitude true a b ce ca s) else none

/-- `_bi_quadratic_latitude_longitude_interpolation` at `(s2, s1)`.  `a, b, c, d`: the tie
points at `(d2, d1)` = (0,0), (0,1), (1,0), (1,1); `ce1`/`ca1` at the tie point rows `d2 = 0, 1`;
`ce2`/`ca2` at the tie point columns `d1 = 0, 1`. -/
def bqllPoint (G : Geo) (latitude cart : Bool) (a b c d : LL)
    (ce1 ca1 : Option Rat × Option Rat) (ce2 ca2 : Option Rat × Option Rat) (ce3 ca3 : Option Rat)
    (s2 s1 : Rat) : Rat :=
  let va := G.ll2v a.1 a.2
  let vb := G.ll2v b.1 b.2
  let vc := G.ll2v c.1 c.2
  let vd := G.ll2v d.1 d.2
  let cv_ac := fcea2cv G va vc ce2.1 ca2.1
  let cv_bd := fcea2cv G vb vd ce2.2 ca2.2
  let vab := fqv va vb (fcea2cv G va vb ce1.1 ca1.1) (1 / 2)
  let vcd := fqv vc vd (fcea2cv G vc vd ce1.2 ca1.2) (1 / 2)
  let cv_z := fcea2cv G vab vcd ce3 ca3
  if cart then
    let vac := fqv va vc cv_ac s2
    let vbd := fqv vb vd cv_bd s2
    let vz := fqv vab vcd cv_z s2
    let cv_zz := fcv vac vbd vz (1 / 2)
    G.v2ll latitude (fqv vac vbd cv_zz s1)
  else
    let lla := pick latitude a
    let llb := pick latitude b
    let llc := pick latitude c
    let lld := pick latitude d
    let llc_ac := fw lla llc (G.v2ll latitude (fqv va vc cv_ac (1 / 2))) (1 / 2)
    let llac := quadratic lla llc llc_ac s2
    let llc_bd := fw llb lld (G.v2ll latitude (fqv vb vd cv_bd (1 / 2))) (1 / 2)
    let llbd := quadratic llb lld llc_bd s2
    let llab := G.v2ll latitude vab
    let llcd := G.v2ll latitude vcd
    let llc_z := fw llab llcd (G.v2ll latitude (fqv vab vcd cv_z (1 / 2))) (1 / 2)
    let llz := quadratic llab llcd llc_z s2
    let cl_zz := fw llac llbd llz (1 / 2)
    quadratic llac llbd cl_zz s1

/-! ### blocks and assembly for methods that look at the tie point index

(Coordinates only: bounds tie points of the two latitude/longitude methods are not modelled.) -/

/-- A 1-d method as a function of the interpolation subarea index, the index of the first of
its two tie points, and `s`. -/
abbrev MethodG := Nat → Nat → Rat → Rat

def points1G (F : MethodG) (bounds : Bool) (s : Sub) : List Rat :=
  (sGrid (sPoints s.size s.first bounds)).map (F s.loc s.tp)

def block1G (F : MethodG) (s : Sub) : List Rat := trim s.first false (points1G F false s)

def recon1G (F : MethodG) (n : Nat) (t : List Nat) : List (Option Rat) :=
  assembleG (block1G F) (List.replicate n none) (subs t)

/-- A 2-d method: subarea indices, tie point indices, `s2`, `s1`. -/
abbrev Method2G := Nat → Nat → Nat → Nat → Rat → Rat → Rat

def points2G (F : Method2G) (bounds : Bool) (s0 s1 : Sub) : List (List Rat) :=
  (sGrid (sPoints s0.size s0.first bounds)).map (fun x2 =>
    (sGrid (sPoints s1.size s1.first bounds)).map (fun x1 => F s0.loc s1.loc s0.tp s1.tp x2 x1))

def block2G (F : Method2G) (s0 s1 : Sub) : List (List Rat) :=
  trim2 s0.first s1.first false (points2G F false s0 s1)

def recon2G (F : Method2G) (n0 n1 : Nat) (t0 t1 : List Nat) : List (List (Option Rat)) :=
  assemble2G (block2G F) (List.replicate n0 (List.replicate n1 none)) (subs t0) (subs t1)

/-! ### the two methods as `MethodG` / `Method2G` -/

/-- Parameters of `quadratic_latitude_longitude` for one combination of the non-interpolated
dimensions: per interpolation subarea. -/
structure QParams where
  ce : Option (List Rat)
  ca : Option (List Rat)
  cart : List Bool

def llAt (tp : List LL) (i : Nat) : LL := tp.getD i (0, 0)

def qllM (G : Geo) (latitude : Bool) (tp : List LL) (P : QParams) : MethodG := fun j i s =>
  qllPoint G latitude (P.cart.getD j false) (llAt tp i) (llAt tp (i + 1))
    (P.ce.map (·.getD j 0)) (P.ca.map (·.getD j 0)) s

/-- Parameters of `bi_quadratic_latitude_longitude`: `ce1`, `ca1` indexed (tie point index along
the first subsampled dimension, subarea index along the second); `ce2`, `ca2` (subarea, tie
point); `ce3`, `ca3`, `cart` (subarea, subarea). -/
structure BQParams where
  ce1 : Option (Nat → Nat → Rat)
  ca1 : Option (Nat → Nat → Rat)
  ce2 : Option (Nat → Nat → Rat)
  ca2 : Option (Nat → Nat → Rat)
  ce3 : Option (Nat → Nat → Rat)
  ca3 : Option (Nat → Nat → Rat)
  cart : Nat → Nat → Bool

def llAt2 (tp : List (List LL)) (i j : Nat) : LL := (tp.getD i []).getD j (0, 0)

def bqllM (G : Geo) (latitude : Bool) (tp : List (List LL)) (P : BQParams) : Method2G :=
  fun j2 j1 i2 i1 s2 s1 =>
    bqllPoint G latitude (P.cart j2 j1)
      (llAt2 tp i2 i1) (llAt2 tp i2 (i1 + 1)) (llAt2 tp (i2 + 1) i1) (llAt2 tp (i2 + 1) (i1 + 1))
      (P.ce1.map (fun f => f i2 j1), P.ce1.map (fun f => f (i2 + 1) j1))
      (P.ca1.map (fun f => f i2 j1), P.ca1.map (fun f => f (i2 + 1) j1))
      (P.ce2.map (fun f => f j2 i1), P.ce2.map (fun f => f j2 (i1 + 1)))
      (P.ca2.map (fun f => f j2 i1), P.ca2.map (fun f => f j2 (i1 + 1)))
      (P.ce3.map (fun f => f j2 j1)) (P.ca3.map (fun f => f j2 j1)) s2 s1

/-- A stand-in geometry over the rationals (used for non-vacuity examples only): the "unit
vector" of `(lat, lon)` is `(lat, lon, 1)`. -/
def toyGeo : Geo :=
  { ll2v := fun lat lon => ⟨lat, lon, 1⟩, v2lat := fun v => v.x, v2lon := fun v => v.y, sqrt := fun t => t }

end Cfdm.Subsample
