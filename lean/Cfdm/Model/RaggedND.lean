import Cfdm.Model.Ragged
/-
C06 — gathered arrays with any number of leading and trailing dimensions around the
gathered block, and the shapes a *reader* derives for ragged arrays.

Model of
  cfdm/data/gatheredarray.py            `GatheredArray._uncompressed_indices`, `subarrays`
                                        (default `shapes=-1`: one subarray spans the whole array)
  cfdm/data/subarray/gatheredsubarray.py `GatheredSubarray.__getitem__`
      u = np.ma.masked_all(self.shape)
      u[(slice(None),)*nl + np.unravel_index(list, dims) + (slice(None),)*nt] = data
  cfdm/read_write/netcdf/netcdfread.py  `_set_ragged_contiguous_parameters`,
      `_set_ragged_indexed_parameters`, `_parse_indexed_contiguous_compression`
      (the uncompressed shape is taken from the count / index variables)

Arrays are multi-index functions (`List Nat → M α`), as in `Model/Arr.lean`.
Core Lean only.
-/
namespace Cfdm.Ragged

/-! ## Gathering inside an N-d array -/

/-- The part of a multi-index of `lead ++ dims ++ trail` that addresses the gathered block. -/
def midIdx (nl m : Nat) (idx : List Nat) : List Nat := (idx.drop nl).take m

/-- The multi-index of the compressed array (`lead ++ [n] ++ trail`) that holds sample `k`
of the column through `idx`. -/
def sampleIdx (nl m : Nat) (idx : List Nat) (k : Nat) : List Nat :=
  idx.take nl ++ k :: idx.drop (nl + m)

/-- numpy's `u[…, I_0, …, I_{m-1}, …] = data` with adjacent integer-array indices
`I = np.unravel_index(list, dims)`: sample `k` of `data` (a whole slab over the leading and
trailing dimensions) is stored at the block position `unravel(list[k])`, for `k = 0, 1, …` in
order (a later sample overwrites an earlier one).  `k` is the running sample number. -/
def gatherAssignND {α} (nl : Nat) (dims : List Nat) (data : List Nat → M α) :
    Nat → List Nat → (List Nat → M α) → (List Nat → M α)
  | _, [], u => u
  | k, q :: qs, u =>
    gatherAssignND nl dims data (k + 1) qs
      (fun idx => if midIdx nl dims.length idx = unravel dims q
                  then data (sampleIdx nl dims.length idx k) else u idx)

/-- `GatheredArray[...]` for compressed dimensions `dims` at positions `nl … nl+m-1`. -/
def decodeGatheredND {α} (nl : Nat) (dims l : List Nat) (data : List Nat → M α) : List Nat → M α :=
  gatherAssignND nl dims data 0 l (fun _ => none)

/-! ### Specification (CF 8.2) -/

/-- Number of the last sample at or after `k` whose list value is `t`. -/
def lastPosFrom (t : Nat) : Nat → List Nat → Option Nat
  | _, [] => none
  | k, q :: qs =>
    match lastPosFrom t (k + 1) qs with
    | some j => some j
    | none => if q = t then some k else none

/-- CF 8.2 with extra dimensions: the element at `li ++ di ++ ti` is the element
`li ++ [k] ++ ti` of the compressed array, where `list[k]` is the row-major flat index of
`di` over the compressed dimensions; missing if no sample is listed there. -/
def specGatheredND {α} (nl : Nat) (dims l : List Nat) (data : List Nat → M α) (idx : List Nat) : M α :=
  match lastPosFrom (ravel dims (midIdx nl dims.length idx)) 0 l with
  | some k => data (sampleIdx nl dims.length idx k)
  | none => none

/-! ## The uncompressed shape a reader derives -/

/-- `int(count.max())` if the variable has elements, else `0`. -/
def maxL (l : List Nat) : Nat := l.foldl max 0

/-- `np.unique(index, return_counts=True)[1].max()`: the largest number of occurrences of
any value (0 for an empty variable). -/
def maxOcc (index : List Nat) : Nat := maxL ((unique index).map (fun v => index.count v))

/-- `cfdm.read` of a contiguous ragged array: shape `(len(count), max(count))`. -/
def readContiguous {α} (count : List Nat) (c : List (M α)) : List (List (M α)) :=
  decodeContiguous count count.length (maxL count) c

/-- `cfdm.read` of an indexed ragged array whose instance dimension has size `ninst`:
shape `(ninst, largest number of samples of one index value)`. -/
def readIndexed {α} (ninst : Nat) (index : List Nat) (c : List (M α)) : List (List (M α)) :=
  decodeIndexed index ninst (maxOcc index) c

/-- `cfdm.read` of an indexed contiguous ragged array: shape
`(ninst, largest number of profiles of one index value, max(count))`. -/
def readIndexedContiguous {α} (ninst : Nat) (count index : List Nat) (c : List (M α)) :
    List (List (M α)) :=
  decodeIndexedContiguous count index ninst (maxOcc index) (maxL count) c

/-! ## `Field.compress` with metadata constructs on the same axes

  count = _derive_count(field data)
  for every metadata construct c whose axes are the field's data axes:
      count = [max(m, n) for m, n in zip(count, _derive_count(c.data))]

and then the field data and every one of these constructs are packed with that one count. -/

/-- The counts `Field.compress` uses: `arrays` = the field data followed by the data of every
metadata construct spanning the same axes, each as its list of rows. -/
def jointCount {α} : List (List (List (M α))) → List Nat
  | [] => []
  | a :: rest => rest.foldl (fun cnt b => List.zipWith max cnt (b.map deriveCount)) (a.map deriveCount)

/-- … as coded before repair d4c0294: the counts of the first same-axes auxiliary coordinate
alone (`break`), of the field data only when there is no such coordinate. -/
def jointCountOld {α} (field : List (List (M α))) (auxs : List (List (List (M α)))) : List Nat :=
  match auxs with
  | [] => field.map deriveCount
  | x :: _ => x.map deriveCount

/-- One array packed with given counts, as a contiguous ragged array. -/
def compressContiguousWith {α} (cnt : List Nat) (rows : List (List (M α))) : Compressed α :=
  { count := cnt, index := [], c := pack cnt rows }

/-- … as an indexed ragged array. -/
def compressIndexedWith {α} (cnt : List Nat) (rows : List (List (M α))) : Compressed α :=
  { count := [], index := indexFromCounts 0 cnt, c := pack cnt rows }

/-- … as an indexed contiguous ragged array; `cnts` holds the counts of each instance's
profiles (`count[shape1*i : shape1*(i+1)]`). -/
def compressIndexedContiguousWith {α} (cnts : List (List Nat)) (a : List (List (List (M α)))) :
    Compressed α :=
  let nprof := cnts.map nProfiles
  { count := (cnts.zip nprof).flatMap (fun p => p.1.take p.2)
    index := indexFromCounts 0 nprof
    c := pack cnts.flatten a.flatten }

/-- The per-instance counts of several 3-d arrays. -/
def jointCountIC {α} : List (List (List (List (M α)))) → List (List Nat)
  | [] => []
  | a :: rest =>
    rest.foldl (fun cnts b => List.zipWith (List.zipWith max) cnts (b.map (fun inst => inst.map deriveCount)))
      (a.map (fun inst => inst.map deriveCount))

/-- A metadata construct on the (instance, profile) axes of an indexed contiguous field:
`_compress_metadata(…, f.get_data_axes()[:-1], _RaggedIndexedArray, index_variable)` packs the
first `_n_profiles(count of the instance)` values of every instance; it shares the index variable. -/
def compressProfileMeta {α} (cnts : List (List Nat)) (rows : List (List (M α))) : Compressed α :=
  let nprof := cnts.map nProfiles
  { count := [], index := indexFromCounts 0 nprof, c := pack nprof rows }

end Cfdm.Ragged
