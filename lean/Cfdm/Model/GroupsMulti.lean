/-
C11 — group attributes for SEVERAL fields written by one `cfdm.write` call.
Executable model (core Lean only) of

* `NetCDFWrite._write_group_attributes` (netcdfwrite.py): the grouping of the fields by their
  group path (`xx`), the union of their `nc_group_attributes()` dictionaries, the selection of
  the attributes that are really written (`this_group_attributes.pop`), the replacement of `None`
  by the first field's property, and the WALK from the root of the dataset to the group
  (`nc = g["netcdf"]; for group in groups: nc = nc.groups[group] or createGroup`) followed by
  `setncatts`;
* the `omit` list of `_write_field_or_domain` for a field that shares the file with others;
* `_write_global_attributes` (the description-of-file-contents properties that all fields share);
* the reader's precedence "variable attribute, else the attribute of the nearest enclosing
  group that has one (sub-groups supersede their parents), else the global attribute"
  (netcdfread.py: `group_attributes.update(flattener_attributes[hierarchy])` for
  `hierarchy = groups[:1], groups[:2], …`, then `field_properties.update`).

The un-suffixed functions are the code after fixes/C11-write-group-attributes-several-fields.patch;
`…Old` is the code as it is in /repo.
-/
import Cfdm.Model.Groups

namespace Cfdm.Groups

/-! ### dictionaries as association lists -/

/-- `d[k] = v`: an existing key keeps its position. -/
def dictSet {β : Type} (d : List (Name × β)) (k : Name) (v : β) : List (Name × β) :=
  if d.any (fun x => x.1 == k) then d.map (fun x => if x.1 == k then (k, v) else x)
  else d ++ [(k, v)]

/-- `d.update(e)` / `group.setncatts(e)`. -/
def dictUpdate {β : Type} (d e : List (Name × β)) : List (Name × β) :=
  e.foldl (fun d kv => dictSet d kv.1 kv.2) d

/-! ### the walk of `_write_group_attributes` -/

def setAvals (kv : List (Name × Name)) (n : Node) : Node := { n with avals := dictUpdate n.avals kv }

/-- The attributes of the group at path `q` (none if there is no such group). -/
def attrsAt (root : Grp) (q : Path) : List (Name × Name) :=
  match sub root q with
  | some t => t.node.avals
  | none => []

/-- For every `(group path, attributes)` in turn: walk from the ROOT down the path, creating the
groups that do not exist yet, and `setncatts` there.  (`Grp.update` is that walk.) -/
def writeGroupAttrs (t : Grp) : List (Path × List (Name × Name)) → Grp
  | [] => t
  | (p, kv) :: rest => writeGroupAttrs (t.update (setAvals kv) p) rest

/-- The walk with `nc = g["netcdf"]` hoisted out of the loop: every walk starts where the
previous one ended (`cur`). -/
def writeGroupAttrsHoisted (t : Grp) (cur : Path) : List (Path × List (Name × Name)) → Grp
  | [] => t
  | (p, kv) :: rest => writeGroupAttrsHoisted (t.update (setAvals kv) (cur ++ p)) (cur ++ p) rest

/-- Every group of the tree (absolute paths, pre-order). -/
def Forest.groupPaths : Path → Forest → List Path
  | _, .nil => []
  | pre, .cons n k r => (pre ++ [n.name]) :: (Forest.groupPaths (pre ++ [n.name]) k ++ Forest.groupPaths pre r)

def Grp.groupPaths (t : Grp) : List Path := [] :: t.kids.groupPaths []

/-! ### which attributes are written where -/

/-- One field (or domain) handed to `cfdm.write`. -/
structure MField where
  grp : Path                          -- nc_variable_groups()
  base : Name                         -- base name of the data variable
  props : List (Name × Name)          -- properties
  ga : List (Name × Option Name)      -- nc_group_attributes()
deriving Repr, DecidableEq

/-- The distinct non-root group paths of the fields, in order of first occurrence (the keys of `xx`). -/
def addPath (l : List Path) (p : Path) : List Path := if l.contains p then l else l ++ [p]

def groupKeys (fs : List MField) : List Path :=
  (fs.filter (fun f => !f.grp.isEmpty)).foldl (fun l f => addPath l f.grp) []

def fieldsOf (fs : List MField) (g : Path) : List MField := fs.filter (fun f => f.grp == g)

/-- The fields in proper sub-groups of `g`. -/
def subFields (fs : List MField) (g : Path) : List MField :=
  fs.filter (fun f => decide (g.length < f.grp.length) && g.isPrefixOf f.grp)

/-- `group_attributes[groups]`: the `nc_group_attributes()` of the fields of the group, merged in
field order (`dict.update`). -/
def unionGA (fs : List MField) (g : Path) : List (Name × Option Name) :=
  (fieldsOf fs g).foldl (fun d f => dictUpdate d f.ga) []

/-- The property of the first field of the group (`prop0`). -/
def prop0 (fs : List MField) (g : Path) (a : Name) : Option Name :=
  match fieldsOf fs g with
  | [] => none
  | f0 :: _ => alookup f0.props a

/-- Does attribute `a` survive the `pop`s?  The first field of the group has the property and
every other field of the group has it with the same value; patched (`subgroups = true`): and
every field in a sub-group has the property (it would be given the attribute on read otherwise). -/
def keepAttr (subgroups : Bool) (fs : List MField) (g : Path) (a : Name) : Bool :=
  match prop0 fs g a with
  | none => false
  | some v0 =>
    (fieldsOf fs g).all (fun f => alookup f.props a == some v0) &&
      (!subgroups || (subFields fs g).all (fun f => (alookup f.props a).isSome))

/-- The value written for attribute `a` whose merged `nc_group_attributes()` entry is `v`, if it
is written at all: a `None` value takes the first field's property. -/
def selValue (subgroups : Bool) (fs : List MField) (g : Path) (a : Name) (v : Option Name) : Option Name :=
  if keepAttr subgroups fs g a then
    some (match v with
      | some w => w
      | none => (prop0 fs g a).getD [])
  else none

/-- The attributes written to group `g`. -/
def selectedWith (subgroups : Bool) (fs : List MField) (g : Path) : List (Name × Name) :=
  (unionGA fs g).filterMap (fun av => (selValue subgroups fs g av.1 av.2).map (fun v => (av.1, v)))

def selected := selectedWith true
def selectedOld := selectedWith false

/-- `_write_global_attributes`: a description-of-file-contents attribute (names `D`) is global
iff the first field has it and every field has it with the same value. -/
def globalNames (D : List Name) (fs : List MField) : List Name :=
  match fs with
  | [] => []
  | f0 :: _ => D.filter (fun a => match alookup f0.props a with
    | none => false
    | some v => fs.all (fun f => alookup f.props a == some v))

/-- The group tree with the group attributes of all fields (an empty dataset to start with). -/
def groupTreeWith (subgroups : Bool) (fs : List MField) : Grp :=
  writeGroupAttrs emptyRoot ((groupKeys fs).map (fun g => (g, selectedWith subgroups fs g)))

/-- The attribute a variable in group `grp` inherits from the groups: the nearest group, from
`grp` upwards and excluding the root, that has it. -/
def inheritedFrom (look : Path → Name → Option Name) (grp : Path) (a : Name) : Nat → Option Name
  | 0 => none
  | n + 1 =>
    match look (grp.take (n + 1)) a with
    | some v => some v
    | none => inheritedFrom look grp a n

def inherited (t : Grp) (grp : Path) (a : Name) : Option Name :=
  inheritedFrom (fun q a => alookup (attrsAt t q) a) grp a grp.length

/-- The reader as coded: `group_attributes = {}`, then for `i = 1 … len(groups)`:
`group_attributes.update(<attributes of groups[:i]>)` — parents first, so that sub-groups supersede. -/
def readerGroupAttrs (t : Grp) (grp : Path) : Nat → List (Name × Name)
  | 0 => []
  | n + 1 => dictUpdate (readerGroupAttrs t grp n) (attrsAt t (grp.take (n + 1)))

def inheritedLoop (t : Grp) (grp : Path) (a : Name) : Option Name :=
  alookup (readerGroupAttrs t grp grp.length) a

/-- `g["group_attributes"]` after `_write_group_attributes` (patched: the written values are kept):
the value written for attribute `a` in the group with path `q`, if any. -/
def dictLook (subgroups : Bool) (fs : List MField) (q : Path) (a : Name) : Option Name :=
  if (groupKeys fs).contains q then alookup (selectedWith subgroups fs q) a else none

/-- Patched `omit` (`_inherits_attribute`): a candidate — a global attribute without a
group-attribute value of its own, or a group attribute recorded as `None` — is left off the data
variable only if the attribute the variable inherits, looked up in `g["group_attributes"]` from the
variable's group upwards and then among the global attributes, has been written with the
property's value. -/
def omittedN (G : List Name) (look : Path → Name → Option Name) (f : MField) (a : Name) : Bool :=
  if f.grp.isEmpty then G.contains a
  else
    let candidate := match alookup f.ga a with
      | some (some _) => false
      | some none => true
      | none => G.contains a
    candidate &&
      (match inheritedFrom look f.grp a f.grp.length with
       | some v => alookup f.props a == some v
       | none => G.contains a)

/-- `omit` as it is in /repo: every candidate is left off (for a field with a non-empty
`nc_group_attributes()`; without one only the global attributes are). -/
def omittedNOld (G : List Name) (f : MField) (a : Name) : Bool :=
  omitted f.grp G f.ga a

/-- What the dataset holds: global attributes, the group tree with its attributes, and for
every field (in order) the attributes of its data variable. -/
structure WrittenN where
  glob : List (Name × Name)
  tree : Grp
  vars : List (List (Name × Name))
deriving Repr

def globalsOf (G : List Name) (fs : List MField) : List (Name × Name) :=
  match fs with
  | [] => []
  | f0 :: _ => f0.props.filter (fun kv => G.contains kv.1)

def writeFieldsN (D : List Name) (fs : List MField) : WrittenN :=
  let G := globalNames D fs
  { glob := globalsOf G fs
    tree := groupTreeWith true fs
    vars := fs.map (fun f => f.props.filter (fun kv => !omittedN G (dictLook true fs) f kv.1)) }

def writeFieldsNOld (D : List Name) (fs : List MField) : WrittenN :=
  let G := globalNames D fs
  { glob := globalsOf G fs
    tree := groupTreeWith false fs
    vars := fs.map (fun f => f.props.filter (fun kv => !omittedNOld G f kv.1)) }

/-- The property the reader gives the field whose data variable has attributes `var` and lives
in group `grp`. -/
def readPropN (w : WrittenN) (grp : Path) (var : List (Name × Name)) (a : Name) : Option Name :=
  match alookup var a with
  | some v => some v
  | none =>
    match inherited w.tree grp a with
    | some v => some v
    | none => alookup w.glob a

/-! ### the reader's base names (`variable_basename`, `dimension_basename`) -/

/-- Patched: the base name of an element is the last component of the absolute path the
flattener's name map gives for it. -/
def readBase (abs : List Char) : List Char := (splitOn '/' abs).getLastD []

/-- As it is in /repo: `re.sub('^g1__g2__', '', <flattened name>)` — in its best case, group names
free of regular-expression metacharacters, this removes the literal prefix if the flattened name
starts with it. -/
def readBaseOld (groups : Path) (flat : List Char) : List Char :=
  match groups with
  | [] => flat
  | _ =>
    let pre := joinWith ['_', '_'] groups ++ ['_', '_']
    if pre.isPrefixOf flat then flat.drop pre.length else flat

end Cfdm.Groups
