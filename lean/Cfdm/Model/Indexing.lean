import Cfdm.Model.PySlice
import Cfdm.Model.Arr
/-
C03 decision core: `Data._set_subspace`'s pairwise decomposition of list indices,
the bounds-reversal rule of `PropertiesDataBounds.__getitem__`, and the per-axis
dice of `Field.__getitem__`.
-/
namespace Cfdm.Indexing
open Cfdm.PySlice

/-- One entry of a user index tuple, before `Data._parse_indices`. -/
inductive RawIx where
  | int (i : Int)
  | slice (start stop step : Option Int)
  | list (l : List Int)
  | bool (b : List Bool)
  | ellipsis
  deriving Repr, DecidableEq

/-- Positions of the `true` entries (`np.where(index)[0]`). -/
def boolPositions (b : List Bool) : List Int :=
  ((List.range b.length).filter (fun i => b.getD i false)).map (fun (i : Nat) => (i : Int))

/-- Ellipsis expansion of `_parse_indices`: the first pass over the tuple.
`n` counts the axes not yet consumed, `len` the entries not yet visited. -/
def expandEllipsis : List RawIx → Nat → Nat → List RawIx
  | [], _, _ => []
  | .ellipsis :: rest, n, len =>
    let m := (n + 1) - len   -- `n - length + 1` in Python integers
    List.replicate m (.slice none none none) ++ expandEllipsis rest (n - m) (len - 1)
  | x :: rest, n, len => x :: expandEllipsis rest (n - 1) (len - 1)

/-- Per-axis conversion of `_parse_indices` (second pass). -/
def parseOne (size : Nat) : RawIx → Except String Sel
  | .slice a b c => .ok (.slice a b c)
  | .int i => let j := norm size i; .ok (.slice (some j) (some (j + 1)) (some 1))
  | .bool b =>
    if b.length != size then .error "IndexError" else
    match boolPositions b with
    | [j] => .ok (.slice (some j) (some (j + 1)) (some 1))
    | l => .ok (.list l)
  | .list [i] => let j := norm size i; .ok (.slice (some j) (some (j + 1)) (some 1))
  | .list l => .ok (.list l)
  | .ellipsis => .error "IndexError"

/-- `Data._parse_indices`. -/
def parseIndices (shape : List Nat) (ix : List RawIx) : Except String (List Sel) :=
  let ndim := shape.length
  let parsed := expandEllipsis ix ndim ix.length
  if ndim != 0 && parsed.length > ndim then .error "IndexError"
  else if ndim == 0 && !parsed.isEmpty then .error "IndexError"
  else
    let parsed := parsed ++ List.replicate (ndim - parsed.length) (.slice none none none)
    (List.zipWith (fun x n => parseOne n x) parsed shape).mapM id

/-- A piece produced by `_set_subspace` for one list axis. -/
inductive Piece where
  | sl (start : Int) (stop : Option Int) (step : Option Int)   -- a slice object
  | one (i : Int)                                              -- the list `[start]`
  deriving Repr, DecidableEq

def Piece.positions (n : Nat) : Piece → List Int
  | .sl a b c => slicePositions (some a) b c n
  | .one i => [norm n i]

/-- The slice built for a pair `(start, stop)` with `start ≠ stop`, both already
normalised (as coded after the fix for pairs descending to element 0). -/
def pairSlice (a b : Int) : Piece :=
  let step := b - a
  if 0 < step then .sl a (some (b + 1)) (some step)
  else if b = 0 then .sl a none (some step)
  else .sl a (some (b - 1)) (some step)

/-- The slice as coded *before* the fix: `stop -= 1` unconditionally. -/
def pairSliceOld (a b : Int) : Piece :=
  let step := b - a
  if 0 < step then .sl a (some (b + 1)) (some step)
  else .sl a (some (b - 1)) (some step)

/-- `_set_subspace`: list → pieces (`zip_longest` over pairs). -/
def pairPieces (n : Nat) : List Int → List Piece
  | [] => []
  | [a] => [.sl (norm n a) (some (norm n a + 1)) none]
  | a :: b :: rest =>
    (if norm n a = norm n b then .one (norm n a) else pairSlice (norm n a) (norm n b))
      :: pairPieces n rest

def pairPiecesOld (n : Nat) : List Int → List Piece
  | [] => []
  | [a] => [.sl (norm n a) (some (norm n a + 1)) none]
  | a :: b :: rest =>
    (if norm n a = norm n b then .one (norm n a) else pairSliceOld (norm n a) (norm n b))
      :: pairPiecesOld n rest

/-- `indices2`: the value sub-slice `[lo, hi)` that goes with each piece (for a
value axis of full length; a length-1 value axis is broadcast instead). -/
def valueSlices : Nat → List Piece → List (Nat × Nat)
  | _, [] => []
  | start, p :: ps =>
    let stop := start + 2
    (match p with
     | .one _ => (start + 1, stop)
     | .sl .. => (start, stop)) :: valueSlices stop ps

/-- Per-axis writes of the algorithm: (target position, index into the value
axis of length `m`), in the order performed.  `range(lo, min hi m)`. -/
def pieceWrites (n m : Nat) (p : Piece) (v : Nat × Nat) : List (Int × Nat) :=
  (p.positions n).zip ((List.range (min v.2 m - v.1)).map (· + v.1))

def algoWrites (n : Nat) (l : List Int) : List (Int × Nat) :=
  let ps := pairPieces n l
  (ps.zip (valueSlices 0 ps)).flatMap (fun pv => pieceWrites n l.length pv.1 pv.2)

/-- Per-axis writes of the specification: element `k` of the value goes to
position `norm l[k]`, in order. -/
def specWrites (n : Nat) (l : List Int) : List (Int × Nat) :=
  (l.map (norm n)).zip (List.range l.length)

/-- Final content of an axis after a sequence of writes: last write wins. -/
def lastWrite (ws : List (Int × Nat)) (pos : Int) : Option Nat :=
  (ws.reverse.find? (fun w => w.1 == pos)).map (·.2)

/-- `PropertiesDataBounds.__getitem__`: should the trailing (vertex) axis of
2-valued bounds be reversed, given the parsed selector of axis 0? -/
def boundsReversed (sel : Sel) : Bool :=
  match sel with
  | .slice _ _ (some c) => decide (c < 0)
  | .slice _ _ none => false
  | .list l => match l.head?, l.getLast? with
    | some a, some b => decide (b < a)   -- on normalised (non-negative) indices
    | _, _ => false

/-- `Field.__getitem__`: the dice applied to a construct spanning `caxes`, given
the field's data axes and the parsed per-data-axis selectors; `none` = `slice(None)`. -/
def dice (dataAxes : List String) (sels : List Sel) (caxes : List String) : List (Option Sel) :=
  caxes.map (fun a => match dataAxes.idxOf? a with
    | some k => sels[k]?
    | none => none)

section NdWrites
variable {α β : Type}
/-- Last element of a list satisfying `p`. -/
def lastSat (p : α → Bool) : List α → Option α
  | [] => none
  | x :: xs => match lastSat p xs with
    | some y => some y
    | none => if p x then some x else none

def product : List (List α) → List (List α)
  | [] => [[]]
  | xs :: rest => xs.flatMap (fun x => (product rest).map (fun r => x :: r))

def matchAll : List (β → Bool) → List β → Bool
  | [], [] => true
  | q :: qs, b :: bs => q b && matchAll qs bs
  | _, _ => false

def sequence : List (Option α) → Option (List α)
  | [] => some []
  | none :: _ => none
  | some x :: rest => (sequence rest).map (x :: ·)


/-- One write of an N-d assignment along one axis: (target position, value index). -/
abbrev W := Int × Nat
def qpos (pos : Int) : W → Bool := fun w => w.1 == pos

/-- The order in which `_set_subspace` performs its writes: the Cartesian product of the
per-axis *pieces* (first axis outermost), and inside each piece tuple the Cartesian product
of the positions (a numpy slice assignment, row-major). -/
def algoND (Gs : List (List (List W))) : List (List W) := (product Gs).flatMap product

/-- Groups of writes of one list axis: one group per piece. -/
def listGroups (n : Nat) (l : List Int) : List (List W) :=
  let ps := pairPieces n l
  (ps.zip (valueSlices 0 ps)).map (fun pv => pieceWrites n l.length pv.1 pv.2)
end NdWrites

/-- What is finally found on the target selected by `q` after the writes `ws`: the element of the
value (`value` maps a multi-index into the value to its element; with `β = Option α` the element
carries its mask) of the LAST matching write, or the original element when nothing was written. -/
def finalElem {β : Type} (orig : β) (value : List Nat → β) (q : List W → Bool) (ws : List (List W)) : β :=
  match lastSat q ws with
  | none => orig
  | some w => value (w.map Prod.snd)

/-- `netcdf_indexer.index_shape` for a parsed index tuple. -/
def indexShape (shape : List Nat) (sels : List Sel) : List Nat :=
  List.zipWith (fun s n => match s with
    | .slice a b c => indexShapeSlice a b c n
    | .list l => l.length) sels shape

/-- No consecutive pair `(l[2k], l[2k+1])` repeats a position. -/
def pairsDistinct (n : Nat) : List Int → Bool
  | a :: b :: rest => (norm n a != norm n b) && pairsDistinct n rest
  | _ => true

/-- Equality of arrays of rank `r`: same shape, same element at every multi-index of
length `r`. -/
def Eqv {α} (r : Nat) (B C : Cfdm.Arr.Arr α) : Prop :=
  B.shape = C.shape ∧ ∀ idx : List Nat, idx.length = r → B.get idx = C.get idx

end Cfdm.Indexing
