import Cfdm.Model.NcNames
import Cfdm.Model.NcFile
/-
C08 — the abstract writer: how `_write_dimension_coordinate` and `_write_bounds`
(DESIGN Appendix A.1 steps 3 and 8) combine name allocation (`NcNames`) with the
emission steps on the dataset (`NcFile`), in the order in which the code performs them:

  coordinate:  name ← `_netcdf_name(base)`; `createDimension(name, size)` and
               `ncdim_to_size[name] = size`; the bounds (below); `createVariable(name, (name,))`
               with the `bounds` / `climatology` attribute;
  bounds:      dimension ← `_netcdf_name(nc_get_dimension(bounds, 'bounds<n>'), dimsize=n,
               role='bounds')` — an existing bounds dimension of that size is reused, otherwise
               the new one is created and registered; variable name ←
               `_netcdf_name(nc_get_variable(bounds, <coord>_bounds | 'bounds'))`;
               `createVariable(bounds_name, (coord dims…, dimension))` — before the coordinate
               variable that refers to it.

Sharing with variables already in the file (`_already_in_file`) is not part of this model.

Core Lean only.
-/
namespace Cfdm.NcWrite
open Cfdm.NcNames Cfdm.NcFile

/-- The two halves of the writer's state that matter for the structure of the file. -/
structure W where
  names : St := {}
  file : File := {}
deriving Repr, DecidableEq

structure ABounds where
  ncvar : Option String := none      -- nc_get_variable(bounds)
  ncdim : Option String := none      -- nc_get_dimension(bounds)
  size : Nat := 2                    -- trailing dimension
  climatology : Bool := false
deriving Repr, DecidableEq

/-- `_netcdf_name`; `none` on its two exceptions.  The flag tells a new name from a reused dimension. -/
def reqName (w : W) (base : String) (ds : Option Nat) (role : Option String) : Option (String × Bool × W) :=
  match request true w.names base ds role with
  | (.fresh n, s) => some (n, true, { w with names := s })
  | (.reused n, s) => some (n, false, { w with names := s })
  | _ => none

def emit (w : W) (s : Step) : Option W := (applyStep w.file s).map (fun F => { w with file := F })

/-- `createDimension(name, size)` and `ncdim_to_size[name] = size`. -/
def emitDim (w : W) (n : String) (k : Nat) : Option W :=
  (emit w (.dim n k)).map (fun w => { w with names := regDim w.names n k })

/-- `_write_bounds` for a coordinate variable `pn` on dimensions `pd`. -/
def writeBounds (w : W) (pn : String) (pd : List String) (b : ABounds) : Option (Ref × W) :=
  match reqName w (b.ncdim.getD ("bounds" ++ toString b.size)) (some b.size) (some "bounds") with
  | none => none
  | some (bd, fresh, w1) =>
    match (if fresh then emitDim w1 bd b.size else some w1) with
    | none => none
    | some w2 =>
      match reqName w2 (b.ncvar.getD (if fresh then pn ++ "_bounds" else "bounds")) none none with
      | none => none
      | some (bn, _, w3) =>
        match emit w3 (.var { name := bn, dims := pd ++ [bd] }) with
        | none => none
        | some w4 => some (⟨if b.climatology then .climatology else .bounds, bn⟩, w4)

/-- `_write_dimension_coordinate`, creation branch. -/
def writeDimCoord (w : W) (base : String) (size : Nat) (b : Option ABounds) : Option (String × W) :=
  match reqName w base none none with
  | none => none
  | some (n, _, w1) =>
    match emitDim w1 n size with
    | none => none
    | some w2 =>
      match (match b with
             | none => some ([], w2)
             | some b => (writeBounds w2 n [n] b).map (fun rw => ([rw.1], rw.2))) with
      | none => none
      | some (refs, w3) =>
        match emit w3 (.var { name := n, dims := [n], refs := refs }) with
        | none => none
        | some w4 => some (n, w4)

/-- A whole sequence of coordinates (one per axis), threading the state. -/
def writeDimCoords : W → List (String × Nat × Option ABounds) → Option (List String × W)
  | w, [] => some ([], w)
  | w, (base, size, b) :: cs =>
    match writeDimCoord w base size b with
    | none => none
    | some (n, w') =>
      match writeDimCoords w' cs with
      | none => none
      | some (ns, w'') => some (n :: ns, w'')

end Cfdm.NcWrite
