import Cfdm.Model.Settings
/-
C20 — how tolerance arguments travel down the call tree of an equality test (core Lean only).

Anchors:
  cfdm/mixin/container.py  Container._equals      → `Cmp.helper`  (the ONE place where a tolerance is
                                                     resolved: `if rtol is None: rtol = self._rtol
                                                     else: rtol = float(rtol)`; the resolved numbers are
                                                     handed on as keyword arguments)
  every `equals` method (Field, Domain, Constructs, the construct classes, Bounds, Data, …)
                                                   → `Cmp.method`  (`rtol=rtol, atol=atol` passed on
                                                     unchanged — possibly still `None` — to every
                                                     comparison the method makes)
  np.allclose / np.ma.allclose at the bottom      → `Cmp.arrays`
-/
namespace Cfdm.Settings

/-- The shape of one equality test: which comparisons are made, through which kind of call. -/
inductive Cmp
  | arrays (m : Nat)          -- two arrays differing by 7·2^-m everywhere (|y| = 2): `allclose(x, y, rtol, atol)`
  | same                      -- two identical arrays (or a comparison that involves no numbers)
  | and (x y : Cmp)           -- a method that makes two comparisons (all must hold)
  | method (k : Cmp)          -- `x.equals(y, rtol=rtol, atol=atol, …)`: hands on what it received
  | helper (k : Cmp)          -- `self._equals(x, y, rtol=rtol, atol=atol, …)`: resolves, then hands on
  deriving Repr

/-- `Container._equals`, as coded: `None` → the global value; anything else is used as given
(`float(value)`), zero included. -/
def resolveTol (passed : Option Nat) (glob : Nat) : Nat :=
  match passed with
  | none => glob
  | some k => k

/-- A *changed* resolution that tests truthiness (`float(rtol) if rtol else self._rtol`): a
passed zero is replaced by the global value.  Not the code: the witness that the theorem below
is about `is None`. -/
def resolveTolTruthy (passed : Option Nat) (glob : Nat) : Nat :=
  match passed with
  | none => glob
  | some k => if tolUnits k = 0 then glob else k

/-- `|x - y| <= atol + rtol * |y|` on operands differing by 7·2^-m with |y| = 2 (units of 2^-60). -/
def close (m rt at_ : Nat) : Bool := decide (7 * 2 ^ (60 - m) ≤ tolUnits at_ + 2 * tolUnits rt)

/-- The verdict of the call tree, for a given way of resolving (`res`). -/
def evalWith (res : Option Nat → Nat → Nat) (s : State) : Option Nat → Option Nat → Cmp → Bool
  | r, a, .arrays m => close m (res r s.rtol) (res a s.atol)
  | _, _, .same => true
  | r, a, .and x y => evalWith res s r a x && evalWith res s r a y
  | r, a, .method k => evalWith res s r a k
  | r, a, .helper k => evalWith res s (some (res r s.rtol)) (some (res a s.atol)) k

/-- Specification: every array comparison of the tree is made with one fixed pair of numbers. -/
def specEval (rt at_ : Nat) : Cmp → Bool
  | .arrays m => close m rt at_
  | .same => true
  | .and x y => specEval rt at_ x && specEval rt at_ y
  | .method k => specEval rt at_ k
  | .helper k => specEval rt at_ k

/-- `Data.equals(other, rtol, atol)`: the method, `_equals`, the arrays. -/
def Cmp.data (m : Nat) : Cmp := .method (.helper (.arrays m))

/-- A construct with data and bounds (`PropertiesDataBounds.equals`): properties (no numbers),
`_equals(data, data)` → `Data.equals`, `_equals(bounds, bounds)` → `Bounds.equals` → … -/
def Cmp.construct (mData mBounds : Option Nat) : Cmp :=
  .method (.and .same
    (.and (.helper (match mData with | some m => Cmp.data m | none => .method (.helper .same)))
          (.helper (.method (.and .same
            (.helper (match mBounds with | some m => Cmp.data m | none => .method (.helper .same))))))))

/-- `Field.equals`: its own properties and data, then `Constructs.equals` → each metadata
construct's `equals`. -/
def Cmp.field (mData : Option Nat) (constructs : List Cmp) : Cmp :=
  .method (.and (.helper (match mData with | some m => Cmp.data m | none => .method (.helper .same)))
    (.helper (.method (constructs.foldr (fun c acc => .and (.helper c) acc) .same))))

end Cfdm.Settings
