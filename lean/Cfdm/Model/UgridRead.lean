import Cfdm.Model.Ugrid
/-
C15 — the reader's side of UGRID: which netCDF variable feeds which construct.

Executable model (core Lean only) of the decision core of

* `NetCDFRead._ugrid_cell_dimension`            position of the cell dimension of ONE connectivity variable
* `NetCDFRead._ugrid_parse_mesh_topology`       `mesh.ncdim[location]`, constructs per location
* `NetCDFRead._ugrid_create_domain_topology`    which connectivity feeds the point / edge / face cells
* `NetCDFRead._ugrid_create_cell_connectivities`
* `NetCDFRead._ugrid_create_bounds_from_nodes`
* `NetCDFRead._ugrid_parse_location_index_set`  (a subset of the cells of one location)
* the UGRID part of `NetCDFRead._create_field_or_domain` (a data variable gets the constructs of
  its mesh and location, on the axis of `mesh.ncdim[location]`)
* `Field.__getitem__` on the cell axis, as far as the topology constructs are concerned
  (every construct spanning the axis is indexed with the same positions).

The functions mirror the code *after* the proposed patches
`fixes/C15-edge-face-cells-start-index.patch` (edge/face cells are shifted to zero-based),
`fixes/C15-cell-connectivity-start-index-kept.patch` (the attributes of the connectivity variable
are copied before `start_index` is popped) and `fixes/C15-location-index-set.patch`
(a location index set gets the parent's constructs subspaced by the index set).  The behaviour of
the unpatched code is kept as `…Old`.

The specification (`LMesh`, `specConstructs`) is written from the logical mesh and not from the
file: see the section `Spec` at the end.
-/
namespace Cfdm.UgridRead
open Cfdm.Ugrid

inductive Loc where
  | node | edge | face
  deriving DecidableEq, Repr

/-- A 2-d integer netCDF variable: its dimensions in storage order, the value of its
`start_index` attribute (`attributes.get('start_index', 0)`) and the stored array. -/
structure ConnVar where
  dims : List String
  si : Nat
  data : Mat
  deriving Repr

/-- What the reader looks at in a mesh topology variable, with the variables its attributes name
already looked up (`none` = attribute absent). -/
structure Mesh where
  /-- the dimension of the first node coordinate variable and its size -/
  nodeDim : String
  nNodes : Nat
  /-- `face_dimension` / `edge_dimension` attributes -/
  faceDim : Option String
  edgeDim : Option String
  faceNode : Option ConnVar
  edgeNode : Option ConnVar
  faceFace : Option ConnVar
  /-- the values of one node coordinate variable -/
  coords : List Int
  deriving Repr

/-- `mesh.mesh_attributes.get(f"{location}_dimension")`. -/
def dimAttr (m : Mesh) : Loc → Option String
  | .node => none
  | .edge => m.edgeDim
  | .face => m.faceDim

/-- `_ugrid_cell_dimension(location, connectivity_ncvar, mesh)`: 0 when the mesh has no
`<location>_dimension` attribute, else the position of that dimension among the dimensions of
THIS variable.  `none` is the `ValueError` of `list.index` (the `except IndexError` of the code
does not catch it). -/
def cellDimension (m : Mesh) (loc : Loc) (v : ConnVar) : Option Nat :=
  match dimAttr m loc with
  | none => some 0
  | some d => if v.dims.idxOf d < v.dims.length then some (v.dims.idxOf d) else none

/-- The stored array seen as (cell, other). -/
def oriented (m : Mesh) (loc : Loc) (v : ConnVar) : Option Mat :=
  (cellDimension m loc v).map (fun cd => selectData cd v.data)

/-- `<location>_node_connectivity`. -/
def nodeConn (m : Mesh) : Loc → Option ConnVar
  | .node => none
  | .edge => m.edgeNode
  | .face => m.faceNode

/-- `mesh.ncdim[location]` of `_ugrid_parse_mesh_topology`: the netCDF dimension that the cells
of this location span. -/
def meshNcdim (m : Mesh) : Loc → Option String
  | .node => some m.nodeDim
  | loc => (nodeConn m loc).bind (fun v => (cellDimension m loc v).bind (fun cd => v.dims[cd]?))

/-- `for loc in ("edge", "face", "volume"): … if connectivity_attr in attributes: break`:
the point cells are derived from the edges when there are edges, else from the faces. -/
def pointSource (m : Mesh) : Option (Loc × Src × ConnVar) :=
  match m.edgeNode with
  | some v => some (.edge, .edges, v)
  | none => m.faceNode.map (fun v => (.face, .faces, v))

/-- Patched edge/face branch: `if start_index: data = data - start_index`. -/
def shiftCells (si : Nat) (m : Mat) : Mat := if si ≠ 0 then mapVals (· - si) m else m

/-- `_ugrid_create_domain_topology(…, mesh, location)` (patched).  For the node location the
loop `for loc in ("edge", "face", "volume")` takes the edges when there are edges, else the faces,
and the cell dimension is looked up for THAT location and variable. -/
def domainTopology (m : Mesh) : Loc → Option Mat
  | .node => match m.edgeNode with
      | some v => (oriented m .edge v).map (pointTopology .edges v.si (some m.nNodes))
      | none => m.faceNode.bind (fun v => (oriented m .face v).map (pointTopology .faces v.si (some m.nNodes)))
  | loc => (nodeConn m loc).bind (fun v => (oriented m loc v).map (shiftCells v.si))

/-- Unpatched: the stored edge/face values are handed over. -/
def domainTopologyOld (m : Mesh) : Loc → Option Mat
  | .node => domainTopology m .node
  | loc => (nodeConn m loc).bind (fun v => oriented m loc v)

/-- `_ugrid_create_cell_connectivities`: only for faces, from `face_face_connectivity`, with the
cell dimension of THAT variable. -/
def cellConnectivities (m : Mesh) : Loc → Option Mat
  | .face => m.faceFace.bind (fun v => (oriented m .face v).map (cellConnectivity v.si))
  | _ => none

/-- `_ugrid_create_bounds_from_nodes` for one node coordinate variable: through
`<location>_node_connectivity`. -/
def cellBounds (m : Mesh) : Loc → Option (List (List (Option Int)))
  | .node => none
  | loc => (nodeConn m loc).bind (fun v =>
      (oriented m loc v).map (fun c => boundsFromNodes v.si c m.coords))

/-- The three constructs that a data variable (or a domain) located on `loc` receives. -/
structure Constructs where
  topology : Option Mat
  cconn : Option Mat
  bounds : Option (List (List (Option Int)))
  deriving Repr, DecidableEq

def readLocation (m : Mesh) (loc : Loc) : Constructs :=
  { topology := domainTopology m loc, cconn := cellConnectivities m loc, bounds := cellBounds m loc }

/-! ### a wrong alternative: one cell dimension per (mesh, location) -/

/-- What a cache keyed by (mesh, location) would do: the position found for
`<location>_node_connectivity` is reused for every other connectivity variable of the location. -/
def cellConnectivitiesCached (m : Mesh) : Loc → Option Mat
  | .face => m.faceFace.bind (fun v =>
      ((m.faceNode.bind (cellDimension m .face)).map (fun cd => selectData cd v.data)).map
        (cellConnectivity v.si))
  | _ => none

/-! ### subsets of the cells: location index sets and `Field.__getitem__` -/

/-- `construct[index]` along the cell axis for in-range positions (numpy integer-array indexing
of axis 0; C03 proves that every index form reduces to such a list of positions). -/
def takeRows {α} (pos : List Nat) (m : List α) : List α := pos.filterMap (fun i => m[i]?)

def Constructs.take (pos : List Nat) (c : Constructs) : Constructs :=
  { topology := c.topology.map (takeRows pos),
    cconn := c.cconn.map (takeRows pos),
    bounds := c.bounds.map (takeRows pos) }

/-- `PropertiesDataBounds.__getitem__` (which `Field.__getitem__` calls for the auxiliary
coordinates): the trailing dimension of bounds with at most two dimensions is reversed when the
cell axis is indexed by a slice with a negative step, or by a list whose last position lies before
its first one (and the bounds hold more than one element) — the CF 7.1 rule for 1-d coordinates,
applied to UGRID cell bounds as well.  `step = some s`: the index is a slice with step `s`;
`none`: a list of positions. -/
def boundsReversed (step : Option Int) (pos : List Nat) (bsize : Nat) : Bool :=
  match step with
  | some st => decide (st < 0)
  | none => decide (1 < bsize) &&
      (match pos.head?, pos.getLast? with
       | some f, some l => decide (l < f)
       | _, _ => false)

def arrSize {α} (b : List (List α)) : Nat := b.length * ((b.head?.map List.length).getD 0)

/-- The constructs after `Field.__getitem__` on the cell axis, as coded: rows selected everywhere,
bounds possibly reversed along their trailing dimension. -/
def Constructs.takeIx (step : Option Int) (pos : List Nat) (c : Constructs) : Constructs :=
  { topology := c.topology.map (takeRows pos),
    cconn := c.cconn.map (takeRows pos),
    bounds := c.bounds.map (fun b =>
      if boundsReversed step pos (arrSize b) then (takeRows pos b).map List.reverse else takeRows pos b) }

/-- A location index set variable: its location, `start_index` and stored indices. -/
structure Lis where
  loc : Loc
  si : Nat
  idx : List Nat
  deriving Repr

/-- `index_set = data - start_index`. -/
def Lis.positions (l : Lis) : List Nat := l.idx.map (· - l.si)

/-- Patched `_ugrid_parse_location_index_set`: the parent's constructs at the location,
subspaced by the zero-based index set (`construct[index_set]`, an integer array index, so the
bounds rule above applies). -/
def readLis (m : Mesh) (l : Lis) : Constructs := (readLocation m l.loc).takeIx none l.positions

/-- Unpatched: the `Mesh` object of a location index set has no `ncdim`, so the UGRID mesh is
ignored for the data variable (with a warning) and it gets no construct at all. -/
def readLisOld (_ : Mesh) (_ : Lis) : Constructs := { topology := none, cconn := none, bounds := none }

/-! ### a dataset: several meshes, data variables referring to them -/

/-- What a data variable says about its domain: `mesh` + `location`, or `location_index_set`. -/
inductive Ref where
  | mesh (name : String) (loc : Loc)
  | lis (name : String)
  deriving Repr

structure Dataset where
  meshes : List (String × Mesh)
  /-- location index set variable ↦ (its `mesh` attribute, its contents) -/
  liss : List (String × (String × Lis))

/-- `g["mesh"][…]` and the constructs a data variable receives (`none`: not a UGRID field). -/
def readField (d : Dataset) : Ref → Option Constructs
  | .mesh name loc => (d.meshes.lookup name).map (fun m => readLocation m loc)
  | .lis name => (d.liss.lookup name).bind (fun (mn, l) => (d.meshes.lookup mn).map (fun m => readLis m l))

/-! ### `_ugrid_create_cell_connectivities` before the patch: attributes shared, `start_index` popped -/

/-- The unpatched method pops `start_index` from the variable's attribute dictionary itself (not a
copy).  The first mesh that names the variable sees its start index; every later mesh topology
variable naming the SAME connectivity variable sees 0.  `k` = how many meshes have used it before. -/
def cellConnectivitySharedOld (k : Nat) (si : Nat) (data : Mat) : Mat :=
  cellConnectivity (if k = 0 then si else 0) data

/-! ### Spec — the logical mesh -/

/-- The mesh as the UGRID conventions describe it: zero-based node ids, one row per cell,
short rows padded. -/
structure LMesh where
  nNodes : Nat
  faces : Option Mat
  edges : Option Mat
  /-- `face_face_connectivity`: zero-based faces touched by each face -/
  ff : Option Mat
  coords : List Int

/-- Point cells come from the edges when the mesh has edges, else from the faces. -/
def LMesh.pointCells (lm : LMesh) : Option Mat :=
  match lm.edges with
  | some e => some (pointTopology .edges 0 (some lm.nNodes) e)
  | none => lm.faces.map (fun f => pointTopology .faces 0 (some lm.nNodes) f)

def LMesh.cells (lm : LMesh) : Loc → Option Mat
  | .node => none
  | .edge => lm.edges
  | .face => lm.faces

/-- What the property says a location of the mesh must be given. -/
def specConstructs (lm : LMesh) : Loc → Constructs
  | .node => { topology := lm.pointCells, cconn := none, bounds := none }
  | .edge => { topology := lm.edges, cconn := none,
               bounds := lm.edges.map (fun e => specBounds 0 e lm.coords) }
  | .face => { topology := lm.faces, cconn := lm.ff.map (specCellConnectivity 0),
               bounds := lm.faces.map (fun f => specBounds 0 f lm.coords) }

/-- How ONE variable is stored: its start index and whether the cell dimension comes first (0)
or second (1). -/
structure Enc where
  si : Nat
  cd : Nat
  deriving Repr

/-- The variable that stores the logical (cell, other) array `a` with encoding `e`. -/
def storeVar (cellDim otherDim : String) (e : Enc) (a : Mat) : ConnVar :=
  { dims := if e.cd = 1 then [otherDim, cellDim] else [cellDim, otherDim],
    si := e.si,
    data := if e.cd = 1 then transpose (mapVals (· + e.si) a) else mapVals (· + e.si) a }

/-- The storage choices of a whole mesh: one `Enc` per connectivity variable (independent of each
other) and whether the `face_dimension` / `edge_dimension` attributes are written. -/
structure MeshEnc where
  fn : Enc
  en : Enc
  ff : Enc
  faceDimAttr : Bool
  edgeDimAttr : Bool
  deriving Repr

/-- The mesh topology variable (as the reader sees it) that stores `lm` with the choices `enc`. -/
def encode (lm : LMesh) (enc : MeshEnc) : Mesh :=
  { nodeDim := "nnode", nNodes := lm.nNodes,
    faceDim := if enc.faceDimAttr then some "nface" else none,
    edgeDim := if enc.edgeDimAttr then some "nedge" else none,
    faceNode := lm.faces.map (storeVar "nface" "fW" enc.fn),
    edgeNode := lm.edges.map (storeVar "nedge" "Two" enc.en),
    faceFace := lm.ff.map (storeVar "nface" "ffW" enc.ff),
    coords := lm.coords }

/-- UGRID: a connectivity stored (other, cell) needs the `<location>_dimension` attribute. -/
def MeshEnc.Valid (enc : MeshEnc) : Prop :=
  enc.fn.si ≤ 1 ∧ enc.en.si ≤ 1 ∧ enc.ff.si ≤ 1 ∧
  enc.fn.cd ≤ 1 ∧ enc.en.cd ≤ 1 ∧ enc.ff.cd ≤ 1 ∧
  ((enc.fn.cd = 1 ∨ enc.ff.cd = 1) → enc.faceDimAttr = true) ∧
  (enc.en.cd = 1 → enc.edgeDimAttr = true)

instance (enc : MeshEnc) : Decidable enc.Valid := by unfold MeshEnc.Valid; exact inferInstance

/-- A rectangular array with at least one row and one column. -/
def RectPos {α} (a : List (List α)) : Prop := ∃ w, 0 < w ∧ a ≠ [] ∧ ∀ r ∈ a, r.length = w

/-- The logical mesh is well formed: arrays rectangular and non-empty, node ids in range. -/
structure LMesh.WF (lm : LMesh) : Prop where
  faces : ∀ f, lm.faces = some f → RectPos f
  edges : ∀ e, lm.edges = some e → RectPos e
  ff : ∀ x, lm.ff = some x → RectPos x

end Cfdm.UgridRead
