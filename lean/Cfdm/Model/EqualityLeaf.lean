import Cfdm.Model.Equality
/-
C05 — the leaf of every `equals`: `Container._equals(x, y, rtol, atol, ignore_data_type)`
for two numpy arrays (cfdm/mixin/container.py:89), written statement by statement as the
code performs it, including what numpy does inside `np.allclose` / `np.ma.allclose`
(numpy 2.x `numpy/_core/numeric.py:isclose`, `numpy/ma/core.py:allclose`):

```
x = np.asanyarray(x); y = np.asanyarray(y)
if x.shape != y.shape: return False
if not ignore_data_type and x.dtype != y.dtype:
    if x.dtype.kind not in ('S','U') and y.dtype.kind not in ('S','U'): return False
x_is_masked = np.ma.isMA(x); y_is_masked = np.ma.isMA(y)
if not (x_is_masked or y_is_masked):
    try:    return bool(np.allclose(x, y, rtol=rtol, atol=atol))
    except (IndexError, NotImplementedError, TypeError): return bool(np.all(x == y))
else:
    if x_is_masked and y_is_masked:
        if (x.mask != y.mask).any(): return False
    elif (x_is_masked and x.mask.any()) or (y_is_masked and y.mask.any()): return False
    try:    return bool(np.ma.allclose(x, y, rtol=rtol, atol=atol))
    except (IndexError, NotImplementedError, TypeError):
        out = np.ma.all(x == y)
        return True if out is np.ma.masked else bool(out)
```

Elements are finite numbers (numerators over a common `2^k`, booleans as 0/1), the IEEE
specials NaN / +inf / -inf, or opaque tokens (a string, bytes, an object, a date-time) of which
only identity matters.  `np.allclose` raises `TypeError` exactly when one operand is not of a
numeric kind (`b i u f`): strings (`S U`), objects and date-times (`O M m`).

Also here: `Data.equals` on top of the leaf (`dataLeafEquals`), and the embedding of the coarser
array record of `Model/Equality.lean` (`Arr`, masked = `none`) into this one.

Import-free apart from `Model/Equality` (core Lean only).
-/
namespace Cfdm.Equality.Leaf
open Cfdm.Equality

/-- One array element (the underlying datum, also where the mask hides it). -/
inductive Val where
  | num (v : Int)
  | nan
  | pinf
  | ninf
  /-- a string / bytes / object / date-time element, interned -/
  | tok (s : Int)
  deriving DecidableEq, Repr

/-- What `dtype.kind` decides in `_equals`. -/
inductive Kind where
  /-- `b i u f`: `np.allclose` works -/
  | numeric
  /-- `S U`: `np.allclose` raises `TypeError`; a dtype difference is tolerated -/
  | str
  /-- `O M m`: `np.allclose` raises `TypeError`; a dtype difference is not tolerated -/
  | other
  deriving DecidableEq, Repr

structure LArr where
  shape : List Nat
  /-- the dtype, interned -/
  dtype : Nat
  kind : Kind
  /-- `np.ma.isMA` -/
  isMA : Bool
  /-- `.mask` of a masked array: `none` = `np.ma.nomask` -/
  mask : Option (List Bool)
  /-- row-major underlying data -/
  vals : List Val
  deriving DecidableEq, Repr

def Val.isInf : Val → Bool
  | .pinf => true
  | .ninf => true
  | _ => false

def Val.isFinite : Val → Bool
  | .num _ => true
  | _ => false

/-- numpy's elementwise `x == y` (NaN is not equal to itself; a number never equals a string). -/
def Val.eqv : Val → Val → Bool
  | .num a, .num b => a == b
  | .pinf, .pinf => true
  | .ninf, .ninf => true
  | .tok s, .tok t => s == t
  | _, _ => false

/-- `less_equal(abs(x - y), atol + rtol * abs(y))` in IEEE arithmetic.  `rtolPos`: `rtol > 0`
(then `rtol * inf = inf` and `inf <= inf`; with `rtol = 0`, `0 * inf = nan`). -/
def leAbsDiff (close : Int → Int → Bool) (rtolPos : Bool) : Val → Val → Bool
  | .num a, .num b => close a b
  | .num _, .pinf => rtolPos
  | .num _, .ninf => rtolPos
  | .pinf, .ninf => rtolPos
  | .ninf, .pinf => rtolPos
  | _, _ => false

/-- `np.isclose(x, y, rtol, atol)` elementwise, `equal_nan=False`:
`(less_equal(abs(x - y), atol + rtol * abs(y)) & isfinite(y)) | (x == y)`. -/
def npIsClose (close : Int → Int → Bool) (rtolPos : Bool) (x y : Val) : Bool :=
  (leAbsDiff close rtolPos x y && y.isFinite) || x.eqv y

/-- One position of the two operands: mask bit and underlying datum of each. -/
structure Cell where
  mx : Bool
  vx : Val
  my : Bool
  vy : Val
  deriving DecidableEq, Repr

def cells4 : List Bool → List Val → List Bool → List Val → List Cell
  | mx :: mxs, vx :: vxs, my :: mys, vy :: vys => ⟨mx, vx, my, vy⟩ :: cells4 mxs vxs mys vys
  | _, _, _, _ => []

/-- `np.ma.getmaskarray`: all `False` for a plain `ndarray` and for `nomask`. -/
def LArr.maskArr (x : LArr) : List Bool :=
  if x.isMA then
    match x.mask with
    | some m => m
    | none => List.replicate x.vals.length false
  else List.replicate x.vals.length false

def cells (x y : LArr) : List Cell := cells4 x.maskArr x.vals y.maskArr y.vals

/-- `m = mask_or(getmask(x), getmask(y))` -/
def Cell.m (c : Cell) : Bool := c.mx || c.my
/-- `xinf = np.isinf(masked_array(x, mask=m)).filled(False)` -/
def Cell.xinf (c : Cell) : Bool := !c.m && c.vx.isInf
/-- `filled(np.isinf(y), False)` (masked by `y`'s own mask) -/
def Cell.yinf (c : Cell) : Bool := !c.my && c.vy.isInf
/-- `filled(less_equal(absolute(x - y), atol + rtol * absolute(y)), masked_equal)` -/
def Cell.d (close : Int → Int → Bool) (rtolPos : Bool) (c : Cell) : Bool := c.m || leAbsDiff close rtolPos c.vx c.vy
/-- `filled(x == y, masked_equal)` -/
def Cell.e (c : Cell) : Bool := c.m || c.vx.eqv c.vy

/-- `np.ma.allclose(a, b, masked_equal=True, rtol, atol)` as numpy codes it:
```
m = mask_or(getmask(x), getmask(y))
xinf = np.isinf(masked_array(x, mask=m)).filled(False)
if not np.all(xinf == filled(np.isinf(y), False)): return False
if not np.any(xinf):
    d = filled(less_equal(absolute(x - y), atol + rtol * absolute(y)), masked_equal); return np.all(d)
if not np.all(filled(x[xinf] == y[xinf], masked_equal)): return False
x = x[~xinf]; y = y[~xinf]
d = filled(less_equal(absolute(x - y), atol + rtol * absolute(y)), masked_equal); return np.all(d)
``` -/
def maAllclose (close : Int → Int → Bool) (rtolPos : Bool) (cs : List Cell) : Bool :=
  if !(cs.all (fun c => c.xinf == c.yinf)) then false
  else if !(cs.any Cell.xinf) then cs.all (Cell.d close rtolPos)
  else if !((cs.filter Cell.xinf).all Cell.e) then false
  else (cs.filter (fun c => !c.xinf)).all (Cell.d close rtolPos)

/-- The values, once the masks have been accepted: `np.ma.allclose`, or — when it raises
`TypeError` — `np.ma.all(x == y)`, which skips every position masked on either side and
answers `masked` (→ `True`) when nothing is left. -/
def maValues (close : Int → Int → Bool) (rtolPos : Bool) (numeric : Bool) (cs : List Cell) : Bool :=
  if numeric then maAllclose close rtolPos cs
  else (cs.filter (fun c => !c.m)).all (fun c => c.vx.eqv c.vy)

/-- `Container._equals(x, y, rtol, atol, ignore_data_type)` for two arrays. -/
def leafEquals (close : Int → Int → Bool) (rtolPos : Bool) (ignoreDataType : Bool) (x y : LArr) : Bool :=
  if x.shape != y.shape then false
  else if !ignoreDataType && x.dtype != y.dtype && x.kind != Kind.str && y.kind != Kind.str then false
  else
    let numeric := x.kind == Kind.numeric && y.kind == Kind.numeric
    let cs := cells x y
    if !x.isMA && !y.isMA then
      if numeric then cs.all (fun c => npIsClose close rtolPos c.vx c.vy)
      else cs.all (fun c => c.vx.eqv c.vy)
    else if x.isMA && y.isMA then
      if cs.any (fun c => c.mx != c.my) then false else maValues close rtolPos numeric cs
    else if (x.isMA && cs.any (·.mx)) || (y.isMA && cs.any (·.my)) then false
    else maValues close rtolPos numeric cs

/-! ## `Data.equals` on top of the leaf -/

structure LData where
  /-- `.array` -/
  arr : LArr
  fill : Option Val
  units : Option Nat
  calendar : Option Nat
  deriving DecidableEq, Repr

/-- `Data.equals(other, rtol, atol, ignore_data_type, ignore_fill_value)` for two uncompressed
`Data` (`ignore_compression` plays no role then): shape, fill value, data type (strictly —
no exemption for strings here), units, calendar, then the leaf on `.array`.
The fill values are compared with Python `!=` (`None != None` is `False`; NaN differs from itself). -/
def dataLeafEquals (close : Int → Int → Bool) (rtolPos : Bool) (idt ifv : Bool) (x y : LData) : Bool :=
  x.arr.shape == y.arr.shape
  && (ifv || (match x.fill, y.fill with
              | none, none => true
              | some a, some b => a.eqv b
              | _, _ => false))
  && (idt || x.arr.dtype == y.arr.dtype)
  && x.units == y.units
  && x.calendar == y.calendar
  && leafEquals close rtolPos idt x.arr y.arr

/-! ## The coarse array record of `Model/Equality.lean` seen as a leaf array -/

/-- `Arr` (masked element = `none`, strings by identity) as a masked numpy array: always a
`MaskedArray` with a full mask array; what lies under the mask is irrelevant (NaN here). -/
def embed (a : Arr) : LArr :=
  { shape := a.shape, dtype := a.dtype, kind := if a.isStr then Kind.str else Kind.numeric, isMA := true,
    mask := some (a.vals.map Option.isNone),
    vals := a.vals.map (fun v => match v with
      | none => Val.nan
      | some n => if a.isStr then Val.tok n else Val.num n) }

end Cfdm.Equality.Leaf
