import Cfdm.Model.Globals
/-
C09 — the properties of several fields that share one dataset.

Writer side: `Cfdm.Globals` (the model of `NetCDFWrite._write_global_attributes(fields)` and of
`omit = g['global_attributes']` in `_write_field_or_domain`, shared with C08): a candidate property
becomes a netCDF global attribute iff EVERY field has it with an equal value; the data variable of
each field then omits it.

Reader side (netcdfread.py `_create_field_or_domain`):

    field_properties = g["global_attributes"].copy()
    field_properties.update(g["variable_attributes"][field_ncvar])

i.e. every data variable inherits every global attribute of the dataset and its own attributes
win.  `readProps` is that dictionary, `readBack` the composition "write `fs` with options `o`,
read the data variable of `f`".  `Conventions` is set by the writer itself on every dataset and is
left out of what is compared.

`identicalSkip` / `globalSetSkip` / `readBackSkip` are the rule with the test "every field has it"
weakened to "no field that has it contradicts field 0" (what a loop that skips fields lacking the
property computes): kept only to show by a concrete witness that the weaker rule makes a field
inherit another field's property.

Core Lean only.
-/
namespace Cfdm.SharedProps
open Cfdm.Globals

/-- `d = globals.copy(); d.update(vattrs)` as a list: the variable's own attributes, then the
global attributes the variable does not have. -/
def readProps (globals vattrs : List (String × Val)) : List (String × Val) :=
  vattrs ++ globals.filter (fun kv => !(keys vattrs).contains kv.1)

/-- `d.get(p)` for that dictionary. -/
def readLookup (globals vattrs : List (String × Val)) (p : String) : Option Val :=
  match lookup p vattrs with
  | some v => some v
  | none => lookup p globals

/-- The properties field `f` is read back with from the dataset `cfdm.write(fs, **o)`. -/
def readBackProps (o : Opts) (fs : List FieldG) (f : FieldG) : List (String × Val) :=
  readProps (writtenGlobals o fs) (variableAttrs o fs f)

/-- … as a function of the property name. -/
def readBack (o : Opts) (fs : List FieldG) (f : FieldG) (p : String) : Option Val :=
  readLookup (writtenGlobals o fs) (variableAttrs o fs f) p

/-- The observable compared between orders and with the single-file writes: every property but
`Conventions`. -/
def obs (o : Opts) (fs : List FieldG) (f : FieldG) (p : String) : Option Val :=
  if p = "Conventions" then none else readBack o fs f p

/-- No field forces a global attribute value (`nc_set_global_attribute(name, value)`); flags
(`nc_set_global_attribute(name)`) are allowed. -/
def NoForced (fs : List FieldG) : Prop := ∀ f ∈ fs, ∀ kv ∈ f.ncg, kv.2 = none

instance (fs : List FieldG) : Decidable (NoForced fs) := by unfold NoForced; infer_instance

/-! ### the weakened rule (fields lacking the property are skipped) -/

def identicalSkip (fs : List FieldG) (p : String) : Option Val :=
  match fs with
  | [] => none
  | f0 :: rest =>
    match lookup p f0.props with
    | none => none
    | some v0 =>
      if rest.all (fun f => match lookup p f.props with | none => true | some v => v == v0) then some v0 else none

def globalSetSkip (o : Opts) (fs : List FieldG) : List String :=
  dedup ((candidates o fs).filter (fun p =>
      !o.varAttrs.contains p && !(keys o.fileDesc).contains p && !(keys (forceKept o fs)).contains p
      && (identicalSkip fs p).isSome))

def readBackSkip (o : Opts) (fs : List FieldG) (f : FieldG) (p : String) : Option Val :=
  readLookup
    (o.fileDesc ++ ((globalSetSkip o fs).filter (· != "Conventions")).filterMap (fun p => (identicalSkip fs p).map (fun v => (p, v)))
      ++ (forceKept o fs).filter (·.1 != "Conventions"))
    (f.props.filter (fun kv => !(globalSetSkip o fs).contains kv.1)) p

end Cfdm.SharedProps
