/-
C10 — model of the file-name bookkeeping behind the overwrite guard of `cfdm.write`
(core Lean only; no Mathlib).

What is mirrored (cfdm 1.11.2.0, numpy-backed `Data`):

* every object of a class that mixes in `cfdm.mixin.Files` carries an
  `'original_filenames'` component (`own` below); `_original_filenames()` aggregates it
  over the object tree: `FieldDomain` over the metadata constructs, `PropertiesDataBounds`
  over bounds and interior ring, `PropertiesData` over its data, `Data` over its source array's
  files and its count/index/list variables (`…New`).  Before repair 7723aa6 no class descended
  from a construct into its data (`…Old`).
* `get_filenames()` as coded (`needCode`): the file array of the field's own data and of the
  data of each metadata construct — not bounds, not interior rings, not count/index/list
  variables.  The *specification* of "files still needed" (`need`) is every file array that
  is a leaf of the tree.  (The deeper tree — tie point index / interpolation parameter
  variables, dependent tie points, node coordinates — is the subject of `Model/FilesTree.lean`.)
* the deriving operations (copy, `Field(source=)`, subspace, squeeze, transpose,
  insert_dimension, get_domain, convert, del/set construct, set_data / set_bounds with
  another construct's data, to_memory) with the propagation the code performs: the
  components are copied; a subspace / non-trivial squeeze / transpose / insert_dimension
  fetches the numpy array at once (the file array and the compression variables are dropped).
* `NetCDFWrite.write` / `_file_io_iteration` / `file_open`: argument validation, (append:
  the file is read first), existence + `overwrite` check, the guard, `os.remove`,
  `netCDF4.Dataset(...)`, emission of each field (from a copy), close, then the external
  file.  The file system has regular files and one level of symbolic links (chains of links,
  hard links, spellings and the expansion of `~` / `$VAR`: `Model/FilesPath.lean`).

`Ver.new` is the code at /repo HEAD, `Ver.old` the code before the repairs 7723aa6 and 22fef00
(recorded as `fixed:` in known_findings.json), which
  (i)   made `_original_filenames()` descend into data and include the source array's files;
  (ii)  made the guard compare `os.path.realpath` on both sides instead of `abspath` names;
  (iii) check the `external=` file (always overwritten by a nested write) against the
        fields being written before anything is opened;
  (iv)  apply the guard in mode 'a' / 'r+' as well.
-/
namespace Cfdm.Files

/-- A path after `os.path.abspath` (symbolic). -/
abbrev Name := Nat

/-! ## Object trees -/

/-- A count / index / list variable: a `PropertiesData` with its `Data`. -/
structure Anc where
  own : List Name        -- component of the variable
  dOwn : List Name       -- component of its Data
  dFiles : List Name     -- files of its Data's source array ([] = in memory)
deriving Repr, DecidableEq, Inhabited

/-- A `Data` object. -/
structure DataM where
  own : List Name
  files : List Name
  ancils : List Anc
deriving Repr, DecidableEq, Inhabited

/-- Bounds or interior ring: a `PropertiesData`. -/
structure Holder where
  own : List Name
  data : Option DataM
deriving Repr, DecidableEq, Inhabited

inductive CType | dim | aux | msr | fanc | danc | topo | conn | ref
deriving Repr, DecidableEq, Inhabited

/-- A metadata construct (coordinate references are constructs without data). -/
structure Cons where
  key : String
  ctype : CType
  own : List Name
  data : Option DataM
  bounds : Option Holder
  ring : Option Holder
  axes : List String
  external : Bool := false
  refCoords : List String := []     -- coordinate reference: coordinate keys
  refAncs : List String := []       -- coordinate reference: domain ancillary keys
deriving Repr, DecidableEq, Inhabited

/-- A field or a domain. -/
structure FieldM where
  isDomain : Bool
  own : List Name
  data : Option DataM
  dataAxes : List String
  axes : List (String × Nat)
  cons : List Cons
deriving Repr, DecidableEq, Inhabited

/-! ## Specification: the files an object still needs -/

def Anc.need (a : Anc) : List Name := a.dFiles
def DataM.need (d : DataM) : List Name := d.files ++ d.ancils.flatMap Anc.need
def dataNeed : Option DataM → List Name
  | none => []
  | some d => d.need
def Holder.need (h : Holder) : List Name := dataNeed h.data
def holderNeed : Option Holder → List Name
  | none => []
  | some h => h.need
def Cons.need (c : Cons) : List Name := dataNeed c.data ++ holderNeed c.bounds ++ holderNeed c.ring
def FieldM.need (f : FieldM) : List Name := dataNeed f.data ++ f.cons.flatMap Cons.need

/-! ## `get_filenames()` as coded -/

def dataFiles : Option DataM → List Name
  | none => []
  | some d => d.files
def Cons.needCode (c : Cons) : List Name := dataFiles c.data
def FieldM.needCode (f : FieldM) : List Name :=
  (if f.isDomain then [] else dataFiles f.data) ++ f.cons.flatMap Cons.needCode

/-! ## `_original_filenames()` — the code before repair 7723aa6 -/

def Anc.origOld (a : Anc) : List Name := a.own
def DataM.origOld (d : DataM) : List Name := d.own ++ d.ancils.flatMap Anc.origOld
def holderOwn : Option Holder → List Name
  | none => []
  | some h => h.own
def Cons.origOld (c : Cons) : List Name := c.own ++ holderOwn c.bounds ++ holderOwn c.ring
def FieldM.origOld (f : FieldM) : List Name := f.own ++ f.cons.flatMap Cons.origOld

/-! ## `_original_filenames()` — the code at /repo HEAD -/

def Anc.origNew (a : Anc) : List Name := a.own ++ (a.dOwn ++ a.dFiles)
def DataM.origNew (d : DataM) : List Name := d.own ++ d.files ++ d.ancils.flatMap Anc.origNew
def dataOrigNew : Option DataM → List Name
  | none => []
  | some d => d.origNew
def Holder.origNew (h : Holder) : List Name := h.own ++ dataOrigNew h.data
def holderOrigNew : Option Holder → List Name
  | none => []
  | some h => h.origNew
def Cons.origNew (c : Cons) : List Name :=
  c.own ++ dataOrigNew c.data ++ holderOrigNew c.bounds ++ holderOrigNew c.ring
def FieldM.origNew (f : FieldM) : List Name :=
  f.own ++ dataOrigNew f.data ++ f.cons.flatMap Cons.origNew

/-- Which version of the code. -/
inductive Ver | old | new
deriving Repr, DecidableEq, Inhabited

def FieldM.orig : Ver → FieldM → List Name
  | .old, f => f.origOld
  | .new, f => f.origNew
def Cons.orig : Ver → Cons → List Name
  | .old, c => c.origOld
  | .new, c => c.origNew
def DataM.orig : Ver → DataM → List Name
  | .old, d => d.origOld
  | .new, d => d.origNew
def Holder.orig : Ver → Holder → List Name
  | .old, h => h.own
  | .new, h => h.origNew

/-! ## Data-level transitions -/

/-- `array[indices]`, `np.squeeze(self.array)`, … : the numpy array replaces the source. -/
def DataM.fetch (d : DataM) : DataM := { d with files := [], ancils := [] }
/-- `Data.to_memory`: stays compressed, count/index/list variables brought to memory. -/
def DataM.toMem (d : DataM) : DataM :=
  { d with files := [], ancils := d.ancils.map (fun a => { a with dFiles := [] }) }
/-- `Data(d.source())`: a new `Data` around the same source array. -/
def DataM.raw (d : DataM) : DataM := { d with own := [] }

def Holder.fetch (h : Holder) : Holder := { h with data := h.data.map DataM.fetch }
def Holder.toMem (h : Holder) : Holder := { h with data := h.data.map DataM.toMem }

/-- `construct[indices]` (`PropertiesDataBounds.__getitem__`). -/
def Cons.fetch (c : Cons) : Cons :=
  { c with data := c.data.map DataM.fetch, bounds := c.bounds.map Holder.fetch,
           ring := c.ring.map Holder.fetch }
/-- `construct.to_memory()` (`PropertiesDataBounds.to_memory`). -/
def Cons.toMem (c : Cons) : Cons :=
  { c with data := c.data.map DataM.toMem, bounds := c.bounds.map Holder.toMem,
           ring := c.ring.map Holder.toMem }

/-! ## Field-level transitions -/

def subsetOf (a b : List String) : Bool := a.all (fun x => b.contains x)
def meets (a b : List String) : Bool := a.any (fun x => b.contains x)

def FieldM.findCons (f : FieldM) (k : String) : Option Cons := f.cons.find? (·.key == k)
def FieldM.axisSize (f : FieldM) (a : String) : Option Nat := (f.axes.find? (·.1 == a)).map (·.2)

/-- `f[indices]` with a real index: data and every construct spanning a data axis are
subspaced, i.e. fetched; `sizes` are the new sizes of the data axes. -/
def FieldM.sub (f : FieldM) (sizes : List Nat) : FieldM :=
  let newSize := fun (a : String) (n : Nat) =>
    match (f.dataAxes.zip sizes).find? (·.1 == a) with
    | some p => p.2
    | none => n
  { f with
    data := f.data.map DataM.fetch
    axes := f.axes.map (fun p => (p.1, newSize p.1 p.2))
    cons := f.cons.map (fun c => if meets c.axes f.dataAxes then c.fetch else c) }

/-- `f.squeeze()`: no-op on the data unless some data axis has size 1. -/
def FieldM.squeeze (f : FieldM) : FieldM :=
  let unit := fun a => f.axisSize a == some 1
  if f.dataAxes.any unit then
    { f with data := f.data.map DataM.fetch, dataAxes := f.dataAxes.filter (fun a => !unit a) }
  else f

/-- `f.transpose()` (constructs=False): reverses the data axes; no-op below two dimensions. -/
def FieldM.transpose (f : FieldM) : FieldM :=
  if f.dataAxes.length ≥ 2 then
    { f with data := f.data.map DataM.fetch, dataAxes := f.dataAxes.reverse }
  else f

/-- `f.insert_dimension(a)` for a size-1 axis `a` not spanned by the data. -/
def FieldM.insdim (f : FieldM) (a : String) : Option FieldM :=
  if f.axisSize a == some 1 && !f.dataAxes.contains a && f.data.isSome then
    some { f with data := f.data.map DataM.fetch, dataAxes := a :: f.dataAxes }
  else none

/-- `f.get_domain()` (`Domain.fromconstructs`: a fresh `Domain`, no cell methods / field
ancillaries). -/
def FieldM.domain (f : FieldM) : FieldM :=
  { isDomain := true, own := [], data := none, dataAxes := [], axes := f.axes,
    cons := f.cons.filter (fun c => c.ctype != CType.fanc) }

def CType.isCoordLike : CType → Bool
  | .dim | .aux | .msr | .topo | .conn => true
  | _ => false

/-- `f.convert(key)` with `full_domain=True`. -/
def FieldM.convert (f : FieldM) (k : String) : Option FieldM :=
  match f.findCons k with
  | none => none
  | some c =>
    match c.data with
    | none => none
    | some d =>
      let within := fun (x : Cons) => subsetOf x.axes c.axes
      let coords := f.cons.filter (fun x => x.ctype.isCoordLike && within x)
      let okRef := fun (r : Cons) =>
        r.ctype == CType.ref &&
        (r.refCoords.any (fun ck => match f.findCons ck with
                                     | some x => within x
                                     | none => false)) &&
        r.refAncs.all (fun ak => match f.findCons ak with
                                   | some x => within x
                                   | none => true)
      let refs := (f.cons.filter okRef).map (fun r =>
        { r with refCoords := r.refCoords.filter (fun ck => match f.findCons ck with
                                                            | some x => within x
                                                            | none => false) })
      let ancKeys := refs.flatMap (·.refAncs)
      let ancs := f.cons.filter (fun x => x.ctype == CType.danc && ancKeys.contains x.key)
      some { isDomain := false, own := c.own, data := some d, dataAxes := c.axes
             axes := f.axes.filter (fun p => c.axes.contains p.1)
             cons := coords ++ refs ++ ancs }

def FieldM.delCons (f : FieldM) (k : String) : FieldM :=
  { f with cons := f.cons.filter (fun c => c.key != k) }

/-- `f.set_construct(c, key=k, axes=…)`. -/
def FieldM.setCons (f : FieldM) (c : Cons) : FieldM :=
  { f with cons := f.cons.filter (fun x => x.key != c.key) ++ [c] }

def FieldM.mapCons (f : FieldM) (k : String) (g : Cons → Cons) : FieldM :=
  { f with cons := f.cons.map (fun c => if c.key == k then g c else c) }

/-- A place where a `Data` lives. -/
inductive Slot
  | fdata                  -- the field's own data
  | cdata (k : String)     -- the data of construct k
  | bdata (k : String)     -- the data of the bounds of construct k
deriving Repr, DecidableEq, Inhabited

def FieldM.getData (f : FieldM) : Slot → Option DataM
  | .fdata => f.data
  | .cdata k => (f.findCons k).bind (·.data)
  | .bdata k => ((f.findCons k).bind (·.bounds)).bind (·.data)

/-- `x.set_data(d)`; `x` must be able to hold it (existing bounds for `bdata`). -/
def FieldM.setData (f : FieldM) (s : Slot) (d : DataM) : Option FieldM :=
  match s with
  | .fdata => if f.isDomain then none else some { f with data := some d }
  | .cdata k =>
    match f.findCons k with
    | none => none
    | some _ => some (f.mapCons k (fun c => { c with data := some d }))
  | .bdata k =>
    match (f.findCons k).bind (·.bounds) with
    | none => none
    | some _ => some (f.mapCons k (fun c => { c with bounds := c.bounds.map (fun b => { b with data := some d }) }))

/-- `f.to_memory()` / `c.to_memory()`. -/
inductive MemTarget | field | cons (k : String) | all
deriving Repr, DecidableEq, Inhabited

def FieldM.toMem (f : FieldM) : MemTarget → FieldM
  | .field => { f with data := f.data.map DataM.toMem }
  | .cons k => f.mapCons k Cons.toMem
  | .all => { f with data := f.data.map DataM.toMem, cons := f.cons.map Cons.toMem }

/-! ## Histories -/

/-- One step of a derivation history.  Registers are numbered from 0; every operation
appends its result as a new register (`inplace = true`: replaces register `r`). -/
inductive Op
  | copy (r : Nat)                         -- r.copy()
  | source (r : Nat)                       -- Field(source=r) / Domain(source=r)
  | subE (r : Nat)                         -- r[...]
  | sub (r : Nat) (sizes : List Nat)       -- r[indices]
  | squeeze (r : Nat)
  | transpose (r : Nat)
  | insdim (r : Nat) (a : String)
  | domain (r : Nat)                       -- r.get_domain() / r.domain
  | convert (r : Nat) (k : String)
  | delcons (r : Nat) (k : String) (inplace : Bool)
  | setcons (r : Nat) (src : Nat) (k : String) (newKey : String) (axes : List String) (inplace : Bool)
  | setdata (r : Nat) (dst : Slot) (src : Nat) (from_ : Slot) (raw : Bool) (inplace : Bool)
  | setbounds (r : Nat) (k : String) (src : Nat) (k' : String) (inplace : Bool)
  | delbounds (r : Nat) (k : String) (inplace : Bool)
  | tomem (r : Nat) (t : MemTarget) (inplace : Bool)
  | assign (r : Nat) (s : Slot) (inplace : Bool)            -- x.data[...] = value (`Data.__setitem__`)
  | setext (r : Nat) (k : String) (inplace : Bool)          -- cell measure k: nc_set_external(True)
  | addmsr (r : Nat) (k : String) (axes : List String) (inplace : Bool)
      -- a new external cell measure with in-memory data
deriving Repr, DecidableEq, Inhabited

abbrev Regs := List FieldM

def put (rs : Regs) (r : Nat) (inplace : Bool) (f : FieldM) : Regs :=
  if inplace then rs.set r f else rs ++ [f]

/-- One step; `none` = the operation is rejected (the registers are unchanged). -/
def step (rs : Regs) : Op → Option Regs
  | .copy r => (rs[r]?).map (fun f => rs ++ [f])
  | .source r => (rs[r]?).map (fun f => rs ++ [f])
  | .subE r => (rs[r]?).map (fun f => rs ++ [f])
  | .sub r sizes => (rs[r]?).bind (fun f => if f.isDomain || f.data.isNone then none else some (rs ++ [f.sub sizes]))
  | .squeeze r => (rs[r]?).bind (fun f => if f.isDomain || f.data.isNone then none else some (rs ++ [f.squeeze]))
  | .transpose r => (rs[r]?).bind (fun f => if f.isDomain || f.data.isNone then none else some (rs ++ [f.transpose]))
  | .insdim r a => (rs[r]?).bind (fun f => if f.isDomain then none else (f.insdim a).map (fun g => rs ++ [g]))
  | .domain r => (rs[r]?).map (fun f => rs ++ [f.domain])
  | .convert r k => (rs[r]?).bind (fun f => (f.convert k).map (fun g => rs ++ [g]))
  | .delcons r k ip => (rs[r]?).bind (fun f =>
      match f.findCons k with
      | none => none
      | some _ => some (put rs r ip (f.delCons k)))
  | .setcons r src k nk axes ip => (rs[r]?).bind (fun f => (rs[src]?).bind (fun g =>
      match g.findCons k with
      | none => none
      | some c => some (put rs r ip (f.setCons { c with key := nk, axes := axes }))))
  | .setdata r dst src fr raw ip => (rs[r]?).bind (fun f => (rs[src]?).bind (fun g =>
      match g.getData fr with
      | none => none
      | some d => (f.setData dst (if raw then d.raw else d)).map (fun f' => put rs r ip f')))
  | .setbounds r k src k' ip => (rs[r]?).bind (fun f => (rs[src]?).bind (fun g =>
      match f.findCons k, (g.findCons k').bind (·.bounds) with
      | some _, some b => some (put rs r ip (f.mapCons k (fun c => { c with bounds := some b })))
      | _, _ => none))
  | .delbounds r k ip => (rs[r]?).bind (fun f =>
      match (f.findCons k).bind (·.bounds) with
      | none => none
      | some _ => some (put rs r ip (f.mapCons k (fun c => { c with bounds := none }))))
  | .tomem r t ip => (rs[r]?).map (fun f => put rs r ip (f.toMem t))
  | .assign r sl ip => (rs[r]?).bind (fun f =>
      match f.getData sl with
      | none => none
      | some d => (f.setData sl d.fetch).map (fun f' => put rs r ip f'))
  | .setext r k ip => (rs[r]?).bind (fun f =>
      match f.findCons k with
      | none => none
      | some c => if c.ctype == CType.msr then some (put rs r ip (f.mapCons k (fun c => { c with external := true })))
                  else none)
  | .addmsr r k axes ip => (rs[r]?).map (fun f =>
      put rs r ip (f.setCons { key := k, ctype := .msr, own := [], data := some ⟨[], [], []⟩, bounds := none,
                               ring := none, axes := axes, external := true }))

/-- A whole history; rejected operations are skipped. -/
def run (rs : Regs) : List Op → Regs
  | [] => rs
  | op :: ops => run ((step rs op).getD rs) ops

/-- Operations that move a `Data` (or bounds) from one holder to another. -/
def Op.isTransplant : Op → Bool
  | .setdata .. => true
  | .setbounds .. => false   -- the bounds object keeps its own component
  | _ => false

/-! ## File system -/

/-- Contents of a regular file: the tokens of what has been written. -/
abbrev Content := List Nat

inductive Entry
  | file (c : Content)
  | link (to : Name)
deriving Repr, DecidableEq, Inhabited

abbrev FS := Name → Option Entry

def FS.set (fs : FS) (n : Name) (e : Option Entry) : FS := fun m => if m = n then e else fs m

/-- `os.path.realpath` (one level of links). -/
def FS.real (fs : FS) (n : Name) : Name :=
  match fs n with
  | some (.link t) => t
  | _ => n

/-- What reading through name `n` yields. -/
def FS.read (fs : FS) (n : Name) : Option Content :=
  match fs (fs.real n) with
  | some (.file c) => some c
  | _ => none

def FS.isfile (fs : FS) (n : Name) : Bool := (fs.read n).isSome

/-- Links point at regular files (no chains, no dangling links). -/
def FS.WF (fs : FS) : Prop := ∀ n t, fs n = some (.link t) → ∃ c, fs t = some (.file c)

inductive Mode | w | a
deriving Repr, DecidableEq, Inhabited

/-- Where an injected failure strikes. -/
inductive Fault
  | none
  | pre                 -- argument validation, before any file access
  | emit (i : Nat)      -- while field number i is being written
deriving Repr, DecidableEq, Inhabited

inductive Outcome
  | ok
  | osError             -- refused: existing file and overwrite=False / file to append to is missing
  | valueError          -- refused: the guard (or the validation of the arguments)
  | failed              -- an exception after the output file was opened
deriving Repr, DecidableEq, Inhabited

structure Req where
  fields : List FieldM
  target : Name
  mode : Mode
  overwrite : Bool
  external : Option Name
  fault : Fault
  omitData : Bool := false     -- omit_data='all': no data are read while writing
deriving Repr, Inhabited

/-- Does the guard refuse to delete `n`?  `old`: `abspath(n) in original_filenames`;
`new`: compared after `realpath` on both sides. -/
def guardHits (v : Ver) (fs : FS) (fields : List FieldM) (n : Name) : Bool :=
  match v with
  | .old => fields.any (fun f => (f.orig .old).contains n)
  | .new => fields.any (fun f => (f.orig .new).any (fun o => fs.real o == fs.real n))

/-- `convert(key, full_domain=False)`: the construct's data as a field of its own. -/
def Cons.bare (c : Cons) : FieldM :=
  { isDomain := false, own := c.own, data := c.data, dataAxes := c.axes, axes := [], cons := [] }

/-- The fields written to the external file: every external cell measure that has data. -/
def externalFields (fields : List FieldM) : List FieldM :=
  fields.flatMap (fun f =>
    (f.cons.filter (fun c => c.ctype == CType.msr && c.external && c.data.isSome)).map Cons.bare)

/-- Is `old` still what reading yields, possibly with more appended? -/
def stillThere : Option Content → Option Content → Bool
  | some old, some new => old.isPrefixOf new
  | _, _ => false

/-- Every file a field still needs can be read and holds what it held when the write began. -/
def readable (fs0 fs : FS) (f : FieldM) : Bool :=
  f.need.all (fun n => stillThere (fs0.read n) (fs.read n))

/-- One more token at the end of the regular file `t`. -/
def FS.append (fs : FS) (t : Name) (x : Nat) : FS :=
  match fs t with
  | some (.file c) => fs.set t (some (.file (c ++ [x])))
  | _ => fs

/-- Emission of the fields (token `tok i` each) into the regular file `t`; stops at an
injected fault or when a field's lazy data can no longer be read. -/
def emit (fs0 : FS) (fault : Fault) (skip : Bool) (t : Name) (tok : Nat → Nat) :
    FS → Nat → List FieldM → FS × Bool
  | fs, _, [] => (fs, true)
  | fs, i, f :: rest =>
    if fault = Fault.emit i ∨ (skip = false ∧ readable fs0 fs f = false) then (fs, false)
    else emit fs0 fault skip t tok (fs.append t (tok i)) (i + 1) rest

/-- The guard of `file_open` for the file about to be deleted (mode w) or appended to. -/
def tgtGuard (v : Ver) (fs : FS) (fields : List FieldM) (target : Name) : Bool :=
  !fields.isEmpty && guardHits v fs fields target

/-- Opening the output file in mode `w` (`file_open`): guard, `os.remove`, create. -/
def openW (v : Ver) (fs : FS) (fields : List FieldM) (target : Name) : Option FS :=
  if tgtGuard v fs fields target = true then none
  else
    -- os.remove(filename) when the file exists: removes the name itself (a link, not its target)
    let fs1 := if fs.isfile target = true then fs.set target none else fs
    -- netCDF4.Dataset(filename, 'w'): a new empty regular file under that name
    some (fs1.set target (some (.file [])))

/-- The external file is written by a nested `write` (mode w, same `overwrite`); its
exceptions surface after the main file has been written (`failed`). -/
def writeExternalTo (v : Ver) (fs0 fs : FS) (rq : Req) (e : Name) : FS × Outcome :=
  let xs := externalFields rq.fields
  if xs.isEmpty = true then (fs, .ok)
  else if (fs.isfile e && !rq.overwrite) = true then (fs, .failed)
  else match openW v fs xs e with
    | none => (fs, .failed)
    | some fs1 =>
      let r := emit fs0 .none rq.omitData e (fun i => 1000 + i) fs1 0 xs
      (r.1, if r.2 = true then .ok else .failed)

def writeExternal (v : Ver) (fs0 fs : FS) (rq : Req) : FS × Outcome :=
  match rq.external with
  | none => (fs, .ok)
  | some e => writeExternalTo v fs0 fs rq e

/-- `external` names the file `t` itself ("Can't set filename and external to the same path"). -/
def extIs (fs : FS) (ext : Option Name) (t : Name) : Bool :=
  match ext with
  | some e => fs.real e == t
  | none => false

/-- Since repair 22fef00: the external file (always overwritten) is checked like the target. -/
def extGuard (v : Ver) (fs : FS) (fields : List FieldM) (ext : Option Name) : Bool :=
  match v, ext with
  | .new, some e => guardHits .new fs fields e
  | _, _ => false

/-- Since repair 22fef00: the guard also covers mode 'a'. -/
def appGuard (v : Ver) (fs : FS) (fields : List FieldM) (target : Name) : Bool :=
  match v with
  | .new => tgtGuard .new fs fields target
  | .old => false

/-- mode 'a' / 'r+' -/
def writeA (v : Ver) (fs : FS) (rq : Req) : FS × Outcome :=
  -- the file is read first (dry run); it must exist
  if fs.isfile rq.target = false then (fs, .osError)
  -- dry run: `external` must not be the file itself
  else if extIs fs rq.external (fs.real rq.target) = true then (fs, .valueError)
  else if extGuard v fs rq.fields rq.external = true then (fs, .valueError)
  else if appGuard v fs rq.fields rq.target = true then (fs, .valueError)
  else
    let r := emit fs rq.fault rq.omitData (fs.real rq.target) (fun i => i) fs 0 rq.fields
    if r.2 = false then (r.1, .failed)
    else writeExternal v fs r.1 rq

/-- what happens once the output file has been opened in mode 'w' -/
def writeWOpened (v : Ver) (fs fs1 : FS) (rq : Req) : FS × Outcome :=
  -- "Can't set filename and external to the same path" is only noticed after `file_open`
  if extIs fs1 rq.external (fs1.real rq.target) = true then (fs1, .failed)
  else
    let r := emit fs rq.fault rq.omitData rq.target (fun i => i) fs1 0 rq.fields
    if r.2 = false then (r.1, .failed)
    else writeExternal v fs r.1 rq

/-- mode 'w' -/
def writeW (v : Ver) (fs : FS) (rq : Req) : FS × Outcome :=
  if (fs.isfile rq.target && !rq.overwrite) = true then (fs, .osError)
  else if extGuard v fs rq.fields rq.external = true then (fs, .valueError)
  else match openW v fs rq.fields rq.target with
    | none => (fs, .valueError)
    | some fs1 => writeWOpened v fs fs1 rq

/-- `cfdm.write(fields, target, mode=…, overwrite=…, external=…)`. -/
def writeProc (v : Ver) (fs : FS) (rq : Req) : FS × Outcome :=
  if rq.fault = Fault.pre then (fs, .valueError)
  else match rq.mode with
    | .a => writeA v fs rq
    | .w => writeW v fs rq

/-! ## The writer's working copy (object identity) -/

/-- A heap of mutable cells (properties, netCDF names, data state … of one object each). -/
abbrev Heap := Nat → Nat

/-- An object graph known by the cells it is made of. -/
abbrev Obj := List Nat

def view (h : Heap) (o : Obj) : List Nat := o.map h

/-- `copy()`: the cells of the copy.  Fresh cells `next, next+1, …`, except that the
positions listed in `shared` keep the original's cell (a deep copy has `shared = []`). -/
def copyCells (next : Nat) (o : Obj) (shared : List Nat) : Obj :=
  (List.range o.length).map (fun i => if shared.contains i then o.getD i 0 else next + i)

/-- `copy()`: the heap afterwards — every fresh cell holds the value of the cell it copies. -/
def copyHeap (h : Heap) (next : Nat) (o : Obj) (shared : List Nat) : Heap :=
  fun c => if next ≤ c ∧ c - next < o.length ∧ shared.contains (c - next) = false
           then h (o.getD (c - next) 0) else h c

/-- What the writer does to its working copy: set cell number `pos` of the copy to `val`
(insert a dimension, squeeze, rename the list variable, …). -/
structure Mut where
  pos : Nat
  val : Nat
deriving Repr, DecidableEq

def applyMut (h : Heap) (o : Obj) (m : Mut) : Heap :=
  match o[m.pos]? with
  | some c => fun x => if x = c then m.val else h x
  | none => h

/-- The separately stored (and separately copied) components of a field that the writer may
touch on its working copy.  Each is one cell of the object graph; `Field.copy()` must give
every one of them a fresh cell — also those nested inside a compressed array, which are
copied by the array class's own `__init__` (`GatheredArray`, `RaggedContiguousArray`, …),
not by `Field.copy` itself. -/
inductive Part
  | fieldNames | fieldProps | dataArray
  | listVar | countVar | indexVar                    -- inside gathered / ragged arrays
  | tiePointIndex | interpParam                      -- inside subsampled arrays
  | consNames | consData | boundsNames | boundsData
  | nodeCount | partNodeCount | interiorRing         -- geometries
  | domainAxes
deriving Repr, DecidableEq, Inhabited

def Part.pos : Part → Nat
  | .fieldNames => 0 | .fieldProps => 1 | .dataArray => 2 | .listVar => 3 | .countVar => 4 | .indexVar => 5
  | .tiePointIndex => 6 | .interpParam => 7 | .consNames => 8 | .consData => 9 | .boundsNames => 10
  | .boundsData => 11 | .nodeCount => 12 | .partNodeCount => 13 | .interiorRing => 14 | .domainAxes => 15

def Part.all : List Part :=
  [.fieldNames, .fieldProps, .dataArray, .listVar, .countVar, .indexVar, .tiePointIndex, .interpParam, .consNames,
   .consData, .boundsNames, .boundsData, .nodeCount, .partNodeCount, .interiorRing, .domainAxes]

/-- what the caller sees of one component -/
def partView (h : Heap) (o : Obj) (p : Part) : Option Nat := (o[p.pos]?).map h

/-- `_write_list_variable` (netcdfwrite.py ~862): `nc_set_variable(list_variable, ncvar)`. -/
def renameListVariable (ncvar : Nat) : Mut := ⟨Part.listVar.pos, ncvar⟩
/-- the writer's `insert_dimension` / `squeeze` on its working copy -/
def reshapeData (v : Nat) : Mut := ⟨Part.dataArray.pos, v⟩

/-- The writer: copy, then the first `k` mutations (an exception may stop it anywhere). -/
def writerRun (h : Heap) (next : Nat) (o : Obj) (shared : List Nat) (prog : List Mut) (k : Nat) : Heap :=
  (prog.take k).foldl (fun hh m => applyMut hh (copyCells next o shared) m) (copyHeap h next o shared)

end Cfdm.Files
