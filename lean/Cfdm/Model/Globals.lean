/-
C08 — global attributes and the `Conventions` attribute of one `cfdm.write`.

Model of `NetCDFWrite._write_global_attributes(fields)` (netcdfwrite.py:4237) and of
the use the data-variable writer makes of its result (`omit = g['global_attributes']`
in `_write_field_or_domain`).

Inputs, as the method sees them:

* per field (or domain) its properties and its `nc_global_attributes()` dictionary
  (`None` = "write my property of this name as a global attribute", a value =
  "write this value as a global attribute": *forced*);
* `write(global_attributes=…, variable_attributes=…, file_descriptors=…, Conventions=…)`;
* the CF description-of-file-contents attribute names
  (`cf_description_of_file_contents_attributes()`, regenerated from /repo into
  `Cfdm/Generated/FileContents.lean` on every run).

Property values are abstract (`Val`): `equal_properties` is modelled as equality of
the canonical encoding (exact values only; numeric tolerance is outside the model).

The method, as coded:

1. candidates = user `global_attributes` ∪ description attributes ∪ every key that
   some field flags with `None`;
2. forced = keys for which **every** field gives a (non-`None`) value and all the
   values are equal (`equal_properties`; before /repo commit 78f8b2f `len(set(v)) == 1`,
   which raised `TypeError` for list / array values);
3. forced −= file descriptors; candidates −= `variable_attributes`, file
   descriptors, forced;
4. a candidate stays iff field 0 has the property and every other field has an
   equal one;
5. `Conventions` (see below), then the file descriptors, then the surviving
   candidates other than `Conventions` with field 0's value, then the forced values
   other than `Conventions` are written with `setncattr`;
6. the surviving candidates (`g['global_attributes']`) are what every data variable
   omits from its own attributes.

`Conventions`: the user's value (a `str` is one entry, anything else a sequence of
entries) or, when that is falsy, the forced `Conventions` split on `,` (if it has
one) or on blanks; entries matching `CF-<digit>` anywhere are removed (the loop as
repaired in /repo commit 382699f; the index-popping loop it replaced is
`removeCFOld`); an entry containing `,` is a `ValueError`; `CF-<version>` is put
first; the delimiter is `,` iff some entry contains a blank.

Core Lean only.
-/
namespace Cfdm.Globals

abbrev Val := String

structure FieldG where
  props : List (String × Val)
  ncg : List (String × Option Val)
deriving Repr, DecidableEq

structure Opts where
  descr : List String
  userGlobal : List String := []
  varAttrs : List String := []
  fileDesc : List (String × Val) := []
deriving Repr, DecidableEq

/-- `dict.get`. -/
def lookup {β} (k : String) (l : List (String × β)) : Option β := (l.find? (·.1 == k)).map (·.2)

def keys {β} (l : List (String × β)) : List String := l.map (·.1)

/-! ## Placement of properties -/

/-- Keys some field flags with `None`. -/
def flagged (fs : List FieldG) : List String :=
  fs.flatMap (fun f => f.ncg.filterMap (fun kv => match kv.2 with | none => some kv.1 | some _ => none))

/-- Step 1. -/
def candidates (o : Opts) (fs : List FieldG) : List String := o.userGlobal ++ o.descr ++ flagged fs

/-- A set held as a list: one copy of every element. -/
def dedup : List String → List String
  | [] => []
  | x :: xs => if x ∈ xs then dedup xs else x :: dedup xs

/-- Keys for which some field gives a value. -/
def forcedKeys (fs : List FieldG) : List String :=
  dedup (fs.flatMap (fun f => f.ncg.filterMap (fun kv => match kv.2 with | none => none | some _ => some kv.1)))

/-- `force_global[attr]`: the values given, in field order. -/
def forcedVals (fs : List FieldG) (attr : String) : List Val :=
  fs.filterMap (fun f => (lookup attr f.ncg).join)

def allEq : List Val → Bool
  | [] => true
  | v :: vs => vs.all (· == v)

/-- Step 2 (`len(v) == len(fields)` and all values equal). -/
def forceGlobal (fs : List FieldG) : List (String × Val) :=
  (forcedKeys fs).filterMap (fun k =>
    let v := forcedVals fs k
    match v with
    | [] => none
    | v0 :: _ => if v.length == fs.length && allEq v then some (k, v0) else none)

/-- Step 3, first half. -/
def forceKept (o : Opts) (fs : List FieldG) : List (String × Val) :=
  (forceGlobal fs).filter (fun kv => !(keys o.fileDesc).contains kv.1)

/-- Step 4 for one property: field 0's value when every field has an equal one. -/
def identical (fs : List FieldG) (p : String) : Option Val :=
  match fs with
  | [] => none
  | f0 :: rest =>
    match lookup p f0.props with
    | none => none
    | some v0 => if rest.all (fun f => lookup p f.props == some v0) then some v0 else none

/-- Steps 3–4: `g['global_attributes']` at the end of the method (a set; duplicates removed). -/
def globalSet (o : Opts) (fs : List FieldG) : List String :=
  dedup ((candidates o fs).filter (fun p =>
      !o.varAttrs.contains p && !(keys o.fileDesc).contains p && !(keys (forceKept o fs)).contains p
      && (identical fs p).isSome))

/-- The global attributes created from *properties* (step 5, third group). -/
def propertyGlobals (o : Opts) (fs : List FieldG) : List (String × Val) :=
  ((globalSet o fs).filter (· != "Conventions")).filterMap (fun p => (identical fs p).map (fun v => (p, v)))

/-- The forced `Conventions`, if any (`force_global.pop('Conventions', None)`). -/
def forcedConventions (o : Opts) (fs : List FieldG) : Option Val := lookup "Conventions" (forceKept o fs)

/-- Every global attribute written, other than `Conventions`, in the order of the `setncattr` calls. -/
def writtenGlobals (o : Opts) (fs : List FieldG) : List (String × Val) :=
  o.fileDesc ++ propertyGlobals o fs ++ (forceKept o fs).filter (·.1 != "Conventions")

/-- The attributes the data variable of field `f` gets from its properties (`omit=`). -/
def variableAttrs (o : Opts) (fs : List FieldG) (f : FieldG) : List (String × Val) :=
  f.props.filter (fun kv => !(globalSet o fs).contains kv.1)

/-! ## Conventions -/

/-- `re.search(r"CF-(\d.*)", c)`: somewhere `CF-` is followed by a digit. -/
def hasCF : List Char → Bool
  | [] => false
  | c :: cs =>
    (match c, cs with
     | 'C', 'F' :: '-' :: d :: _ => d.isDigit
     | _, _ => false) || hasCF cs

/-- `str.split(sep)` for a one-character separator. -/
def splitC (sep : Char) : List Char → List (List Char)
  | [] => [[]]
  | c :: cs =>
    if c = sep then [] :: splitC sep cs
    else match splitC sep cs with
      | [] => [[c]]
      | h :: t => (c :: h) :: t

/-- `str.split()` restricted to blanks: maximal runs of non-blank characters. -/
def splitBlank (s : List Char) : List (List Char) := (splitC ' ' s).filter (· ≠ [])

/-- `sep.join(entries)`. -/
def joinC (sep : Char) : List (List Char) → List Char
  | [] => []
  | [x] => x
  | x :: y :: r => x ++ sep :: joinC sep (y :: r)

/-- The `Conventions` argument of `write`. -/
inductive ConvArg
  | none                                  -- `None`, `''`, `[]` (falsy)
  | str (s : List Char)                   -- a non-empty `str`
  | seq (l : List (List Char))            -- a non-empty sequence
deriving Repr, DecidableEq

/-- The entries requested, before any CF version is removed. -/
def requested (arg : ConvArg) (forced : Option (List Char)) : List (List Char) :=
  match arg with
  | .str s => [s]
  | .seq l => l
  | .none =>
    match forced with
    | Option.none => []
    | some f => if f.contains ',' then splitC ',' f else splitBlank f

/-- The removal loop as repaired (a filter). -/
def removeCF (l : List (List Char)) : List (List Char) := l.filter (fun c => !hasCF c)

/-- The removal loop before /repo commit 382699f: `for i, c in enumerate(l[:]): if CF: l.pop(i)`
(`none` = `IndexError`). -/
def removeCFOldAux : Nat → List (List Char) → List (List Char) → Option (List (List Char))
  | _, [], l => some l
  | i, c :: cs, l =>
    if hasCF c then
      if i < l.length then removeCFOldAux (i + 1) cs (l.eraseIdx i) else none
    else removeCFOldAux (i + 1) cs l

def removeCFOld (l : List (List Char)) : Option (List (List Char)) := removeCFOldAux 0 l l

inductive ConvRes
  | ok (value : List Char)
  | valueError
  | indexError
deriving Repr, DecidableEq

/-- The assembly after the removal of the CF entries. -/
def assemble (version : List Char) (extras : List (List Char)) : ConvRes :=
  if extras.any (·.contains ',') then .valueError else
  let all := ("CF-".toList ++ version) :: extras
  let delim := if all.any (·.contains ' ') then ',' else ' '
  .ok (joinC delim all)

/-- The `Conventions` attribute as written. -/
def conventions (version : List Char) (arg : ConvArg) (forced : Option (List Char)) : ConvRes :=
  assemble version (removeCF (requested arg forced))

def conventionsOld (version : List Char) (arg : ConvArg) (forced : Option (List Char)) : ConvRes :=
  match removeCFOld (requested arg forced) with
  | none => .indexError
  | some l => assemble version l

/-- How a CF-aware reader splits the attribute: on commas if there is one, else on blanks. -/
def parseConv (s : List Char) : List (List Char) :=
  if s.contains ',' then splitC ',' s else splitC ' ' s

end Cfdm.Globals
