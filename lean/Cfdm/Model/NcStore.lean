/-
C08 — how a variable is stored: the netCDF data type, the type of its `_FillValue` /
`missing_value` attributes, string versus character storage.

Model of three code sites of `NetCDFWrite` that must agree with one another:

* `_datatype(variable)` (netcdfwrite.py:335): no data → `'S1'`; string data (numpy kind `S`
  or `U`) → `str` (a variable-length netCDF string) when the format is `NETCDF4` and
  `write(string=True)`, else `'S1'` (character array); numeric data → the `datatype=`
  dictionary is looked up ONCE with the data's own dtype (`g['datatype'].get(dtype)`), and
  the result (or the dtype itself) is written as `f'{kind}{itemsize}'`;
* `_write_attributes` (netcdfwrite.py:235): `_FillValue` and `missing_value` are cast to
  `g['datatype'].get(data.dtype, data.dtype)` when the construct has data;
* `_transform_strings` (netcdfwrite.py:2934): data stored as `'S1'` get one extra trailing
  dimension (the string-length dimension, allocated by `_netcdf_name(..., role='string_length')`:
  `Model/NcNames.lean`).

Core Lean only.
-/
namespace Cfdm.NcStore

/-- numpy `dtype.kind`. -/
inductive Kind
  | int | uint | float | bytes | unicode
deriving Repr, DecidableEq

structure DType where
  kind : Kind
  size : Nat
deriving Repr, DecidableEq

inductive Fmt
  | netcdf4 | netcdf4Classic | netcdf3Classic | netcdf364Offset | netcdf364Data
deriving Repr, DecidableEq

/-- The `datatype` argument of `createVariable`. -/
inductive NcType
  | vlenString                       -- `str`
  | code (kind : Kind) (size : Nat)  -- `'f8'`, `'i4'`, …; `'S1'` = `code bytes 1`
deriving Repr, DecidableEq

def charType : NcType := .code .bytes 1

def DType.isString (d : DType) : Bool := d.kind == .bytes || d.kind == .unicode

/-- `dict.get` on the `datatype=` mapping. -/
def mapGet (m : List (DType × DType)) (d : DType) : Option DType := (m.find? (·.1 == d)).map (·.2)

/-- `_datatype`. -/
def datatype (fmt : Fmt) (string : Bool) (m : List (DType × DType)) (data : Option DType) : NcType :=
  match data with
  | none => charType
  | some d =>
    if d.isString then (if fmt == .netcdf4 && string then .vlenString else charType)
    else
      let t := (mapGet m d).getD d
      .code t.kind t.size

/-- The dtype `_write_attributes` casts `_FillValue` / `missing_value` to (`given`: the dtype of the
property value, kept when the construct has no data). -/
def fillDType (m : List (DType × DType)) (data : Option DType) (given : DType) : DType :=
  match data with
  | none => given
  | some d => (mapGet m d).getD d

/-- `_transform_strings`: how many dimensions are appended to those of the construct. -/
def extraDims (fmt : Fmt) (string : Bool) (m : List (DType × DType)) (data : Option DType) : Nat :=
  if data.isSome && datatype fmt string m data == charType then 1 else 0

/-- The code with the typing of the attributes done from the data's own dtype (what
`seeded/C08-2` does): kept to show that the agreement theorem is not vacuous. -/
def fillDTypeUnmapped (_m : List (DType × DType)) (data : Option DType) (given : DType) : DType :=
  match data with
  | none => given
  | some d => d

end Cfdm.NcStore
