/-
C16 — model of the netCDF reader's bookkeeping for subsampled coordinates.

Mirrors, in cfdm/read_write/netcdf/netcdfread.py,
* `_parse_coordinate_interpolation`: the `coordinate_interpolation` attribute
  (`"lat: lon: interp1 time: interp2"`) split into `{interpolation variable: [tie point
  coordinate variables]}`; the interpolation variable's `tie_point_mapping`
  (`"u0: idx0 tp0 sa0 u1: idx1 tp1"`) turned into the `subsampled_ncdim` record
  `{subsampled dimension: (interpolated dimension, tie point index variable, interpolation
  subarea dimension)}`; `interpolation_parameters` (`"w: wpar"`);
* `_parse_x`, on whitespace-separated tokens (the regular expression accepts either one bare
  word or a list of `key: value value …` groups with at least one value each; anything else
  gives `[]`);
* the subsampled branch of `_create_data`: `tie_point_indices[i]` for every position `i` of the
  tie point variable's dimensions that is a subsampled dimension, and for every interpolation
  parameter the positions of its dimensions relative to the tie point dimensions
  (`parameter_dimensions[term]`), in the PARAMETER's own dimension order;
* `_ncdimensions`: the uncompressed dimensions (each subsampled dimension replaced by its
  interpolated dimension; a trailing bounds dimension of size `2 * number of subsampled
  dimensions` for a `bounds_tie_points` variable).

Core Lean only.
-/
namespace Cfdm.Subsample

/-! ### `_parse_x` on tokens -/

def isWordChar (c : Char) : Bool := c.isAlphanum || c == '_' || c == '#'
/-- `WORD` of `_parse_x`: `[A-Za-z0-9_#]+` -/
def isWord (s : String) : Bool := !s.isEmpty && s.all isWordChar

/-- A whitespace-separated token of an attribute string, classified as `_parse_x`'s regular
expression sees it: `WORD:` (a mapping name), `WORD` (a value), anything else. -/
inductive Tok where
  | key (k : String)
  | word (w : String)
  | other (s : String)
deriving Repr, DecidableEq

def lexTok (tok : String) : Tok :=
  if isWord tok then .word tok
  else if tok.endsWith ":" && isWord (tok.dropEnd 1).toString then .key (tok.dropEnd 1).toString
  else .other tok

/-- The groups `key: v v …` (each with at least one value); `none` = no match.  State: the
group being read (key, values so far) and the groups already closed. -/
def parseGroupsGo : List Tok → Option (String × List String) → List (String × List String) →
    Option (List (String × List String))
  | [], none, acc => some acc
  | [], some (k, vals), acc => if vals.isEmpty then none else some (acc ++ [(k, vals)])
  | .key k :: rest, none, acc => parseGroupsGo rest (some (k, [])) acc
  | .key k :: rest, some (k0, vals), acc =>
    if vals.isEmpty then none else parseGroupsGo rest (some (k, [])) (acc ++ [(k0, vals)])
  | .word _ :: _, none, _ => none
  | .word w :: rest, some (k0, vals), acc => parseGroupsGo rest (some (k0, vals ++ [w])) acc
  | .other _ :: _, _, _ => none

def parseGroups (toks : List Tok) : Option (List (String × List String)) :=
  parseGroupsGo toks none []

/-- `_parse_x(string)` for `string.split()` lexed to `toks`: one bare word is a sole mapping
without values, otherwise a list of groups; no match gives `[]`. -/
def parseX (toks : List Tok) : List (String × List String) :=
  match toks with
  | [.word w] => [(w, [])]
  | _ => (parseGroups toks).getD []

/-! ### `_parse_coordinate_interpolation` -/

/-- A token of the `coordinate_interpolation` attribute: `name:` (a tie point coordinate
variable; the code tests `x.endswith(":")` only) or an interpolation variable name. -/
inductive CTok where
  | coord (name : String)
  | interp (name : String)
deriving Repr, DecidableEq

def lexCTok (tok : String) : CTok :=
  if tok.endsWith ":" then .coord (tok.dropEnd 1).toString else .interp tok

/-- `c_i[x] = coords` on an insertion-ordered dictionary. -/
def ciSet (d : List (String × List String)) (k : String) (v : List String) : List (String × List String) :=
  if d.any (fun x => x.1 == k) then d.map (fun x => if x.1 == k then (k, v) else x) else d ++ [(k, v)]

/-- The loop over the tokens of `coordinate_interpolation`: tie point coordinate variables are
collected until an interpolation variable closes the group. -/
def coordInterpGo : List CTok → List String → List (String × List String) → List (String × List String)
  | [], _, acc => acc
  | .coord c :: rest, coords, acc => coordInterpGo rest (coords ++ [c]) acc
  | .interp iv :: rest, coords, acc => coordInterpGo rest [] (ciSet acc iv coords)

def coordInterp (toks : List CTok) : List (String × List String) := coordInterpGo toks [] []

/-- One value of `record["subsampled_ncdim"]`. -/
structure SubDim where
  subsampled : String
  interpolated : String
  indexVar : String
  subarea : Option String
deriving Repr, DecidableEq

/-- `d[key] = value` on an insertion-ordered dictionary keyed by the subsampled dimension. -/
def dictSet (d : List SubDim) (s : SubDim) : List SubDim :=
  if d.any (fun x => x.subsampled == s.subsampled) then
    d.map (fun x => if x.subsampled == s.subsampled then s else x)
  else d ++ [s]

/-- `record["subsampled_ncdim"]` from the parsed `tie_point_mapping`: entries with fewer than
two values are reported and skipped; the dictionary is keyed by the subsampled dimension. -/
def subsampledRecord (maps : List (String × List String)) : List SubDim :=
  maps.foldl (fun d m =>
    match m.2 with
    | iv :: sd :: more =>
      dictSet d { subsampled := sd, interpolated := m.1, indexVar := iv, subarea := more.head? }
    | _ => d) []

def lookupSub (rec : List SubDim) (ncdim : String) : Option SubDim :=
  rec.find? (fun s => s.subsampled == ncdim)

/-! ### `_create_data`, subsampled branch -/

/-- `tie_point_indices`: position in the tie point variable's dimensions ↦ index variable. -/
def readTiePointIndices (rec : List SubDim) (dimensions : List String) : List (Nat × String) :=
  (List.zipIdx dimensions).filterMap (fun (ncdim, i) => (lookupSub rec ncdim).map (fun s => (i, s.indexVar)))

/-- The position recorded for one dimension of an interpolation parameter variable: `none` when
the loop appends nothing (the dimension is neither a tie point dimension nor an interpolation
subarea dimension of the record). -/
def paramPosition (rec : List SubDim) (dimensions : List String) (dim : String) : Option Nat :=
  if dimensions.contains dim then some (dimensions.idxOf dim)
  else
    match rec.find? (fun s => s.subarea == some dim) with
    | some s => some (dimensions.idxOf s.subsampled)
    | none => none

/-- `parameter_dimensions[term] = tuple(positions)`: one position per dimension of the
parameter variable, in the parameter's own dimension order (dimensions without a position
are silently dropped by the loop). -/
def readParameterDimensions (rec : List SubDim) (dimensions : List String) (paramDims : List String) :
    List Nat :=
  paramDims.filterMap (paramPosition rec dimensions)

/-- `_ncdimensions(ncvar, parent_ncvar)`: the uncompressed dimensions. -/
def uncompressedDims (rec : List SubDim) (dimensions : List String) : List String :=
  dimensions.map (fun d => match lookupSub rec d with
    | some s => s.interpolated
    | none => d)

def sizeOf (sizes : List (String × Nat)) (d : String) : Nat :=
  ((sizes.find? (fun kv => kv.1 == d)).map (·.2)).getD 0

/-- `uncompressed_shape` handed to `SubsampledArray` (`bounds`: the variable is named by
`bounds_tie_points`, its trailing dimension has size `2 * number of subsampled dimensions`). -/
def readShape (rec : List SubDim) (dimensions : List String) (sizes : List (String × Nat)) (bounds : Bool) :
    List Nat :=
  (uncompressedDims rec dimensions).map (sizeOf sizes) ++
    (if bounds then [2 * (dimensions.filter (fun d => (lookupSub rec d).isSome)).length] else [])

/-! ### dependent tie points (multivariate interpolation methods) -/

/-- `dependent_tie_point_dimensions[identity]` as recorded by `_create_field_or_domain` for a
coordinate whose tie point array has the domain axes `axes`, the other coordinate's `a`: for every
dimension of the DEPENDENT array its position in this coordinate's own tie point array
(with fixes/C16-dependent-tie-point-dimensions.patch). -/
def readDependentDims (axes a : List String) : List Nat := a.map (fun i => axes.idxOf i)

/-- /repo HEAD: `tuple([a.index(i) for i in axes])` — the inverse permutation. -/
def readDependentDimsOld (axes a : List String) : List Nat := axes.map (fun i => a.idxOf i)

end Cfdm.Subsample
