/-
C17 — appending to an existing dataset (`NetCDFWrite.write(mode='a')`).

Core Lean only (no Mathlib): this file is linked into the model driver.

What is mirrored (cfdm/read_write/netcdf/netcdfwrite.py):

* the writer registry `write_vars` (`ncvar_names`, `ncdim_to_size`, `dimensions_with_role`,
  `seen`, `bounds`, `ncdim_size_to_spanning_constructs`, `global_attributes`, the keys of `nc`,
  and the per-field maps `axis_to_ncdim`, `axis_to_ncscalar`, `key_to_ncvar`);
* `_netcdf_name`, `_already_in_file`, `_write_dimension`, `_write_bounds`,
  `_write_dimension_coordinate`, `_write_scalar_coordinate`, `_write_auxiliary_coordinate`,
  `_write_domain_ancillary`, `_write_cell_measure`, `_write_field_ancillary`,
  `_write_grid_mapping`, the formula-terms block and the data-variable block of
  `_write_field_or_domain`, `_string_length_dimension`, `_write_netcdf_variable`,
  `_write_attributes`, `_write_global_attributes`;
* the three modes of `_file_io_iteration`: a real write (mode 'w'), the *dry run* over the
  fields read from the dataset (everything runs, every `if not g['dry_run']` site is skipped)
  and the *post-dry-run* pass over the new fields;
* the refusal predicate of the append branch of `write` (groups, featureType), evaluated
  before the dataset is opened for writing.

The writer is a *program* (`Prog`): a tree of registry reads and of the few commands through
which the Python code touches the registry's name tables and the netCDF4 dataset.  `run`
interprets a program in a mode.  Theorems about appending are proved by induction on
programs, hence for every field, every batch and every sequence of batches.

The model is the code with the proposed patches fixes/C17-*.patch applied; the flags of
`Fix` switch each one off to obtain the code as it was (`Fix.old`), used for the
counter-example theorems and for the known findings.
-/
namespace Cfdm.Append

abbrev Name := String

/-! ## The abstract dataset (what netCDF4 alone sees) -/

structure Dim where
  name : Name
  size : Nat
  unlim : Bool
  deriving DecidableEq, Repr, Inhabited

structure Var where
  name : Name
  dims : List Name
  attrs : List (String × String)
  cid : Nat            -- identity of the contents (data and the attributes that are not references)
  deriving DecidableEq, Repr, Inhabited

structure Ds where
  dims : List Dim := []
  vars : List Var := []
  gattrs : List (String × String) := []
  deriving DecidableEq, Repr, Inhabited

def Ds.varNames (d : Ds) : List Name := d.vars.map (·.name)
def Ds.dimNames (d : Ds) : List Name := d.dims.map (·.name)
def Ds.names (d : Ds) : List Name := d.varNames ++ d.dimNames
def Ds.findVar (d : Ds) (n : Name) : Option Var := d.vars.find? (·.name == n)

/-! ## The writer registry -/

/-- A construct as `_already_in_file` sees it: `equal_components` is "same class (unless
`ignore_type`) and same contents". -/
structure Cons where
  cid : Nat
  kind : Nat      -- 0 dimension coord, 1 auxiliary coord, 2 domain ancillary, 3 cell measure,
                  -- 4 field ancillary, 5 coordinate reference, 6 bounds, 7 field, 8 domain
  attrs : List (String × String) := []   -- the properties that become netCDF attributes
  strlen : Option Nat := none            -- string data stored as char: length of the extra dimension
  shape : List Nat := []                 -- shape of the data (without the char dimension): part of "same contents"
  deriving DecidableEq, Repr, Inhabited

structure SeenE where
  cid : Nat
  kind : Nat
  ncvar : Name
  ncdims : Option (List Name)
  shape : List Nat := []                 -- shape of the data of the registered construct
  deriving DecidableEq, Repr, Inhabited

/-- `ncvar_names`, `ncdim_to_size`, `dimensions_with_role`: touched only through the name commands. -/
structure NameReg where
  names : List Name := []
  dimSize : List (Name × Nat) := []
  roles : List (String × Name) := []
  /-- ghost: the names handed out by `_netcdf_name` as new, in order (never consulted) -/
  allocated : List Name := []
  deriving Repr, Inhabited

def NameReg.dimKeys (n : NameReg) : List Name := n.dimSize.map (·.1)
def NameReg.existing (n : NameReg) : List Name := n.names ++ n.dimKeys
def NameReg.sizeOf? (n : NameReg) (d : Name) : Option Nat := (n.dimSize.find? (·.1 == d)).map (·.2)

/-- Everything else in `write_vars`. -/
structure Aux where
  seen : List SeenE := []
  bounds : List (Name × Name) := []                     -- coordinate ncvar ↦ bounds ncvar
  spans : List (Name × Nat × List (Nat × Nat × Nat)) := []    -- ncdim, size, [(cid, kind, position)]
  omitG : List String := []                             -- g['global_attributes']
  extVars : List Name := []                             -- g['external_variables']
  -- per field
  axisDim : List (Nat × Name) := []                     -- axis_to_ncdim
  axisScalar : List (Nat × Name) := []                  -- axis_to_ncscalar
  keyVar : List (Nat × Option Name) := []               -- key_to_ncvar
  coords : List Name := []                              -- the `coordinates` list
  localSpans : List (Name × Nat × List (Nat × Nat × Nat)) := []
  unlimDims : List Name := []                           -- g['unlimited_ncdims'] (filled by the axis branch only)
  deriving Repr, Inhabited

structure Reg where
  nm : NameReg := {}
  aux : Aux := {}
  deriving Repr, Inhabited

inductive Mode | real | dry | post
  deriving DecidableEq, Repr

inductive Err
  | nameInUse (n : Name)       -- netCDF4: "String match to name in use"
  | keyError (what : String)   -- a Python dictionary look-up that fails
  | noSuchDim (d : Name)       -- netCDF4: "cannot find dimension … in this group or parent groups"
  | shapeMismatch (d : Name)   -- netCDF4: data whose extent along a fixed-size dimension is not the dimension's size
  | refused (why : String)
  deriving DecidableEq, Repr

/-! ### `_netcdf_name` -/

/-- First free `base_k`, k ≥ 1 (the counter of the code is never stored back, so the search
always starts at 1).  `fuel` bounds the search; `existing.length + 1` candidates always suffice. -/
def suffixed (base : Name) (k : Nat) : Name := base ++ "_" ++ Nat.repr k

def freeSuffix (existing : List Name) (base : Name) : Nat → Nat → Name
  | 0, k => suffixed base k
  | fuel + 1, k => if existing.contains (suffixed base k) then freeSuffix existing base fuel (k + 1) else suffixed base k

/-- `s.replace(' ', '_')` (written on the list of characters so that the kernel can evaluate it). -/
def underscore (s : String) : String := String.ofList (s.toList.map (fun c => if c == ' ' then '_' else c))

def blanks (blanksFirst : Bool) (s : String) : String := if blanksFirst then underscore s else s

/-- `_netcdf_name(base)` without `dimsize`: the name, and the registry with the name added.
`blanksFirst`: blanks are replaced before (patched) or after (old) the uniqueness test. -/
def netcdfName (blanksFirst : Bool) (n : NameReg) (base : Name) : Name × NameReg :=
  let base := blanks blanksFirst base
  let ex := n.existing
  let nm := if ex.contains base then freeSuffix ex base (ex.length + 1) 1 else base
  let nm := if blanksFirst then nm else underscore nm
  (nm, { n with names := n.names ++ [nm], allocated := n.allocated ++ [nm] })

/-- `_netcdf_name(base)` in the dry run of append mode, as proposed (C17-append-dry-run-names): every construct
comes from the dataset and asks for the name it has there; the name is registered as it is. -/
def keepName (_blanksFirst : Bool) (n : NameReg) (base : Name) : Name × NameReg :=
  let nm := underscore base     -- blanks are replaced, before or after the (absent) uniqueness test
  (nm, { n with names := n.names ++ [nm], allocated := n.allocated ++ [nm] })

/-- `_netcdf_name(base, dimsize, role)`: an existing dimension of that role and size, else a new name
registered under the role.  The Boolean tells whether the name is new.  `keep`: the dry run of the proposed
code (no uniqueness test). -/
def netcdfNameRole (blanksFirst : Bool) (n : NameReg) (base : Name) (size : Nat) (role : String) (keep : Bool := false) :
    Name × Bool × NameReg :=
  match n.roles.find? (fun (r, d) => r == role && n.sizeOf? d == some size) with
  | some (_, d) => (d, false, n)
  | none =>
    let (nm, n') := if keep then keepName blanksFirst n base else netcdfName blanksFirst n base
    (nm, true, { n' with roles := n'.roles ++ [(role, nm)] })

/-! ## Programs -/

/-- The writer as a tree of registry reads and commands. -/
inductive Prog (α : Type) : Type where
  | pure : α → Prog α
  | fail : Err → Prog α
  | mode : (Mode → Prog α) → Prog α
  | get : (Reg → Prog α) → Prog α
  | modAux : (Aux → Aux) → Prog α → Prog α
  | alloc : Name → (Name → Prog α) → Prog α                          -- `_netcdf_name(base)`
  | allocRole : Name → Nat → String → (Name → Prog α) → Prog α       -- `_netcdf_name(base, dimsize, role)`
  | noteDim : Name → Nat → Prog α → Prog α                           -- `ncdim_to_size[ncdim] = size`
  | addName : Name → Prog α → Prog α                                 -- `ncvar_names.add(name)`
  | createDim : Dim → Prog α → Prog α                                -- `createDimension` (raises if the name is in use)
  | ensureDim : Dim → Prog α → Prog α                                -- `createDimension` with the error swallowed
  /-- `createVariable` + `setncatts` + `g['nc'][ncvar][...] = array`; the list is the shape of the array -/
  | createVar : Var → List Nat → Prog α → Prog α
  | setAttr : Name → String → String → Prog α → Prog α               -- `g['nc'][ncvar].setncattr`, KeyError swallowed
  | setGlobal : String → String → Prog α → Prog α                    -- `g['netcdf'].setncattr`

def Prog.bind {α β : Type} : Prog α → (α → Prog β) → Prog β
  | .pure a, f => f a
  | .fail e, _ => .fail e
  | .mode k, f => .mode (fun m => (k m).bind f)
  | .get k, f => .get (fun r => (k r).bind f)
  | .modAux g p, f => .modAux g (p.bind f)
  | .alloc b k, f => .alloc b (fun n => (k n).bind f)
  | .allocRole b s r k, f => .allocRole b s r (fun n => (k n).bind f)
  | .noteDim n s p, f => .noteDim n s (p.bind f)
  | .addName n p, f => .addName n (p.bind f)
  | .createDim d p, f => .createDim d (p.bind f)
  | .ensureDim d p, f => .ensureDim d (p.bind f)
  | .createVar v e p, f => .createVar v e (p.bind f)
  | .setAttr n k v p, f => .setAttr n k v (p.bind f)
  | .setGlobal k v p, f => .setGlobal k v (p.bind f)

instance : Monad Prog where
  pure := Prog.pure
  bind := Prog.bind

/-- The dataset being written and the keys of `g['nc']` (variables created by this pass). -/
structure FileSt where
  ds : Ds := {}
  created : List Name := []
  deriving DecidableEq, Repr, Inhabited

/-- Patches, individually switchable. -/
structure Fix where
  formulaTerms : Bool := true    -- C17-append-formula-terms: `formula_terms` written in the post pass
  featureType : Bool := true     -- C17-append-feature-type: the refusal rule follows its comment
  globals : Bool := true         -- C17-append-description-properties: only properties the dataset holds are omitted
  names : Bool := true           -- C17-append-register-names: every name of the dataset is registered
  blanks : Bool := true          -- C17-netcdf-name-blanks: blanks replaced before the uniqueness test
  fill : Bool := true            -- C17-append-fill-value: missing_value ≠ _FillValue no longer rejected
  /-- a dimension coordinate without netCDF variable name and standard name takes the netCDF dimension name of its
  axis *through `_netcdf_name`* (in /repo since d714c80; `false`: the name is used as it is) -/
  dimCoordName : Bool := true
  /-- C17-append-dry-run-names: in the dry run `_netcdf_name` registers the name asked for as it is (proposed;
  `false`: the dry run makes names unique again, in the reader's order) -/
  dryNames : Bool := true
  /-- not a patch: every site that sets a global attribute of the dataset (`_write_global_attributes`,
  `_set_external_variables`) is skipped when `post_dry_run`.  `false` is the seeded variant in which the
  `external_variables` site lost its guard. -/
  globalsGuarded : Bool := true
  /-- not a patch: the pinned-dimension reuse of the axis branch demands that the registered dimension has the
  size of the axis.  `false` is the seeded variant "an unlimited axis may use an unlimited dimension of that
  name whatever its length". -/
  pinnedSize : Bool := true
  deriving Repr, DecidableEq

def Fix.new : Fix := {}
def Fix.old : Fix := { formulaTerms := false, featureType := false, globals := false, names := false, blanks := false, fill := false,
                       dimCoordName := false, dryNames := false }

/-! ### Writing data along an unlimited dimension

netCDF: all variables on an unlimited dimension share its current length.  `var[...] = array` with more
records than the dimension has makes the dimension — hence every variable on it — longer (the other
variables are padded with missing data); with fewer records the new variable has the dimension's length
all the same.  Along a fixed-size dimension the extents must agree (netCDF4-python: ValueError). -/

/-- The length of dimension `D` after an array with extents `wr` (dimension name, extent) has been written. -/
def growDim (wr : List (Name × Nat)) (D : Dim) : Dim :=
  if D.unlim then { D with size := wr.foldl (fun s p => if p.1 == D.name then max s p.2 else s) D.size } else D

def grow (dims : List Dim) (wr : List (Name × Nat)) : List Dim := dims.map (growDim wr)

/-- A fixed-size dimension along which the array has another extent. -/
def misfit (dims : List Dim) (wr : List (Name × Nat)) : Option (Name × Nat) :=
  wr.find? (fun p => dims.any (fun D => D.name == p.1 && !D.unlim && D.size != p.2))

def setVarAttr (ds : Ds) (n : Name) (k v : String) : Ds :=
  { ds with vars := ds.vars.map (fun x => if x.name == n then { x with attrs := x.attrs.filter (·.1 != k) ++ [(k, v)] } else x) }

/-- Interpretation.  In a dry run every command on the dataset is skipped; in the post-dry-run
pass global attributes are not written.  The registry commands always run. -/
def run (fx : Fix) (m : Mode) : Prog α → Reg → FileSt → Except Err α × Reg × FileSt
  | .pure a, r, fs => (.ok a, r, fs)
  | .fail e, r, fs => (.error e, r, fs)
  | .mode k, r, fs => run fx m (k m) r fs
  | .get k, r, fs => run fx m (k r) r fs
  | .modAux g p, r, fs => run fx m p { r with aux := g r.aux } fs
  | .alloc b k, r, fs =>
    let (n, nm) := if m == .dry && fx.dryNames then keepName fx.blanks r.nm b else netcdfName fx.blanks r.nm b
    run fx m (k n) { r with nm := nm } fs
  | .allocRole b s role k, r, fs =>
    let (n, _, nm) := netcdfNameRole fx.blanks r.nm b s role (m == .dry && fx.dryNames)
    run fx m (k n) { r with nm := nm } fs
  | .noteDim n s p, r, fs =>
    run fx m p { r with nm := { r.nm with dimSize := r.nm.dimSize.filter (·.1 != n) ++ [(n, s)] } } fs
  | .addName n p, r, fs =>
    run fx m p { r with nm := { r.nm with names := r.nm.names ++ [n] } } fs
  | .createDim d p, r, fs =>
    if m == .dry then run fx m p r fs
    else if fs.ds.dimNames.contains d.name then (.error (.nameInUse d.name), r, fs)
    else run fx m p r { fs with ds := { fs.ds with dims := fs.ds.dims ++ [d] } }
  | .ensureDim d p, r, fs =>
    if m == .dry || fs.ds.dimNames.contains d.name then run fx m p r fs
    else run fx m p r { fs with ds := { fs.ds with dims := fs.ds.dims ++ [d] } }
  | .createVar v ext p, r, fs =>
    if m == .dry then run fx m p r fs
    else if fs.ds.varNames.contains v.name then (.error (.nameInUse v.name), r, fs)
    else match v.dims.find? (fun d => !fs.ds.dimNames.contains d) with
      | some d => (.error (.noSuchDim d), r, fs)
      | none =>
        match misfit fs.ds.dims (v.dims.zip ext) with
        | some p => (.error (.shapeMismatch p.1), r, fs)
        | none =>
          run fx m p r { ds := { fs.ds with dims := grow fs.ds.dims (v.dims.zip ext), vars := fs.ds.vars ++ [v] },
                         created := fs.created ++ [v.name] }
  | .setAttr n k v p, r, fs =>
    if m == .dry || !fs.created.contains n then run fx m p r fs
    else run fx m p r { fs with ds := setVarAttr fs.ds n k v }
  | .setGlobal k v p, r, fs =>
    if m == .real || (m == .post && !fx.globalsGuarded) then run fx m p r { fs with ds := { fs.ds with gattrs := fs.ds.gattrs.filter (·.1 != k) ++ [(k, v)] } }
    else run fx m p r fs

/-! ## The emission requests of one field

The analysis of a field that does not depend on the registry (which axis has a dimension
coordinate, scalar or not, the default names, the text of the properties) is done by the
caller; every decision that depends on what is already in the dataset is taken here. -/

structure BReq where          -- bounds of a coordinate
  c : Cons
  size : Nat                  -- size of the trailing dimension
  dimBase : Name              -- `nc_get_dimension(bounds, f'bounds{size}')`
  varPinned : Option Name     -- `nc_get_variable(bounds)`
  clim : Bool := false
  deriving Repr, Inhabited

inductive Req
  /-- axis with a dimension coordinate written as a coordinate variable.
  `base`: ncvar or standard_name; `ncdim`: the axis' netCDF dimension name, if set. -/
  | dimCoord (key axis : Nat) (c : Cons) (base ncdim : Option Name) (size : Nat) (unlim : Bool) (b : Option BReq)
  /-- data axis without a dimension coordinate; `spanning`: (cid, kind, position) of the constructs spanning it. -/
  | axisDim (axis size : Nat) (unlim : Bool) (base : Name) (spanning : List (Nat × Nat × Nat)) (pinned : Bool := false)
  | scalarCoord (key axis : Nat) (c : Cons) (base : Name) (b : Option BReq)
  | aux (key : Nat) (c : Cons) (axes : List Nat) (base : Name) (b : Option BReq)
  | domAnc (key : Nat) (c : Cons) (axes : List Nat) (base : Name) (b : Option BReq)
  /-- cell measure; `ext = some ncvar`: flagged external (`nc_get_external`), with its netCDF variable name -/
  | msr (key : Nat) (c : Cons) (axes : List Nat) (base : Name) (measure : String) (ext : Option Name := none)
  /-- formula terms of one reference: owning coordinate key, its axis, (term, key, axes of the ancillary), and the
  scalar parameters (term, the `Data` value: `_write_scalar_data`). -/
  | formula (owner : Nat) (zaxis : Nat) (terms : List (String × Nat × List Nat)) (params : List (String × Cons) := [])
  | gridMap (c : Cons) (base : Name) (coordKeys : List Nat) (multiple : Bool)
  | fieldAnc (key : Nat) (c : Cons) (axes : List Nat) (base : Name)
  /-- the data (or domain) variable; `cms`: per cell method (axes as axis number or literal, rest of the string). -/
  | data (c : Cons) (base : Name) (axes : List Nat) (cms : List (List (Nat ⊕ String) × String)) (isDomain : Bool)
  deriving Repr, Inhabited

structure FieldReq where
  reqs : List Req
  groups : Bool := false                 -- `nc_variable_groups()` non-empty
  featureType : Option String := none    -- forced global value, else the property
  ftForced : Option String := none       -- `nc_global_attributes()['featureType']` when not None
  gcand : List (String × String) := []   -- description-of-file-contents properties (+ nc_global_attributes keys): name, value text
  deriving Repr, Inhabited

/-! ### Helpers on the registry -/

/-- Python's `sorted` on strings (code-point order), written so that the kernel can evaluate it. -/
def strLe (a b : String) : Bool := decide (a.toList ≤ b.toList)

def insertSorted (x : String) : List String → List String
  | [] => [x]
  | y :: ys => if strLe x y then x :: y :: ys else y :: insertSorted x ys

def sortNames (l : List String) : List String := l.foldr insertSorted []

def lookup {β} (l : List (Nat × β)) (k : Nat) : Option β := (l.find? (·.1 == k)).map (·.2)

/-- `_already_in_file`. -/
def alreadyInFile (a : Aux) (c : Cons) (ncdims : Option (List Name)) (ignoreType : Bool) : Option SeenE :=
  a.seen.find? (fun e =>
    (match ncdims with | none => true | some d => e.ncdims == some d) &&
    e.cid == c.cid && e.shape == c.shape && (ignoreType || e.kind == c.kind))

def regSeen (c : Cons) (ncvar : Name) (ncdims : Option (List Name)) (a : Aux) : Aux :=
  { a with seen := a.seen ++ [⟨c.cid, c.kind, ncvar, ncdims, c.shape⟩] }

def axisDims (a : Aux) (axes : List Nat) : Option (List Name) := axes.mapM (lookup a.axisDim)

def getAux : Prog Aux := .get (fun r => .pure r.aux)
def getNm : Prog NameReg := .get (fun r => .pure r.nm)
def getMode : Prog Mode := .mode .pure
def modA (f : Aux → Aux) : Prog Unit := .modAux f (.pure ())
def allocN (b : Name) : Prog Name := .alloc b .pure
def failK {α} (s : String) : Prog α := .fail (.keyError s)

/-- `_string_length_dimension` (never reached in a dry run). -/
def strlenDim (n : Nat) : Prog Name := do
  let d ← (Prog.allocRole s!"strlen{n}" n "string_length" .pure : Prog Name)
  let nm ← getNm
  if nm.dimKeys.contains d then pure d
  else Prog.noteDim d n (Prog.ensureDim ⟨d, n, false⟩ (.pure d))

/-- `_write_netcdf_variable`: `seen` is registered first; a dry run returns before the string
transformation; then `createVariable` and `_write_attributes`. -/
def writeVar (ncvar : Name) (ncdims : List Name) (c : Cons) (extra : List (String × String)) (om : List String := [])
    (regDims : Option (List Name) := none) : Prog Unit := do
  modA (regSeen c ncvar (some (regDims.getD ncdims)))
  let m ← getMode
  if m == .dry then pure ()
  else
    let attrs := (c.attrs.filter (fun kv => !om.contains kv.1 && !(extra.map (·.1)).contains kv.1)) ++ extra
    match c.strlen with
    | none => Prog.createVar ⟨ncvar, ncdims, attrs, c.cid⟩ c.shape (.pure ())
    | some n => do
      let d ← strlenDim n
      Prog.createVar ⟨ncvar, ncdims ++ [d], attrs, c.cid⟩ (c.shape ++ [n]) (.pure ())

/-- `_write_dimension` for an axis. -/
def writeDimension (ncdim : Name) (axis size : Nat) (unlim : Bool) : Prog Unit := do
  modA (fun a => { a with axisDim := a.axisDim.filter (·.1 != axis) ++ [(axis, ncdim)] })
  Prog.noteDim ncdim size (Prog.createDim ⟨ncdim, size, unlim⟩ (.pure ()))

/-- `_write_bounds`: the attribute to put on the coordinate variable. -/
def omitBoundsProps (c : Cons) : List String :=
  ["units", "standard_name", "axis", "positive", "calendar", "month_lengths", "leap_year", "leap_month"].filter
    (fun p => (c.attrs.map (·.1)).contains p)

def writeBounds (b : Option BReq) (coordDims : List Name) (coordVar : Name) (parent : Cons) : Prog (List (String × String)) :=
  match b with
  | none => pure []
  | some b => do
    let bdim ← (Prog.allocRole b.dimBase b.size "bounds" .pure : Prog Name)
    let ncdims := coordDims ++ [bdim]
    let a ← getAux
    let ncvar ← match alreadyInFile a b.c (some ncdims) false with
      | some e => pure e.ncvar
      | none => do
        let nm ← getNm
        let default ← if nm.dimKeys.contains bdim then pure "bounds" else do
          Prog.noteDim bdim b.size (Prog.createDim ⟨bdim, b.size, false⟩ (.pure ()))
          pure (coordVar ++ "_bounds")
        let ncvar ← allocN (b.varPinned.getD default)
        writeVar ncvar ncdims b.c [] (omitBoundsProps parent)
        pure ncvar
    modA (fun a => { a with bounds := a.bounds.filter (·.1 != coordVar) ++ [(coordVar, ncvar)] })
    pure [(if b.clim then "climatology" else "bounds", ncvar)]

def setKeyVar (key : Nat) (v : Option Name) : Prog Unit :=
  modA (fun a => { a with keyVar := a.keyVar.filter (·.1 != key) ++ [(key, v)] })

/-- `_write_scalar_data` for the scalar parameters of a formula-terms reference, in order: a 0-d variable named
after the term unless an equal one (same class, same contents, no dimensions) is registered.  Returns the
`term: ncvar` entries. -/
def writeScalars : List (String × Cons) → Prog (List String)
  | [] => pure []
  | (t, c) :: rest => do
    let a ← getAux
    let ncvar ← match alreadyInFile a c (some []) false with
      | some e => pure e.ncvar
      | none => do
        let ncvar ← allocN t
        writeVar ncvar [] c []
        pure ncvar
    let more ← writeScalars rest
    pure (s!"{t}: {ncvar}" :: more)

/-! ### One request -/

def emitReq (fx : Fix) : Req → Prog Unit
  | .dimCoord key axis c base ncdim size unlim b => do
    let a ← getAux
    let hit := alreadyInFile a c none false
    -- (52d4f19) an equal coordinate variable whose dimension another axis of this field already uses is not shared:
    -- a variable must not span the same dimension twice
    let used := a.axisDim.map (·.2)
    let create := match hit with
      | none => true
      | some e => match e.ncdims with
        | some (d :: _) => e.ncvar != d || used.contains d
        | _ => false
    if create then
      let ncvar ← match base with
        | some bs => allocN bs
        | none => match ncdim with
          | some d => if fx.dimCoordName then allocN d else pure d   -- as it was: used as it is, no uniqueness test
          | none => allocN "coordinate"
      writeDimension ncvar axis size unlim
      let extra ← writeBounds b [ncvar] ncvar c
      writeVar ncvar [ncvar] c extra
      setKeyVar key (some ncvar)
    else
      match hit with
      | some e =>
        setKeyVar key (some e.ncvar)
        match e.ncdims with
        | some (d :: _) => modA (fun a => { a with axisDim := a.axisDim.filter (·.1 != axis) ++ [(axis, d)] })
        | _ => failK "seen[coord]['ncdims'][0]"
      | none => pure ()
    -- g['coordinates'] is False by default: the coordinate is not added to `coordinates`
  | .axisDim axis size unlim base spanning pinned => do
    let a ← getAux
    let used := a.axisDim.map (·.2)
    -- a stored dimension of the same size that this field does not use yet, with an equal construct at
    -- the same position
    let reuse := a.spans.find? (fun (d1, s1, cs1) =>
      s1 == size && !used.contains d1 &&
      spanning.any (fun (c0, k0, i0) => cs1.any (fun (c1, k1, i1) => i0 == i1 && c0 == c1 && k0 == k1)))
    match reuse with
    | some (d, _, _) => modA (fun a => { a with axisDim := a.axisDim.filter (·.1 != axis) ++ [(axis, d)] })
    | none =>
      let nm ← getNm
      -- the axis names its netCDF dimension and a dimension of that name, size and (un)limitedness is
      -- registered, is no variable name, has no role and is not used by another axis of this field:
      -- that dimension is used rather than a renamed copy of it
      if pinned && (unlim == a.unlimDims.contains base)
          && (if fx.pinnedSize then nm.sizeOf? base == some size else (unlim || nm.sizeOf? base == some size))
          && !used.contains base
          && !a.seen.any (·.ncvar == base) && !nm.roles.any (·.2 == base) then
        modA (fun a => { a with axisDim := a.axisDim.filter (·.1 != axis) ++ [(axis, base)] })
      else
        let ncdim ← allocN base
        writeDimension ncdim axis size unlim
        modA (fun a => { a with localSpans := a.localSpans ++ [(ncdim, size, spanning)],
                                unlimDims := if unlim then a.unlimDims ++ [ncdim] else a.unlimDims })
  | .scalarCoord key axis c base b => do
    let a ← getAux
    let ncvar ← match alreadyInFile a c (some []) false with
      | some e => pure e.ncvar
      | none => do
        let ncvar ← allocN base
        let extra ← writeBounds b [] ncvar c
        writeVar ncvar [] c extra
        pure ncvar
    modA (fun a => { a with axisScalar := a.axisScalar.filter (·.1 != axis) ++ [(axis, ncvar)], coords := a.coords ++ [ncvar] })
    setKeyVar key (some ncvar)
  | .aux key c axes base b => do
    let a ← getAux
    match axisDims a axes with
    | none => failK "axis_to_ncdim"
    | some ncdims =>
      match alreadyInFile a c (some ncdims) false with
      | some e =>
        setKeyVar key (some e.ncvar)
        modA (fun a => { a with coords := a.coords ++ [e.ncvar] })
      | none =>
        let ncvar ← allocN base
        let extra ← writeBounds b ncdims ncvar c
        writeVar ncvar ncdims c extra
        setKeyVar key (some ncvar)
        modA (fun a => { a with coords := a.coords ++ [ncvar] })
  | .domAnc key c axes base b => do
    let a ← getAux
    match axisDims a axes with
    | none => failK "axis_to_ncdim"
    | some ncdims =>
      match alreadyInFile a c (some ncdims) true with
      | some e => setKeyVar key (some e.ncvar)
      | none =>
        let ncvar ← allocN base
        let _ ← writeBounds b ncdims ncvar c
        writeVar ncvar ncdims c []
        setKeyVar key (some ncvar)
  | .msr key c axes base _ ext => do
    let a ← getAux
    match axisDims a axes with
    | none => failK "axis_to_ncdim"
    | some ncdims =>
      match alreadyInFile a c (some ncdims) false with
      | some e => setKeyVar key (some e.ncvar)
      | none =>
        match ext with
        | some ncvar =>
          -- `_set_external_variables`: no variable is created in this dataset; the name joins the global
          -- attribute `external_variables` (the netCDF4 call is one of the guarded global-attribute sites)
          (if a.extVars.isEmpty then modA (fun a => { a with omitG := a.omitG ++ ["external_variables"] }) else pure ())
          (if a.extVars.contains ncvar then pure () else do
            modA (fun a => { a with extVars := a.extVars ++ [ncvar] })
            Prog.setGlobal "external_variables" (" ".intercalate (sortNames (a.extVars ++ [ncvar]))) (.pure ()))
          setKeyVar key (some ncvar)
        | none =>
          let ncvar ← allocN base
          writeVar ncvar ncdims c []
          setKeyVar key (some ncvar)
  | .formula owner zaxis terms params => do
    let pft ← writeScalars params
    let a ← getAux
    let ft := pft ++ terms.filterMap (fun (t, k, _) => match lookup a.keyVar k with
      | some (some v) => some s!"{t}: {v}"
      | _ => none)
    let bft := pft ++ terms.filterMap (fun (t, k, axes) => match lookup a.keyVar k with
      | some (some v) =>
        let bv := match (a.bounds.find? (·.1 == v)).map (·.2) with
          | some bb => if axes.contains zaxis then some bb else none
          | none => none
        some s!"{t}: {bv.getD v}"
      | _ => none)
    if ft.isEmpty then pure ()
    else
      match lookup a.keyVar owner with
      | some (some ncvar) =>
        let m ← getMode
        let skip := m == .post && !fx.formulaTerms
        (if skip then pure () else Prog.setAttr ncvar "formula_terms" (" ".intercalate ft) (.pure ()))
        match (a.bounds.find? (·.1 == ncvar)).map (·.2) with
        | some bn => if skip then pure () else Prog.setAttr bn "formula_terms" (" ".intercalate bft) (.pure ())
        | none => pure ()
      | _ => failK "key_to_ncvar[owning_coord_key]"
  | .gridMap c base _ _ => do
    let a ← getAux
    match alreadyInFile a c none false with
    | some _ => pure ()
    | none =>
      let ncvar ← allocN base
      Prog.createVar ⟨ncvar, [], c.attrs, c.cid⟩ [] (.pure ())
      modA (regSeen c ncvar (some []))
  | .fieldAnc key c axes base => do
    let a ← getAux
    match axisDims a axes with
    | none => failK "axis_to_ncdim"
    | some ncdims =>
      match alreadyInFile a c (some ncdims) false with
      | some e => setKeyVar key (some e.ncvar)
      | none =>
        let ncvar ← allocN base
        writeVar ncvar ncdims c []
        setKeyVar key (some ncvar)
  | .data _ _ _ _ _ => pure ()   -- handled by `emitData`, which needs the other requests of the field

/-- The reference attributes and the variable of the field itself. -/
def emitData (reqs : List Req) : Req → Prog Unit
  | .data c base axes cms isDomain => do
    let a ← getAux
    match axisDims a axes with
    | none => failK "axis_to_ncdim"
    | some ncdims =>
      let ncvar ← allocN base
      let a ← getAux
      let kv := fun k => match lookup a.keyVar k with | some (some v) => some v | _ => none
      let msrs := reqs.filterMap (fun r => match r with
        | .msr k _ _ _ meas _ => (kv k).map (fun v => s!"{meas}: {v}")
        | _ => none)
      let gms := reqs.filterMap (fun r => match r with
        | .gridMap gc _ cks multiple =>
          (alreadyInFile a gc none false).map (fun e =>
            if multiple then s!"{e.ncvar}: {" ".intercalate ((cks.filterMap kv).mergeSort (· ≤ ·))}" else e.ncvar)
        | _ => none)
      let fans := reqs.filterMap (fun r => match r with
        | .fieldAnc k _ _ _ => kv k
        | _ => none)
      let cmstr := cms.map (fun (axs, rest) =>
        let names := axs.map (fun x => match x with
          | .inl ax => (match lookup a.axisScalar ax with
              | some d => d
              | none => (lookup a.axisDim ax).getD s!"domainaxis{ax}")
          | .inr s => s)
        " ".intercalate (names.map (· ++ ":")) ++ rest)
      let extra : List (String × String) :=
        (if msrs.isEmpty then [] else [("cell_measures", " ".intercalate msrs)]) ++
        (if a.coords.isEmpty then [] else [("coordinates", " ".intercalate a.coords)]) ++
        (if gms.isEmpty then [] else [("grid_mapping", " ".intercalate gms)]) ++
        (if fans.isEmpty || isDomain then [] else [("ancillary_variables", " ".intercalate fans)]) ++
        (if cmstr.isEmpty || isDomain then [] else [("cell_methods", " ".intercalate cmstr)]) ++
        (if isDomain then [("dimensions", " ".intercalate (ncdims.mergeSort (· ≤ ·)))] else [])
      writeVar ncvar (if isDomain then [] else ncdims) c extra a.omitG (regDims := some (if isDomain then [] else ncdims))
  | _ => pure ()

def resetField (a : Aux) : Aux :=
  { a with axisDim := [], axisScalar := [], keyVar := [], coords := [], localSpans := [] }

/-- `_write_field_or_domain`. -/
def emitField (fx : Fix) (f : FieldReq) : Prog Unit := do
  modA resetField
  f.reqs.forM (emitReq fx)
  f.reqs.forM (emitData f.reqs)
  modA (fun a => { a with spans := a.spans ++ a.localSpans })

/-- `_write_global_attributes`: which properties are file-level.  `fileG`: the global attributes the
open dataset has (consulted by the patched code in the post pass only). -/
def globalOmit (fx : Fix) (m : Mode) (fileG : List (String × String)) (fs : List FieldReq) : List (String × String) :=
  match fs with
  | [] => []
  | f0 :: rest =>
    let common := f0.gcand.filter (fun kv => rest.all (fun f => f.gcand.contains kv))
    if m == .post && fx.globals then
      common.filter (fun kv => kv.1 == "Conventions" || fileG.contains kv)
    else common

def conventions : String := "CF-1.11"

/-- `_file_io_iteration` after the file has been opened (and, in the patched post-dry-run pass, after
the names in use in the dataset have been registered: `startPost`). -/
def emitAll (fx : Fix) (fileG : List (String × String)) (fs : List FieldReq) : Prog Unit := do
  let m ← getMode
  if m != .dry then
    let om := globalOmit fx m fileG fs
    modA (fun a => { a with omitG := om.map (·.1) })
    Prog.setGlobal "Conventions" conventions (.pure ())
    (om.filter (·.1 != "Conventions")).forM (fun kv => (Prog.setGlobal kv.1 kv.2 (.pure ()) : Prog Unit))
  fs.forM (emitField fx)

/-! ## The refusal predicate of the append branch -/

/-- The featureType the dataset holds as a global attribute: as the code computes it from the
fields read back (`old`: the raw `nc_global_attributes` value, `None` when the property holds it). -/
def refuse (fx : Fix) (fmtNetcdf4 : Bool) (fileFT : Option String) (fs : List FieldReq) : Option String :=
  if fmtNetcdf4 && fs.any (·.groups) then some "groups" else
  if fx.featureType then
    let fts := fs.filterMap (·.featureType)
    match fts with
    | [] => none
    | t :: _ =>
      if fts.any (· != t) then some "featureType"
      else match fileFT with
        | none => some "featureType"
        | some o => if o != t then some "featureType" else none
  else
    -- as it was: only forced values count; the dataset's own value is `None` whenever it has one
    let fts := fs.filterMap (·.ftForced)
    let origHas := fileFT.isSome
    if fts.length > 1 || (!fts.isEmpty && origHas) then some "featureType" else none

/-! ## A write, an append, a sequence of appends -/

inductive Status
  | ok
  | refused (why : String)
  | failed (e : Err)
  deriving DecidableEq, Repr

def fileFT (ds : Ds) : Option String := (ds.gattrs.find? (·.1 == "featureType")).map (·.2)

/-- `cfdm.write(fields, mode='w')` to a new file. -/
def writeNew (fx : Fix) (fs : List FieldReq) : Status × Ds :=
  match run fx .real (emitAll fx [] fs) {} {} with
  | (.ok _, _, st) => (.ok, st.ds)
  | (.error e, _, st) => (.failed e, st.ds)

/-- The registry at the start of the post-dry-run pass: what the dry run left, plus (patch
C17-append-register-names) every variable and dimension name in use in the opened dataset.  The ghost
list of handed-out names restarts. -/
def startPost (fx : Fix) (E : Ds) (r : Reg) : Reg :=
  { r with nm := { r.nm with names := if fx.names then r.nm.names ++ E.names else r.nm.names, allocated := [] } }

/-- `cfdm.write(fields, mode='a')`: `readBack` are the requests of the fields that the reader
returns for the dataset (the dry run goes over them).  Also returns the final registry. -/
def appendFull (fx : Fix) (fmtNetcdf4 : Bool) (E : Ds) (readBack : List FieldReq) (S : List FieldReq) : Status × Ds × Reg :=
  match refuse fx fmtNetcdf4 (fileFT E) S with
  | some why => (.refused why, E, {})
  | none =>
    match run fx .dry (emitAll fx [] readBack) {} ⟨E, []⟩ with
    | (.error e, r, _) => (.failed e, E, r)
    | (.ok _, r, _) =>
      match run fx .post (emitAll fx E.gattrs S) (startPost fx E r) ⟨E, []⟩ with
      | (.ok _, r', st) => (.ok, st.ds, r')
      | (.error e, r', st) => (.failed e, st.ds, r')

def append (fx : Fix) (fmtNetcdf4 : Bool) (E : Ds) (readBack : List FieldReq) (S : List FieldReq) : Status × Ds :=
  let x := appendFull fx fmtNetcdf4 E readBack S
  (x.1, x.2.1)

/-- Successive appends; each step is given what the reader returns for the dataset at that time. -/
def appendSeq (fx : Fix) (fmtNetcdf4 : Bool) (readBack : Ds → List FieldReq) : Ds → List (List FieldReq) → List Status × Ds
  | E, [] => ([], E)
  | E, S :: rest =>
    let (st, E') := append fx fmtNetcdf4 E (readBack E) S
    let (sts, E'') := appendSeq fx fmtNetcdf4 readBack E' rest
    (st :: sts, E'')

end Cfdm.Append
