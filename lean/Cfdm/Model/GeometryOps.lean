import Cfdm.Model.Geometry
/-
C14 — operations on geometry cells that keep the part and node dimensions.

Model of (cfdm/mixin/propertiesdatabounds.py, geometry coordinates)

* `PropertiesDataBounds.__getitem__` along the cell axis: the bounds, the
  interior ring and the representative values take the same rows; the trailing
  part / node dimensions are never shortened, and (bounds with more than two
  dimensions) the nodes of a cell are not reversed by a negative step;
* `insert_dimension`, `squeeze`, `transpose` of a coordinate: applied as coded
  to the coordinate's own dimensions of the bounds and of the interior ring —
  `squeeze` by the POSITIONS of the coordinate's size-one axes, `transpose` with
  the trailing dimensions appended — on shapes;
* the writer on bounds that are padded more widely than their cells need
  (what a subspace leaves behind).

Core Lean only.
-/
namespace Cfdm.GeometryOps
open Cfdm.Geometry

/-- One cell padded to `mp` parts of `mn` nodes. -/
def padCellW {α} (mp mn : Nat) (c : List (List α)) : List (List (Option α)) :=
  padTo mp (List.replicate mn none) (c.map (fun p => padTo mn none (p.map some)))

/-- Bounds of the cells with trailing sizes `mp`, `mn` (at least the largest
part / node counts; possibly more, after a subspace). -/
def padW {α} (mp mn : Nat) (cs : Cells α) : List (List (List (Option α))) := cs.map (padCellW mp mn)

def padRowsW {β} (mp : Nat) (rows : List (List β)) : List (List (Option β)) :=
  rows.map (fun r => padTo mp none (r.map some))

/-- `x[indices]` along the leading axis for already resolved indices. -/
def takeRows {β} (sel : List Nat) (rows : List β) (d : β) : List β := sel.map (fun i => rows.getD i d)

/-- The subspace of a geometry coordinate: (bounds, ring). -/
def subspace {α} (sel : List Nat) (b : List (List (List (Option α)))) (r : Option (List (List (Option Int)))) :
    List (List (List (Option α))) × Option (List (List (Option Int))) :=
  (takeRows sel b [], r.map (fun r => takeRows sel r []))

/-! ## shapes under insert_dimension / squeeze / transpose -/

inductive COp where
  | ins (pos : Nat)
  | sq
  | tr
deriving DecidableEq, Repr

structure Shapes where
  /-- the coordinate's shape (that of its data, or inferred from the bounds) -/
  c : List Nat
  b : List Nat
  r : Option (List Nat)
deriving DecidableEq, Repr

def insAt (pos : Nat) (s : List Nat) : List Nat := s.take pos ++ [1] ++ s.drop pos

def dropAxesFrom (i : Nat) (axes : List Nat) : List Nat → List Nat
  | [] => []
  | x :: xs => if axes.contains i then dropAxesFrom (i + 1) axes xs else x :: dropAxesFrom (i + 1) axes xs

/-- `squeeze(axes)`: remove the listed POSITIONS. -/
def dropAxes (axes : List Nat) (s : List Nat) : List Nat := dropAxesFrom 0 axes s

/-- `transpose(axes)`. -/
def permute (axes : List Nat) (s : List Nat) : List Nat := axes.map (fun i => s.getD i 0)

/-- One operation as `PropertiesDataBounds` performs it on the coordinate, its
bounds and its interior ring. -/
def applyOp (o : COp) (x : Shapes) : Shapes :=
  let n := x.c.length
  match o with
  | COp.ins pos =>
    let pos := if pos ≤ n then pos else n
    ⟨insAt pos x.c, insAt pos x.b, x.r.map (insAt pos)⟩
  | COp.sq =>
    let axes := (List.range n).filter (fun i => x.c.getD i 0 == 1)
    ⟨dropAxes axes x.c, dropAxes axes x.b, x.r.map (dropAxes axes)⟩
  | COp.tr =>
    let axes := (List.range n).reverse
    -- bounds: `axes + range(ndim, bounds.ndim)`; ring: `axes + [-1]`
    ⟨permute axes x.c, permute (axes ++ (List.range' n (x.b.length - n))) x.b,
     x.r.map (fun r => permute (axes ++ [r.length - 1]) r)⟩

def applyOps (ops : List COp) (x : Shapes) : Shapes := ops.foldl (fun x o => applyOp o x) x

/-- Coordinate of `n` cells whose bounds have trailing sizes `mp`, `mn`. -/
def initShapes (n mp mn : Nat) (hasRing : Bool) : Shapes :=
  ⟨[n], [n, mp, mn], if hasRing then some [n, mp] else none⟩

end Cfdm.GeometryOps
