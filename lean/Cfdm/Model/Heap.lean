/-
C04 — heap model of cfdm's copy discipline (core Lean only, no Mathlib).

A Python object graph is abstracted as a *cell tree*: every mutable Python object
(dict, list, set, numpy buffer, instance with attributes) is a cell with an address;
immutable values carry no address.  The same address may occur at several places of a
tree and in several trees: that is aliasing.  A write is performed *at an address* and
therefore shows in every tree that reaches the cell (`applyT`).

The copy discipline is mirrored as the code performs it (`copyT` driven by the table
`cfdmTbl`):
  * `Container.copy → type(self)(source=self, copy=True)`: a new instance with a new
    `_components` dict whose entries are rebuilt one by one;
  * `custom` is shallow-copied (`custom.copy()`, cfdm/core/abstract/container.py:35-47);
  * `core.NumpyArray.copy`: `new.__dict__ = self.__dict__.copy()` — the new instance shares
    its `_components` dict, hence the numpy buffer (cfdm/core/data/numpyarray.py:85-139);
  * properties, netCDF names (`NetCDF._initialise_netcdf`), parameters, qualifiers,
    count/index/list variables, original file names …: deep copies (pickle round trip
    `core.functions.deepcopy`, or `copy.deepcopy`);
  * data, bounds, interior ring, node counts, datum / coordinate conversion, the constructs
    collection and each construct in it, compressed arrays: the component's own `copy()`;
  * file arrays share their `attributes` / `storage_options` dicts, `Bounds` shallow-copies
    `inherited_properties`, `Constructs.copy` shares the `_filters_applied` tuple,
    `Subarray` objects share what they index (`copy=False` in their `__init__`);
  * `copy(data=False)` / `Data.copy(array=False)`: the component is left out (`drop`), at
    every depth (bounds, interior rings and every construct of a field lose their data too).
Mutators are lists of writes at *typed paths* from the receiver (`Write`); the in-place
decorator (`_inplace_enabled`) runs them on `self` or on `self.copy()`.

Companions: `Model/HeapSites.lean` (the in-place mutation sites that a translator extracts from the
sources of cfdm on every run, typed as write paths, with a decidable liveness check) and
`Model/HeapViews.lean` (views of a constructs collection, `Field.domain`, `shallow_copy`).
-/
namespace Cfdm.Heap

/-- addresses are natural numbers (allocation counter) -/
abbrev Addr := Nat

/-- class family of an instance, decided by reflection in the harness -/
inductive Fam
  | container   -- any cfdm Container not listed below
  | nparray     -- copy() is core.NumpyArray.copy (`__dict__.copy()`)
  | constructs  -- a Constructs collection
  | filearray   -- NetCDF4Array / H5netcdfArray
  | subarray    -- the Subarray helper classes
  | opaque      -- any other Python object with attributes
  deriving DecidableEq, Repr

inductive Kind
  | dict | list | tup | set | ma
  | comps (owner : Fam)              -- the `_components` dict of an instance of that family
  | obj (fam : Fam) (cls : String)
  deriving DecidableEq, Repr

mutual
inductive T
  | imm (v : Nat)                                  -- immutable value (content id)
  | leaf (a : Nat) (opq : Bool) (v : Nat)         -- numpy buffer (opq = false) or opaque mutable leaf
  | node (a : Nat) (k : Kind) (kids : Kids)
inductive Kids
  | nil
  | cons (key : String) (t : T) (rest : Kids)
end

instance : Inhabited T := ⟨.imm 0⟩

inductive Mode | share | shallow | deep | own | drop
  deriving DecidableEq, Repr

/-- how `copy()` treats the entry `key` of a cell of kind `k` -/
structure Tbl where
  mode : Kind → String → Mode

def Mode.live : Mode → Bool
  | .deep => true | .own => true | .drop => true | _ => false

/-! ### addresses -/
mutual
def T.addrs : T → List Nat
  | .imm _ => []
  | .leaf a _ _ => [a]
  | .node a _ ks => a :: ks.addrs
def Kids.addrs : Kids → List Nat
  | .nil => []
  | .cons _ t r => t.addrs ++ r.addrs
end

def T.top : T → List Nat
  | .imm _ => []
  | .leaf a _ _ => [a]
  | .node a _ _ => [a]

def T.under : T → List Nat
  | .node _ _ ks => ks.addrs
  | _ => []

/- cells at *live* positions: reached from the root through entries that `copy()`
re-creates (deep / rec / dropped), i.e. the cells that belong to this object alone
once it has been copied -/
mutual
def liveT (tbl : Tbl) : T → List Nat
  | .imm _ => []
  | .leaf a _ _ => [a]
  | .node a k ks => a :: liveK tbl k ks
def liveK (tbl : Tbl) (k : Kind) : Kids → List Nat
  | .nil => []
  | .cons key t r =>
    (match tbl.mode k key with
     | .share => []
     | .shallow => t.top
     | .deep => t.addrs
     | .drop => t.addrs
     | .own => liveT tbl t) ++ liveK tbl k r
end

/- cells at *kept* positions: those that `copy()` hands over to the new object -/
mutual
def keptT (tbl : Tbl) : T → List Nat
  | .node _ k ks => keptK tbl k ks
  | _ => []
def keptK (tbl : Tbl) (k : Kind) : Kids → List Nat
  | .nil => []
  | .cons key t r =>
    (match tbl.mode k key with
     | .share => t.addrs
     | .shallow => t.under
     | .deep => []
     | .drop => []
     | .own => keptT tbl t) ++ keptK tbl k r
end

/-! ### copying -/
mutual
/-- a completely new structure (pickle round trip / `copy.deepcopy`) -/
def deepT : T → Nat → T × Nat
  | .imm v, n => (.imm v, n)
  | .leaf _ o v, n => (.leaf n o v, n + 1)
  | .node _ k ks, n =>
    let r := deepK ks (n + 1)
    (.node n k r.1, r.2)
def deepK : Kids → Nat → Kids × Nat
  | .nil, n => (.nil, n)
  | .cons key t r, n =>
    let a := deepT t n
    let b := deepK r a.2
    (.cons key a.1 b.1, b.2)
end

/-- `dict.copy()` / `__dict__.copy()`: a new top cell with the same children -/
def shallowT : T → Nat → T × Nat
  | .node _ k ks, n => (.node n k ks, n + 1)
  | .leaf _ o v, n => (.leaf n o v, n + 1)
  | .imm v, n => (.imm v, n)

mutual
/-- `x.copy()` as the code performs it, driven by the table -/
def copyT (tbl : Tbl) : T → Nat → T × Nat
  | .imm v, n => (.imm v, n)
  | .leaf _ o v, n => (.leaf n o v, n + 1)
  | .node _ k ks, n =>
    let r := copyK tbl k ks (n + 1)
    (.node n k r.1, r.2)
def copyK (tbl : Tbl) (k : Kind) : Kids → Nat → Kids × Nat
  | .nil, n => (.nil, n)
  | .cons key t r, n =>
    match tbl.mode k key with
    | .drop => copyK tbl k r n
    | .share =>
      let b := copyK tbl k r n
      (.cons key t b.1, b.2)
    | .shallow =>
      let a := shallowT t n
      let b := copyK tbl k r a.2
      (.cons key a.1 b.1, b.2)
    | .deep =>
      let a := deepT t n
      let b := copyK tbl k r a.2
      (.cons key a.1 b.1, b.2)
    | .own =>
      let a := copyT tbl t n
      let b := copyK tbl k r a.2
      (.cons key a.1 b.1, b.2)
end

/-! ### the table of cfdm -/
def Fam.isContainer : Fam → Bool
  | .container => true | .filearray => true | .subarray => true | _ => false

/-- components copied by a pickle round trip or `copy.deepcopy`.  (`parameters` is not listed: a
`Datum` / `CoordinateConversion` pickles its parameters, but a `SubsampledArray` copies its
interpolation parameters one by one with `p.copy()`; the entry-wise copy predicts the more sharing.) -/
def deepComps : List String :=
  ["properties", "netcdf", "qualifiers", "coordinates", "domain_ancillaries",
   "count_variable", "index_variable", "list_variable", "original_filenames", "compressed_dimensions",
   "parameter_dimensions", "dependent_tie_point_dimensions", "axes", "data_axes"]

def cfdmMode (dropKeys : List String) : Kind → String → Mode
  | .obj .nparray _, _ => .share
  | .obj .constructs _, key =>
    if key == "_constructs" || key == "_prefiltered" then .own
    else if key == "_filters_applied" || key == "_field_data_axes" || key == "_ignore" then .share
    else if key == "_construct_axes" || key == "_construct_type" || key == "_key_base"
         || key == "_array_constructs" || key == "_non_array_constructs" then .shallow
    else .drop
  | .obj .opaque _, _ => .deep
  | .obj _ _, key => if key == "_components" then .own else .drop
  | .comps owner, key =>
    if dropKeys.contains key then .drop
    else if key == "custom" || key == "inherited_properties" then .shallow
    else if owner == .filearray && (key == "attributes" || key == "storage_options") then .share
    else if owner == .subarray then
      (if key == "data" || key == "compressed_dimensions" then .deep
       else if key == "parameters" || key == "dependent_tie_points" then .shallow
       else .share)
    else if deepComps.contains key then .deep
    else .own
  | _, _ => .own

def cfdmTbl (dropKeys : List String := []) : Tbl := ⟨cfdmMode dropKeys⟩

/-! ### writes -/
inductive Upd
  | setKey (key : String) (v : T)   -- store a (fresh) structure under `key`
  | delKey (key : String)
  | poke (v : Nat)                  -- write into a buffer in place

def Kids.set : Kids → String → T → Kids
  | .nil, key, v => .cons key v .nil
  | .cons k t r, key, v => if k == key then .cons k v r else .cons k t (r.set key v)

def Kids.erase : Kids → String → Kids
  | .nil, _ => .nil
  | .cons k t r, key => if k == key then r else .cons k t (r.erase key)

def Kids.get? : Kids → String → Option T
  | .nil, _ => none
  | .cons k t r, key => if k == key then some t else r.get? key

def updKids : Upd → Kids → Kids
  | .setKey key v, ks => ks.set key v
  | .delKey key, ks => ks.erase key
  | .poke _, ks => ks

mutual
/-- the write `u` performed on the cell at address `a`, as seen from tree `t` -/
def applyT (a : Nat) (u : Upd) : T → T
  | .imm v => .imm v
  | .leaf b o v =>
    if b = a then (match u with | .poke w => .leaf b o w | _ => .leaf b o v) else .leaf b o v
  | .node b k ks =>
    if b = a then .node b k (updKids u (applyK a u ks)) else .node b k (applyK a u ks)
def applyK (a : Nat) (u : Upd) : Kids → Kids
  | .nil => .nil
  | .cons key t r => .cons key (applyT a u t) (applyK a u r)
end

def applyAll : List (Nat × Upd) → T → T
  | [], t => t
  | (a, u) :: ws, t => applyAll ws (applyT a u t)

/-! ### observation: the fingerprint is a fold over the reachable cells that forgets addresses -/
mutual
def obsT : T → T
  | .imm v => .imm v
  | .leaf _ o v => .leaf 0 o v
  | .node _ k ks => .node 0 k (obsK ks)
def obsK : Kids → Kids
  | .nil => .nil
  | .cons key t r => .cons key (obsT t) (obsK r)
end

mutual
def T.beq : T → T → Bool
  | .imm v, .imm w => v == w
  | .leaf a o v, .leaf b p w => a == b && o == p && v == w
  | .node a k ks, .node b l ls => a == b && decide (k = l) && ks.beq ls
  | _, _ => false
def Kids.beq : Kids → Kids → Bool
  | .nil, .nil => true
  | .cons k t r, .cons l u s => k == l && t.beq u && r.beq s
  | _, _ => false
end

/-! ### typed paths and mutators -/
/-- one step of a write path; the step only resolves through a cell of the stated sort -/
inductive Step
  | attr                    -- the `_components` attribute of a container-family instance
  | comp (key : String)     -- an entry of a `_components` dict of a (non-file, non-subarray) container
  | cattr (key : String)    -- an attribute of a Constructs collection
  | item (key : String)     -- an entry of a plain dict / list
  | raw (key : String)      -- any entry of any cell (used only by the defective variants below)
  | fattr (f : Fam)                  -- the `_components` attribute of an instance of exactly that family
  | fcomp (f : Fam) (key : String)   -- an entry of the `_components` dict of an instance of that family
  | oattr (f : Fam) (key : String)   -- any instance attribute of an object of that family

def Step.key : Step → String
  | .attr => "_components" | .comp k => k | .cattr k => k | .item k => k | .raw k => k
  | .fattr _ => "_components" | .fcomp _ k => k | .oattr _ k => k

def Step.ok : Step → Kind → Bool
  | .attr, .obj f _ => f.isContainer
  | .comp _, .comps f => f == .container
  | .cattr _, .obj f _ => f == .constructs
  | .item _, .dict => true
  | .item _, .list => true
  | .raw _, _ => true
  | .fattr f, .obj g _ => f == g
  | .fcomp f _, .comps g => f == g
  | .oattr f _, .obj g _ => f == g
  | _, _ => false

def resolve : T → List Step → Option T
  | t, [] => some t
  | .node _ k ks, s :: p => if s.ok k then (ks.get? s.key).bind (fun c => resolve c p) else none
  | _, _ :: _ => none

def targetAddr (t : T) (p : List Step) : Option Nat :=
  match resolve t p with
  | some (.node a _ _) => some a
  | some (.leaf a _ _) => some a
  | _ => none

/-- a step is live under a table when every cell it can resolve through re-creates that entry on copy -/
def Step.liveIn (tbl : Tbl) (s : Step) : Prop := ∀ k, s.ok k = true → (tbl.mode k s.key).live = true

/-- through which name the body of an `_inplace_enabled` method performs a write -/
inductive Via | placeholder | self
  deriving DecidableEq, Repr

structure Write where
  path : List Step
  upd : Upd
  via : Via := .placeholder

/-- one write of a mutator on the receiver `y`, as seen from `(x, y)`; inserted structures get
fresh addresses from the allocation counter -/
def freshUpd : Upd → Nat → Upd × Nat
  | .setKey key v, n => let r := deepT v n; (.setKey key r.1, r.2)
  | u, n => (u, n)

def stepWrite (w : Write) (s : T × T × Nat) : T × T × Nat :=
  match targetAddr s.2.1 w.path with
  | some a => (applyT a (freshUpd w.upd s.2.2).1 s.1, applyT a (freshUpd w.upd s.2.2).1 s.2.1, (freshUpd w.upd s.2.2).2)
  | none => s

def runWrites : List Write → T × T × Nat → T × T × Nat
  | [], s => s
  | w :: ws, s => runWrites ws (stepWrite w s)

/-- the same run with nobody watching -/
def stepOn (w : Write) (s : T × Nat) : T × Nat :=
  match targetAddr s.1 w.path with
  | some a => (applyT a (freshUpd w.upd s.2).1 s.1, (freshUpd w.upd s.2).2)
  | none => s

def runOn : List Write → T × Nat → T × Nat
  | [], s => s
  | w :: ws, s => runOn ws (stepOn w s)

/-- `@_inplace_enabled(default=False)`: `d = self` or `d = self.copy()`; the body writes through
`d` (`Via.placeholder`) — or, wrongly, through `self`.  Returns (receiver afterwards, result). -/
def stepVia (w : Write) (s : T × T × Nat) : T × T × Nat :=
  match w.via with
  | .placeholder => stepWrite w s
  | .self =>
    let r := stepWrite w (s.2.1, s.1, s.2.2)
    (r.2.1, r.1, r.2.2)

def runVia : List Write → T × T × Nat → T × T × Nat
  | [], s => s
  | w :: ws, s => runVia ws (stepVia w s)

def inplaceOff (tbl : Tbl) (m : List Write) (x : T) (n : Nat) : T × T × Nat :=
  let c := copyT tbl x n
  runVia m (x, c.1, c.2)

def inplaceOn (m : List Write) (x : T) (n : Nat) : T × Nat := runOn m (x, n)

/-! ### the method table (one entry per family of mutators, as coded) -/
def comps (p : List Step) : List Step := .attr :: p

/-- `set_property`, `set_parameter`, `set_qualifier`, `nc_set_variable`, … : an entry of a component dict -/
def mSetEntry (component key : String) (v : T) : List Write :=
  [⟨comps [.comp component], .setKey key v, .placeholder⟩]
def mDelEntry (component key : String) : List Write :=
  [⟨comps [.comp component], .delKey key, .placeholder⟩]
/-- `set_data`, `set_bounds`, `set_interior_ring`, `set_datum`, `set_size`, `_set_component` … -/
def mSetComponent (component : String) (v : T) : List Write := [⟨[.attr], .setKey component v, .placeholder⟩]
def mDelComponent (component : String) : List Write := [⟨[.attr], .delKey component, .placeholder⟩]
/-- `nc_set_global_attribute(s)`, `nc_set_group_attributes`: `netcdf[which][prop] = value` -/
def mNcAttr (which prop : String) (v : T) : List Write :=
  [⟨comps [.comp "netcdf", .item which], .setKey prop v, .placeholder⟩]
/-- `Data.__setitem__` and every in-place operation on data: a *new* array instance replaces the
component (`array = self.array` is a fresh numpy array; `_set_Array(array, copy=False)`) -/
def mReplaceArray (newArray : T) : List Write := [⟨[.attr], .setKey "array" newArray, .placeholder⟩]
/-- the same through a construct: `c.data[...] = v`, `c.squeeze(inplace=True)`, … -/
def mReplaceDataArray (newArray : T) : List Write :=
  [⟨comps [.comp "data", .attr], .setKey "array" newArray, .placeholder⟩]
def mReplaceBoundsArray (newArray : T) : List Write :=
  [⟨comps [.comp "bounds", .attr, .comp "data", .attr], .setKey "array" newArray, .placeholder⟩]
/-- `set_construct` / `del_construct` on a field or domain -/
def mSetConstruct (ctype key : String) (c axes : T) : List Write :=
  [⟨comps [.comp "constructs", .cattr "_constructs", .item ctype], .setKey key c, .placeholder⟩,
   ⟨comps [.comp "constructs", .cattr "_construct_type"], .setKey key (.imm 1), .placeholder⟩,
   ⟨comps [.comp "constructs", .cattr "_construct_axes"], .setKey key axes, .placeholder⟩]
def mDelConstruct (ctype key : String) : List Write :=
  [⟨comps [.comp "constructs", .cattr "_constructs", .item ctype], .delKey key, .placeholder⟩,
   ⟨comps [.comp "constructs", .cattr "_construct_type"], .delKey key, .placeholder⟩,
   ⟨comps [.comp "constructs", .cattr "_construct_axes"], .delKey key, .placeholder⟩]
/-- a mutator of a metadata construct reached through the field (`f.apply_masking(inplace=True)`,
`f.construct(k).set_property(…)`, `f.uncompress(inplace=True)` …) -/
def mInConstruct (ctype key : String) (m : List Write) : List Write :=
  m.map (fun w => { w with path := comps [.comp "constructs", .cattr "_constructs", .item ctype, .item key] ++ w.path })
/-- `_custom[key] = v` -/
def mSetCustom (key : String) (v : T) : List Write := [⟨comps [.comp "custom"], .setKey key v, .placeholder⟩]

/-- every write path used by the table: the generators above, for all their parameters -/
inductive TableWrite : Write → Prop
  | setEntry (c k v) (h : c ∈ ["properties", "parameters", "qualifiers", "netcdf", "domain_ancillaries", "coordinates"]) :
      TableWrite ⟨comps [.comp c], .setKey k v, .placeholder⟩
  | delEntry (c k) (h : c ∈ ["properties", "parameters", "qualifiers", "netcdf", "domain_ancillaries", "coordinates"]) :
      TableWrite ⟨comps [.comp c], .delKey k, .placeholder⟩
  | setComponent (c v) : TableWrite ⟨[.attr], .setKey c v, .placeholder⟩
  | delComponent (c) : TableWrite ⟨[.attr], .delKey c, .placeholder⟩
  | ncAttr (w p v) : TableWrite ⟨comps [.comp "netcdf", .item w], .setKey p v, .placeholder⟩
  | dataArray (v) : TableWrite ⟨comps [.comp "data", .attr], .setKey "array" v, .placeholder⟩
  | boundsArray (v) : TableWrite ⟨comps [.comp "bounds", .attr, .comp "data", .attr], .setKey "array" v, .placeholder⟩
  | ringArray (v) : TableWrite ⟨comps [.comp "interior_ring", .attr, .comp "data", .attr], .setKey "array" v, .placeholder⟩
  | construct (t k v) : TableWrite ⟨comps [.comp "constructs", .cattr "_constructs", .item t], .setKey k v, .placeholder⟩
  | delConstruct (t k) : TableWrite ⟨comps [.comp "constructs", .cattr "_constructs", .item t], .delKey k, .placeholder⟩
  | constructMeta (a k v) (h : a ∈ ["_construct_type", "_construct_axes", "_key_base"]) :
      TableWrite ⟨comps [.comp "constructs", .cattr a], .setKey k v, .placeholder⟩
  | delConstructMeta (a k) (h : a ∈ ["_construct_type", "_construct_axes", "_key_base"]) :
      TableWrite ⟨comps [.comp "constructs", .cattr a], .delKey k, .placeholder⟩
  | custom (k v) : TableWrite ⟨comps [.comp "custom"], .setKey k v, .placeholder⟩
  | delCustom (k) : TableWrite ⟨comps [.comp "custom"], .delKey k, .placeholder⟩
  | delNcAttr (w p) : TableWrite ⟨comps [.comp "netcdf", .item w], .delKey p, .placeholder⟩
  | boundsComponent (c v) : TableWrite ⟨comps [.comp "bounds", .attr], .setKey c v, .placeholder⟩
  | ringComponent (c v) : TableWrite ⟨comps [.comp "interior_ring", .attr], .setKey c v, .placeholder⟩
  | inConstruct (t k w) (h : TableWrite w) :
      TableWrite { w with path := comps [.comp "constructs", .cattr "_constructs", .item t, .item k] ++ w.path }

/-- `x[indices]` of a construct (`PropertiesDataBounds.__getitem__`): `new = self.copy()`, then the subspaced
data replace the data of `new`, of its bounds and of its interior ring (`set_data(…, copy=False)`); the
subspaced arrays are new objects (`Data.__getitem__`: `self.array[indices]` is an index into a fresh copy) -/
def mGetitem (newData : T) (newBoundsData newRingData : Option T) : List Write :=
  mSetComponent "data" newData ++
  (match newBoundsData with
   | some b => [⟨comps [.comp "bounds", .attr], .setKey "data" b, .placeholder⟩]
   | none => []) ++
  (match newRingData with
   | some r => [⟨comps [.comp "interior_ring", .attr], .setKey "data" r, .placeholder⟩]
   | none => [])

def getitemT (tbl : Tbl) (newData : T) (newBoundsData newRingData : Option T) (x : T) (n : Nat) : T × T × Nat :=
  inplaceOff tbl (mGetitem newData newBoundsData newRingData) x n

/-! ### defective variants kept for the counter-examples -/
/-- a `Field.set_data(data, axes=…, inplace=False)` that would record the axes on the receiver before it
makes the working copy (and then possibly raise while checking the data against them) -/
def mSetDataAxesViaSelf (axes v : T) : List Write :=
  [⟨[.attr], .setKey "data_axes" axes, .self⟩] ++ mSetComponent "data" v

/-- `Field.apply_masking` before ebd1f5d: the data are masked on the working copy `d`, the metadata
constructs through `self` -/
def mApplyMaskingOld (ctype key : String) (newFieldArray newConstructArray : T) : List Write :=
  mReplaceDataArray newFieldArray ++
  (mInConstruct ctype key (mReplaceDataArray newConstructArray)).map (fun w => { w with via := .self })

/-- `set_data(…, inplace=False)` as coded before the repair: `f = self.copy(data=False)` -/
def setDataOffOld (v : T) (x : T) (n : Nat) : T × T × Nat :=
  inplaceOff (cfdmTbl ["data"]) (mSetComponent "data" v) x n

/-- a `__setitem__` that would assign into the stored numpy array in place -/
def mPokeArray (v : Nat) : List Write :=
  [⟨[.attr, .comp "array", .raw "_components", .raw "array"], .poke v, .placeholder⟩]

end Cfdm.Heap
