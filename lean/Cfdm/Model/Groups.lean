/-
C11 — hierarchical groups.  Executable model (core Lean only) of

* the group flattener `cfdm/read_write/netcdf/flatten/flatten.py`
  (`search_by_proximity`, `search_by_relative_path`, `resolve_reference`,
  `resolve_reference_proximity`, `resolve_reference_post_processing`, `adapt_name`,
  `generate_flattened_name`, the preorder walk of `process_group`), driven by the
  regenerated table `Cfdm.Generated.FlatteningRules`;
* the group-related string functions of the writer `netcdfwrite.py`
  (`_remove_group_structure`, `_groups`, `_parent_group`, the dimension-visibility check
  of `_write_netcdf_variable`), of the reader (`groups = name.split('/')[1:-1]`) and of
  `mixin/netcdf.py` (`_nc_groups`, `_nc_set_groups`);
* the writer's placement of variables and dimensions into groups (`place`) and the
  flattening of the result (`flattenVar`).

Names are `List Char` (so that the string theorems are plain list theorems); a group
path is the list of group names from the root; a *reversed* path (innermost group first)
is what the ascent recurses on: the parent of a group is the tail of its reversed path.

The group tree is the plain (non-nested) inductive `Forest` in first-child / next-sibling
form: `cons n kids rest` is the group with content `n` and child groups `kids`, followed by
its later siblings `rest`.  Sibling order is creation order (the order of netCDF4's
`groups` dictionary).

The un-suffixed functions model the code as it is in /repo (after the nine C11 `fix:` commits,
fixes/C11-*.patch); the behaviour before those commits is kept as `…Old`.  (Group attributes of
several fields, the reader's base names: `Model/GroupsMulti.lean`.)
-/
import Cfdm.Generated.FlatteningRules

namespace Cfdm.Groups

open Cfdm.Generated.FlatteningRules (Rules)

abbrev Name := List Char
abbrev Path := List Name

/-- Content of one group. `scal` ⊆ `vars` are the variables without dimensions. -/
structure Node where
  name : Name
  dims : List Name := []
  vars : List Name := []
  scal : List Name := []
  attrs : List Name := []
  /-- attributes of the group with their values (`setncatts` of the writer's group attributes) -/
  avals : List (Name × Name) := []
deriving Repr, DecidableEq

inductive Forest where
  | nil : Forest
  | cons (n : Node) (kids : Forest) (rest : Forest) : Forest
deriving Repr

/-- A group: its content and its child groups.  The dataset is the root group. -/
structure Grp where
  node : Node
  kids : Forest
deriving Repr

def Node.has (n : Node) (searchDim : Bool) (ref : Name) : Bool :=
  if searchDim then n.dims.contains ref else n.vars.contains ref

/-- `group.groups[g]`: the first child called `g`. -/
def Forest.find : Forest → Name → Option Grp
  | .nil, _ => none
  | .cons n k r, g => if n.name = g then some ⟨n, k⟩ else r.find g

/-- Follow a path of group names downwards. -/
def sub : Grp → Path → Option Grp
  | t, [] => some t
  | t, g :: p => match t.kids.find g with
    | none => none
    | some t' => sub t' p

/-- Does the group at absolute path `p` exist and define a dimension / variable `ref`? -/
def hasAt (root : Grp) (p : Path) (searchDim : Bool) (ref : Name) : Bool :=
  match sub root p with
  | some t => t.node.has searchDim ref
  | none => false

def groupAt (root : Grp) (p : Path) : Bool := (sub root p).isSome

def kidsAt (root : Grp) (p : Path) : Forest :=
  match sub root p with
  | some t => t.kids
  | none => .nil

def scalarAt (root : Grp) (p : Path) (n : Name) : Bool :=
  match sub root p with
  | some t => t.node.scal.contains n
  | none => false

/-! ### `search_by_proximity` -/

/-- The lateral descent of `search_by_proximity` **as coded**: every child in turn, and
below each child before its next sibling (depth first, pre-order).  `pre` is the path of
the group whose children `f` are. -/
def dfs (searchDim : Bool) (ref : Name) : Path → Forest → Option Path
  | _, .nil => none
  | pre, .cons n k r =>
    if n.has searchDim ref then some (pre ++ [n.name])
    else match dfs searchDim ref (pre ++ [n.name]) k with
      | some q => some q
      | none => dfs searchDim ref pre r

/-- First group exactly `d` levels below the children level (d = 0: the children
themselves), in left-to-right order, that has `ref`. -/
def atDepth (searchDim : Bool) (ref : Name) : Nat → Path → Forest → Option Path
  | _, _, .nil => none
  | 0, pre, .cons n _ r =>
    if n.has searchDim ref then some (pre ++ [n.name]) else atDepth searchDim ref 0 pre r
  | d + 1, pre, .cons n k r =>
    match atDepth searchDim ref d (pre ++ [n.name]) k with
    | some q => some q
    | none => atDepth searchDim ref (d + 1) pre r

def Forest.height : Forest → Nat
  | .nil => 0
  | .cons _ k r => max (k.height + 1) r.height

/-- Lateral search as patched (CF 2.7.1: "width-wise through each level of groups"): the
level loop `level = children; while level: …; level = next level` visits the groups of
depth 1, then depth 2, …; `atDepth d` enumerates level `d + 1` in the same order; there are `height` levels. -/
def bfsFrom (searchDim : Bool) (ref : Name) (pre : Path) (f : Forest) : Nat → Nat → Option Path
  | 0, _ => none
  | k + 1, d =>
    match atDepth searchDim ref d pre f with
    | some q => some q
    | none => bfsFrom searchDim ref pre f k (d + 1)

def bfs (searchDim : Bool) (ref : Name) (pre : Path) (f : Forest) : Option Path :=
  bfsFrom searchDim ref pre f f.height 0

/-- `search_by_proximity(ref, group, search_dim, local_apex_reached, is_coordinate_variable)`,
the group given by its reversed path.  `lateral` is the descent used at the local apex. -/
def ascendWith (lateral : Bool → Name → Path → Forest → Option Path)
    (root : Grp) (searchDim coord : Bool) (ref : Name) : List Name → Bool → Option Path
  | [], apex =>
    if hasAt root [] searchDim ref then some []
    else
      let apex := apex || hasAt root [] true ref
      -- the root has no parent: top reached
      if coord && apex then lateral searchDim ref [] (kidsAt root []) else none
  | g :: up, apex =>
    let p := (g :: up).reverse
    if hasAt root p searchDim ref then some p
    else
      let apex := apex || hasAt root p true ref
      -- top reached iff (coordinate rule and local apex reached)
      if coord && apex then lateral searchDim ref p (kidsAt root p)
      else ascendWith lateral root searchDim coord ref up apex

def ascend := ascendWith bfs
def ascendOld := ascendWith dfs

/-- Proximity search from the group at path `p`; the result is the path of the group that
holds the element (the element's name is `ref`). -/
def searchProx (root : Grp) (searchDim coord : Bool) (ref : Name) (p : Path) : Option Path :=
  ascend root searchDim coord ref p.reverse false

def searchProxOld (root : Grp) (searchDim coord : Bool) (ref : Name) (p : Path) : Option Path :=
  ascendOld root searchDim coord ref p.reverse false

/-! ### strings: `str.split`, `'/'.join`, `startswith` -/

/-- Python `s.split(sep)` for a one-character separator. -/
def splitOn (sep : Char) : List Char → List (List Char)
  | [] => [[]]
  | c :: cs =>
    if c = sep then [] :: splitOn sep cs
    else match splitOn sep cs with
      | [] => [[c]]
      | w :: ws => (c :: w) :: ws

/-- Python `sep.join(parts)`. -/
def joinWith (sep : List Char) : List (List Char) → List Char
  | [] => []
  | [w] => w
  | w :: w' :: ws => w ++ sep ++ joinWith sep (w' :: ws)

/-- `"/" + "/".join(p + [n])`: `_Flattener.pathname` and the names the `nc_set_*_groups`
methods build. -/
def absName (p : Path) (n : Name) : List Char := '/' :: joinWith ['/'] (p ++ [n])

/-- The name the cfdm API gives an element: root-group names carry no slash. -/
def ncName (p : Path) (n : Name) : List Char :=
  match p with
  | [] => n
  | _ => absName p n

/-! ### `search_by_relative_path` -/

/-- The `while ref.startswith('../')` loop.  `none`: asked for the parent of the root. -/
def stripUps : List Char → List Name → Option (List Char × List Name)
  | c1 :: c2 :: c3 :: rest, rp =>
    if c1 = '.' ∧ c2 = '.' ∧ c3 = '/' then
      match rp with
      | [] => none
      | _ :: up => stripUps rest up
    else some (c1 :: c2 :: c3 :: rest, rp)
  | ref, rp => some (ref, rp)

inductive Rel where
  | found (p : Path) (n : Name)
  | none
  | keyError
deriving Repr, DecidableEq

/-- `search_by_relative_path` as coded: a missing final element is a `KeyError`. -/
def searchRelOld (root : Grp) (searchDim : Bool) (ref : List Char) (rp : List Name) : Rel :=
  match stripUps ref rp with
  | none => .none
  | some (ref', rp') =>
    let comps := splitOn '/' ref'
    let q := rp'.reverse ++ comps.dropLast
    let n := comps.getLastD []
    if groupAt root q then
      if hasAt root q searchDim n then .found q n else .keyError
    else .none

/-- … as patched: a missing final element is "not found". -/
def searchRel (root : Grp) (searchDim : Bool) (ref : List Char) (rp : List Name) : Option (Path × Name) :=
  match searchRelOld root searchDim ref rp with
  | .found q n => some (q, n)
  | _ => none

/-! ### `resolve_reference`, post-processing, `adapt_name` -/

inductive RefType where
  | none | dimension | variable | standardName
deriving Repr, DecidableEq

/-- Final state of one reference token. -/
inductive Out where
  | dim (p : Path) (n : Name)       -- replaced by the flattened name of this dimension
  | var (p : Path) (n : Name)       -- replaced by the flattened name of this variable
  | asis (s : List Char)            -- kept as given (standard name)
  | notFound (s : List Char)        -- `REF_NOT_FOUND_<s>` (strict=False)
  | unresolved                      -- UnresolvedReferenceException (strict=True)
  | raised (e : String)             -- old code only: AttributeError / KeyError
deriving Repr, DecidableEq

def isInfix (a : List Char) : List Char → Bool
  | [] => a.isEmpty
  | c :: cs => a.isPrefixOf (c :: cs) || isInfix a cs

/-- Python's `x in s` for strings. -/
def strContains (s x : List Char) : Bool := isInfix x s

/-- Split an absolute reference `/a/b/x` into group path and name (`ref.split('/')`
without the leading empty string). -/
def parseAbs (ref : List Char) : Path × Name :=
  let comps := (splitOn '/' ref).drop 1
  (comps.dropLast, comps.getLastD [])

/-- The element an absolute path string is a key of in `_dim_map` / `_var_map`, as
`adapt_name` looks it up (primary map first, the other one when the rule allows both). -/
def adaptElem (root : Grp) (r : Rules) (strict : Bool) (orig : List Char) (p : Path) (n : Name) : Out :=
  let primaryDim := decide (r.refToDim > r.refToVar)
  let both := r.refToDim != 0 && r.refToVar != 0
  if hasAt root p primaryDim n then (if primaryDim then .dim p n else .var p n)
  else if both && hasAt root p (!primaryDim) n then (if primaryDim then .var p n else .dim p n)
  else if r.acceptStandardNames then .asis orig
  else if strict then .unresolved else .notFound orig

/-- What a successful search hands to the post-processing. -/
structure Found where
  p : Path
  n : Name
  ty : RefType
deriving Repr, DecidableEq

/-- `resolve_reference_post_processing` followed by `adapt_name` for one token.
`coords`: the referring variable's `coordinates` attribute, if any. -/
def postProcess (root : Grp) (r : Rules) (strict : Bool) (coords : Option (List Char))
    (orig : List Char) (found : Option Found) : Out :=
  match found with
  | none =>
    if r.acceptStandardNames then .asis orig
    else if strict then .unresolved else .notFound orig
  | some f =>
    if f.ty = .variable && r.limitToScalarCoordinates &&
        (match coords with
         | none => true
         | some c => !(strContains c orig) || !(scalarAt root f.p f.n)) then
      -- "not a scalar coordinate variable: assumed to be a standard name"
      .asis orig
    else adaptElem root r strict (if orig.head? = some '/' then orig else absName f.p f.n) f.p f.n

def tyOf (searchDim : Bool) : RefType := if searchDim then .dimension else .variable

/-- `resolve_reference` (+ post-processing + the later `adapt_name`) as patched. -/
def resolve (root : Grp) (r : Rules) (strict : Bool) (coords : Option (List Char))
    (at_ : Path) (ref : List Char) : Out :=
  let dimFirst := decide (r.refToDim > r.refToVar)
  let alt := r.refToDim != 0 && r.refToVar != 0
  if ref.head? = some '/' then
    let (p, n) := parseAbs ref
    postProcess root r strict coords ref (some ⟨p, n, .none⟩)
  else if ref.contains '/' then
    match searchRel root dimFirst ref at_.reverse with
    | some (p, n) => postProcess root r strict coords ref (some ⟨p, n, tyOf dimFirst⟩)
    | none =>
      if alt then
        match searchRel root (!dimFirst) ref at_.reverse with
        | some (p, n) => postProcess root r strict coords ref (some ⟨p, n, tyOf (!dimFirst)⟩)
        | none => postProcess root r strict coords ref none
      else postProcess root r strict coords ref none
  else
    match searchProx root dimFirst r.stopAtLocalApex ref at_ with
    | some p => postProcess root r strict coords ref (some ⟨p, ref, tyOf dimFirst⟩)
    | none =>
      if alt then
        match searchProx root (!dimFirst) r.stopAtLocalApex ref at_ with
        | some p => postProcess root r strict coords ref (some ⟨p, ref, tyOf (!dimFirst)⟩)
        | none => postProcess root r strict coords ref none
      else postProcess root r strict coords ref none

/-- `resolve_reference` as it is in /repo: `KeyError` from `search_by_relative_path`,
`AttributeError` from the `self.groupp` typo on the alternative relative branch, depth-first
lateral search. -/
def resolveOld (root : Grp) (r : Rules) (strict : Bool) (coords : Option (List Char))
    (at_ : Path) (ref : List Char) : Out :=
  let dimFirst := decide (r.refToDim > r.refToVar)
  let alt := r.refToDim != 0 && r.refToVar != 0
  if ref.head? = some '/' then
    let (p, n) := parseAbs ref
    postProcess root r strict coords ref (some ⟨p, n, .none⟩)
  else if ref.contains '/' then
    match searchRelOld root dimFirst ref at_.reverse with
    | .found p n => postProcess root r strict coords ref (some ⟨p, n, tyOf dimFirst⟩)
    | .keyError => .raised "KeyError"
    | .none =>
      if alt then .raised "AttributeError"
      else postProcess root r strict coords ref none
  else
    match searchProxOld root dimFirst r.stopAtLocalApex ref at_ with
    | some p => postProcess root r strict coords ref (some ⟨p, ref, tyOf dimFirst⟩)
    | none =>
      if alt then
        match searchProxOld root (!dimFirst) r.stopAtLocalApex ref at_ with
        | some p => postProcess root r strict coords ref (some ⟨p, ref, tyOf (!dimFirst)⟩)
        | none => postProcess root r strict coords ref none
      else postProcess root r strict coords ref none

/-! ### `parse_attribute` -/

/-- `parse_attribute` as it is in /repo collects the (key, values) pairs of an attribute in
a dict: a repeated key keeps its first position and only its last value.  The patched code
keeps the list of pairs. -/
def dictOfPairs {β : Type} (l : List (Name × β)) : List (Name × β) :=
  l.foldl (fun d kv =>
    if d.any (fun x => x.1 == kv.1) then d.map (fun x => if x.1 == kv.1 then (x.1, kv.2) else x)
    else d ++ [kv]) []

/-! ### `generate_flattened_name` -/

/-- `convert_path_to_valid_name(path) + '__' + name` = the components joined by `__`. -/
def fullName (p : Path) (n : Name) : List Char := joinWith ['_', '_'] (p ++ [n])

/-- `generate_flattened_name` as it is in /repo.  `h` stands for `sha1(·).hexdigest()`. -/
def flatNameOld (h : List Char → List Char) (p : Path) (n : Name) : List Char :=
  match p with
  | [] => n
  | _ =>
    let full := fullName p n
    if full.length ≥ 256 then
      let new := h ('/' :: joinWith ['/'] p) ++ ['_', '_'] ++ n
      if new.length ≥ 256 then h full else new
    else full

/-- … as patched: a name already taken by an element of the same kind in the output
dataset (`a/b__c` and `a/b/c`) falls back to the hashed forms as well. -/
def flatName (h : List Char → List Char) (inUse : List (List Char)) (p : Path) (n : Name) : List Char :=
  match p with
  | [] => n
  | _ =>
    let full := fullName p n
    if full.length ≥ 256 || inUse.contains full then
      let new := h ('/' :: joinWith ['/'] p) ++ ['_', '_'] ++ n
      if new.length ≥ 256 || inUse.contains new then h full else new
    else full

/-! ### the writer's and reader's string functions -/

/-- `_remove_group_structure(name, return_groups=True)`. -/
def removeGroupStructure (name : List Char) : List Char × List Char :=
  let st := splitOn '/' name
  let groups := joinWith ['/'] st.dropLast
  (st.getLastD [], if groups.isEmpty then groups else groups ++ ['/'])

/-- `_groups(name)`: `''`, `'/forecast/'`, `'/forecast/model/'`. -/
def groupsStr (name : List Char) : List Char := (removeGroupStructure name).2

def baseName (name : List Char) : List Char := (removeGroupStructure name).1

/-- The check of `_write_netcdf_variable`: `groups.startswith(ncdim_groups)`. -/
def dimVisible (ncvar ncdim : List Char) : Bool := (groupsStr ncdim).isPrefixOf (groupsStr ncvar)

/-- `name.split('/')[1:-1]`: `_nc_groups`, the reader's `variable_groups` /
`dimension_groups`, and the loop of `_parent_group`. -/
def ncGroups (name : List Char) : Path := ((splitOn '/' name).drop 1).dropLast

/-- `_parent_group(name)` with `group=True`: the group path in which the element is
created; `none` = `ValueError` (a slash but no leading slash). -/
def parentGroup (name : List Char) : Option Path :=
  if !name.contains '/' then some []
  else if name.head? ≠ some '/' then none
  else some (ncGroups name)

/-- `_nc_set(entity, value)` of `mixin/netcdf.py`: the stored name, or `none` = `ValueError`
(empty, `/`, a group structure without a leading slash or with a trailing slash); a
root-group name `/x` is stored as `x`. -/
def ncSet (value : List Char) : Option (List Char) :=
  if value.isEmpty || value == ['/'] then none
  else if value.contains '/' then
    if value.head? != some '/' then none
    else if (value.filter (· == '/')).length == 1 then some (value.drop 1)
    else if value.getLast? == some '/' then none
    else some value
  else some value

/-- `_nc_set_groups(groups)`: the new name for the base name of `name`; `none` = `ValueError`
(no name, or a group name containing `/`). -/
def ncSetGroups (name : List Char) (groups : Path) : Option (List Char) :=
  let base := (splitOn '/' name).getLastD []
  if base.isEmpty then none
  else if groups.any (·.contains '/') then none
  else some (ncName groups base)

/-- What the reader records for an element whose absolute path (from the flattener's
name map) is `abs`: root-group elements lose the leading slash. -/
def readName (abs : List Char) : List Char :=
  if (ncGroups abs).isEmpty then abs.drop 1 else abs

/-! ### group attributes (`_write_group_attributes`, the `omit` list of the data variable, and the
reader's "variable over group over global" precedence) for one field -/

/-- First value under a key (Python dict look-up on an association list). -/
def alookup {β : Type} : List (Name × β) → Name → Option β
  | [], _ => none
  | (k, v) :: rest, a => if k = a then some v else alookup rest a

/-- Group attributes written for a field with properties `P` whose `nc_group_attributes()` is
`GA`: only names that are properties of the field; a `None` value takes the property's. -/
def groupWritten (P : List (Name × Name)) : List (Name × Option Name) → List (Name × Name)
  | [] => []
  | (a, v) :: rest =>
    match alookup P a with
    | none => groupWritten P rest
    | some pv => (a, v.getD pv) :: groupWritten P rest

/-- Attributes left on the data variable (patched): a property is omitted only when its group
attribute is `None` ("write it as a group attribute instead"). -/
def varWritten (P : List (Name × Name)) (GA : List (Name × Option Name)) : List (Name × Name) :=
  P.filter (fun kv => alookup GA kv.1 != some none)

/-- … as it is in /repo: every name in `nc_group_attributes()` is omitted. -/
def varWrittenOld (P : List (Name × Name)) (GA : List (Name × Option Name)) : List (Name × Name) :=
  P.filter (fun kv => (alookup GA kv.1).isNone)

/-- The property the reader gives the field: the variable's attribute, else the group's. -/
def readProp (grp var : List (Name × Name)) (a : Name) : Option Name :=
  match alookup var a with
  | some v => some v
  | none => alookup grp a

/-- Is property `a` left off the data variable?  The `omit` list of `_write_field_or_domain`:
the global attributes `G`; and only for a field whose data variable is in a group
(`g["group"] and nc_variable_groups(f)`) the group attributes whose value is `None`, while a
group attribute with a value of its own keeps the property on the variable even if it is
global.  For a data variable in the root group `nc_group_attributes()` plays no part. -/
def omitted (fieldGrp : Path) (G : List Name) (GA : List (Name × Option Name)) (a : Name) : Bool :=
  if fieldGrp.isEmpty then G.contains a
  else match alookup GA a with
    | some (some _) => false
    | some none => true
    | none => G.contains a

/-- What one field's properties become in the file: global, group and variable attributes. -/
structure Written where
  glob : List (Name × Name)
  grp : List (Name × Name)
  var : List (Name × Name)
deriving Repr, DecidableEq

/-- `_write_global_attributes` (one field: every property that is a description-of-file-contents
attribute), `_write_group_attributes` (only for a field in a group) and the variable's
attributes. -/
def writeProps (fieldGrp : Path) (G : List Name) (P : List (Name × Name))
    (GA : List (Name × Option Name)) : Written :=
  { glob := P.filter (fun kv => G.contains kv.1)
    grp := if fieldGrp.isEmpty then [] else groupWritten P GA
    var := P.filter (fun kv => !omitted fieldGrp G GA kv.1) }

/-- The reader: variable attribute, else group attribute, else global attribute. -/
def readProp3 (w : Written) (a : Name) : Option Name :=
  match alookup w.var a with
  | some v => some v
  | none => match alookup w.grp a with
    | some v => some v
    | none => alookup w.glob a

/-! ### `NetCDFRead._find_coordinate_variable` -/

/-- First element of maximal length (the head of Python's stable `sorted(…, reverse=True,
key=len)`). -/
def firstMax : List Path → Option Path
  | [] => none
  | c :: cs => match firstMax cs with
    | none => some c
    | some m => if m.length > c.length then some m else some c

/-- First element of minimal length (the head of `sorted(…, key=len)`). -/
def firstMin : List Path → Option Path
  | [] => none
  | c :: cs => match firstMin cs with
    | none => some c
    | some m => if m.length < c.length then some m else some c

/-- The group of the coordinate variable the reader gives dimension `(dg, name)` of a data
variable in group `fg`.  `cs`: the groups of the other variables that span exactly that
dimension and have the dimension's base name; `apexVar`: there is such a variable in the
dimension's own group (`variable_dimensions.get(ncdim) == (ncdim,)`).
Patched: the same-group shortcut only when the data variable is in that group too; otherwise
proximal candidates (groups that are the data variable's group or an ancestor, not above the
dimension's group) — the deepest; else lateral candidates — the shallowest if it is the only
one at its depth (the second of the sorted list is the first-minimal of the rest). -/
def findCoordVar (apexVar : Bool) (fg dg : Path) (cs : List Path) : Option Path :=
  if apexVar && fg == dg then some dg
  else
    let cands := cs.filter (fun c => dg.isPrefixOf c)
    match firstMax (cands.filter (fun c => c.isPrefixOf fg)) with
    | some q => some q
    | none =>
      let lat := cands.filter (fun c => !c.isPrefixOf fg)
      match firstMin lat with
      | none => none
      | some a =>
        match firstMin (lat.erase a) with
        | none => some a
        | some b => if a.length < b.length then some a else none

/-- … as it is in /repo: a variable in the dimension's own group always wins. -/
def findCoordVarOld (apexVar : Bool) (fg dg : Path) (cs : List Path) : Option Path :=
  if apexVar then some dg else findCoordVar false fg dg cs

/-! ### the writer's placement and its flattening -/

/-- A netCDF dimension to be written: group path and base name (from the dimension
coordinate's variable name, or from `nc_set_dimension` / `nc_set_dimension_groups`). -/
structure PDim where
  grp : Path
  base : Name
deriving Repr, DecidableEq

/-- One reference token of a variable to be written: the attribute it sits in, and the
table index of the dimension (`isDim`) or variable it names. -/
structure PRef where
  attr : String
  isDim : Bool
  idx : Nat
deriving Repr, DecidableEq

/-- A netCDF variable to be written.  `dims` index the layout's dimension table. -/
structure PVar where
  grp : Path
  base : Name
  dims : List Nat := []
  refs : List PRef := []
deriving Repr, DecidableEq

structure Layout where
  dims : List PDim
  vars : List PVar
deriving Repr

def Layout.dimName (L : Layout) (i : Nat) : List Char :=
  match L.dims[i]? with
  | some d => ncName d.grp d.base
  | none => []

def PVar.ncName (v : PVar) : List Char := Cfdm.Groups.ncName v.grp v.base

/-- The writer accepts a layout iff every variable passes the string check against every
one of its dimensions. -/
def accepts (L : Layout) : Bool :=
  L.vars.all (fun v => v.dims.all (fun i => dimVisible v.ncName (L.dimName i)))

def emptyNode (g : Name) : Node := { name := g }

/-- Replace the first group called `g` of a sibling list by `fn (some it)`; if there is none,
append `fn none` (`createGroup` adds at the end). -/
def Forest.modify (g : Name) (fn : Option Grp → Grp) : Forest → Forest
  | .nil => .cons (fn none).node (fn none).kids .nil
  | .cons n k r =>
    if n.name = g then .cons (fn (some ⟨n, k⟩)).node (fn (some ⟨n, k⟩)).kids r
    else .cons n k (Forest.modify g fn r)

/-- Apply `upd` to the content of the group at path `p` below `t`, creating missing groups
(empty) on the way. -/
def Grp.update (upd : Node → Node) (t : Grp) : Path → Grp
  | [] => { t with node := upd t.node }
  | g :: p =>
    { t with kids := t.kids.modify g (fun o => Grp.update upd (o.getD ⟨emptyNode g, .nil⟩) p) }

def addDim (d : Name) (n : Node) : Node := { n with dims := n.dims ++ [d] }
def addVar (v : Name) (scalar : Bool) (n : Node) : Node :=
  { n with vars := n.vars ++ [v], scal := if scalar then n.scal ++ [v] else n.scal }

def emptyRoot : Grp := ⟨{ name := [] }, .nil⟩

/-- The group tree of the written file: every dimension, then every variable. -/
def buildTree (L : Layout) : Grp :=
  let t := L.dims.foldl (fun t d => t.update (addDim d.base) d.grp) emptyRoot
  L.vars.foldl (fun t v => t.update (addVar v.base v.dims.isEmpty) v.grp) t

/-- The reference token the writer emits for an element: its netCDF name (absolute path
for an element in a group, bare name for one in the root group). -/
def refToken (L : Layout) (r : PRef) : List Char :=
  if r.isDim then L.dimName r.idx
  else match L.vars[r.idx]? with
    | some v => v.ncName
    | none => []

/-- The dimension netCDF gives a variable in group `p` for the dimension *name* `d`: the
nearest enclosing group that defines it (`get_dims`). -/
def ncFindDim (root : Grp) (p : Path) (d : Name) : Option Path :=
  searchProx root true false d p

/-- One flattened variable: (for every dimension the absolute path of the dimension the
flattener maps it through, for every reference its final state). -/
structure FlatVar where
  path : Path × Name
  dims : List (Option (Path × Name))
  refs : List Out
deriving Repr, DecidableEq

def findRule (a : String) : Option Rules :=
  Cfdm.Generated.FlatteningRules.flatteningRules.find? (·.name == a)

/-- A rule that resolves nothing (attributes outside the table are not touched). -/
def noRule : Rules :=
  { name := "", refToDim := 0, refToVar := 0, resolveKey := false, resolveValue := false,
    stopAtLocalApex := false, acceptStandardNames := true, limitToScalarCoordinates := false }

/-- The value of the `coordinates` attribute the writer gives `v`, if any. -/
def coordsOf (L : Layout) (v : PVar) : Option (List Char) :=
  match (v.refs.filter (fun r => r.attr == "coordinates")).map (refToken L) with
  | [] => none
  | ts => some (joinWith [' '] ts)

/-- Flatten the variable `v` of the written file `buildTree L`. -/
def flattenVar (L : Layout) (v : PVar) : FlatVar :=
  let root := buildTree L
  { path := (v.grp, v.base)
    dims := v.dims.map (fun i =>
      match L.dims[i]? with
      | some d => (ncFindDim root v.grp d.base).map (fun q => (q, d.base))
      | none => none)
    refs := v.refs.map (fun r =>
      resolve root ((findRule r.attr).getD noRule) false (coordsOf L v) v.grp (refToken L r)) }

/-- What the flat file (group=False) holds for `v`, in the same vocabulary. -/
def flatSpecVar (L : Layout) (v : PVar) : FlatVar :=
  { path := (v.grp, v.base)
    dims := v.dims.map (fun i => (L.dims[i]?).map (fun d => (d.grp, d.base)))
    refs := v.refs.map (fun r =>
      if r.isDim then match L.dims[r.idx]? with
        | some d => .dim d.grp d.base
        | none => .asis []
      else match L.vars[r.idx]? with
        | some w => .var w.grp w.base
        | none => .notFound []) }

/-! ### the pre-order walk of `process_group` -/

/-- Absolute (path, name) of every variable (`searchDim = false`) or dimension, in the order
in which `process_group` flattens them. -/
def Forest.walk (searchDim : Bool) : Path → Forest → List (Path × Name)
  | _, .nil => []
  | pre, .cons n k r =>
    ((if searchDim then n.dims else n.vars).map (fun x => (pre ++ [n.name], x)))
      ++ Forest.walk searchDim (pre ++ [n.name]) k ++ Forest.walk searchDim pre r

def Grp.walk (searchDim : Bool) (t : Grp) : List (Path × Name) :=
  ((if searchDim then t.node.dims else t.node.vars).map (fun x => ([], x))) ++ t.kids.walk searchDim []

/-- Absolute (path, name) of every group attribute in flattening order (the root's own
attributes keep their names and are listed first). -/
def Forest.walkAttrs : Path → Forest → List (Path × Name)
  | _, .nil => []
  | pre, .cons n k r =>
    (n.attrs.map (fun x => (pre ++ [n.name], x)))
      ++ Forest.walkAttrs (pre ++ [n.name]) k ++ Forest.walkAttrs pre r

def Grp.walkAttrs (t : Grp) : List (Path × Name) :=
  (t.node.attrs.map (fun x => ([], x))) ++ t.kids.walkAttrs []

/-- Names given in walk order, each knowing the names already taken (patched allocator). -/
def allocNames (h : List Char → List Char) : List (Path × Name) → List (List Char) → List (List Char)
  | [], _ => []
  | (p, n) :: rest, used =>
    let nm := flatName h used p n
    nm :: allocNames h rest (used ++ [nm])

def allocNamesOld (h : List Char → List Char) (xs : List (Path × Name)) : List (List Char) :=
  xs.map (fun x => flatNameOld h x.1 x.2)

end Cfdm.Groups
