import Cfdm.Model.Subsample
import Cfdm.Model.PySlice
/-
C16 — model of `SubsampledArray.__getitem__(indices)`: the first/last element
shortcut of `CompressedArray._first_or_last_element` followed by "uncompress the
entire array and then subspace it" (`netcdf_indexer(u, orthogonal_indexing=True)[indices]`).

The index tuple is the one that reaches `__getitem__`: per dimension a slice or an
integer list (`Cfdm.PySlice.Sel`; `Data._parse_indices` has already turned integers and
one-element lists into `slice(i, i + 1, 1)`).  One combination of the non-interpolated
dimensions (one "row") is modelled here; the driver applies the same index to the rows.

Core Lean only.
-/
namespace Cfdm.Subsample
open Cfdm.PySlice

/-- `slice(0, 1, 1)` -/
def firstSel : Sel := .slice (some 0) (some 1) (some 1)
/-- `slice(-1, None, 1)` -/
def lastSel : Sel := .slice (some (-1)) none (some 1)

/-- `indices == (slice(0, 1, 1),) * ndim` -/
def allFirst (ix : List Sel) : Bool := ix.all (· == firstSel)
/-- `indices == (slice(-1, None, 1),) * ndim` -/
def allLast (ix : List Sel) : Bool := ix.all (· == lastSel)

/-- Orthogonal indexing along one axis: the elements at the selected positions. -/
def gather {α} (dflt : α) (l : List α) (pos : List Int) : List α :=
  pos.map (fun p => l.getD p.toNat dflt)

/-- `u[indices]` for a 1-d array. -/
def sub1 {α} (dflt : α) (u : List α) (n : Nat) (ix : Sel) : List α := gather dflt u (ix.positions n)

/-- `u[indices]` for a 2-d array (orthogonal: rows, then columns). -/
def sub2 {α} (dflt : α) (u : List (List α)) (n0 n1 : Nat) (ix0 ix1 : Sel) : List (List α) :=
  (gather [] u (ix0.positions n0)).map (fun row => gather dflt row (ix1.positions n1))

/-- The bounds (trailing) dimension of a cell, masked cells expanded to `k` masked bounds. -/
def cellList (k : Nat) : Option (List Rat) → List (Option Rat)
  | none => List.replicate k none
  | some c => c.map some

/-- `SubsampledArray.__getitem__`, coordinates, one subsampled dimension. -/
def getitem1 (F : Method) (n : Nat) (t : List Nat) (tp : List Rat) (ix : Sel) : List (Option Rat) :=
  if allFirst [ix] then [some (firstShortcut1 tp)]
  else if allLast [ix] then [some (lastShortcut1 tp)]
  else sub1 none (recon1 F n t tp) n ix

/-- … bounds, one subsampled dimension: the uncompressed array has shape `(n, 2)`. -/
def getitem1b (F : Method) (n : Nat) (t : List Nat) (btp : List Rat) (ix ixb : Sel) :
    List (List (Option Rat)) :=
  if allFirst [ix, ixb] then [[some (firstShortcut1 btp)]]
  else if allLast [ix, ixb] then [[some (lastShortcut1 btp)]]
  else (sub1 none (recon1b F n t btp) n ix).map (fun c => gather none (cellList 2 c) (ixb.positions 2))

/-- … coordinates, two subsampled dimensions. -/
def getitem2 (n0 n1 : Nat) (t0 t1 : List Nat) (tp : List (List Rat)) (ix0 ix1 : Sel) :
    List (List (Option Rat)) :=
  if allFirst [ix0, ix1] then [[some (firstShortcut2 tp)]]
  else if allLast [ix0, ix1] then [[some (lastShortcut2 tp)]]
  else sub2 none (recon2 n0 n1 t0 t1 tp) n0 n1 ix0 ix1

/-- … bounds, two subsampled dimensions (shape `(n0, n1, 4)`): no shortcut
(`if not (self.bounds and len(self.get_tie_point_indices()) > 1)`). -/
def getitem2b (n0 n1 : Nat) (t0 t1 : List Nat) (btp : List (List Rat)) (ix0 ix1 ixb : Sel) :
    List (List (List (Option Rat))) :=
  (sub2 none (recon2b n0 n1 t0 t1 btp) n0 n1 ix0 ix1).map (fun row =>
    row.map (fun c => gather none (cellList 4 c) (ixb.positions 4)))

/-- The code before /repo commit d99716a: the shortcut was also taken for bounds over two
subsampled dimensions. -/
def getitem2bOld (n0 n1 : Nat) (t0 t1 : List Nat) (btp : List (List Rat)) (ix0 ix1 ixb : Sel) :
    List (List (List (Option Rat))) :=
  if allFirst [ix0, ix1, ixb] then [[[some (firstShortcut2 btp)]]]
  else if allLast [ix0, ix1, ixb] then [[[some (lastShortcut2 btp)]]]
  else getitem2b n0 n1 t0 t1 btp ix0 ix1 ixb

end Cfdm.Subsample
