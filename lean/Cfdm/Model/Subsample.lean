/-
C16 — model of the reconstitution of subsampled coordinates.

Mirrors, as the code performs it,
* `cfdm/data/subsampledarray.py`: `SubsampledArray.subarrays` (the loop over
  adjacent tie-point-index pairs with its `first` flag, the `j` subarea counter,
  `u_indices`, `u_shapes`, `c_indices`), `SubsampledArray.__getitem__` (a masked
  array of the target shape into which every subarea block is assigned, in
  `itertools.product` order) and `_first_or_last_element`;
* `cfdm/data/subarray/abstract/subsampledsubarray.py`: `_s` (the parameter grid
  `linspace(0, 1, size)`), `_trim`, `_broadcast_bounds`;
* `mixin/linearinterpolation.py`, `mixin/bilinearinterpolation.py`,
  `mixin/quadraticinterpolation.py`: the formulas.

Core Lean only (the driver links this file).  Values are exact rationals (core
`Rat`); IEEE floats are NOT modelled.
-/
namespace Cfdm.Subsample

/-- One interpolation subarea along one subsampled dimension, as `subarrays`
emits it: `u_indices` = `slice(uStart, uStop)`, `u_shapes` = `size`,
`c_indices` = `slice(tp, tp + 2)`, `new_continuous_area` = `first`,
`interpolation_subarea_indices` = `slice(loc, loc + 1)`. -/
structure Sub where
  uStart : Nat
  uStop : Nat
  size : Nat
  tp : Nat
  first : Bool
  loc : Nat
deriving Repr, DecidableEq, Inhabited

/-- The body of the `for i, (index0, index1) in enumerate(zip(indices[:-1], indices[1:]))`
loop: state = (`i`, `first`, `j`). -/
def subsGo : Nat → Bool → Nat → List Nat → List Sub
  | i, first, j, a :: b :: rest =>
    if b - a ≤ 1 then
      -- `first = True; continue`: the next pair starts a new continuous area
      subsGo (i + 1) true j (b :: rest)
    else
      { uStart := if first then a else a + 1
        uStop := b + 1
        size := if first then b - a + 1 else b - a + 1 - 1
        tp := i
        first := first
        loc := j } :: subsGo (i + 1) false (j + 1) (b :: rest)
  | _, _, _, _ => []

/-- `SubsampledArray.subarrays` for one subsampled dimension. -/
def subs (t : List Nat) : List Sub := subsGo 0 true 0 t

/-- The positions the subareas' `u_indices` slices address, in loop order. -/
def covered (ss : List Sub) : List Nat :=
  ss.flatMap (fun s => List.range' s.uStart (s.uStop - s.uStart))

/-- `_s`: number of points of the interpolation parameter grid of a subarea. -/
def sPoints (size : Nat) (first bounds : Bool) : Nat :=
  if bounds || !first then size + 1 else size

/-- `_s`: `numpy.linspace(0, 1, npts)` in exact arithmetic. -/
def sGrid (npts : Nat) : List Rat :=
  (List.range npts).map (fun (k : Nat) => (k : Rat) / ((npts - 1 : Nat) : Rat))

/-- `_linear_interpolation`. -/
def linear (ua ub s : Rat) : Rat := ua + s * (ub - ua)

/-- `_quadratic_interpolation` with the coefficient `w` present. -/
def quadratic (ua ub w s : Rat) : Rat := ua + s * (ub - ua + 4 * w * (1 - s))

/-- `_quadratic_interpolation`: `w is None` falls back to the linear formula. -/
def quadraticOpt (w : Option Rat) (ua ub s : Rat) : Rat :=
  match w with
  | some w => quadratic ua ub w s
  | none => linear ua ub s

/-- `_fw`: the coefficient from the value `ui` at parameter `s`. -/
def fw (ua ub ui s : Rat) : Rat := (ui - (1 - s) * ua - s * ub) / (4 * (1 - s) * s)

/-- `_bilinear_interpolation`: `d2` is the first (slower) subsampled dimension. -/
def bilinear (ua ub uc ud s2 s1 : Rat) : Rat :=
  linear (linear ua uc s2) (linear ub ud s2) s1

/-- `_trim` along one subsampled dimension. -/
def trim {α} (first bounds : Bool) (u : List α) : List α :=
  if bounds then u else if first then u else u.drop 1

/-- `_broadcast_bounds`, one subsampled dimension: `bounds[..., 0] = u[:-1]`,
`bounds[..., 1] = u[1:]`. -/
def cells (v : List Rat) : List (List Rat) :=
  List.zipWith (fun x y => [x, y]) v.dropLast (v.drop 1)

/-- `u[u_indices] = block` on a 1-d masked array (`none` = masked). -/
def writeBlock {α} : List (Option α) → Nat → List α → List (Option α)
  | [], _, _ => []
  | x :: u, 0, [] => x :: u
  | _ :: u, 0, b :: blk => some b :: writeBlock u 0 blk
  | x :: u, s + 1, blk => x :: writeBlock u s blk

/-- A per-subarea 1-d interpolation method: subarea index (for the parameters),
`ua`, `ub`, `s`. -/
abbrev Method := Nat → Rat → Rat → Rat → Rat

def linearM : Method := fun _ ua ub s => linear ua ub s
/-- `w[j]` is `_select_parameter("w")` of subarea `j`. -/
def quadraticM (w : Option (List Rat)) : Method := fun j ua ub s =>
  quadraticOpt (w.map (fun l => l.getD j 0)) ua ub s

/-- The interpolated points of one subarea before `_post_process`. -/
def points1 (F : Method) (tp : List Rat) (bounds : Bool) (s : Sub) : List Rat :=
  (sGrid (sPoints s.size s.first bounds)).map
    (F s.loc (tp.getD s.tp 0) (tp.getD (s.tp + 1) 0))

/-- `LinearSubarray.__getitem__` / `QuadraticSubarray.__getitem__`, coordinates. -/
def block1 (F : Method) (tp : List Rat) (s : Sub) : List Rat :=
  trim s.first false (points1 F tp false s)

/-- The same for bounds tie points: `_broadcast_bounds` then `_trim` (a no-op). -/
def block1b (F : Method) (tp : List Rat) (s : Sub) : List (List Rat) :=
  trim s.first true (cells (points1 F tp true s))

/-- `SubsampledArray.__getitem__[...]`, one subsampled dimension, coordinates. -/
def assemble1 (F : Method) (tp : List Rat) (u : List (Option Rat)) (ss : List Sub) :
    List (Option Rat) :=
  ss.foldl (fun u s => writeBlock u s.uStart (block1 F tp s)) u

def recon1 (F : Method) (n : Nat) (t : List Nat) (tp : List Rat) : List (Option Rat) :=
  assemble1 F tp (List.replicate n none) (subs t)

/-- … and bounds (each cell a list of two vertices). -/
def assemble1b (F : Method) (tp : List Rat) (u : List (Option (List Rat))) (ss : List Sub) :
    List (Option (List Rat)) :=
  ss.foldl (fun u s => writeBlock u s.uStart (block1b F tp s)) u

def recon1b (F : Method) (n : Nat) (t : List Nat) (tp : List Rat) : List (Option (List Rat)) :=
  assemble1b F tp (List.replicate n none) (subs t)

/-! ### two subsampled dimensions (bi_linear) -/

def get2 (tp : List (List Rat)) (i j : Nat) : Rat := (tp.getD i []).getD j 0

/-- `_bilinear_interpolation` on the broadcast grids `s2` (first dimension) × `s1`. -/
def points2 (tp : List (List Rat)) (bounds : Bool) (s0 s1 : Sub) : List (List Rat) :=
  let ua := get2 tp s0.tp s1.tp
  let ub := get2 tp s0.tp (s1.tp + 1)
  let uc := get2 tp (s0.tp + 1) s1.tp
  let ud := get2 tp (s0.tp + 1) (s1.tp + 1)
  (sGrid (sPoints s0.size s0.first bounds)).map (fun x2 =>
    (sGrid (sPoints s1.size s1.first bounds)).map (fun x1 => bilinear ua ub uc ud x2 x1))

/-- `_trim` over both subsampled dimensions. -/
def trim2 {α} (f0 f1 bounds : Bool) (u : List (List α)) : List (List α) :=
  (trim f0 bounds u).map (trim f1 bounds)

/-- `_broadcast_bounds`, two subsampled dimensions: cell (j, i) gets the vertices
(j,i), (j,i+1), (j+1,i+1), (j+1,i). -/
def cells2 (v : List (List Rat)) : List (List (List Rat)) :=
  (List.range (v.length - 1)).map (fun j =>
    (List.range ((v.getD j []).length - 1)).map (fun i =>
      [get2 v j i, get2 v j (i + 1), get2 v (j + 1) (i + 1), get2 v (j + 1) i]))

def block2 (tp : List (List Rat)) (s0 s1 : Sub) : List (List Rat) :=
  trim2 s0.first s1.first false (points2 tp false s0 s1)

def block2b (tp : List (List Rat)) (s0 s1 : Sub) : List (List (List Rat)) :=
  trim2 s0.first s1.first true (cells2 (points2 tp true s0 s1))

/-- `u[u_indices] = block` on a 2-d masked array. -/
def writeBlock2 {α} : List (List (Option α)) → Nat → Nat → List (List α) → List (List (Option α))
  | [], _, _, _ => []
  | row :: u, 0, _, [] => row :: u
  | row :: u, 0, c, b :: blk => writeBlock row c b :: writeBlock2 u 0 c blk
  | row :: u, r + 1, c, blk => row :: writeBlock2 u r c blk

/-- `SubsampledArray.__getitem__[...]`, two subsampled dimensions: subareas in
`itertools.product` order (first dimension outermost). -/
def recon2 (n0 n1 : Nat) (t0 t1 : List Nat) (tp : List (List Rat)) : List (List (Option Rat)) :=
  (subs t0).foldl (fun u s0 =>
    (subs t1).foldl (fun u s1 => writeBlock2 u s0.uStart s1.uStart (block2 tp s0 s1)) u)
    (List.replicate n0 (List.replicate n1 none))

def recon2b (n0 n1 : Nat) (t0 t1 : List Nat) (tp : List (List Rat)) :
    List (List (Option (List Rat))) :=
  (subs t0).foldl (fun u s0 =>
    (subs t1).foldl (fun u s1 => writeBlock2 u s0.uStart s1.uStart (block2b tp s0 s1)) u)
    (List.replicate n0 (List.replicate n1 none))

/-! ### the loops of `__getitem__` with an arbitrary block per subarea

The same double loop serves every interpolation method (`get_Subarray()` picks the class
whose `__getitem__` produces the block). -/

/-- `SubsampledArray.__getitem__`'s loop with an arbitrary per-subarea block. -/
def assembleG {α} (blk : Sub → List α) (u : List (Option α)) (ss : List Sub) : List (Option α) :=
  ss.foldl (fun u s => writeBlock u s.uStart (blk s)) u

/-- The double loop of `SubsampledArray.__getitem__` over the `itertools.product` of
the subareas of two subsampled dimensions, with an arbitrary block per subarea pair. -/
def assemble2G {α} (blk2 : Sub → Sub → List (List α)) (u : List (List (Option α)))
    (ss0 ss1 : List Sub) : List (List (Option α)) :=
  ss0.foldl (fun u s0 =>
    ss1.foldl (fun u s1 => writeBlock2 u s0.uStart s1.uStart (blk2 s0 s1)) u) u

/-! ### `_first_or_last_element` -/

/-- The shortcut of `SubsampledArray.__getitem__` for the index
`(slice(-1, None, 1),) * ndim`: the last element of the tie-point array. -/
def lastShortcut1 (tp : List Rat) : Rat := tp.getLast?.getD 0
def lastShortcut2 (tp : List (List Rat)) : Rat := ((tp.getLast?.getD []).getLast?).getD 0
/-- … and for `(slice(0, 1, 1),) * ndim`. -/
def firstShortcut1 (tp : List Rat) : Rat := tp.head?.getD 0
def firstShortcut2 (tp : List (List Rat)) : Rat := ((tp.head?.getD []).head?).getD 0

/-- The true last element of a 2-d bounds array (last cell, last vertex). -/
def lastOf2b (u : List (List (Option (List Rat)))) : Option Rat :=
  match (u.getLast?.getD []).getLast? with
  | some (some c) => c.getLast?
  | _ => none

end Cfdm.Subsample
