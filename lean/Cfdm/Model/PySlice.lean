/-
Python `slice.indices(n)` / `range` semantics and index normalisation, as used by
`Data._parse_indices`, `netcdf_indexer._index` and `Data._set_subspace`.
Import-free (core Lean only) so that the driver can be compiled.
-/
namespace Cfdm.PySlice

/-- One per-axis selector after `Data._parse_indices` + dask `normalize_index`:
a slice (`start:stop:step`, each optional) or an integer list.  An integer index
`i` has already become `slice(i, i+1, 1)` (it keeps its axis). -/
inductive Sel where
  | slice (start stop step : Option Int)
  | list (l : List Int)
  deriving Repr, DecidableEq

/-- CPython `PySlice_AdjustIndices` for one bound. -/
def adjBound (b : Option Int) (dflt lower upper n : Int) : Int :=
  match b with
  | none => dflt
  | some v => if v < 0 then (if v + n < lower then lower else v + n)
              else (if v > upper then upper else v)

/-- `slice(start, stop, step).indices(n)` for `step ≠ 0`: the adjusted
`(start, stop)`. -/
def adjust (start stop : Option Int) (step : Int) (n : Int) : Int × Int :=
  let lower : Int := if step < 0 then -1 else 0
  let upper : Int := if step < 0 then n - 1 else n
  (adjBound start (if step < 0 then upper else lower) lower upper n,
   adjBound stop (if step < 0 then lower else upper) lower upper n)

/-- `len(range(s, e, step))`. -/
def rangeLen (s e step : Int) : Nat :=
  if 0 < step then (if s < e then ((e - s - 1) / step + 1).toNat else 0)
  else if step < 0 then (if e < s then ((s - e - 1) / (-step) + 1).toNat else 0)
  else 0

/-- `list(range(s, e, step))`. -/
def rangeList (s e step : Int) : List Int :=
  (List.range (rangeLen s e step)).map (fun (i : Nat) => s + (i : Int) * step)

/-- Positions (in `0..n-1`) selected on an axis of size `n` by a slice. -/
def slicePositions (start stop step : Option Int) (n : Nat) : List Int :=
  let st := step.getD 1
  let (s, e) := adjust start stop st n
  rangeList s e st

/-- Negative-index normalisation of a single integer. -/
def norm (n : Nat) (i : Int) : Int := if i < 0 then i + n else i

/-- Is `i` (possibly negative) a valid index on an axis of size `n`? -/
def inRange (n : Nat) (i : Int) : Bool := decide (-(n : Int) ≤ i) && decide (i < n)

/-- Positions selected by a selector on an axis of size `n`. -/
def Sel.positions (n : Nat) : Sel → List Int
  | .slice a b c => slicePositions a b c n
  | .list l => l.map (norm n)

/-- Selector well-formedness: slice step non-zero, list entries in range. -/
def Sel.wf (n : Nat) : Sel → Bool
  | .slice _ _ c => c != some 0
  | .list l => l.all (inRange n)

/-- `netcdf_indexer.index_shape` for a slice, in integer arithmetic: the code
computes `abs((stop-start)/step)` in floating point and rounds up. -/
def indexShapeSlice (start stop step : Option Int) (n : Nat) : Nat :=
  let st := step.getD 1
  let (s, e) := adjust start stop st n
  if (e - s) * st < 0 then 0
  else
    -- ceil(|e - s| / |st|)
    let num := (e - s).natAbs
    let den := st.natAbs
    (num + den - 1) / den

end Cfdm.PySlice
