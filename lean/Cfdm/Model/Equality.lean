/-
C05 — decision core of `equals` in cfdm, written as the code performs it.

Anchors (cfdm 1.11.2.0):
  mixin/container.py      `_equals`, `_equals_preprocess`
  mixin/properties.py     `Properties.equals`
  data/data.py            `Data.equals`
  mixin/propertiesdata.py `PropertiesData.equals`
  mixin/propertiesdatabounds.py `PropertiesDataBounds.equals`
  cellmeasure.py, cellmethod.py, coordinatereference.py, mixin/parameters.py,
  mixin/parametersdomainancillaries.py, domainaxis.py
  mixin/fielddomain.py    `FieldDomain.equals`
  constructs.py           `Constructs.equals`, `_equals_cell_method`,
                          `_equals_coordinate_reference`, `_equals_domain_axis`

The functions mirror the code as it is at /repo HEAD (the five repairs of `fixes/C05-*.patch`
are in as `fix:` commits; the behaviour before them is kept in the `…Old` functions) plus the
proposed `fixes/C05-topology-cell-type-compared.patch` (without it: `constructCoreUntagged`).
The leaf comparison of two numpy arrays, as coded, is in `Model/EqualityLeaf.lean`.

Abstraction.  Strings (property names and values, units, construct keys, cell
method axes, …) are interned to `Nat`/`Int` by the harness — only their equality
matters.  Numbers are exact rationals `v / 2^k` with one `k` per comparison, so an
array element is the `Int` numerator; a masked element is `none`.  `np.allclose`'s
elementwise test is the parameter `close : Int → Int → Bool` of the options
(the driver instantiates it with exact rational arithmetic).

Import-free (core Lean only) so that the driver can be compiled.
-/
namespace Cfdm.Equality

/-- Python exceptions that the modelled code can raise. -/
inductive Exn where
  | typeError | valueError | indexError | attributeError | keyError
  /-- `type(self)(source=other)` between classes whose conversion is not modelled. -/
  | unmodelled
  deriving DecidableEq, Repr

/-! ## Generic pieces -/

/-- Positional conjunction over two sequences; `false` when the lengths differ. -/
def all2 {α β} (p : α → β → Bool) : List α → List β → Bool
  | [], [] => true
  | a :: as, b :: bs => p a b && all2 p as bs
  | _, _ => false

/-- Python `dict` equality as the code spells it: `set(d0) != set(d1)` → unequal,
then `for k, v in d0.items(): veq(v, d1[k])`. -/
def dictEq {V W} (veq : V → W → Bool) (d0 : List (Nat × V)) (d1 : List (Nat × W)) : Bool :=
  d0.all (fun kv => d1.any (fun kw => kw.1 == kv.1))
  && d1.all (fun kw => d0.any (fun kv => kv.1 == kw.1))
  && d0.all (fun kv => match d1.lookup kv.1 with
                       | some w => veq kv.2 w
                       | none => false)

/-- Remove the first element satisfying `p` (the `for … : if …: del …; break` idiom). -/
def extractFirst {β} (p : β → Bool) : List β → Option (β × List β)
  | [] => none
  | b :: bs =>
    if p b then some (b, bs)
    else match extractFirst p bs with
      | none => none
      | some (x, rest) => some (x, b :: rest)

/-- The greedy matching loop used three times in `Constructs.equals`:
```
for item0 in l0:
    for item1 in remaining:
        if r(item0, item1): remove item1; record the pair; break
    else: return False
```
Returns the pairs in the order they were made. -/
def greedyPairs {α β} (r : α → β → Bool) : List α → List β → Option (List (α × β))
  | [], _ => some []
  | a :: as, bs =>
    match extractFirst (r a) bs with
    | none => none
    | some (b, rest) =>
      match greedyPairs r as rest with
      | none => none
      | some ps => some ((a, b) :: ps)

/-- Equal numbers of items and every item of `l0` found a partner. -/
def greedyMatch {α β} (r : α → β → Bool) (l0 : List α) (l1 : List β) : Bool :=
  l0.length == l1.length && (greedyPairs r l0 l1).isSome

/-- `sorted(...)` on a list of sizes (insertion sort; any stable sort gives the same list). -/
def insertSorted (a : Nat) : List Nat → List Nat
  | [] => [a]
  | b :: bs => if a ≤ b then a :: b :: bs else b :: insertSorted a bs

def sortNat : List Nat → List Nat
  | [] => []
  | a :: as => insertSorted a (sortNat as)

/-- First-appearance order of the distinct elements (insertion order of a `dict`'s keys). -/
def dedup {α} [BEq α] : List α → List α
  | [] => []
  | a :: as => a :: (dedup as).filter (fun b => !(b == a))

/-! ## Arrays: `Container._equals` (numpy branch) -/

/-- A numpy (masked) array as `_equals` sees it. -/
structure Arr where
  shape : List Nat
  /-- the dtype, interned -/
  dtype : Nat
  /-- `dtype.kind in ('S', 'U')` (also used for Python `None`/object scalars, compared exactly) -/
  isStr : Bool
  /-- row-major elements; `none` = masked -/
  vals : List (Option Int)
  deriving DecidableEq, Repr

/-- One element: masks must agree; unmasked values must be close (numeric) or
identical (strings: `np.allclose` raises `TypeError`, the code falls back to `x == y`). -/
def elemClose (close : Int → Int → Bool) (str : Bool) : Option Int → Option Int → Bool
  | none, none => true
  | some a, some b => if str then a == b else close a b
  | _, _ => false

/-- `Container._equals(x, y, rtol, atol, ignore_data_type)` for two arrays. -/
def arrEquals (close : Int → Int → Bool) (ignoreDataType : Bool) (x y : Arr) : Bool :=
  x.shape == y.shape
  && (ignoreDataType || x.dtype == y.dtype || x.isStr || y.isStr)
  && all2 (elemClose close (x.isStr || y.isStr)) x.vals y.vals

/-- `np.allclose`'s elementwise test `|x - y| <= atol + rtol*|y|` in exact
arithmetic: values are numerators over `2^k`, `atol = an/ad`, `rtol = rn/rd`. -/
def tolClose (an ad rn rd k : Nat) (x y : Int) : Bool :=
  decide ((x - y).natAbs * ad * rd ≤ an * rd * 2 ^ k + rn * y.natAbs * ad)

/-! ## Options -/

/-- The documented forms of the `ignore_properties` argument. -/
inductive IgnoreProps where
  | absent
  /-- a single name given as a `str`; `none` is the empty string -/
  | str (s : Option Nat)
  | tuple (l : List Nat)
  | list (l : List Nat)
  deriving DecidableEq, Repr

/-- Interned names the code mentions literally. -/
def nmFillValue : Nat := 0
def nmMissingValue : Nat := 1
def nmConventions : Nat := 2

structure Opts where
  /-- elementwise `|x - y| <= atol + rtol*|y|` for the call's rtol/atol -/
  close : Int → Int → Bool
  ignoreDataType : Bool := false
  ignoreFillValue : Bool := false
  ignoreProps : IgnoreProps := .absent
  ignoreCompression : Bool := true
  ignoreType : Bool := false

/-- The names an `ignore_properties` value stands for
(`if ignore_properties: if isinstance(ignore_properties, str): (ignore_properties,)`). -/
def IgnoreProps.names : IgnoreProps → List Nat
  | .absent => []
  | .str none => []
  | .str (some s) => [s]
  | .tuple l => l
  | .list l => l

/-- `Properties.equals`, repaired: which property names are dropped. -/
def ignoredNames (ignoreFillValue : Bool) (ip : IgnoreProps) : List Nat :=
  if ignoreFillValue then ip.names ++ [nmFillValue, nmMissingValue] else ip.names

/-- `Properties.equals` as it is: `ignore_properties += ('_FillValue', 'missing_value')`
raises `TypeError` for `None` and for a `str`. -/
def ignoredNamesOld (ignoreFillValue : Bool) (ip : IgnoreProps) : Except Exn (List Nat) :=
  if ignoreFillValue then
    match ip with
    | .absent => .error .typeError
    | .str _ => .error .typeError
    | .tuple l => .ok (l ++ [nmFillValue, nmMissingValue])
    | .list l => .ok (l ++ [nmFillValue, nmMissingValue])
  else .ok ip.names

/-! ## Properties -/

abbrev Props := List (Nat × Arr)

def dropProps (ign : List Nat) (p : Props) : Props := p.filter (fun kv => !ign.contains kv.1)

/-- `Properties.equals` after `_equals_preprocess`: the two property dictionaries
with the ignored names popped; values compared with `ignore_data_type=True`. -/
def propsEquals (close : Int → Int → Bool) (ign : List Nat) (p0 p1 : Props) : Bool :=
  dictEq (arrEquals close true) (dropProps ign p0) (dropProps ign p1)

/-! ## Data -/

structure Data where
  /-- `.array` (the uncompressed view) -/
  arr : Arr
  fill : Option Int
  units : Option Nat
  calendar : Option Nat
  /-- compression type, `0` = not compressed -/
  ctype : Nat
  /-- `.compressed_array` (the array itself when not compressed) -/
  carr : Arr
  deriving DecidableEq, Repr

/-- `Data.equals` (both operands are `Data`). -/
def dataEquals (close : Int → Int → Bool) (ignoreDataType ignoreFillValue ignoreCompression : Bool)
    (x y : Data) : Bool :=
  x.arr.shape == y.arr.shape
  && (ignoreFillValue || x.fill == y.fill)
  && (ignoreDataType || x.arr.dtype == y.arr.dtype)
  && x.units == y.units
  && x.calendar == y.calendar
  && (ignoreCompression ||
        (x.ctype == y.ctype && (x.ctype == 0 || arrEquals close false x.carr y.carr)))
  && arrEquals close ignoreDataType x.arr y.arr

def optDataEquals (close : Int → Int → Bool) (idt ifv ic : Bool) : Option Data → Option Data → Bool
  | none, none => true
  | some a, some b => dataEquals close idt ifv ic a b
  | _, _ => false

/-! ## PropertiesData / PropertiesDataBounds / CellMeasure -/

/-- Bounds, interior ring (a `PropertiesData` that is not a construct). -/
structure Sub where
  props : Props
  data : Option Data
  deriving DecidableEq, Repr

/-- `PropertiesData.equals` for a component (`ignore_properties=None`). -/
def subEquals (o : Opts) (x y : Sub) : Bool :=
  propsEquals o.close (ignoredNames o.ignoreFillValue .absent) x.props y.props
  && optDataEquals o.close o.ignoreDataType o.ignoreFillValue o.ignoreCompression x.data y.data

def optSubEquals (o : Opts) : Option Sub → Option Sub → Bool
  | none, none => true
  | some a, some b => subEquals o a b
  | _, _ => false

/-- Classes of the metadata constructs that carry data. -/
def clsDim : Nat := 0
def clsAux : Nat := 1
def clsDomAnc : Nat := 2
def clsFieldAnc : Nat := 3
def clsMeasure : Nat := 4
def clsTopology : Nat := 5
def clsConnectivity : Nat := 6

/-- `PropertiesDataBounds` subclasses. -/
def hasBoundsAPI (cls : Nat) : Bool := cls == clsDim || cls == clsAux || cls == clsDomAnc

/-- Classes with a type tag of their own next to the properties: the `measure` of a cell
measure, the `cell` of a domain topology, the `connectivity` of a cell connectivity. -/
def hasTypeTag (cls : Nat) : Bool := cls == clsMeasure || cls == clsTopology || cls == clsConnectivity

structure Construct where
  cls : Nat
  props : Props
  data : Option Data
  external : Bool
  ncvar : Option Nat
  geometry : Option Nat
  bounds : Option Sub
  interiorRing : Option Sub
  /-- the class's own type tag (`hasTypeTag`): measure / cell / connectivity -/
  measure : Option Nat
  deriving DecidableEq, Repr

/-- The comparison proper, once `other` is an instance of `type(self)`:
`PropertiesData.equals` → `PropertiesDataBounds.equals` / `CellMeasure.equals`.

The `external` branch of `PropertiesData.equals` reads the component `'external'`,
which nothing ever sets (`nc_set_external` writes into the `'netcdf'` component), so
both sides are always `False` there: netCDF variable names and the external status
(kept in the record) play no role.

The type tag is compared for all three tagged classes, as the code does after
`fixes/C05-topology-cell-type-compared.patch` (`DomainTopology.equals` /
`CellConnectivity.equals` added on the pattern of `CellMeasure.equals`); the code as it is
compares it for cell measures only: `constructCoreUntagged`. -/
def constructCore (o : Opts) (x y : Construct) : Bool :=
  propsEquals o.close (ignoredNames o.ignoreFillValue o.ignoreProps) x.props y.props
  && optDataEquals o.close o.ignoreDataType o.ignoreFillValue o.ignoreCompression x.data y.data
  && (!hasBoundsAPI x.cls ||
        (x.geometry == y.geometry
         && optSubEquals o x.bounds y.bounds
         && optSubEquals o x.interiorRing y.interiorRing))
  && (!(hasTypeTag x.cls) || x.measure == y.measure)

/-- The code as it is (1.11.2.0): `DomainTopology` and `CellConnectivity` inherit
`PropertiesData.equals`, which knows nothing of `cell` / `connectivity`. -/
def constructCoreUntagged (o : Opts) (x y : Construct) : Bool :=
  propsEquals o.close (ignoredNames o.ignoreFillValue o.ignoreProps) x.props y.props
  && optDataEquals o.close o.ignoreDataType o.ignoreFillValue o.ignoreCompression x.data y.data
  && (!hasBoundsAPI x.cls ||
        (x.geometry == y.geometry
         && optSubEquals o x.bounds y.bounds
         && optSubEquals o x.interiorRing y.interiorRing))
  && (!(x.cls == clsMeasure) || x.measure == y.measure)

/-- `type(self)(source=other, copy=False)` between construct classes: the target
keeps what its class supports; a dimension coordinate refuses data that are not 1-d.
The type tag is read through the target class's own accessor (`get_measure` / `get_cell` /
`get_connectivity`), which a source of another class does not have: it is lost. -/
def convertTo (cls : Nat) (y : Construct) : Except Exn Construct :=
  if cls == clsDim && (match y.data with | some d => d.arr.shape.length != 1 | none => false) then
    .error .valueError
  else
    .ok { y with
      cls := cls
      geometry := if hasBoundsAPI cls then y.geometry else none
      bounds := if hasBoundsAPI cls then y.bounds else none
      interiorRing := if hasBoundsAPI cls then y.interiorRing else none
      measure := none }

/-- `x.equals(y, **o)` for two metadata constructs with data
(`_equals_preprocess`, then the comparison). -/
def constructEquals (o : Opts) (x y : Construct) : Except Exn Bool :=
  if x.cls == y.cls then .ok (constructCore o x y)
  else if o.ignoreType then
    match convertTo x.cls y with
    | .error e => .error e
    | .ok y' => .ok (constructCore o x y')
  else .ok false

/-- `Bounds.equals` as it is: `ignore_properties` is `None` there, so
`ignore_fill_value=True` raises. -/
def optSubEqualsOld (o : Opts) : Option Sub → Option Sub → Except Exn Bool
  | none, none => .ok true
  | some a, some b =>
    match ignoredNamesOld o.ignoreFillValue .absent with
    | .error e => .error e
    | .ok ign => .ok (propsEquals o.close ign a.props b.props
        && optDataEquals o.close o.ignoreDataType o.ignoreFillValue o.ignoreCompression a.data b.data)
  | _, _ => .ok false

/-- The unrepaired code, statement by statement: (1) `ignore_fill_value=True` with
`ignore_properties` `None`/`str` raises — also for the bounds and interior ring,
which always get `None`; (2) `PropertiesDataBounds.equals` / `CellMeasure.equals`
keep using the *unconverted* `other` after the `ignore_type` conversion. -/
def constructEqualsOld (o : Opts) (x y : Construct) : Except Exn Bool :=
  if x.cls != y.cls && !o.ignoreType then .ok false else
  match (if x.cls == y.cls then .ok y else convertTo x.cls y) with
  | .error e => .error e
  | .ok y' =>
    match (match ignoredNamesOld o.ignoreFillValue o.ignoreProps with
            | .error e => (.error e : Except Exn Bool)
            | .ok ign => .ok (propsEquals o.close ign x.props y'.props
                && optDataEquals o.close o.ignoreDataType o.ignoreFillValue o.ignoreCompression x.data y'.data)) with
    | .error e => .error e
    | .ok false => .ok false
    | .ok true =>
      if hasBoundsAPI x.cls then
        if !hasBoundsAPI y.cls then .error .attributeError else
        if x.geometry != y.geometry then .ok false else
        match optSubEqualsOld o x.bounds y.bounds with
        | .error e => .error e
        | .ok false => .ok false
        | .ok true => optSubEqualsOld o x.interiorRing y.interiorRing
      else if x.cls == clsMeasure then
        if y.cls != clsMeasure then .error .attributeError else .ok (x.measure == y.measure)
      else .ok true

/-! ## Cell methods -/

structure CellMethod where
  axes : List Nat
  method : Option Nat
  /-- qualifiers other than `interval` -/
  quals : List (Nat × Nat)
  intervals : List Data
  deriving DecidableEq, Repr

/-- `CellMethod.equals` (axes are *not* compared — documented). -/
def cellMethodCore (close : Int → Int → Bool) (x y : CellMethod) : Bool :=
  x.method == y.method
  && dictEq (fun a b => a == b) x.quals y.quals
  && all2 (dataEquals close true true true) x.intervals y.intervals

/-- What `CellMethod.equals(..., ignore_qualifiers=iq)` leaves to compare:
`for prop in tuple(ignore_qualifiers) + ('interval',): qualifiers.pop(prop, None)`, and
`if 'interval' in ignore_qualifiers: return True` before the intervals are looked at
(`ignoreInterval` = `'interval' in ignore_qualifiers`). -/
def stripQualifiers (iq : List Nat) (ignoreInterval : Bool) (m : CellMethod) : CellMethod :=
  { m with quals := m.quals.filter (fun kv => !iq.contains kv.1),
           intervals := if ignoreInterval then [] else m.intervals }

/-- `CellMethod.equals(other, rtol, atol, ignore_qualifiers=iq)`. -/
def cellMethodCoreIQ (close : Int → Int → Bool) (iq : List Nat) (ignoreInterval : Bool) (x y : CellMethod) : Bool :=
  cellMethodCore close (stripQualifiers iq ignoreInterval x) (stripQualifiers iq ignoreInterval y)

/-! ## Coordinate references -/

abbrev Params := List (Nat × Option Arr)

/-- `Parameters.equals`: `None == None`, otherwise `_equals(..., ignore_data_type=True)`. -/
def paramEq (close : Int → Int → Bool) : Option Arr → Option Arr → Bool
  | none, none => true
  | some a, some b => arrEquals close true a b
  | _, _ => false

def paramsEquals (close : Int → Int → Bool) (p0 p1 : Params) : Bool := dictEq (paramEq close) p0 p1

structure CoordRef where
  /-- keys of the coordinate constructs (a set) -/
  coords : List Nat
  convParams : Params
  /-- term → key of a domain ancillary construct, or `None` -/
  convAncils : List (Nat × Option Nat)
  datumParams : Params
  deriving DecidableEq, Repr

/-- `CoordinateReference.equals` (construct keys are *not* compared — documented). -/
def coordRefCore (close : Int → Int → Bool) (x y : CoordRef) : Bool :=
  x.coords.length == y.coords.length
  && paramsEquals close x.convParams y.convParams
  && dictEq (fun (a b : Option Nat) => a.isSome == b.isSome) x.convAncils y.convAncils
  && paramsEquals close x.datumParams y.datumParams

/-! ## Fields, domains and `Constructs.equals` -/

/-- A metadata construct with data inside a container. -/
structure Entry where
  key : Nat
  axes : List Nat
  c : Construct
  deriving DecidableEq, Repr

def clsField : Nat := 100
def clsDomain : Nat := 101

structure Field where
  cls : Nat
  props : Props
  data : Option Data
  dataAxes : List Nat
  /-- domain axis constructs: key, size -/
  axes : List (Nat × Nat)
  /-- constructs with data, in the order of `Constructs.data_axes()` -/
  cons : List Entry
  /-- cell methods (ordered) -/
  cms : List (Nat × CellMethod)
  refs : List (Nat × CoordRef)
  deriving DecidableEq, Repr

/-- `_axes_to_constructs`: constructs grouped by the exact tuple of axes they span. -/
def groupsOf (cons : List Entry) : List (List Nat × List Entry) :=
  (dedup (cons.map (·.axes))).map (fun ax => (ax, cons.filter (fun e => e.axes == ax)))

def roles : List Nat := [clsDim, clsAux, clsDomAnc, clsFieldAnc, clsMeasure, clsTopology, clsConnectivity]

def ofRole (role : Nat) (g : List Entry) : List Entry := g.filter (fun e => e.c.cls == role)

/-- Constructs of one type spanning the matched axes: same number, then greedy. -/
def rolePairs (eq : Construct → Construct → Bool) (g0 g1 : List Entry) (role : Nat) :
    Option (List (Entry × Entry)) :=
  if (ofRole role g0).length != (ofRole role g1).length then none
  else greedyPairs (fun a b => eq a.c b.c) (ofRole role g0) (ofRole role g1)

/-- All construct types of a candidate pair of axes groups (repaired: a type that
fails to match fails the pair). -/
def groupPairs (eq : Construct → Construct → Bool) (g0 g1 : List Entry) :
    List Nat → Option (List (Entry × Entry))
  | [] => some []
  | role :: rest =>
    match rolePairs eq g0 g1 role with
    | none => none
    | some ps =>
      match groupPairs eq g0 g1 rest with
      | none => none
      | some qs => some (ps ++ qs)

/-- The unrepaired loop: on the first type that fails it `break`s and then tests
`not constructs1`, i.e. whether every type that `other` has *at all* was popped
before the failing one in the (hash-dependent) iteration order `order`. -/
def groupMatchOld (eq : Construct → Construct → Bool) (g0 g1 : List Entry)
    (present1 : List Nat) : List Nat → Bool
  | [] => present1.isEmpty
  | role :: rest =>
    match rolePairs eq g0 g1 role with
    | none => present1.isEmpty
    | some _ => groupMatchOld eq g0 g1 (present1.filter (· != role)) rest

/-- Candidate test for two axes groups. -/
def groupRel (eq : Construct → Construct → Bool) (a b : List Nat × List Entry) : Bool :=
  a.1.length == b.1.length && (groupPairs eq a.2 b.2 roles).isSome

abbrev AMap := List (Nat × Nat)

def mapGet (m : AMap) (k : Nat) : Option Nat := m.lookup k
def mapSet (m : AMap) (k v : Nat) : AMap := if (m.lookup k).isSome then m else m ++ [(k, v)]

/-- The loop that builds `axis0_to_axis1` / `axis1_to_axis0` from the matched axes
tuples; `none` = "Ambiguous axis mapping" → `return False`. -/
def axisMapStep (st : AMap × AMap) (p : Nat × Nat) : Option (AMap × AMap) :=
  if (match mapGet st.1 p.1 with | some b => b != p.2 | none => false) then none
  else if (match mapGet st.2 p.2 with | some a => a != p.1 | none => false) then none
  else some (mapSet st.1 p.1 p.2, mapSet st.2 p.2 p.1)

def axisMapLoop : List (Nat × Nat) → AMap × AMap → Option (AMap × AMap)
  | [], st => some st
  | p :: ps, st =>
    match axisMapStep st p with
    | none => none
    | some st' => axisMapLoop ps st'

/-- All `zip(axes0, axes1)` pairs of the matched groups, in order. -/
def axisPairs (matched : List ((List Nat × List Entry) × (List Nat × List Entry))) : List (Nat × Nat) :=
  matched.flatMap (fun m => m.1.1.zip m.2.1)

/-- `key1_to_key0` from the successful matches. -/
def keyMap (eq : Construct → Construct → Bool)
    (matched : List ((List Nat × List Entry) × (List Nat × List Entry))) : AMap :=
  matched.flatMap (fun m =>
    match groupPairs eq m.1.2 m.2.2 roles with
    | some ps => ps.map (fun p => (p.2.key, p.1.key))
    | none => [])

/-! ### `_equals_cell_method` -/

/-- The inner `for axis1 in axes1:` over a list that the body mutates
(`axes1.remove(axis1)`); `i` is the list iterator's position.  `none` = `return False`;
`some (axes1, indices)` = the list and the indices when the loop ends (by exhaustion or `break`). -/
def cmInner (in0 : Bool) (tgt : Option Nat) (axis0 : Nat) (m10 : AMap) (full1 : List Nat) :
    Nat → List Nat → Nat → List Nat → Option (List Nat × List Nat)
  | 0, axes1, _, ind => some (axes1, ind)
  | fuel + 1, axes1, i, ind =>
    match axes1[i]? with
    | none => some (axes1, ind)
    | some axis1 =>
      let in1 := (mapGet m10 axis1).isSome
      if in0 && in1 then
        if tgt == some axis1 then some (axes1.erase axis1, ind ++ [full1.idxOf axis1])
        else cmInner in0 tgt axis0 m10 full1 fuel axes1 (i + 1) ind
      else if in0 || in1 then none
      else if axis0 == axis1 then
        cmInner in0 tgt axis0 m10 full1 fuel (axes1.erase axis1) (i + 1) (ind ++ [full1.idxOf axis1])
      else cmInner in0 tgt axis0 m10 full1 fuel axes1 (i + 1) ind

/-- The outer `for axis0 in axes0:`. -/
def cmOuter (m01 m10 : AMap) (full1 : List Nat) : List Nat → List Nat → List Nat → Option (List Nat)
  | [], _, ind => some ind
  | axis0 :: rest, axes1, ind =>
    match cmInner (mapGet m01 axis0).isSome (mapGet m01 axis0) axis0 m10 full1 axes1.length axes1 0 ind with
    | none => none
    | some (axes1', ind') => cmOuter m01 m10 full1 rest axes1' ind'

/-- `CellMethod.sorted(indices)` restricted to what `equals` looks at afterwards
(the intervals): `intervals[i] for i in indices` raises `IndexError` when there
are 2 ≤ #intervals < #axes. -/
def sortedIntervals (naxes : Nat) (indices : List Nat) (iv : List Data) : Except Exn (List Data) :=
  if naxes == 1 then .ok iv
  else if iv.length ≤ 1 then .ok iv
  else match indices.mapM (fun i => iv[i]?) with
    | some l => .ok l
    | none => .error .indexError

/-- One pair of cell methods inside `_equals_cell_method`. -/
def cmPairEquals (close : Int → Int → Bool) (m01 m10 : AMap) (cm0 cm1 : CellMethod) : Except Exn Bool :=
  if cm0.axes.length != cm1.axes.length then .ok false else
  match cmOuter m01 m10 cm1.axes cm0.axes cm1.axes [] with
  | none => .ok false
  | some indices =>
    if cm1.axes.length != indices.length then .ok false else
    match sortedIntervals cm1.axes.length indices cm1.intervals with
    | .error e => .error e
    | .ok iv => .ok (cellMethodCore close cm0 { cm1 with axes := cm0.axes, intervals := iv })

def cmListEquals (close : Int → Int → Bool) (m01 m10 : AMap) :
    List CellMethod → List CellMethod → Except Exn Bool
  | a :: as, b :: bs =>
    match cmPairEquals close m01 m10 a b with
    | .error e => .error e
    | .ok false => .ok false
    | .ok true => cmListEquals close m01 m10 as bs
  | _, _ => .ok true

/-- `_equals_cell_method`, repaired (`logger.info`). -/
def cellMethodsEqual (close : Int → Int → Bool) (m01 m10 : AMap) (c0 c1 : List CellMethod) :
    Except Exn Bool :=
  if c0.length != c1.length then .ok false else cmListEquals close m01 m10 c0 c1

/-- As it is: `logger(...)` — `TypeError: 'Logger' object is not callable`. -/
def cellMethodsEqualOld (close : Int → Int → Bool) (m01 m10 : AMap) (c0 c1 : List CellMethod) :
    Except Exn Bool :=
  if c0.length != c1.length then .error .typeError else cmListEquals close m01 m10 c0 c1

/-! ### `_equals_coordinate_reference`, `_equals_domain_axis` -/

def mapKey (k10 : AMap) (v : Nat) : Nat := (mapGet k10 v).getD v

def setEq (a b : List Nat) : Bool := a.all b.contains && b.all a.contains

/-- The test inside the greedy loop over coordinate references. -/
def refRel (close : Int → Int → Bool) (k10 : AMap) (r0 r1 : CoordRef) : Bool :=
  coordRefCore close r0 r1
  && setEq r0.coords (r1.coords.map (mapKey k10))
  && dictEq (fun (a b : Option Nat) => a == b) r0.convAncils
       (r1.convAncils.map (fun tk => (tk.1, tk.2.map (mapKey k10))))

def refsEqual (close : Int → Int → Bool) (k10 : AMap) (r0 r1 : List CoordRef) : Bool :=
  greedyMatch (refRel close k10) r0 r1

def domainAxesEqual (a0 a1 : List (Nat × Nat)) : Bool :=
  sortNat (a0.map (·.2)) == sortNat (a1.map (·.2))

/-! ### `Constructs.equals` -/

/-- Options handed down to the metadata constructs (`ignore_properties` is not,
`_ignore_type=False`). -/
def Opts.inner (o : Opts) : Opts := { o with ignoreProps := .absent, ignoreType := false }

/-- `Constructs.equals`, repaired. -/
def constructsEquals (o : Opts) (x y : Field) : Except Exn Bool :=
  if !domainAxesEqual x.axes y.axes then .ok false else
  let g0 := groupsOf x.cons
  let g1 := groupsOf y.cons
  if g0.length != g1.length then .ok false else
  let eq := constructCore o.inner
  match greedyPairs (groupRel eq) g0 g1 with
  | none => .ok false
  | some matched =>
    match axisMapLoop (axisPairs matched) ([], []) with
    | none => .ok false
    | some (m01, m10) =>
      match cellMethodsEqual o.close m01 m10 (x.cms.map (·.2)) (y.cms.map (·.2)) with
      | .error e => .error e
      | .ok false => .ok false
      | .ok true => .ok (refsEqual o.close (keyMap eq matched) (x.refs.map (·.2)) (y.refs.map (·.2)))

/-- The part of the unrepaired `Constructs.equals` that differs, for the counter-examples:
the candidate test with the `break` flaw, the raising "Ambiguous axis mapping"
message, the raising cell-method count message.  `order` is the hash-dependent
iteration order of `_array_constructs`; `present1` the construct types `other` has. -/
def constructsEqualsOld (o : Opts) (order present1 : List Nat) (x y : Field) : Except Exn Bool :=
  if !domainAxesEqual x.axes y.axes then .ok false else
  let g0 := groupsOf x.cons
  let g1 := groupsOf y.cons
  if g0.length != g1.length then .ok false else
  let eq := constructCore o.inner
  let rel := fun (a b : List Nat × List Entry) =>
    a.1.length == b.1.length && groupMatchOld eq a.2 b.2 present1 order
  match greedyPairs rel g0 g1 with
  | none => .ok false
  | some matched =>
    match axisMapLoop (axisPairs matched) ([], []) with
    | none => .error .valueError
    | some (m01, m10) =>
      match cellMethodsEqualOld o.close m01 m10 (x.cms.map (·.2)) (y.cms.map (·.2)) with
      | .error e => .error e
      | .ok false => .ok false
      | .ok true => .ok (refsEqual o.close (keyMap eq matched) (x.refs.map (·.2)) (y.refs.map (·.2)))

/-- `FieldDomain.equals`: `ignore_properties` gains `'Conventions'`. -/
def fieldIgnoreProps (ip : IgnoreProps) : IgnoreProps := .tuple (ip.names ++ [nmConventions])

/-- `Field.equals` / `Domain.equals`. -/
def fieldEquals (o : Opts) (x y : Field) : Except Exn Bool :=
  if x.cls != y.cls then
    (if o.ignoreType then .error .unmodelled else .ok false)
  else
  if !propsEquals o.close (ignoredNames o.ignoreFillValue (fieldIgnoreProps o.ignoreProps)) x.props y.props then
    .ok false
  else if !optDataEquals o.close o.ignoreDataType o.ignoreFillValue o.ignoreCompression x.data y.data then
    .ok false
  else constructsEquals o x y

/-! ## The other classes -/

/-- `Data.equals(other)` for two `Data`. -/
def dataObjEquals (o : Opts) (x y : Data) : Except Exn Bool :=
  .ok (dataEquals o.close o.ignoreDataType o.ignoreFillValue o.ignoreCompression x y)

def cellMethodEquals (o : Opts) (x y : CellMethod) : Except Exn Bool :=
  .ok (cellMethodCore o.close x y)

def coordRefEquals (o : Opts) (x y : CoordRef) : Except Exn Bool :=
  .ok (coordRefCore o.close x y)

/-- `DomainAxis.equals`: sizes (possibly unset). -/
def domainAxisEquals (x y : Option Nat) : Except Exn Bool := .ok (x == y)

/-- `Bounds.equals`, `InteriorRing.equals`, … (`PropertiesData.equals` with the caller's
`ignore_properties`). -/
def subObjEquals (o : Opts) (x y : Sub) : Except Exn Bool :=
  .ok (propsEquals o.close (ignoredNames o.ignoreFillValue o.ignoreProps) x.props y.props
       && optDataEquals o.close o.ignoreDataType o.ignoreFillValue o.ignoreCompression x.data y.data)

end Cfdm.Equality
