import Cfdm.Model.Constructs
/-
C02 — the ORDER of reads, guards and writes inside the mutating methods, as coded at /repo HEAD.

`Model/Constructs.lean` gives every call as one function `St → St × Out` whose rejected branch hands
back the state it started from.  That is only right if, in the code, no dictionary / component is
written before the last `raise` that can still fire (Python has no roll-back).  This file writes the
bodies of the methods down as *programs*: the sequence of local reads, guards (`if …: raise`) and
writes in the order in which the code performs them; `Prog.exec` runs a program and, when a guard
fails, returns the state REACHED AT THAT POINT.  `Lemmas/ConstructsSeq.lean` then proves
  * every program below refines to the one-step function of `Model/Constructs.lean`
    (same resulting state, same outcome), so the invariant theorems and the correspondence speak
    about the sequenced code, and
  * a program whose guards all come before its first write leaves the state literally unchanged
    when it is rejected (`guardsFirst_atomic`) — and each program below has that shape, except
    `_del_construct`, whose late guard (`_pop` finds nothing) is shown not to fire.

Core Lean only.
-/
namespace Cfdm.Constructs

/-- a method body: local reads, guards and writes in program order -/
inductive Prog : Type 1
  /-- `return key` -/
  | ret (o : Option Key)
  /-- `if not g(state): raise …` -/
  | guard (g : St → Bool) (k : Prog)
  /-- an assignment to a dictionary entry / a component -/
  | write (w : St → St) (k : Prog)
  /-- a local variable computed from the state as it is at this point -/
  | read {α : Type} (r : St → α) (k : α → Prog)

/-- run a program; a failing guard stops it THERE: the state returned is the one reached so far -/
def Prog.exec : Prog → St → St × Out
  | .ret o, s => (s, .ok o)
  | .guard g k, s => if g s then k.exec s else (s, .rejected)
  | .write w k, s => k.exec (w s)
  | .read r k, s => (k (r s)).exec s

/-- `for x in xs: if not g(x, state): raise …` -/
def guardEach {α : Type} (g : α → St → Bool) : List α → Prog → Prog
  | [], k => k
  | x :: r, k => .guard (g x) (guardEach g r k)

/-- `raise …` -/
def Prog.fail : Prog := .guard (fun _ => false) (.ret none)

/-- `axis in domain_axes` and `domain_axes[axis].get_size()` does not raise -/
def isSizedAxis (s : St) (a : Key) : Bool :=
  match s.cons.get (.axis, a) with
  | some c => c.size.isSome
  | none => false

/-! ### core `Field.set_data_axes(axes, _shape)` / `Field.set_data(data, axes, inplace=True)` -/

/-- `_shape`, or the shape of the existing data -/
def shapeArg (shape : Option (List Nat)) (s : St) : Option (List Nat) :=
  match shape with
  | some x => some x
  | none => s.data

/-- `if _shape is not None: …` -/
def pShapeGuard (A : List Key) : Option (List Nat) → Prog → Prog
  | some x, k => guardEach (fun a s => isSizedAxis s a) A (.guard (fun s => decide (sizesOf s A = some x)) k)
  | none, k => k

/-- core `Field.set_data_axes(axes, key=None, _shape=shape)`, then `k`:
```
if _shape is None: data = self.get_data(None); if data is not None: _shape = data.shape
for axis in axes:  if axis not in domain_axes: raise ValueError
if _shape is not None:
    axes_shape = [domain_axes[axis].get_size() for axis in axes]     # raises when a size is unset
    if _shape != tuple(axes_shape): raise ValueError
self._set_component('data_axes', axes);  self.constructs._field_data_axes = axes
``` -/
def pSetDataAxes (A : List Key) (shape : Option (List Nat)) (k : Prog) : Prog :=
  .read (shapeArg shape) fun shp =>
  guardEach (fun a s => isAxis s a) A <|
  pShapeGuard A shp <|
  .write (fun s => { s with dataAxes := some A }) <|
  .write (fun s => { s with fda := some A }) k

/-- `Field.set_data_axes(axes)` -/
def pSetDA (A : List Key) : Prog := pSetDataAxes A none (.ret none)

/-- core `Field.set_data(data, axes, inplace=True)`:
```
if axes is None:
    existing_axes = f.get_data_axes(default=None)
    if existing_axes is not None: f.set_data_axes(axes=existing_axes, _shape=np.shape(data))
else:
    f.set_data_axes(axes=axes, _shape=np.shape(data))
super().set_data(data, copy=copy, inplace=True)
``` -/
def pSetData (shp : List Nat) (axes : Option (List Key)) : Prog :=
  let store : Prog := .write (fun s => { s with data := some shp }) (.ret none)
  match axes with
  | some A => pSetDataAxes A (some shp) store
  | none =>
    .read (fun s => s.dataAxes) fun ex =>
    match ex with
    | some A => pSetDataAxes A (some shp) store
    | none => store

/-- the same method with the two statements exchanged (data stored first, axes checked afterwards):
NOT what cfdm does — used to show that the order matters -/
def pSetDataStoreFirst (shp : List Nat) (A : List Key) : Prog :=
  .write (fun s => { s with data := some shp }) (pSetDataAxes A (some shp) (.ret none))

/-! ### `Constructs._set_construct` / `_set_construct_data_axes` -/

/-- `_set_construct_data_axes(key, axes, construct)`, then `k`:
```
for axis in axes:
    if axis not in domain_axes: raise ValueError
    axes_shape.append(domain_axes[axis].get_size())                  # raises when the size is unset
try:
    if construct.shape != axes_shape: raise ValueError
except AttributeError: pass
self._construct_axes[key] = tuple(axes)
``` -/
def pConAxes (t : CType) (c : Con) (key : Key) (A : List Key) (k : Prog) : Prog :=
  guardEach (fun a s => isSizedAxis s a) A <|
  .guard (fun s => match c.shape t with
                   | none => true
                   | some shp => decide (sizesOf s A = some shp)) <|
  .write (fun s => { s with caxes := s.caxes.set key A }) k

/-- `FieldDomain.set_construct` → `cfdm.Constructs._set_construct` (the copy of the construct is made
before anything else) → `core.Constructs._set_construct`:
```
construct_type = self._check_construct_type(construct.construct_type)           # view: hidden types raise
if key is None: key = self.new_identifier(construct_type)
elif self._construct_type.get(key, construct_type) != construct_type: raise     # the UNDERLYING dictionary
if construct_type in self._array_constructs:
    if axes is None: axes = self._construct_axes.get(key)
    if axes is not None: self._set_construct_data_axes(key=key, axes=axes, construct=construct)
elif axes is not None: raise
self._construct_type[key] = construct_type
self._constructs[construct_type][key] = construct
``` -/
def pSetConstruct (view : Bool) (t : CType) (c : Con) (key : Option Key) (axes : Option (List Key)) : Prog :=
  .guard (fun _ => !ignored view t) <|
  .read (fun s => resolveKey true s t key) fun rk =>
  match rk with
  | none => Prog.fail
  | some k =>
    let store : Prog :=
      .write (fun s => { s with ctype := s.ctype.set k t }) <|
      .write (fun s => { s with cons := s.cons.set (t, k) c }) (.ret (some k))
    if t.isArray then
      .read (fun s => axesFor true s k axes) fun ax =>
      match ax with
      | some A => pConAxes t c k A store
      | none => store
    else .guard (fun _ => axes.isNone) store

/-- `set_data_axes(axes, key=key)` → `_set_construct_data_axes(key, axes)`:
`if self.construct_type(key) is None: raise` (view-aware), `construct = self[key]`, then as above -/
def pSetConAxes (view : Bool) (A : List Key) (key : Key) : Prog :=
  .read (fun s => typeOf s view key) fun ty =>
  match ty with
  | none => Prog.fail
  | some t =>
    .read (fun s => s.cons.get (t, key)) fun oc =>
    match oc with
    | none => Prog.fail
    | some c => pConAxes t c key A (.ret none)

/-! ### `del_construct` -/

/-- `Constructs._pop(key, None)`; `None` → `raise ValueError("Can't remove non-existent construct")` -/
def pPop (view : Bool) (key : Key) : Prog :=
  .read (fun s => typeOf s view key) fun ty =>
  match ty with
  | none => Prog.fail
  | some t =>
    .write (fun s => { s with caxes := s.caxes.del key }) <|
    .write (fun s => { s with ctype := s.ctype.del key }) <|
    .write (fun s => { s with cons := s.cons.del (t, key) }) (.ret none)

/-- `cfdm.Field.del_construct(key)` / `cfdm.Domain.del_construct(key)` (also of a live view):
```
key = self.construct_key(key, default=None);  if key is None: raise               # mixin, view-aware
# core Field only:
if key in domain_axes and key in self.get_data_axes(default=()): raise
# Constructs._del_construct:
if key in domain_axes:
    for xid, axes in self._construct_axes.items():  if key in axes: raise       # underlying dictionary
    if key in getattr(self, '_viewed', self)._field_data_axes: raise
    for cm in self._constructs['cell_method'].values():  if key in cm.get_axes(()): raise
else:
    for ref in coordinate_references: …set_domain_ancillary(term, None); ref.del_coordinate(key, None)
out = self._pop(key, None);  if out is None: raise
``` -/
def pDelConstruct (view : Bool) (key : Key) : Prog :=
  .guard (fun s => (typeOf s view key).isSome) <|
  .guard (fun s => !(!view && isAxis s key && (s.dataAxes.getD []).contains key)) <|
  .read (fun s => isAxis s key) fun ax =>
  if ax then
    .guard (fun s => !spansAny s.caxes key) <|
    .guard (fun s => !(s.fda.getD []).contains key) <|
    .guard (fun s => !cmNames s key) <|
    pPop view key
  else
    .write (fun s => cleanRefs s key) (pPop view key)

/-! ### the small ones -/

/-- `Field.del_data()`: `self._del_component('data', default)` -/
def pDelData : Prog :=
  .guard (fun s => s.data.isSome) <| .write (fun s => { s with data := none }) (.ret none)

/-- `Field.del_data_axes()`: `out = self._del_component('data_axes', default)`; `self.constructs._field_data_axes = None` -/
def pDelDataAxes : Prog :=
  .guard (fun s => s.dataAxes.isSome) <|
  .write (fun s => { s with dataAxes := none }) <| .write (fun s => { s with fda := none }) (.ret none)

/-- `del_data_axes(key)`: `data_axes = self.constructs.get_data_axes(key, default=None)` (view-aware);
`if data_axes is None: raise`; `self.constructs._del_data_axes(key)` -/
def pDelConAxes (view : Bool) (key : Key) : Prog :=
  .guard (fun s => (s.caxes.get key).isSome && (typeOf s view key).isSome) <|
  .write (fun s => { s with caxes := s.caxes.del key }) (.ret none)

/-- `Constructs.replace(key, construct, axes)`:
```
construct_type = self.construct_types().get(key);  if construct_type is None: raise
if axes is not None and construct_type in self._array_constructs: self._construct_axes[key] = tuple(axes)
self._constructs[construct_type][key] = construct
``` -/
def pReplace (key : Key) (c : Con) (axes : Option (List Key)) : Prog :=
  .read (fun s => s.ctype.get key) fun ty =>
  match ty with
  | none => Prog.fail
  | some t =>
    (match axes with
     | some A => fun (k' : Prog) => if t.isArray then Prog.write (fun s => { s with caxes := s.caxes.set key A }) k' else k'
     | none => fun (k' : Prog) => k') <|
    .write (fun s => { s with cons := s.cons.set (t, key) c }) (.ret none)

/-- the program of every call whose body is sequenced here (`none`: the deriving calls and the frame
operations, which work on a copy / on other dictionaries) -/
def progOf : Op → Option Prog
  | .setc view t c key axes => some (pSetConstruct view t c key axes)
  | .delc view key => some (pDelConstruct view key)
  | .setd shape axes => some (pSetData shape axes)
  | .deld => some pDelData
  | .setda axes => some (pSetDA axes)
  | .setdak view axes key => some (pSetConAxes view axes key)
  | .delda => some pDelDataAxes
  | .deldak view key => some (pDelConAxes view key)
  | .replace key c axes => some (pReplace key c axes)
  | _ => none

end Cfdm.Constructs
