import Cfdm.Model.SharedProps
/-
C09 — properties of several fields in a dataset with groups: netCDF *group* attributes.

Writer (netcdfwrite.py): `_write_group_attributes(fields)` — for every non-root group that holds a field, the
attribute names requested by the fields of exactly that group (`nc_group_attributes()`: `None` = "my property
of this name", a value = that value; `dict.update`, so the last field wins) are kept when the first field of the
group has the property and every *member* has it with an equal value; `_write_field_or_domain` — the data
variable of a field in a group omits the global properties (unless the field gives the group attribute a value of
its own) and the properties it has flagged as group attributes.

As the code has it (`patched = false`) the members are the fields of exactly that group and a flagged property is
omitted from the data variable whether or not the group attribute was written.  With
fixes/C09-group-attribute-placement.patch (`patched = true`, what the theorems are about) the members are the
fields of the group *and of its sub-groups* (they inherit the attribute when the dataset is read), and a flagged
property is omitted only when the group attribute has actually been written.

Reader (netcdfread.py): properties = global attributes, updated by the attributes of every enclosing group from the
outermost to the innermost, updated by the attributes of the data variable.

Core Lean only.
-/
namespace Cfdm.GroupProps
open Cfdm.Globals Cfdm.SharedProps

structure GField where
  base : FieldG                                  -- properties and nc_global_attributes()
  path : List String := []                       -- nc_variable_groups()
  gattrs : List (String × Option Val) := []      -- nc_group_attributes()
deriving Repr, DecidableEq

def bases (fs : List GField) : List FieldG := fs.map (·.base)

/-- `path` lies in group `g` or in one of its sub-groups -/
def isUnder (g path : List String) : Bool := path.take g.length == g

/-- the fields written to exactly group `g`, in the order given -/
def inGroup (fs : List GField) (g : List String) : List GField := fs.filter (fun f => f.path == g)

/-- the constructs that are consulted for an attribute of group `g` -/
def members (patched : Bool) (fs : List GField) (g : List String) : List GField :=
  if patched then fs.filter (fun f => isUnder g f.path) else inGroup fs g

/-- what the fields of group `g` ask for under the name `p` (`dict.update`: the last field wins):
`none` = nothing, `some none` = the property, `some (some v)` = the value `v` -/
def requested (fs : List GField) (g : List String) (p : String) : Option (Option Val) :=
  (inGroup fs g).reverse.findSome? (fun f => lookup p f.gattrs)

/-- the attribute `p` of group `g` as written, if it is written -/
def groupAttr (patched : Bool) (fs : List GField) (g : List String) (p : String) : Option Val :=
  if g = [] then none else
  match inGroup fs g with
  | [] => none
  | f0 :: _ =>
    match requested fs g p, lookup p f0.base.props with
    | some req, some v0 =>
      if (members patched fs g).all (fun f => lookup p f.base.props == some v0) then some (req.getD v0) else none
    | _, _ => none

/-- does the data variable of `f` omit property `p`? -/
def omits (patched : Bool) (o : Opts) (fs : List GField) (f : GField) (p : String) : Bool :=
  let isGlobal := (globalSet o (bases fs)).contains p
  if f.path.isEmpty || f.gattrs.isEmpty then isGlobal
  else (isGlobal && (lookup p f.gattrs).join.isNone)
       || (lookup p f.gattrs == some none && (!patched || (groupAttr patched fs f.path p).isSome))

/-- the attributes the data variable of `f` gets from the properties of `f` -/
def varAttrs (patched : Bool) (o : Opts) (fs : List GField) (f : GField) : List (String × Val) :=
  f.base.props.filter (fun kv => !omits patched o fs f kv.1)

/-- the enclosing groups of a variable in `path`, outermost first -/
def enclosing (path : List String) : List (List String) := (List.range path.length).map (fun i => path.take (i + 1))

/-- the value inherited from the enclosing groups: the innermost group that has the attribute wins -/
def inherited (patched : Bool) (fs : List GField) (path : List String) (p : String) : Option Val :=
  (enclosing path).reverse.findSome? (fun g => groupAttr patched fs g p)

/-- property `p` of field `f` after `cfdm.write(fs, group=True, **o)` and `cfdm.read` -/
def readBack (patched : Bool) (o : Opts) (fs : List GField) (f : GField) (p : String) : Option Val :=
  match lookup p (varAttrs patched o fs f) with
  | some v => some v
  | none =>
    match inherited patched fs f.path p with
    | some v => some v
    | none => lookup p (writtenGlobals o (bases fs))

/-- no field gives a group attribute a value of its own (flags only) -/
def NoGroupValues (fs : List GField) : Prop := ∀ f ∈ fs, ∀ kv ∈ f.gattrs, kv.2 = none

instance (fs : List GField) : Decidable (NoGroupValues fs) := by unfold NoGroupValues; infer_instance

/-! ### for the driver: names that can matter, and the dictionaries -/

def allNames (o : Opts) (fs : List GField) : List String :=
  dedup (fs.flatMap (fun f => keys f.base.props ++ keys f.gattrs) ++ keys (writtenGlobals o (bases fs)))

def readBackProps (patched : Bool) (o : Opts) (fs : List GField) (f : GField) : List (String × Val) :=
  (allNames o fs).filterMap (fun p => (readBack patched o fs f p).map (fun v => (p, v)))

/-- every group that holds a field, with the attributes written to it -/
def groupsWritten (patched : Bool) (o : Opts) (fs : List GField) : List (List String × List (String × Val)) :=
  let gs := (fs.map (·.path)).filter (· ≠ [])
  let gs := gs.foldl (fun acc g => if acc.contains g then acc else acc ++ [g]) []
  gs.map (fun g => (g, (allNames o fs).filterMap (fun p => (groupAttr patched fs g p).map (fun v => (p, v)))))

end Cfdm.GroupProps
