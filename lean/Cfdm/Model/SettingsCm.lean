import Cfdm.Model.Settings
/-
C20 — context managers as *objects* that outlive their `with` statement (core Lean only).

`cfdm.atol(x)` returns a `Constant` that remembers the old value and its setter
(`Constant(old, _func=cls)`); `cfdm.configuration(...)` returns a `Configuration` with the three
old values.  `__enter__` returns `self` and changes nothing; `__exit__` calls
`self._func(self.value)` / `configuration(**self)` — whatever happened in between, however the
block is left, and however often the same object is entered.  A `with` block inside a generator
that is suspended at a `yield` is a block whose exit comes later, in any interleaving with other
blocks: histories here are flat event lists, not trees.

Anchors (cfdm/functions.py): ConstantAccess.__new__ → `Ev.mk`, _configuration → `Ev.mkCfg`,
Constant.__enter__/Configuration.__enter__ → `Ev.enter`, Constant.__exit__ → `exitConst`,
Configuration.__exit__ → `exitCfg` (`Ev.exit`).
-/
namespace Cfdm.Settings

/-- An object returned by a setter or by `configuration`. -/
inductive Obj
  | const (k : Key) (v : Val)
  | config (c : Cfg)
  deriving DecidableEq, Repr

inductive Ev
  | mk (op : SetOp)          -- c = cfdm.atol(x) / rtol / log_level (kept in a variable); a raising setter makes no object
  | mkCfg (c : CfgArgs)      -- c = cfdm.configuration(...)
  | enter (i : Nat)          -- a `with <object i>:` block is entered (a generator runs up to the `yield` inside it)
  | exit (j : Nat)           -- the j-th entered block is left: normally, by an exception, or by `close()`
  | set (op : SetOp)         -- a plain setter call in between
  | bare                     -- `with cfdm.Constant(x):` on a hand-made Constant (no setter attached): `__enter__`
                             -- raises AttributeError, nothing is entered, nothing changes
  deriving DecidableEq, Repr

/-- Machine state: the settings, the objects created so far, the blocks entered so far
(each: the number of its object). -/
structure CmState where
  st : State
  objs : List Obj
  acts : List Nat
  deriving DecidableEq, Repr

def CmState.init (s : State) : CmState := { st := s, objs := [], acts := [] }

/-- `__exit__` of an object. -/
def exitObj (o : Obj) (s : State) : State :=
  match o with
  | .const k v => exitConst k v s
  | .config c => exitCfg c s

def stepEv (c : CmState) : Ev → CmState
  | .mk op =>
    match access op c.st with
    | .error _ => c
    | .ok (old, s') => { c with st := s', objs := c.objs ++ [.const op.key old] }
  | .mkCfg a =>
    match cfgCall a c.st with
    | (some _, _, s') => { c with st := s' }
    | (none, old, s') => { c with st := s', objs := c.objs ++ [.config old] }
  | .enter i => if i < c.objs.length then { c with acts := c.acts ++ [i] } else c
  | .exit j =>
    match c.acts[j]? with
    | none => c
    | some i =>
      match c.objs[i]? with
      | none => c
      | some o => { c with st := exitObj o c.st }
  | .set op =>
    match access op c.st with
    | .error _ => c
    | .ok (_, s') => { c with st := s' }
  | .bare => c

def runEvs (c : CmState) (es : List Ev) : CmState := es.foldl stepEv c

/-- What an observer sees after every event. -/
def traceEvs : CmState → List Ev → List String
  | _, [] => []
  | c, e :: es =>
    let c' := stepEv c e
    let tag :=
      match e with
      | .mk op => (match access op c.st with | .error x => "mk!" ++ x.show | .ok (old, _) => "mk=" ++ old.show)
      | .mkCfg a => (match cfgCall a c.st with
                     | (some x, _, _) => "mkcfg!" ++ x.show
                     | (none, old, _) => s!"mkcfg={old.atol}/{old.rtol}/{old.level.name}")
      | .enter _ => "enter"
      | .exit _ => "exit"
      | .set op => (match access op c.st with | .error x => "set!" ++ x.show | .ok (old, _) => "set=" ++ old.show)
      | .bare => "bare!AttributeError"
    ev tag c'.st :: traceEvs c' es

end Cfdm.Settings
