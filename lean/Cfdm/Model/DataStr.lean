/-
C19 — the display path of data: `Data.__str__` / `Data.__repr__` (cfdm/data/data.py), the
`__str__` of `PropertiesData` / `PropertiesDataBounds` (cfdm/mixin/propertiesdata.py,
propertiesdatabounds.py) and the `Data(…) = …` line of `PropertiesData.dump`.
Core Lean only (linked into the model driver).  `none` = the formatter raises.

`Data.__str__` shows the first and last element (and the middle one of exactly three along the
last axis); reference-time values are converted to date-times through `datetime_array`, in three
separate conversions (first alone for size 1; first and last together; the middle one alone).  The
conversions themselves (cftime) are a parameter of the model: their outcome is `ok text`, `caught`
(one of the exceptions the code catches: ValueError, OverflowError, AttributeError → `??`) or
`uncaught`.
-/
namespace Cfdm.DataStr

/-- an element as `first_element()` / `last_element()` / `second_element()` return it -/
inductive Elem
  | masked
  /-- `text` = `str(value)` -/
  | val (text : String)
  deriving DecidableEq, Repr

/-- `get_units(None)` / the `units` property -/
inductive Units
  /-- a string; `since` = `'since' in units` -/
  | str (text : String) (since : Bool)
  /-- not a string (a number read from a numeric `units` attribute) -/
  | other (text : String)
  deriving DecidableEq, Repr

inductive DateRes
  | ok (text : String)
  | caught
  | uncaught
  deriving DecidableEq, Repr

inductive DateRes2
  | ok (a b : String)
  | caught
  | uncaught
  deriving DecidableEq, Repr

/-- the date-time conversions (`type(self)(…, units, calendar).datetime_array`) -/
structure Conv where
  /-- a 0-d array holding one unmasked value -/
  one : String → DateRes
  /-- a 1-d array of two values (`0` in the place of a masked one) -/
  two : String → String → DateRes2

structure DData where
  shape : List Nat
  /-- row-major -/
  elems : List Elem
  units : Option Units
  calendar : Option String
  deriving DecidableEq, Repr

def fmt : Elem → String
  | .masked => "--"
  | .val t => t

def brackets (n : Nat) (c : Char) : String := String.ofList (List.replicate n c)

def DData.isRefTime (d : DData) : Bool :=
  match d.units with
  | some (.str _ s) => s
  | _ => false

/-- `units` after `if not isinstance(units, str): units = "??"` -/
def DData.unitsText (d : DData) : Option String :=
  match d.units with
  | none => none
  | some (.str t _) => some t
  | some (.other _) => some "??"

def truthy : Option String → Bool
  | some s => !s.isEmpty
  | none => false

/-- the trailing units / calendar -/
def suffix (d : DData) : String :=
  if d.isRefTime then (if truthy d.calendar then " " ++ d.calendar.getD "" else "")
  else if truthy d.unitsText then " " ++ d.unitsText.getD "" else ""

/-- a single value through the 0-d conversion: a masked one comes back as the 0-d masked array
holding 0, which an f-string shows as `0` -/
def conv0 (cv : Conv) : Elem → Option String
  | .masked => some "0"
  | .val t =>
    match cv.one t with
    | .ok s => some s
    | .caught => some "??"
    | .uncaught => none

def zeroIfMasked : Elem → String
  | .masked => "0"
  | .val t => t

/-- first and last through the 1-d conversion: masked ones come back masked (`--`) -/
def conv2 (cv : Conv) (a b : Elem) : Option (String × String) :=
  match cv.two (zeroIfMasked a) (zeroIfMasked b) with
  | .ok x y => some ((if a = .masked then "--" else x), (if b = .masked then "--" else y))
  | .caught => some ("??", "??")
  | .uncaught => none

/-- `Data.__str__` -/
def dataStr (cv : Conv) (d : DData) : Option String :=
  match d.elems.head? with
  | none =>
    -- `first_element()` raises for size 0: `except Exception`
    some ((if truthy d.unitsText && !d.isRefTime then " " ++ d.unitsText.getD "" else "") ++
          (if truthy d.calendar then " " ++ d.calendar.getD "" else ""))
  | some first =>
    let size := d.elems.length
    let ob := brackets d.shape.length '['
    let cb := brackets d.shape.length ']'
    if size = 1 then
      match (if d.isRefTime then conv0 cv first else some (fmt first)) with
      | none => none
      | some f => some (ob ++ f ++ cb ++ suffix d)
    else
      match d.elems.getLast? with
      | none => none
      | some last =>
        match (if d.isRefTime then conv2 cv first last else some (fmt first, fmt last)) with
        | none => none
        | some (f, l) =>
          if size > 3 then some (ob ++ f ++ ", ..., " ++ l ++ cb ++ suffix d)
          else if d.shape.getLast? = some 3 then
            -- `second_element()`: `np.unravel_index(1, shape)`
            match d.elems[1]? with
            | none => none
            | some mid =>
              match (if d.isRefTime then conv0 cv mid else some (fmt mid)) with
              | none => none
              | some m => some (ob ++ f ++ ", " ++ m ++ ", " ++ l ++ cb ++ suffix d)
          else if size = 3 then some (ob ++ f ++ ", ..., " ++ l ++ cb ++ suffix d)
          else some (ob ++ f ++ ", " ++ l ++ cb ++ suffix d)

/-- `str(shape).replace(",)", ")")` -/
def shapeText (shape : List Nat) : String :=
  "(" ++ String.intercalate ", " (shape.map toString) ++ ")"

/-- `Data.__repr__` -/
def dataRepr (cv : Conv) (d : DData) : Option String :=
  (dataStr cv d).map (fun s => "<Data" ++ shapeText d.shape ++ ": " ++ s ++ ">")

/-! ### specification of the layout -/

def prod : List Nat → Nat
  | [] => 1
  | n :: l => n * prod l

/-- what is displayed between the brackets: every element of at most two, or of exactly three
along the last axis; otherwise the first and the last around an ellipsis -/
def specItems (d : DData) (txt : Nat → String) : List String :=
  let size := d.elems.length
  if size ≤ 2 || (size = 3 && d.shape.getLast? = some 3) then (List.range size).map txt
  else [txt 0, "...", txt (size - 1)]

def specStr (d : DData) (txt : Nat → String) : String :=
  brackets d.shape.length '[' ++ String.intercalate ", " (specItems d txt) ++ brackets d.shape.length ']' ++ suffix d

/-! ### `__str__` of the constructs -/

/-- `PropertiesData.__str__`; `dims` = the data shape, `none` without data.  As the code is, a
calendar that is not a string makes `units += " " + calendar` raise `TypeError`;
`fixed` = with the proposed repair (`str(calendar)`). -/
def pdStrWith (fixed : Bool) (identity : String) (dims : Option (List Nat)) (units calendar : Option Units) :
    Option String :=
  let dimsT := match dims with
    | some s => shapeText s
    | none => ""
  -- units = self.get_property("units", ""); isreftime = "since" in str(units)
  let (ut, isref) : String × Bool := match units with
    | none => ("", false)
    | some (.str t s) => (t, s)
    | some (.other t) => (t, false)
  if isref then
    match calendar with
    | none => some (identity ++ dimsT ++ " " ++ ut ++ " ")
    | some (.str c _) => some (identity ++ dimsT ++ " " ++ ut ++ " " ++ c)
    | some (.other c) => if fixed then some (identity ++ dimsT ++ " " ++ ut ++ " " ++ c) else none
  else some (identity ++ dimsT ++ " " ++ ut)

def pdStr := pdStrWith true
def pdStrOld := pdStrWith false

/-- `PropertiesDataBounds.__str__`; units / calendar fall back to those of the bounds.
`fixed` = with the proposed repair (`units = str(units)`, `calendar = str(calendar)`); as the code is,
`"since" in units` raises `TypeError` for units that are not a string. -/
def pdbStrWith (fixed : Bool) (identity : String) (dims : Option (List Nat)) (units calendar bUnits bCalendar : Option Units) :
    Option String :=
  let dimsT := match dims with
    | some s => shapeText s
    | none => ""
  let u := match units with
    | some x => some x
    | none => bUnits
  let c := match calendar with
    | some x => some x
    | none => bCalendar
  match u with
  | none =>
    -- isreftime = calendar is not None; units = ""
    (match c with
     | none => some (identity ++ dimsT ++ " ")
     | some (.str t _) => some (identity ++ dimsT ++ " " ++ " " ++ t)
     | some (.other t) => if fixed then some (identity ++ dimsT ++ " " ++ " " ++ t) else none)
  | some (.other t) => if fixed then some (identity ++ dimsT ++ " " ++ t) else none
  | some (.str t since) =>
    if since then
      (match c with
       | none => some (identity ++ dimsT ++ " " ++ t ++ " ")
       | some (.str ct _) => some (identity ++ dimsT ++ " " ++ t ++ " " ++ ct)
       | some (.other ct) => if fixed then some (identity ++ dimsT ++ " " ++ t ++ " " ++ ct) else none)
    else some (identity ++ dimsT ++ " " ++ t)

/-- the code with the proposed repair -/
def pdbStr := pdbStrWith true
/-- the code as it is -/
def pdbStrOld := pdbStrWith false

/-! ### the `Data(…)` line of `PropertiesData.dump` -/

/-- ```
if _axes and _axis_names:
    x = [_axis_names[axis] for axis in _axes]; x = x[:ndim]
    if len(x) < ndim: x.extend([str(size) for size in data.shape[len(x):]])
else: x = [str(size) for size in data.shape]
```
`names` = the looked-up axis names (`none` when `_axes` or `_axis_names` is empty / not given) -/
def dumpDims (names : Option (List String)) (shape : List Nat) : List String :=
  match names with
  | some x =>
    let x := x.take shape.length
    if x.length < shape.length then x ++ (shape.drop x.length).map toString else x
  | none => shape.map toString

end Cfdm.DataStr
