import Cfdm.Model.Settings
/-
C20 — the logging helpers of cfdm/functions.py and the wrapper of cfdm/decorators.py, modelled
step by step *as coded* (core Lean only).  This is what the driver executes; `Lemmas/SettingsFine.lean`
proves that each definition here equals the compact definition of `Model/Settings.lean` the
property theorems are stated on (refinement), so the theorems hold of what the driver runs.

Anchors (cfdm/functions.py):
  _disable_logging(at_level=None)          → `disableLogging`
  _is_valid_log_level_int(i)               → `isValidLogLevelInt`
  _reset_log_emergence_level(level)        → `resetLogEmergenceLevel`   (`.value` unwrapping, int → name,
                                              the DISABLE branch, the *unconditional* lift of a previous
                                              `logging.disable`, `setLevel(getattr(logging, name))`)
  log_level._parse(arg)                    → `logLevelParse`
  ConstantAccess.__new__ (for log_level)   → `constantAccessLog`  (the logging state is re-derived
                                              *before* `CONSTANTS["LOG_LEVEL"]` is assigned)
  _manage_log_level_via_verbosity          → `decoOldFine` (1.11.2.0), `decoMidFine` (after the patch)

The enumeration and the numeric levels are read from the *generated* table
(`Cfdm.Generated.LogLevels`, re-emitted from /repo on every run), not from the hand-written `Level`.
-/
namespace Cfdm.Settings
open Cfdm.Generated

/-! ### Tables as Python sees them -/

/-- `ValidLogLevels(i).name` (`none`: the enumeration raises `ValueError`). -/
def enumByValue? (i : Int) : Option String :=
  (LogLevels.validLogLevels.find? (fun p => p.2 == i)).map (·.1)

/-- `hasattr(ValidLogLevels, nm)` / `getattr(ValidLogLevels, nm).value`. -/
def enumByName? (nm : String) : Option Int :=
  (LogLevels.validLogLevels.find? (fun p => p.1 == nm)).map (·.2)

/-- `getattr(logging, nm)` for the names cfdm can pass (`none`: `AttributeError`). -/
def loggingAttr (nm : String) : Option Nat :=
  if nm = "NOTSET" then some LogLevels.notset
  else if nm = "CRITICAL" then some LogLevels.critical
  else (LogLevels.loggingNo.find? (fun p => p.1 == nm)).map (·.2)

/-- A helper's effect: the state it leaves, and the exception it raised (if any) — a helper
that raises half-way leaves what it had already done. -/
abbrev Eff := State × Option Exc

/-! ### `_disable_logging`, `_is_valid_log_level_int`, `_reset_log_emergence_level` -/

/-- `logging.disable(n)`. -/
def loggingDisable (n : Nat) (s : State) : State := { s with disable := n }

/-- `_disable_logging(at_level=None)`:
`if at_level: logging.disable(getattr(logging, at_level)) else: logging.disable()`
(`logging.disable()` defaults to `CRITICAL`). -/
def disableLogging (atLevel : Option String) (s : State) : Eff :=
  match atLevel with
  | none => (loggingDisable LogLevels.critical s, none)
  | some nm =>
    if nm.isEmpty then (loggingDisable LogLevels.critical s, none)      -- a falsy string
    else
      match loggingAttr nm with
      | some n => (loggingDisable n s, none)
      | none => (s, some .AttributeError)

/-- `_is_valid_log_level_int(i)`: `try: ValidLogLevels(i)  except KeyError: return False;  return True`.
Looking an `Enum` up by value raises **ValueError** (not `KeyError`) for an unknown value, which
is not caught: the function returns `True` or raises — it never returns `False`. -/
def isValidLogLevelInt (i : Int) : Except Exc Bool :=
  match enumByValue? i with
  | some _ => .ok true
  | none => .error .ValueError

/-- What callers hand to `_reset_log_emergence_level`. -/
inductive PyLevel
  | const (nm : String)      -- a `Constant` (has `.value`): what `log_level()` returns
  | int (i : Int)
  | str (nm : String)
  deriving DecidableEq, Repr

/-- The lift of a previous `logging.disable` followed by `setLevel`: the `else` branch of
`_reset_log_emergence_level`. -/
def liftAndSetLevel (nm : String) (s : State) : Eff :=
  -- _disable_logging(at_level="NOTSET")        (unconditional)
  match disableLogging (some "NOTSET") s with
  | (s1, some e) => (s1, some e)
  | (s1, none) =>
    -- use_logger.setLevel(getattr(logging, level))
    match loggingAttr nm with
    | some n => ({ s1 with root := n }, none)
    | none => (s1, some .AttributeError)

/-- `_reset_log_emergence_level(level)` for the root logger:
```
try: level = level.value  except AttributeError: pass
if isinstance(level, int) and _is_valid_log_level_int(level): level = ValidLogLevels(level).name
if level == "DISABLE": _disable_logging()
else: _disable_logging(at_level="NOTSET"); use_logger.setLevel(getattr(logging, level))
``` -/
def resetLogEmergenceLevel (arg : PyLevel) (s : State) : Eff :=
  let level : PyLevel := match arg with | .const nm => .str nm | a => a
  match level with
  | .int i =>
    match isValidLogLevelInt i with
    | .error e => (s, some e)
    | .ok false => (s, some .TypeError)         -- getattr(logging, <int>) (unreachable: never False)
    | .ok true =>
      match enumByValue? i with
      | none => (s, some .ValueError)
      | some nm => if nm = "DISABLE" then disableLogging none s else liftAndSetLevel nm s
  | .str nm => if nm = "DISABLE" then disableLogging none s else liftAndSetLevel nm s
  | .const nm => if nm = "DISABLE" then disableLogging none s else liftAndSetLevel nm s   -- (not reached)

/-- A *changed* helper in which the lift depends on the stored constant (only when
`CONSTANTS["LOG_LEVEL"]` says DISABLE).  Not the code: the witness that the theorems about the
verbosity being in force inside a call, and about the final logging state of the decorator as
coded, rest on the lift being unconditional (`C20_lift_must_be_unconditional`). -/
def resetEmergenceCond (l : Level) (s : State) : State :=
  if l = .DISABLE then { s with disable := critical }
  else if s.level = .DISABLE then { s with disable := 0, root := l.no }
  else { s with root := l.no }

/-- The decorator of 1.11.2.0 over an arbitrary `_reset_log_emergence_level` (`decoOldWith
resetEmergence` is `decoOld`, by definition). -/
def decoOldWith (R : Level → State → State) : Deco where
  enter v s :=
    let s0 := { s with calls := s.calls + 1 }
    match v.toInt with
    | .error e => (.error e, s0)
    | .ok none => (.ok (frameOf none s0), s0)
    | .ok (some i) =>
      match Level.ofValue? i with
      | none => (.error .ValueError, s0)
      | some l =>
        let s1 := R l s0
        let s2 := if s1.level = .DISABLE ∧ l ≠ .DISABLE then { s1 with disable := 0 } else s1
        (.ok (frameOf (some l) s0), s2)
  exit fr s :=
    let s0 := { s with calls := s.calls - 1 }
    if s0.calls = 0 then
      let s1 :=
        match fr.verbose with
        | some .DISABLE => { s0 with disable := 0 }
        | some _ => R s0.level s0
        | none => s0
      if s1.level = .DISABLE ∧ fr.verbose ≠ some .DISABLE then { s1 with disable := critical } else s1
    else s0

/-! ### `log_level._parse` and `ConstantAccess.__new__` -/

/-- `log_level._parse(arg)`:
```
if isinstance(arg, str): arg = arg.upper()
elif cls._is_valid_log_level_int(arg): arg = cls._ValidLogLevels(arg).name
if not hasattr(cls._ValidLogLevels, arg): raise ValueError
cls._reset_log_emergence_level(arg)
return arg
```
Returns the name to be stored (`none` with the exception in the effect). -/
def logLevelParse (a : LvlArg) (s : State) : Option String × Eff :=
  let nm? : Except Exc String :=
    match a with
    | .str x => .ok (upper x)
    | .int i =>
      match isValidLogLevelInt i with
      | .error e => .error e
      | .ok _ => match enumByValue? i with | some nm => .ok nm | none => .error .ValueError
  match nm? with
  | .error e => (none, (s, some e))
  | .ok nm =>
    match enumByName? nm with
    | none => (none, (s, some .ValueError))
    | some _ =>
      match resetLogEmergenceLevel (.str nm) s with
      | (s1, some e) => (none, (s1, some e))
      | (s1, none) => (some nm, (s1, none))

/-- `ConstantAccess.__new__` for `log_level`:
`old = CONSTANTS["LOG_LEVEL"]; if arg: CONSTANTS["LOG_LEVEL"] = _parse(arg[0]); return Constant(old)`.
While `_parse` re-derives the logging state, the stored constant is still the *old* one. -/
def constantAccessLog (a : Option LvlArg) (s : State) : Except Exc (Val × State) :=
  match a with
  | none => .ok (.lvl s.level, s)
  | some a =>
    match logLevelParse a s with
    | (some nm, (s1, none)) =>
      match Level.ofName? nm with
      | some l => .ok (.lvl s.level, { s1 with level := l })
      | none => .error .ValueError            -- (unreachable: the name is a member)
    | (_, (_, some e)) => .error e
    | (none, (_, none)) => .error .ValueError  -- (unreachable)

/-! ### The wrapper of `_manage_log_level_via_verbosity`, statement by statement -/

/-- `log_level() == "DISABLE"`. -/
def globalIsDisable (s : State) : Bool := s.level.name == "DISABLE"

/-- The decorator of 1.11.2.0, statement by statement. -/
def decoOldFine : Deco where
  enter v s :=
    -- calls[0] += 1
    let s0 := { s with calls := s.calls + 1 }
    -- string → enum value (ValueError), True → 3, False → 0
    match v.toInt with
    | .error e => (.error e, s0)
    | .ok none => (.ok (frameOf none s0), s0)
    | .ok (some i) =>
      -- if _is_valid_log_level_int(verbose): _reset_log_emergence_level(verbose) else: raise ValueError
      match isValidLogLevelInt i with
      | .error e => (.error e, s0)
      | .ok false => (.error .ValueError, s0)
      | .ok true =>
        match resetLogEmergenceLevel (.int i) s0 with
        | (s1, some e) => (.error e, s1)
        | (s1, none) =>
          -- if log_level() == "DISABLE" and verbose not in (0, None): _disable_logging(at_level="NOTSET")
          let s2 := if globalIsDisable s1 && i != 0 then (disableLogging (some "NOTSET") s1).1 else s1
          (.ok { verbose := Level.ofValue? i, root := s0.root, disable := s0.disable, level := s0.level }, s2)
  exit fr s :=
    -- calls[0] -= 1
    let s0 := { s with calls := s.calls - 1 }
    if s0.calls = 0 then
      let vz : Bool := match fr.verbose with | some l => l.value == 0 | none => false
      let s1 :=
        if vz then (disableLogging (some "NOTSET") s0).1                       -- verbose == 0: lift deactivation
        else match fr.verbose with
          | some _ => (resetLogEmergenceLevel (.const s0.level.name) s0).1      -- _reset_log_emergence_level(log_level())
          | none => s0
      -- if log_level() == "DISABLE" and verbose != 0: _disable_logging()
      if globalIsDisable s1 && !vz then (disableLogging none s1).1 else s1
    else s0

/-- The decorator after `fixes/C20-verbose-scope.patch`, statement by statement. -/
def decoMidFine : Deco where
  enter v s :=
    match v.toInt with
    | .error e => (.error e, s)
    | .ok none =>
      let s0 := { s with calls := s.calls + 1 }
      (.ok (frameOf none s0), s0)
    | .ok (some i) =>
      -- if verbose is not None: if not _is_valid_log_level_int(verbose): raise ValueError
      match isValidLogLevelInt i with
      | .error e => (.error e, s)
      | .ok false => (.error .ValueError, s)
      | .ok true =>
        -- calls[0] += 1; previous_level, previous_disable, previous_log_level = …
        let s0 := { s with calls := s.calls + 1 }
        match resetLogEmergenceLevel (.int i) s0 with
        | (s1, some e) => (.error e, s1)
        | (s1, none) =>
          let s2 := if globalIsDisable s1 && i != 0 then (disableLogging (some "NOTSET") s1).1 else s1
          (.ok { verbose := Level.ofValue? i, root := s0.root, disable := s0.disable, level := s0.level }, s2)
  exit fr s :=
    let s0 := { s with calls := s.calls - 1 }
    if s0.calls = 0 then
      let vz : Bool := match fr.verbose with | some l => l.value == 0 | none => false
      let s1 :=
        if vz then (disableLogging (some "NOTSET") s0).1
        else match fr.verbose with
          | some _ => (resetLogEmergenceLevel (.const s0.level.name) s0).1
          | none => s0
      if globalIsDisable s1 && !vz then (disableLogging none s1).1 else s1
    else
      match fr.verbose with
      | none => s0
      | some _ =>
        -- root_logger.setLevel(previous_level); logging.disable(previous_disable)
        let s1 := loggingDisable fr.disable { s0 with root := fr.root }
        -- if log_level().value != previous_log_level: _reset_log_emergence_level(log_level())
        if s0.level.name != fr.level.name then (resetLogEmergenceLevel (.const s0.level.name) s1).1 else s1

end Cfdm.Settings
