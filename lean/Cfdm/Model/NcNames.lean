/-
C08 — netCDF variable / dimension names of one `cfdm.write`.

Model of `NetCDFWrite._netcdf_name(base, dimsize=None, role=None)`
(netcdfwrite.py:107) as a state machine over the sequence of name requests of a
whole write.  The persistent state is what the method reads and writes in
`write_vars`:

* `ncvar_names`            (`St.vars`)   every name handed out so far — variable
                                          *and* dimension names go through here;
* `ncdim_to_size`          (`St.dims`)   dimensions registered by the callers
                                          (`_write_dimension`, `_write_bounds`,
                                          `_string_length_dimension`, …);
* `dimensions_with_role`   (`St.roles`)  per role (`bounds`, `string_length`,
                                          `part`, …) the dimensions created for it.

The method, as coded:

1. `existing = ncvar_names ∪ keys(ncdim_to_size)` (snapshot);
2. `dimsize` given: `role` must be truthy (else `ValueError`); the first dimension
   registered under the role whose size (`ncdim_to_size[ncdim]`, a `KeyError` if the
   caller never registered it) equals `dimsize` is returned, nothing changes;
3. `base ∈ existing` ⇒ `base_<k>` for the first `k = 1, 2, …` not in `existing`
   (the `count_<base>` entry of `write_vars` is created with 1 and never written
   back, so the search always starts at 1); else `base`;
4. blanks → `_`;
5. the result is added to `ncvar_names` and, when `role` and `dimsize` were
   given, appended to the role's list.

Step 4 came *after* the uniqueness test of step 3 before /repo commit 5c79a06
(`request false`): `'a b'` was tested as `'a b'` and returned as `'a_b'`, which may
be in use.  `request true` is the method as it is now (blanks replaced first; the repair
was proposed as `fixes/C08-netcdf-name-blanks.patch`).

The `while` loop is modelled with fuel `|existing|`: among `base_1 … base_{n+1}`
one is free (pigeonhole; proved in `Lemmas/NcNames.lean`), so the fuel never
changes the result.

Core Lean only.
-/
namespace Cfdm.NcNames

/-- `str.replace(' ', '_')`. -/
def sanitize (s : String) : String :=
  String.ofList (s.toList.map (fun c => if c = ' ' then '_' else c))

/-- `f'{base}_{counter}'`. -/
def suffixed (base : String) (k : Nat) : String := base ++ "_" ++ toString k

/-- The `while ncvar in existing_names: counter += 1` loop from counter `k`. -/
def firstFree (ex : List String) (base : String) : Nat → Nat → String
  | 0, k => suffixed base k
  | fuel + 1, k => if suffixed base k ∈ ex then firstFree ex base fuel (k + 1) else suffixed base k

structure St where
  vars : List String := []
  dims : List (String × Nat) := []
  roles : List (String × List String) := []
deriving Repr, DecidableEq

def St.dimNames (s : St) : List String := s.dims.map (·.1)
/-- `g['ncvar_names'].union(g['ncdim_to_size'])`. -/
def St.existing (s : St) : List String := s.vars ++ s.dimNames

def St.roleDims (s : St) (role : String) : List String :=
  ((s.roles.find? (·.1 == role)).map (·.2)).getD []

def St.dimSize (s : St) (d : String) : Option Nat := (s.dims.find? (·.1 == d)).map (·.2)

inductive Res
  | fresh (name : String)      -- a new name, now registered
  | reused (name : String)     -- an existing dimension of the same role and size
  | valueError                 -- dimsize without role
  | keyError                   -- a role dimension that has no size entry
deriving Repr, DecidableEq

def Res.name? : Res → Option String
  | .fresh n => some n
  | .reused n => some n
  | _ => none

/-- The `for ncdim in dimensions_with_role[role]` loop. -/
def reuseLoop (s : St) (size : Nat) : List String → Except Unit (Option String)
  | [] => .ok none
  | d :: ds =>
    match s.dimSize d with
    | none => .error ()
    | some n => if n == size then .ok (some d) else reuseLoop s size ds

/-- `dimensions_with_role.setdefault(role, []).append(name)`. -/
def addRole : List (String × List String) → String → String → List (String × List String)
  | [], role, name => [(role, [name])]
  | x :: xs, role, name =>
    if x.1 == role then (x.1, x.2 ++ [name]) :: xs else x :: addRole xs role name

/-- Steps 3–5.  `patched = true`: blanks replaced before the uniqueness test. -/
def allocate (patched : Bool) (s : St) (base : String) (dimsize : Option Nat) (role : Option String) : Res × St :=
  let ex := s.existing
  let b := if patched then sanitize base else base
  let n0 := if b ∈ ex then firstFree ex b ex.length 1 else b
  let n := if patched then n0 else sanitize n0
  let roles := match role, dimsize with
    | some r, some _ => if r == "" then s.roles else addRole s.roles r n
    | _, _ => s.roles
  (.fresh n, { s with vars := n :: s.vars, roles := roles })

/-- `_netcdf_name(base, dimsize, role)` for `base` not `None`. -/
def request (patched : Bool) (s : St) (base : String) (dimsize : Option Nat) (role : Option String) : Res × St :=
  match dimsize with
  | none => allocate patched s base dimsize role
  | some size =>
    match role with
    | none => (.valueError, s)
    | some r =>
      if r == "" then (.valueError, s) else
      match reuseLoop s size (s.roleDims r) with
      | .error _ => (.keyError, s)
      | .ok (some d) => (.reused d, s)
      | .ok none => allocate patched s base dimsize role

/-- What happens to the naming state during a write. -/
inductive Ev
  | req (base : String) (dimsize : Option Nat) (role : Option String)
  | regdim (name : String) (size : Nat)        -- `ncdim_to_size[name] = size`
deriving Repr, DecidableEq

def regDim (s : St) (name : String) (size : Nat) : St :=
  if s.dims.any (·.1 == name) then
    { s with dims := s.dims.map (fun d => if d.1 == name then (d.1, size) else d) }
  else { s with dims := s.dims ++ [(name, size)] }

def step (patched : Bool) (s : St) : Ev → St × Option Res
  | .req b d r => let (res, s') := request patched s b d r; (s', some res)
  | .regdim n k => (regDim s n k, none)

/-- The whole write: final state and the answer to every request, in order. -/
def run (patched : Bool) : St → List Ev → St × List Res
  | s, [] => (s, [])
  | s, e :: es =>
    let (s', r) := step patched s e
    let (s'', rs) := run patched s' es
    (s'', match r with | some x => x :: rs | none => rs)

/-- The names newly allocated (not reused) by a run. -/
def freshNames : List Res → List String
  | [] => []
  | .fresh n :: rs => n :: freshNames rs
  | _ :: rs => freshNames rs

end Cfdm.NcNames
