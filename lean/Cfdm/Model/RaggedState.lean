import Cfdm.Model.Arr
/-
C06 — "the underlying array stays compressed until assigned to": the compression state of
`cfdm.Data` objects over a history of operations.

Model of the places in cfdm/data/data.py that decide whether a `Data` keeps its compressed
array or replaces it by a numpy array (`_set_Array(<numpy array>)`):

  `.array`                      reads `self._get_Array()[...]`                    — keeps
  `__getitem__`                 `out = self.copy(array=False); out._set_Array(array[indices])`
                                 the NEW object holds a numpy array, the source    — keeps
  `copy`                        deep copy of the (compressed) array object        — keeps, copy too
  `__setitem__`                 `array = self.array; …; self._set_Array(array)`   — uncompresses
  `transpose(axes, inplace)`    returns early when `ndim <= 1` (axes None) or when
                                 `axes == tuple(range(ndim))`; otherwise
                                 `d._set_Array(np.transpose(self.array, axes))`    — uncompresses `d`
  `squeeze(axes, inplace)`      returns early when there is no axis to remove; otherwise
                                 `d._set_Array(np.squeeze(self.array, axes))`      — uncompresses `d`
  `insert_dimension(position)`  `d._set_Array(np.expand_dims(self.array, …))`     — uncompresses `d`
  `to_memory(inplace)`          `d._set_Array(self.source().to_memory())`: a copy of the
                                 compressed array object                          — keeps
  `uncompress(inplace)`         `if d.get_compression_type(): d._set_Array(d.array)`
  `equals`                      compares `.array`s                                — keeps both
  `cfdm.write`                  writes the compressed array when there is one     — keeps
where `d` is `self` for `inplace=True` and `self.copy()` otherwise (`_inplace_enabled`).

The numpy operations on uncompressed arrays are a parameter (`NpOps`); the driver instantiates
them with `Arr`-based definitions.  Objects live in a heap (list); a new object is appended, so
the number of an object never changes.  Core Lean only.
-/
namespace Cfdm.RaggedState

/-- numpy on uncompressed arrays. -/
structure NpOps (A I V : Type) where
  shape : A → List Nat
  take : A → I → A                    -- orthogonal indexing `a[ix]`
  assign : A → I → V → A              -- `a[ix] = v`
  transpose : A → List Nat → A
  squeeze : A → List Nat → A
  expand : A → Nat → A
  eqv : A → A → Bool

/-- What a `Data` object holds: a compressed array object or a numpy array. -/
inductive Repr (C A : Type) where
  | comp (c : C)
  | plain (a : A)

inductive Op (I V : Type) where
  | array (i : Nat)
  | getitem (i : Nat) (ix : I)
  | copy (i : Nat)
  | setitem (i : Nat) (ix : I) (v : V)
  | transpose (i : Nat) (axes : Option (List Nat)) (inplace : Bool)
  | squeeze (i : Nat) (axes : Option (List Nat)) (inplace : Bool)
  | insertDim (i : Nat) (pos : Nat) (inplace : Bool)
  | toMemory (i : Nat) (inplace : Bool)
  | uncompress (i : Nat) (inplace : Bool)
  | equals (i j : Nat)
  | write (i : Nat)

/-- What an operation shows to the user. -/
inductive Obs (A : Type) where
  | none
  | bad                    -- an object number that does not exist
  | arr (a : A)            -- `.array`
  | bool (b : Bool)        -- `equals`
  | written (compressed : Bool)   -- is the data variable written on a sample dimension?

section
variable {C A I V : Type} (np : NpOps A I V) (dec : C → A)

/-- `Data.array`: the uncompressed array. -/
def view : Repr C A → A
  | .comp c => dec c
  | .plain a => a

/-- `Data.get_compression_type() != ''`. -/
def isComp : Repr C A → Bool
  | .comp _ => true
  | .plain _ => false

/-- `d = _inplace_enabled_define_and_cleanup(self)` followed by storing `r` in `d`: in place the
object itself changes, otherwise a new object is returned. -/
def put (heap : List (Repr C A)) (i : Nat) (inplace : Bool) (r : Repr C A) : List (Repr C A) :=
  if inplace then heap.set i r else heap ++ [r]

/-- The axes `transpose` uses, or `none` when it returns early. -/
def transposeAxes (ndim : Nat) : Option (List Nat) → Option (List Nat)
  | .none => if ndim ≤ 1 then .none else some (List.range ndim).reverse
  | .some ax => if ax = List.range ndim then .none else some ax

/-- The axes `squeeze` removes, or `none` when it returns early. -/
def squeezeAxes (shape : List Nat) : Option (List Nat) → Option (List Nat)
  | .none =>
    let ax := (List.range shape.length).filter (fun k => shape.getD k 0 = 1)
    if ax.isEmpty then .none else some ax
  | .some ax => if ax.isEmpty then .none else some ax

/-- One operation, as coded. -/
def step (heap : List (Repr C A)) : Op I V → List (Repr C A) × Obs A
  | .array i =>
    match heap[i]? with
    | .none => (heap, .bad)
    | some d => (heap, .arr (view dec d))
  | .getitem i ix =>
    match heap[i]? with
    | .none => (heap, .bad)
    | some d => (heap ++ [.plain (np.take (view dec d) ix)], .none)
  | .copy i =>
    match heap[i]? with
    | .none => (heap, .bad)
    | some d => (heap ++ [d], .none)
  | .setitem i ix v =>
    match heap[i]? with
    | .none => (heap, .bad)
    | some d => (heap.set i (.plain (np.assign (view dec d) ix v)), .none)
  | .transpose i axes inplace =>
    match heap[i]? with
    | .none => (heap, .bad)
    | some d =>
      match transposeAxes (np.shape (view dec d)).length axes with
      | .none => (put heap i inplace d, .none)
      | some ax => (put heap i inplace (.plain (np.transpose (view dec d) ax)), .none)
  | .squeeze i axes inplace =>
    match heap[i]? with
    | .none => (heap, .bad)
    | some d =>
      match squeezeAxes (np.shape (view dec d)) axes with
      | .none => (put heap i inplace d, .none)
      | some ax => (put heap i inplace (.plain (np.squeeze (view dec d) ax)), .none)
  | .insertDim i pos inplace =>
    match heap[i]? with
    | .none => (heap, .bad)
    | some d => (put heap i inplace (.plain (np.expand (view dec d) pos)), .none)
  | .toMemory i inplace =>
    match heap[i]? with
    | .none => (heap, .bad)
    | some d => (put heap i inplace d, .none)
  | .uncompress i inplace =>
    match heap[i]? with
    | .none => (heap, .bad)
    | some d => (put heap i inplace (if isComp d then .plain (view dec d) else d), .none)
  | .equals i j =>
    match heap[i]?, heap[j]? with
    | some d, some e => (heap, .bool (np.eqv (view dec d) (view dec e)))
    | _, _ => (heap, .bad)
  | .write i =>
    match heap[i]? with
    | .none => (heap, .bad)
    | some d => (heap, .written (isComp d))

/-- A history of operations: final heap and everything that was shown. -/
def run (heap : List (Repr C A)) : List (Op I V) → List (Repr C A) × List (Obs A)
  | [] => (heap, [])
  | op :: ops =>
    let (h1, o) := step np dec heap op
    let (h2, os) := run h1 ops
    (h2, o :: os)

/-! ## Specification: uncompressed arrays with a flag

The property in terms of what the user handles: every object has the array the CF conventions
define (an `A`), numpy operations act on it, and an object "is still compressed" exactly when it
was created compressed (or copied from such an object) and has not been changed in place since. -/

/-- Does the operation change the array of the object it acts on? -/
def changes (a : A) : Op I V → Bool
  | .setitem .. => true
  | .transpose _ axes _ => (transposeAxes (np.shape a).length axes).isSome
  | .squeeze _ axes _ => (squeezeAxes (np.shape a) axes).isSome
  | .insertDim .. => true
  | .uncompress .. => true
  | _ => false

/-- numpy semantics of an operation on the array of its object. -/
def effect (a : A) : Op I V → A
  | .setitem _ ix v => np.assign a ix v
  | .transpose _ axes _ =>
    match transposeAxes (np.shape a).length axes with
    | .none => a
    | some ax => np.transpose a ax
  | .squeeze _ axes _ =>
    match squeezeAxes (np.shape a) axes with
    | .none => a
    | some ax => np.squeeze a ax
  | .insertDim _ pos _ => np.expand a pos
  | _ => a

/-- Target object and in-place flag of an operation that returns or changes a `Data`. -/
def target : Op I V → Option (Nat × Bool)
  | .setitem i _ _ => some (i, true)
  | .transpose i _ b => some (i, b)
  | .squeeze i _ b => some (i, b)
  | .insertDim i _ b => some (i, b)
  | .toMemory i b => some (i, b)
  | .uncompress i b => some (i, b)
  | _ => .none

def specStep (heap : List (A × Bool)) (op : Op I V) : List (A × Bool) × Obs A :=
  match op with
  | .array i =>
    match heap[i]? with
    | .none => (heap, .bad)
    | some d => (heap, .arr d.1)
  | .getitem i ix =>
    match heap[i]? with
    | .none => (heap, .bad)
    | some d => (heap ++ [(np.take d.1 ix, false)], .none)
  | .copy i =>
    match heap[i]? with
    | .none => (heap, .bad)
    | some d => (heap ++ [d], .none)
  | .equals i j =>
    match heap[i]?, heap[j]? with
    | some d, some e => (heap, .bool (np.eqv d.1 e.1))
    | _, _ => (heap, .bad)
  | .write i =>
    match heap[i]? with
    | .none => (heap, .bad)
    | some d => (heap, .written d.2)
  | op =>
    match target op with
    | .none => (heap, .bad)
    | some (i, inplace) =>
      match heap[i]? with
      | .none => (heap, .bad)
      | some d =>
        let d' := (effect np d.1 op, d.2 && !changes np d.1 op)
        (if inplace then heap.set i d' else heap ++ [d'], .none)

def specRun (heap : List (A × Bool)) : List (Op I V) → List (A × Bool) × List (Obs A)
  | [] => (heap, [])
  | op :: ops =>
    let (h1, o) := specStep np heap op
    let (h2, os) := specRun h1 ops
    (h2, o :: os)

/-- What the specification sees of an object. -/
def abs (r : Repr C A) : A × Bool := (view dec r, isComp r)

/-- Does the operation act in place on object `i` (assignment or `inplace=True`)? -/
def touches (i : Nat) (op : Op I V) : Bool :=
  match target op with
  | some (j, true) => j == i
  | _ => false

end
end Cfdm.RaggedState

/-! ## numpy on `Arr` (what the driver runs) -/
namespace Cfdm.RaggedState
open Cfdm.Arr

/-- `a[ix] = v` for a scalar (or masked) `v` and per-axis position lists `ps`. -/
def assignArr {α} (A : Arr α) (ps : List (List Nat)) (v : α) : Arr α :=
  { shape := A.shape
    get := fun idx =>
      if (List.range A.shape.length).all (fun k => (ps.getD k []).contains (idx.getD k 0)) then v
      else A.get idx }

/-- `np.transpose(a, axes)`: axis `k` of the result is axis `axes[k]` of `a`. -/
def transposeArr {α} (A : Arr α) (axes : List Nat) : Arr α :=
  { shape := axes.map (fun d => A.shape.getD d 0)
    get := fun idx => A.get ((List.range A.shape.length).map (fun d => idx.getD (axes.idxOf d) 0)) }

/-- Put a `0` back at every squeezed position `k ∈ axes` (positions counted in the original array). -/
def unsqueezeIdx (axes : List Nat) : Nat → Nat → List Nat → List Nat
  | 0, _, _ => []
  | n + 1, k, idx =>
    if axes.contains k then 0 :: unsqueezeIdx axes n (k + 1) idx
    else idx.headD 0 :: unsqueezeIdx axes n (k + 1) idx.tail

/-- `np.squeeze(a, axes)`. -/
def squeezeArr {α} (A : Arr α) (axes : List Nat) : Arr α :=
  { shape := ((List.range A.shape.length).filter (fun k => !axes.contains k)).map (fun k => A.shape.getD k 0)
    get := fun idx => A.get (unsqueezeIdx axes A.shape.length 0 idx) }

/-- `np.expand_dims(a, pos)`. -/
def expandArr {α} (A : Arr α) (pos : Nat) : Arr α :=
  { shape := A.shape.insertIdx pos 1
    get := fun idx => A.get (idx.eraseIdx pos) }

/-- Same shape, same mask, same values (`Data.equals` on exactly representable values). -/
def eqvArr {α} [BEq α] (A B : Arr α) : Bool :=
  A.shape == B.shape && toList A == toList B

def arrOps {α} [BEq α] : NpOps (Arr α) (List (List Nat)) α :=
  { shape := fun A => A.shape
    take := takeAll
    assign := assignArr
    transpose := transposeArr
    squeeze := squeezeArr
    expand := expandArr
    eqv := eqvArr }

end Cfdm.RaggedState
