import Cfdm.Model.Subsample
import Cfdm.Model.Arr
/-
C16 — interpolation parameters and dependent tie points stored with their own
dimension order.

Mirrors
* `SubsampledArray._conformed_parameters` / `_conformed_dependent_tie_points`
  (cfdm/data/subsampledarray.py): `parameter_dimensions[term]` lists, for every dimension of
  the stored parameter array, the tie point array dimension it corresponds to; the array is
  transposed to tie point dimension order (`Data.transpose`) and the tie point dimensions it
  does not span are inserted as size 1 axes (`Data.insert_dimension`), lowest first;
* `SubsampledSubarray._select_parameter` (cfdm/data/subarray/abstract/subsampledsubarray.py):
  along every dimension the conformed parameter is indexed with the tie point index of the
  subarea (`c_indices`) when its size there equals the tie point array's, else with the
  interpolation subarea index.

N-d arrays are (shape, index function) pairs (`Cfdm.Arr.Arr`).  Core Lean only.
-/
namespace Cfdm.Subsample
open Cfdm.Arr

/-- `Data.transpose(axes)`: axis `q` of the result is axis `axes[q]` of the source. -/
def transposeA {α} (A : Arr α) (axes : List Nat) : Arr α :=
  { shape := axes.map (fun a => A.shape.getD a 0)
    get := fun idx => A.get ((List.range A.shape.length).map (fun a => idx.getD (axes.idxOf a) 0)) }

/-- `Data.insert_dimension(position=d)`: a new size 1 axis at position `d`. -/
def insertDim {α} (A : Arr α) (d : Nat) : Arr α :=
  { shape := A.shape.take d ++ 1 :: A.shape.drop d
    get := fun idx => A.get (idx.eraseIdx d) }

/-- The tie point dimensions spanned / not spanned by the parameter, in increasing order. -/
def spanned (D : Nat) (pdims : List Nat) : List Nat := (List.range D).filter (fun d => pdims.contains d)
def missing (D : Nat) (pdims : List Nat) : List Nat := (List.range D).filter (fun d => !pdims.contains d)

/-- `new_order = [parameter_dims.index(i) for i in dims if i in parameter_dims]` -/
def newOrder (D : Nat) (pdims : List Nat) : List Nat := (spanned D pdims).map (fun d => pdims.idxOf d)

/-- The `else` branch of `_conformed_parameters`: transpose, then insert the missing
dimensions (`for d in sorted(set(dims).difference(parameter_dims))`). -/
def conformGo {α} (D : Nat) (pdims : List Nat) (P : Arr α) : Arr α :=
  let T := transposeA P (newOrder D pdims)
  if pdims.length < D then (missing D pdims).foldl insertDim T else T

/-- `_conformed_parameters` for one parameter, as at /repo HEAD (after commit c954b8c):
`if list(parameter_dims) == dims` the array is used as it is. -/
def conform {α} (D : Nat) (pdims : List Nat) (P : Arr α) : Arr α :=
  if pdims == List.range D then P else conformGo D pdims P

/-- `sorted(parameter_dims)` (insertion sort). -/
def insertSorted (x : Nat) : List Nat → List Nat
  | [] => [x]
  | y :: ys => if x ≤ y then x :: y :: ys else y :: insertSorted x ys
def sortNat (l : List Nat) : List Nat := l.foldr insertSorted []

/-- Before commit c954b8c: `if sorted(parameter_dims) == dims` — true for ANY permutation of
the dimensions, which were then not transposed. -/
def conformOld {α} (D : Nat) (pdims : List Nat) (P : Arr α) : Arr α :=
  if sortNat pdims == List.range D then P else conformGo D pdims P

/-- `_conformed_dependent_tie_points`: transposition only (dependent tie points span all the
tie point dimensions). -/
def conformDep {α} (D : Nat) (tdims : List Nat) (P : Arr α) : Arr α :=
  if tdims == List.range D then P else transposeA P (newOrder D tdims)

/-! ### `_select_parameter` -/

/-- The index used along tie point dimension `a` of a conformed parameter of shape `cshape`
when the subarray works on the tie points `(i a, i a + 1)` (`c_indices = slice(i, i + 2)`),
interpolation subarea `j a` (`subarea_indices = slice(j, j + 1)`) along a subsampled dimension
and on element `e a` along a non-interpolated dimension; `c a ∈ {0, 1}` picks one of the two
tie points (`_select_location`) when the parameter spans the tie point dimension.

`bcast = true` is the code with fixes/C16-parameter-broadcast.patch applied (a size 1 axis is
taken whole); `bcast = false` is /repo HEAD, where a parameter that does not span a subsampled
dimension is indexed with `slice(j, j + 1)` on its size 1 axis — empty for `j ≥ 1`
(`none` here; the implementation then raises ValueError when broadcasting). -/
def paramIndex (bcast : Bool) (cshape tpShape : List Nat) (isSub : Nat → Bool)
    (i j c e : Nat → Nat) (a : Nat) : Option Nat :=
  if cshape.getD a 0 == tpShape.getD a 0 then
    some (if isSub a then i a + c a else e a)
  else if isSub a then
    (if cshape.getD a 0 == 1 then (if bcast || j a == 0 then some 0 else none) else some (j a))
  else some 0   -- a size 1 axis against a non-interpolated dimension: numpy broadcasting

/-- The parameter value that enters the formula for one subarea / element. -/
def paramValue (bcast : Bool) (C : Arr Rat) (tpShape : List Nat) (isSub : Nat → Bool)
    (i j c e : Nat → Nat) : Option Rat :=
  ((List.range tpShape.length).mapM (paramIndex bcast C.shape tpShape isSub i j c e)).map C.get

/-- One subsampled dimension at position `d1` of the tie point array, a parameter per
interpolation subarea (`w` of `quadratic`): the coefficients of row `e` (the indices along the
non-interpolated dimensions, listed in tie point dimension order with a dummy at `d1`) for
the subareas `0 … nsub - 1`; `none` if the selection is empty for some subarea. -/
def paramRow (bcast : Bool) (D : Nat) (pdims : List Nat) (P : Arr Rat) (tpShape : List Nat)
    (d1 : Nat) (nsub : Nat) (e : List Nat) : Option (List Rat) :=
  let C := conform D pdims P
  (List.range nsub).mapM (fun j =>
    paramValue bcast C tpShape (fun a => a == d1) (fun _ => 0) (fun _ => j) (fun _ => 0)
      (fun a => e.getD a 0))

/-- An array given by its shape and its row-major data (what the driver parses). -/
def ofFlat (shape : List Nat) (data : List Rat) : Arr Rat :=
  { shape := shape, get := fun idx => data.getD (ravel shape idx) 0 }

end Cfdm.Subsample
