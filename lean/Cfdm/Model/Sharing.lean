/-
C09 — fields sharing a file.  Executable model of the *cross-field state* of
`NetCDFWrite` (cfdm/read_write/netcdf/netcdfwrite.py) and `NetCDFRead`
(netcdfread.py), core Lean only.

What is mirrored (as the code performs it, with fixes/C09-*.patch applied; the
behaviour of the unpatched code is kept as `…Old`):

* `_netcdf_name` — `netcdfName` (blank → `_` *before* the uniqueness test; old: after);
  an unnamed dimension coordinate on an axis with a pinned dimension name asks `_netcdf_name` for that
  name (old: takes it as it is, `oldDimName`);
* `write_vars['seen']` + `_already_in_file` + `implementation.equal_components`
  — `St.seen`, `findSeen`, `eqComp` (structural equality of what `equals`
  compares: construct type unless `ignore_type`, and a signature = identity of
  properties/data/bounds content; netCDF names are *not* compared);
* `_write_netcdf_variable` — `emitVar` (creates the variable and registers it);
* `_write_bounds` — `writeBounds` (trailing dimension reused by role+size);
* `_write_dimension_coordinate`, `_write_scalar_coordinate`,
  `_write_auxiliary_coordinate`, `_write_domain_ancillary` (ignore_type),
  `_write_cell_measure`, `_write_field_ancillary`;
* the axis loop of `_write_field_or_domain` incl. dimension reuse through
  `ncdim_size_to_spanning_constructs` (`St.spans`; patched: a dimension already
  used by another axis of the same field is not reused) and
  `field_insert_dimension`;
* the formula-terms block (attribute set on the owning coordinate variable —
  *overwriting* what an earlier field set, as coded), `_create_vertical_datum`
  (mutation of the per-field `grid_mapping_refs`), `_write_grid_mapping`;
* cell methods (axis → dimension name / scalar coordinate variable name);
* reader: `_create_field_or_domain` with the cross-field caches
  `g['dimension_coordinate']`, `g['auxiliary_coordinate']`, `g['domain_ancillary']`,
  `g['cell_measure']`, `g['field_ancillary']` and `g['vertical_crs']`
  (patched: reset per field; a cached scalar string coordinate is not given a
  second size-1 dimension).

Not modelled: groups, compression/geometry variables, external variables,
unlimited dimensions, string-length dimensions, append mode, data values.
-/
namespace Cfdm.Sharing

abbrev Name := String

/-- Construct types as `equals` distinguishes them (`scalarDim`/`scalarAux` are the
squeezed 0-d copies written by `_write_scalar_coordinate`: their data shape `()` makes
them unequal to every 1-d construct). -/
inductive Kind
  | dim | aux | dan | msr | fan | bnd | gm | scalarDim | scalarAux | data
  deriving DecidableEq, Repr, Inhabited

/-- What `equal_components` looks at: the type and a signature (identity of
properties, data incl. dtype/units/fill value/shape, bounds, geometry …). -/
structure CVal where
  kind : Kind
  sig : List Nat
  deriving DecidableEq, Repr, Inhabited

/-- `implementation.equal_components(v, w, ignore_type)`. -/
def eqComp (ignoreType : Bool) (a b : CVal) : Bool :=
  (ignoreType || decide (a.kind = b.kind)) && decide (a.sig = b.sig)

structure Entry where
  val : CVal
  ncvar : Name
  ncdims : List Name
  deriving DecidableEq, Repr, Inhabited

/-- "construct `key` of field number `field` (value `val`) is stored in variable `ncvar`" — the
writer's `key_to_ncvar`, kept for every field so that the sharing graph can be talked about -/
structure Link where
  field : Nat
  key : Nat
  val : CVal
  ncvar : Name
  deriving DecidableEq, Repr, Inhabited

/-- A netCDF variable of the (abstract) dataset. -/
structure Var where
  name : Name
  dims : List Name
  val : CVal
  str : Bool := false                      -- string-valued (matters for scalar coordinates on read)
  stdname : Option Name := none            -- standard_name (grid-mapping coordinates by name on read)
  bounds : Option Name := none
  ft : List (String × Name) := []          -- formula_terms
  bft : List (String × Name) := []         -- formula_terms of the bounds variable (stored on the parent)
  isData : Bool := false
  isDomain : Bool := false
  coords : List Name := []                 -- `coordinates`
  measures : List Name := []               -- `cell_measures`
  ancils : List Name := []                 -- `ancillary_variables`
  gms : List (Name × List Name) := []      -- `grid_mapping` (coordinate lists only when several)
  gmMulti : Bool := false
  cms : List (List Name × Nat) := []       -- `cell_methods`: axis names, method id
  domDims : List Name := []                -- `dimensions` of a domain variable
  deriving DecidableEq, Repr, Inhabited

/-- `write_vars`, the part that persists across the fields of one `cfdm.write`. -/
structure St where
  names : List Name := []                           -- g['ncvar_names']
  dimSizes : List (Name × Nat) := []                -- g['ncdim_to_size']
  boundsDims : List Name := []                      -- g['dimensions_with_role']['bounds']
  seen : List Entry := []                           -- g['seen'] (insertion order)
  vars : List Var := []                             -- the dataset, creation order
  boundsOf : List (Name × Name) := []               -- g['bounds']
  spans : List (Name × Nat × List (CVal × Nat)) := []  -- g['ncdim_size_to_spanning_constructs']
  ok : Bool := true                                 -- name search never ran out of fuel
  ftConflict : Bool := false                        -- a formula_terms attribute was overwritten by a different one
  dup : Bool := false                               -- a variable was created under a name already in use (netCDF error)
  oldNames : Bool := false                          -- configuration: `_netcdf_name` as the code has it (`netcdfNameOld`)
  oldData : Bool := false                           -- configuration: data variables are registered in `seen` (as the code has it)
  oldDimName : Bool := false                        -- configuration: an unnamed dimension coordinate takes the pinned dimension name as it is
  unlimDims : List Name := []                       -- g['unlimited_ncdims']
  links : List Link := []                           -- every field's `key_to_ncvar` (ghost state: read by nothing)
  nf : Nat := 0                                     -- number of fields written so far
  deriving Repr, Inhabited

def St.existing (s : St) : List Name := s.names ++ s.dimSizes.map (·.1)

def lookup {β} (l : List (Name × β)) (n : Name) : Option β := (l.find? (·.1 == n)).map (·.2)

def St.var? (s : St) (n : Name) : Option Var := s.vars.find? (·.name == n)

/-! ### `_netcdf_name` -/

def suffixed (base : Name) (k : Nat) : Name := base ++ "_" ++ toString k

/-- first `base_k`, `k ≥ start`, that is free; `none` when the fuel runs out -/
def findFree (base : Name) (ex : List Name) : Nat → Nat → Option Name
  | _, 0 => none
  | k, fuel + 1 => if ex.contains (suffixed base k) then findFree base ex (k + 1) fuel else some (suffixed base k)

/-- `name.replace(" ", "_")`, written so that the kernel can evaluate it on literals -/
def blankToUnderscore (s : Name) : Name := String.ofList (s.toList.map (fun c => if c = ' ' then '_' else c))

/-- `_netcdf_name(base)` (no `dimsize`), patched: blanks are replaced before the test. -/
def netcdfNameNew (s : St) (base : Name) : St × Name :=
  let base := blankToUnderscore base
  let ex := s.existing
  if ex.contains base then
    match findFree base ex 1 (ex.length + 1) with
    | some n => ({ s with names := s.names ++ [n] }, n)
    | none => ({ s with names := s.names ++ [base], ok := false }, base)
  else ({ s with names := s.names ++ [base] }, base)

/-- the code as it is: uniqueness tested on the raw base, blanks replaced afterwards -/
def netcdfNameOld (s : St) (base : Name) : St × Name :=
  let ex := s.existing
  let n := if ex.contains base then
      match findFree base ex 1 (ex.length + 1) with
      | some n => n
      | none => base
    else base
  let n := blankToUnderscore n
  ({ s with names := s.names ++ [n] }, n)

def netcdfName (s : St) (base : Name) : St × Name :=
  if s.oldNames then netcdfNameOld s base else netcdfNameNew s base

/-! ### registry -/

/-- `_already_in_file(v, ncdims)`: first registered entry with these dimensions (when
given) whose variable `equal_components` `v`. -/
def findSeen (seen : List Entry) (v : CVal) (dims : Option (List Name)) (ignoreType : Bool) : Option Entry :=
  seen.find? (fun e => (match dims with | none => true | some d => decide (d = e.ncdims)) && eqComp ignoreType v e.val)

/-- `_write_netcdf_variable`: create the variable, register it in `seen`. -/
def emitVar (s : St) (v : Var) : St :=
  { s with vars := s.vars ++ [v], seen := s.seen ++ [⟨v.val, v.name, v.dims⟩],
           dup := s.dup || s.vars.any (·.name == v.name) }

/-- the data / domain variable: created but (patched) *not* registered in `seen` -/
def emitData (s : St) (v : Var) : St :=
  if s.oldData then emitVar s v
  else { s with vars := s.vars ++ [v], dup := s.dup || s.vars.any (·.name == v.name) }

def link (s : St) (key : Nat) (v : CVal) (n : Name) : St :=
  { s with links := s.links ++ [⟨s.nf, key, v, n⟩] }

def setAssoc {β} (l : List (Name × β)) (k : Name) (v : β) : List (Name × β) :=
  if l.any (·.1 == k) then l.map (fun p => if p.1 == k then (k, v) else p) else l ++ [(k, v)]

/-! ### abstract input -/

structure BSpec where
  sig : Nat                      -- identity of the bounds content
  nv : Nat                       -- size of the trailing dimension
  ncvar : Option Name := none
  ncdim : Option Name := none
  deriving DecidableEq, Repr, Inhabited

/-- a metadata construct carrying data -/
structure Cons where
  kind : Kind                    -- dim | aux | dan | msr | fan
  sig : Nat                      -- identity of properties + data
  axes : List Nat                -- indices into the field's axis list (sorted key order)
  bounds : Option BSpec := none
  ncvar : Option Name := none    -- pinned netCDF variable name
  dflt : Option Name := none     -- standard_name (the default name source)
  str : Bool := false            -- string-valued data
  deriving DecidableEq, Repr, Inhabited

def BSpec.val (b : BSpec) : CVal := ⟨.bnd, [b.sig]⟩

def boundsSig : Option BSpec → List Nat
  | none => [0]
  | some b => [1, b.sig]

def Cons.val (c : Cons) : CVal := ⟨c.kind, c.sig :: boundsSig c.bounds⟩
def Cons.valAs (c : Cons) (k : Kind) : CVal := ⟨k, c.sig :: boundsSig c.bounds⟩

structure AAxis where
  size : Nat
  ncdim : Option Name := none
  inData : Bool := true
  unlimited : Bool := false      -- nc_is_unlimited
  deriving DecidableEq, Repr, Inhabited

/-- a grid-mapping coordinate reference -/
structure GM where
  params : Nat                   -- identity of the coordinate-conversion parameters
  datum : Option Nat := none     -- identity of the datum parameters (none = empty datum)
  coords : List Nat := []        -- indices into `cons`
  ncvar : Option Name := none
  name : Name := "grid_mapping"  -- grid_mapping_name (default variable name)
  deriving DecidableEq, Repr, Inhabited

/-- a formula-terms coordinate reference -/
structure VRef where
  owner : Option Nat := none     -- index of the owning coordinate in `cons`
  terms : List (String × Nat) := []  -- term → index of the domain ancillary in `cons`
  datum : Option Nat := none
  deriving DecidableEq, Repr, Inhabited

structure AField where
  isDomain : Bool := false
  sig : Nat                      -- identity of the field's own properties + data
  ncvar : Option Name := none
  dflt : Option Name := none     -- standard_name
  axes : List AAxis := []
  dataAxes : List Nat := []      -- the field's data axes, in order (a domain: unused)
  cons : List Cons := []
  gms : List GM := []
  vrefs : List VRef := []
  cms : List (List (Nat ⊕ Name) × Nat) := []   -- cell methods: axes (index or free name), method id
  deriving Repr, Inhabited

/-! ### per-field writer state -/

structure FSt where
  axisDim : List (Nat × Name) := []      -- g['axis_to_ncdim']
  axisScalar : List (Nat × Name) := []   -- g['axis_to_ncscalar']
  keyVar : List (Nat × Name) := []       -- g['key_to_ncvar'] (construct index → variable)
  dataAxes : List Nat := []              -- the field's data axes (insert_dimension prepends)
  localAxes : List Nat := []             -- the local `data_axes` list of `_write_field_or_domain`
  coords : List Name := []               -- `coordinates`
  newSpans : List (Name × Nat × List (CVal × Nat)) := []
  deriving Repr, Inhabited

def lookupN {β} (l : List (Nat × β)) (n : Nat) : Option β := (l.find? (·.1 == n)).map (·.2)

def FSt.dimsOf (fs : FSt) (axes : List Nat) : List Name := axes.map (fun a => (lookupN fs.axisDim a).getD "?")

/-- `_create_netcdf_variable_name(x, default)` -/
def createName (s : St) (pinned dflt : Option Name) (fallback : Name) : St × Name :=
  netcdfName s (pinned.getD (dflt.getD fallback))

/-- the trailing dimension of a bounds variable: `_netcdf_name(base, dimsize=nv, role='bounds')` -/
def boundsDim (s : St) (b : BSpec) : St × Name :=
  match s.boundsDims.find? (fun d => lookup s.dimSizes d == some b.nv) with
  | some d => (s, d)
  | none =>
    let r := netcdfName s (b.ncdim.getD ("bounds" ++ toString b.nv))
    ({ r.1 with boundsDims := r.1.boundsDims ++ [r.2] }, r.2)

/-- register the trailing dimension if it is new -/
def boundsNewDim (s : St) (bdim : Name) (nv : Nat) : St :=
  if (lookup s.dimSizes bdim).isNone then { s with dimSizes := s.dimSizes ++ [(bdim, nv)] } else s

/-- the bounds variable: shared if already in the file with the same dimensions, else created -/
def boundsVar (s : St) (parent : Name) (dims : List Name) (bdim : Name) (b : BSpec) : St × Name :=
  match findSeen s.seen b.val (some dims) false with
  | some e => (s, e.ncvar)
  | none =>
    let isNew := (lookup s.dimSizes bdim).isNone
    let r := netcdfName (boundsNewDim s bdim b.nv) (b.ncvar.getD (if isNew then parent ++ "_bounds" else "bounds"))
    (emitVar r.1 { name := r.2, dims := dims, val := b.val }, r.2)

/-- `_write_bounds` (non-geometry).  Returns the bounds variable name. -/
def writeBounds (s : St) (parent : Name) (pdims : List Name) (b : Option BSpec) : St × Option Name :=
  match b with
  | none => (s, none)
  | some b =>
    let d := boundsDim s b
    let r := boundsVar d.1 parent (pdims ++ [d.2]) d.2 b
    ({ r.1 with boundsOf := setAssoc r.1.boundsOf parent r.2 }, some r.2)

/-- create a coordinate-like variable: name, bounds, the variable itself -/
def createCoord (s : St) (base : Name) (dims : List Name) (v : CVal) (c : Cons) (withBoundsAttr : Bool) : St × Name :=
  let r := netcdfName s base
  let b := writeBounds r.1 r.2 dims c.bounds
  (emitVar b.1 { name := r.2, dims := dims, val := v, bounds := if withBoundsAttr then b.2 else none,
                 stdname := c.dflt, str := c.str }, r.2)

/-- the reuse test of `_write_dimension_coordinate` -/
def dimCoordReuse (s : St) (c : Cons) : Option Entry :=
  match findSeen s.seen c.val none false with
  | some e =>
    match e.ncdims with
    | [] => some e          -- (a 0-d entry can never equal a 1-d coordinate; kept as coded)
    | d :: _ => if e.ncvar == d then some e else none
  | none => none

/-- the name of a new dimension coordinate variable (= of its dimension) -/
def dimCoordName (s : St) (ncdimPinned : Option Name) (c : Cons) : St × Name :=
  match c.ncvar, c.dflt with
  | none, none =>
    match ncdimPinned with
    | some d =>
      -- as coded the name is *not* passed through `_netcdf_name` (`ncvar = ncdim`): a variable or dimension of
      -- that name written for an earlier field makes netCDF refuse it; fixes/C09-dimension-coordinate-name-unique.patch
      if s.oldDimName then (s, d) else netcdfName s d
    | none => netcdfName s "coordinate"
  | p, d => createName s p d "coordinate"

def createDimCoord (s : St) (size : Nat) (ncdimPinned : Option Name) (c : Cons) : St × Name :=
  let r := dimCoordName s ncdimPinned c
  -- (a dimension of that name already in the dataset makes netCDF refuse the new one: only reachable with `oldDimName`)
  let s1 : St := { r.1 with dimSizes := r.1.dimSizes ++ [(r.2, size)], dup := r.1.dup || (lookup r.1.dimSizes r.2).isSome }
  let b := writeBounds s1 r.2 [r.2] c.bounds
  (emitVar b.1 { name := r.2, dims := [r.2], val := c.val, bounds := b.2, stdname := c.dflt, str := c.str }, r.2)

/-- `_write_dimension_coordinate` -/
def writeDimCoord (s : St) (fs : FSt) (axis : Nat) (size : Nat) (ncdimPinned : Option Name) (key : Nat) (c : Cons) :
    St × FSt :=
  match dimCoordReuse s c with
  | some e =>
    (link s key c.val e.ncvar,
     { fs with keyVar := fs.keyVar ++ [(key, e.ncvar)], axisDim := fs.axisDim ++ [(axis, e.ncdims.headD "?")] })
  | none =>
    let r := createDimCoord s size ncdimPinned c
    (link r.1 key c.val r.2,
     { fs with keyVar := fs.keyVar ++ [(key, r.2)], axisDim := fs.axisDim ++ [(axis, r.2)] })

/-- share an equal variable on the same dimensions, or create one -/
def shareOrCreate (s : St) (key : Nat) (v : CVal) (dims : List Name) (ignoreType : Bool) (base : Name) (c : Cons)
    (withBoundsAttr : Bool) : St × Name :=
  match findSeen s.seen v (some dims) ignoreType with
  | some e => (link s key v e.ncvar, e.ncvar)
  | none =>
    let r := createCoord s base dims v c withBoundsAttr
    (link r.1 key v r.2, r.2)

def scalarKind (c : Cons) : Kind := if c.kind == .dim then Kind.scalarDim else Kind.scalarAux

/-- `_write_scalar_coordinate` -/
def writeScalar (s : St) (fs : FSt) (axis : Nat) (key : Nat) (c : Cons) : St × FSt :=
  let r := shareOrCreate s key (c.valAs (scalarKind c)) [] false (c.ncvar.getD (c.dflt.getD "scalar")) c true
  (r.1, { fs with axisScalar := fs.axisScalar ++ [(axis, r.2)], keyVar := fs.keyVar ++ [(key, r.2)],
                  coords := fs.coords ++ [r.2] })

/-- `_write_auxiliary_coordinate` (a coordinate with data) -/
def writeAux (s : St) (fs : FSt) (key : Nat) (c : Cons) : St × FSt :=
  let r := shareOrCreate s key c.val (fs.dimsOf c.axes) false (c.ncvar.getD (c.dflt.getD "auxiliary")) c true
  (r.1, { fs with keyVar := fs.keyVar ++ [(key, r.2)], coords := fs.coords ++ [r.2] })

/-- `_write_domain_ancillary` (`ignore_type=True`); `term` = the formula term naming it.  The bounds
variable is written but the domain ancillary variable gets no `bounds` attribute. -/
def writeDan (s : St) (fs : FSt) (key : Nat) (c : Cons) (term : Option Name) : St × FSt :=
  let r := shareOrCreate s key c.val (fs.dimsOf c.axes) true (c.ncvar.getD (c.dflt.getD (term.getD "domain_ancillary"))) c false
  (r.1, { fs with keyVar := fs.keyVar ++ [(key, r.2)] })

/-- `_write_cell_measure` / `_write_field_ancillary` (constructs without bounds) -/
def writePlain (s : St) (fs : FSt) (key : Nat) (c : Cons) (fallback : Name) : St × FSt × Name :=
  let r := shareOrCreate s key c.val (fs.dimsOf c.axes) false (c.ncvar.getD (c.dflt.getD fallback)) { c with bounds := none } false
  (r.1, { fs with keyVar := fs.keyVar ++ [(key, r.2)] }, r.2)

/-! ### the axis loop -/

def enum {α} (l : List α) : List (Nat × α) := (List.range l.length).zip l

/-- constructs (with their index) that span `axis` -/
def spanning (f : AField) (axis : Nat) : List (Nat × Cons) := (enum f.cons).filter (fun p => p.2.axes.contains axis)

/-- position-tagged spanning constructs, as stored in `ncdim_size_to_spanning_constructs` -/
def spanVals (f : AField) (axis : Nat) : List (CVal × Nat) :=
  (spanning f axis).map (fun p => (p.2.val, p.2.axes.idxOf axis))

/-- the reuse test of the no-dimension-coordinate branch: first stored dimension of the
same size (patched: not already used by this field) with a construct equal to one of
ours at the same position -/
def findSpanDim (patched : Bool) (spans : List (Name × Nat × List (CVal × Nat))) (used : List Name) (size : Nat)
    (mine : List (CVal × Nat)) : Option Name :=
  (spans.find? (fun e =>
      decide (e.2.1 = size) && !(patched && used.contains e.1) &&
      mine.any (fun m => e.2.2.any (fun o => decide (m.2 = o.2) && eqComp false m.1 o.1)))).map (·.1)

/-- the by-name reuse of a dimension for an axis that pins a netCDF dimension name (the further condition of /repo
8953e79, "not the sample dimension of a DSG ragged array", is vacuous here: compression variables are outside the model) -/
def pinnedDimReusable (s : St) (fs : FSt) (ax : AAxis) : Bool :=
  match ax.ncdim with
  | none => false
  | some d =>
    decide (ax.unlimited = s.unlimDims.contains d) && (lookup s.dimSizes d == some ax.size) &&
    !(fs.axisDim.map (·.2)).contains d && !s.seen.any (·.ncvar == d) && !s.boundsDims.contains d

/-- an axis without dimension coordinate that is (now) spanned by the data: reuse a dimension or make one -/
def writeNoCoordAxis (patched : Bool) (f : AField) (s : St) (fs : FSt) (axis : Nat) (ax : AAxis) : St × FSt :=
  let mine := spanVals f axis
  match (if mine.isEmpty then none else findSpanDim patched s.spans (fs.axisDim.map (·.2)) ax.size mine) with
  | some d => (s, { fs with axisDim := fs.axisDim ++ [(axis, d)] })
  | none =>
    if pinnedDimReusable s fs ax then
      -- the axis asks by name for a dimension of its size that is already in the dataset, has no variable of
      -- that name, is no bounds dimension, is unlimited or not like the axis and is not used by another axis
      -- of this construct: that dimension is used rather than a renamed copy of it
      (s, { fs with axisDim := fs.axisDim ++ [(axis, ax.ncdim.getD "dim")] })
    else
      let r := netcdfName s (ax.ncdim.getD "dim")
      ({ r.1 with dimSizes := r.1.dimSizes ++ [(r.2, ax.size)],
                  unlimDims := if ax.unlimited then r.1.unlimDims ++ [r.2] else r.1.unlimDims },
       { fs with axisDim := fs.axisDim ++ [(axis, r.2)], newSpans := fs.newSpans ++ [(r.2, ax.size, mine)] })

/-- `field_insert_dimension` for an axis spanned by something other than exactly-that-axis auxiliary coordinates -/
def insertAxis (f : AField) (fs : FSt) (axis : Nat) : FSt :=
  let sp := spanning f axis
  let exactAux := sp.filter (fun p => p.2.kind == .aux && p.2.axes == [axis])
  if !fs.localAxes.contains axis && !sp.isEmpty && sp.length != exactAux.length && !f.isDomain then
    { fs with dataAxes := axis :: fs.dataAxes, localAxes := fs.localAxes ++ [axis] }
  else fs

def writeAxis (patched : Bool) (f : AField) (s : St) (fs : FSt) (axis : Nat) (ax : AAxis) : St × FSt :=
  match (enum f.cons).find? (fun p => p.2.kind == .dim && p.2.axes == [axis]) with
  | some (key, c) =>
    if fs.localAxes.contains axis then
      writeDimCoord s fs axis ax.size ax.ncdim key c
    else if (spanning f axis).length ≥ 2 then
      let r := writeDimCoord s fs axis ax.size ax.ncdim key c
      -- (the local list of data axes is updated too, so that auxiliary coordinates on the axis are not
      -- written as scalar coordinate variables)
      (r.1, if f.isDomain then r.2 else { r.2 with dataAxes := axis :: r.2.dataAxes, localAxes := r.2.localAxes ++ [axis] })
    else
      writeScalar s fs axis key c
  | none =>
    let fs := insertAxis f fs axis
    if fs.localAxes.contains axis then writeNoCoordAxis patched f s fs axis ax else (s, fs)

def writeAxes (patched : Bool) (f : AField) : St → FSt → List (Nat × AAxis) → St × FSt
  | s, fs, [] => (s, fs)
  | s, fs, (i, a) :: rest => writeAxes patched f (writeAxis patched f s fs i a).1 (writeAxis patched f s fs i a).2 rest

/-! ### the other constructs -/

def auxIsNd (fs : FSt) (c : Cons) : Bool :=
  c.axes.length > 1 || (match c.axes with | [a] => fs.localAxes.contains a | _ => false)

def writeAuxStep (s : St) (fs : FSt) (k : Nat) (c : Cons) : St × FSt :=
  if c.kind == .aux then
    if auxIsNd fs c then writeAux s fs k c else writeScalar s fs (c.axes.headD 0) k c
  else (s, fs)

def writeAuxs : St → FSt → List (Nat × Cons) → St × FSt
  | s, fs, [] => (s, fs)
  | s, fs, (k, c) :: rest => writeAuxs (writeAuxStep s fs k c).1 (writeAuxStep s fs k c).2 rest

def termOf (f : AField) (key : Nat) : Option Name :=
  (f.vrefs.flatMap (·.terms)).find? (·.2 == key) |>.map (·.1)

def writeDanStep (f : AField) (s : St) (fs : FSt) (k : Nat) (c : Cons) : St × FSt :=
  if c.kind == .dan then writeDan s fs k c (termOf f k) else (s, fs)

def writeDans (f : AField) : St → FSt → List (Nat × Cons) → St × FSt
  | s, fs, [] => (s, fs)
  | s, fs, (k, c) :: rest => writeDans f (writeDanStep f s fs k c).1 (writeDanStep f s fs k c).2 rest

def writePlains (kind : Kind) (fallback : Name) : St → FSt → List (Nat × Cons) → List Name → St × FSt × List Name
  | s, fs, [], acc => (s, fs, acc)
  | s, fs, (k, c) :: rest, acc =>
    if c.kind == kind then
      writePlains kind fallback (writePlain s fs k c fallback).1 (writePlain s fs k c fallback).2.1 rest
        (acc ++ [(writePlain s fs k c fallback).2.2])
    else writePlains kind fallback s fs rest acc

/-! ### formula terms, vertical datum, grid mappings -/

def setVar (s : St) (n : Name) (g : Var → Var) : St :=
  { s with vars := s.vars.map (fun v => if v.name == n then g v else v) }

/-- the attribute values of the formula-terms block for one reference -/
def formulaTermsOf (f : AField) (s : St) (fs : FSt) (r : VRef) (o : Nat) : List (String × Name) × List (String × Name) :=
  let zaxis := ((f.cons[o]?).map (·.axes.headD 0)).getD 0
  let tv := r.terms.filterMap (fun t => (lookupN fs.keyVar t.2).map (fun n => (t.1, t.2, n)))
  -- the bounds variable is named only when the domain ancillary spans the vertical axis
  (tv.map (fun t => (t.1, t.2.2)),
   tv.map (fun t =>
      let spansZ := ((f.cons[t.2.1]?).map (·.axes.contains zaxis)).getD false
      (t.1, if spansZ then (lookup s.boundsOf t.2.2).getD t.2.2 else t.2.2)))

/-- the formula-terms block for one reference: the attribute is (re)set on the owning
coordinate variable and on its bounds variable, whatever an earlier field wrote there. -/
def writeFormulaTerms (f : AField) (s : St) (fs : FSt) (r : VRef) : St :=
  match r.owner with
  | none => s
  | some o =>
    match lookupN fs.keyVar o with
    | none => s
    | some ncvar =>
      let ft := formulaTermsOf f s fs r o
      if ft.1.isEmpty then s else
      let conflict := match s.var? ncvar with
        | some v => !v.ft.isEmpty && v.ft != ft.1
        | none => false
      { setVar s ncvar (fun v => { v with ft := ft.1, bft := ft.2 }) with ftConflict := s.ftConflict || conflict }

/-- `_create_vertical_datum`: edits the per-field list of grid-mapping references. -/
def createVerticalDatum (gms : List GM) (r : VRef) : List GM :=
  match r.owner, r.datum with
  | some o, some d =>
    let eq := (enum gms).filter (fun p => p.2.datum == some d)
    match eq with
    | [(i, _)] => (enum gms).map (fun p => if p.1 == i then { p.2 with coords := if p.2.coords.contains o then p.2.coords else p.2.coords ++ [o] } else p.2)
    | _ => gms ++ [{ params := 0, datum := some d, coords := [o], ncvar := none, name := "latitude_longitude" }]
  | _, _ => gms

/-- `CoordinateReference.equals`: number of coordinates, conversion, datum -/
def GM.val (g : GM) : CVal := ⟨.gm, [g.params, g.coords.length] ++ (match g.datum with | none => [0] | some d => [1, d])⟩

def sortNames (l : List Name) : List Name := l.mergeSort (fun a b => a ≤ b)

/-- `_write_grid_mapping`: the variable -/
def writeGMVar (s : St) (g : GM) : St × Name :=
  match findSeen s.seen g.val none false with
  | some e => (link s 1000 g.val e.ncvar, e.ncvar)
  | none =>
    let r := createName s g.ncvar none g.name
    (link (emitVar r.1 { name := r.2, dims := [], val := g.val }) 1000 g.val r.2, r.2)

def writeGMs (fs : FSt) (multi : Bool) : St → List GM → List (Name × List Name) → St × List (Name × List Name)
  | s, [], acc => (s, acc)
  | s, g :: rest, acc =>
    writeGMs fs multi (writeGMVar s g).1 rest
      (acc ++ [((writeGMVar s g).2, if multi then sortNames (g.coords.filterMap (lookupN fs.keyVar)) else [])])

/-! ### one field -/

def cmAxisName (fs : FSt) : Nat ⊕ Name → Name
  | .inl a => (lookupN fs.axisScalar.reverse a).getD ((lookupN fs.axisDim a).getD ("axis" ++ toString a))  -- (a dict: the last scalar coordinate written for the axis wins)
  | .inr n => n

def writeFTs (f : AField) (fs : FSt) : St → List VRef → St
  | s, [] => s
  | s, r :: rest => writeFTs f fs (writeFormulaTerms f s fs r) rest

/-- the data (or domain) variable -/
def dataVar (f : AField) (fs : FSt) (ncvar : Name) (msrs fans : List Name) (gmAttr : List (Name × List Name)) (multi : Bool) : Var :=
  let ddims := fs.dimsOf fs.dataAxes
  { name := ncvar, dims := if f.isDomain then [] else ddims, val := ⟨.data, [f.sig, 0]⟩, isData := true, isDomain := f.isDomain,
    coords := fs.coords, measures := msrs, ancils := fans, gms := gmAttr, gmMulti := multi,
    cms := if f.isDomain then [] else f.cms.map (fun c => (c.1.map (cmAxisName fs), c.2)),
    domDims := if f.isDomain then sortNames ddims else [] }

/-- `_write_field_or_domain` -/
def writeField (patched : Bool) (s : St) (f : AField) : St :=
  let data0 := if f.isDomain then List.range f.axes.length else f.dataAxes
  let a := writeAxes patched f s { dataAxes := data0, localAxes := data0 } (enum f.axes)
  let b := writeAuxs a.1 a.2 (enum f.cons)
  let c := writeDans f b.1 b.2 (enum f.cons)
  let m := writePlains .msr "cell_measure" c.1 c.2 (enum f.cons) []
  let s4 := writeFTs f m.2.1 m.1 f.vrefs
  let gms := f.vrefs.foldl createVerticalDatum f.gms
  let g := writeGMs m.2.1 (gms.length > 1) s4 gms []
  let fa := if f.isDomain then (g.1, m.2.1, []) else writePlains .fan "ancillary_data" g.1 m.2.1 (enum f.cons) []
  let n := createName fa.1 f.ncvar f.dflt (if f.isDomain then "domain" else "data")
  let s6 := emitData n.1 (dataVar f fa.2.1 n.2 m.2.2 fa.2.2 g.2 (gms.length > 1))
  { s6 with spans := s6.spans ++ fa.2.1.newSpans, nf := s6.nf + 1 }

def writeAllFrom (patched : Bool) : St → List AField → St
  | s, [] => s
  | s, f :: fs => writeAllFrom patched (writeField patched s f) fs

/-- `cfdm.write(fields, file)` as far as the cross-field state goes -/
def writeAll (fs : List AField) : St := writeAllFrom true {} fs
/-- the same with the dimension-reuse rule as the code has it -/
def writeAllOldDims (fs : List AField) : St := writeAllFrom false {} fs
/-- the same with `_netcdf_name` as the code has it -/
def writeAllOldNames (fs : List AField) : St := writeAllFrom true { oldNames := true } fs
/-- the same with data variables registered in `seen` as the code has it -/
def writeAllOldData (fs : List AField) : St := writeAllFrom true { oldData := true } fs
/-- the same with the name of an unnamed dimension coordinate as the code has it -/
def writeAllOldDimName (fs : List AField) : St := writeAllFrom true { oldDimName := true } fs

/-! ### reader -/

/-- a metadata construct as read back: kind, signature, the axes it spans as positions
in the field's axis list, the variable it came from, and the construct key
(`2·i` = `dimensioncoordinate<i>`, `2·j+1` = `auxiliarycoordinate<j>`; other types 0) -/
structure RCons where
  kind : Kind
  sig : List Nat
  axes : List Nat
  ncvar : Name
  key : Nat := 0
  deriving DecidableEq, Repr, Inhabited

structure RRef where
  vertical : Bool
  params : List Nat                      -- gm: identity of the conversion parameters; vertical: []
  datum : Option (List Nat)              -- the datum (none = empty)
  coords : List Nat                      -- keys of coordinates
  terms : List (String × Name) := []     -- term ↦ variable of the domain ancillary
  ncvar : Option Name := none
  deriving DecidableEq, Repr, Inhabited

structure RField where
  ncvar : Name
  isDomain : Bool
  sig : List Nat
  axes : List (Nat × Option Name)        -- size, dimension name
  cons : List RCons
  refs : List RRef
  cms : List (List (Nat ⊕ Name) × Nat)
  deriving DecidableEq, Repr, Inhabited

/-- the dataset as the reader sees it -/
structure File where
  dims : List (Name × Nat)
  vars : List Var
  deriving Repr, Inhabited

def St.file (s : St) : File := ⟨s.dimSizes, s.vars⟩
def File.var? (F : File) (n : Name) : Option Var := F.vars.find? (·.name == n)

/-- the datum carried by a grid-mapping variable (`[params, ncoords, 0]` or `[…, 1, d]`) -/
def gmDatum (sig : List Nat) : Option (List Nat) :=
  match sig with
  | [_, _, 1, d] => some [d]
  | _ => none

/-- reader's cross-field state -/
structure RSt where
  dimCache : List Name := []             -- g['dimension_coordinate'] (keys)
  auxCache : List (Name × Bool) := []    -- g['auxiliary_coordinate']: name ↦ "holds a copy that already has its size-1 dimension"
  vcrs : List (Nat × Nat × Nat) := []    -- g['vertical_crs']: construct key ↦ (field number, ref index)
  deriving Repr, Inhabited

/-- standard names of the coordinates a grid mapping applies to when the attribute lists none
(`cf_coordinate_reference_coordinates`) — supplied with the case: params identity ↦ names -/
abbrev GMTable := List (Nat × List Name)

def idxLast (l : List Name) (n : Name) : Option Nat :=
  ((enum l).filter (fun p => p.2 == n)).getLast?.map (·.1)

structure ROut where
  fields : List RField := []
  rst : RSt := {}
  err : Bool := false                    -- a construct could not be inserted (`ValueError`)
  deriving Repr, Inhabited

def setDatumIn (refs : List RRef) (ri : Nat) (d : Option (List Nat)) : List RRef :=
  (enum refs).map (fun q => if q.1 == ri then { q.2 with datum := d } else q.2)

def setDatumOf (fields : List RField) (fi ri : Nat) (d : Option (List Nat)) : List RField :=
  (enum fields).map (fun p => if p.1 == fi then { p.2 with refs := setDatumIn p.2.refs ri d } else p.2)

/-- a vertical reference known to the reader: construct key ↦ (owner: `none` = the field being
created, `some j` = the j-th field created earlier; index of the reference in that field) -/
abbrev VEntry := Nat × Option Nat × Nat

/-- push a datum into vertical references (this field's `refs`, or earlier fields) -/
def pushDatum (d : Option (List Nat)) : List VEntry → List RRef → List RField → List RRef × List RField
  | [], refs, earlier => (refs, earlier)
  | e :: rest, refs, earlier =>
    match e.2.1 with
    | none => pushDatum d rest (setDatumIn refs e.2.2 d) earlier
    | some j => pushDatum d rest refs (setDatumOf earlier j e.2.2 d)

/-- dimensions → axes and dimension coordinates -/
def readDims (F : File) (ddims : List Name) : List (Nat × Option Name) × List RCons :=
  (enum ddims).foldl (fun (acc : List (Nat × Option Name) × List RCons) p =>
      let size := (lookup F.dims p.2).getD 0
      let cons := match F.var? p.2 with
        | some v => if v.dims == [p.2] then
            acc.2 ++ [(⟨.dim, v.val.sig, [p.1], v.name, 2 * (acc.2.filter (·.kind == .dim)).length⟩ : RCons)]
          else acc.2
        | none => acc.2
      (acc.1 ++ [(size, some p.2)], cons)) ([], [])

structure CoordAcc where
  axes : List (Nat × Option Name)
  cons : List RCons
  ac : List (Name × Bool)
  scal : List (Name × Nat)
  err : Bool

/-- the `coordinates` attribute: auxiliary and scalar coordinates -/
def readCoords (patched : Bool) (F : File) (ddims : List Name) (names : List Name) (a0 : CoordAcc) : CoordAcc :=
  names.foldl (fun a n =>
    if ddims.contains n then a else
    match F.var? n with
    | none => a
    | some v =>
      if !(v.dims.all ddims.contains) then a else
      let ndim := (a.cons.filter (·.kind == .dim)).length
      let naux := (a.cons.filter (·.kind == .aux)).length
      if v.dims.isEmpty then
        if v.str then
          -- string-valued scalar: auxiliary coordinate on a new size-1 axis; old code: a cached
          -- construct has already been given the dimension and is given it again
          let twice := (lookup a.ac n == some true) && !patched
          { a with axes := a.axes ++ [(1, none)], cons := a.cons ++ [⟨.aux, v.val.sig, [a.axes.length], v.name, 2 * naux + 1⟩],
                   ac := setAssoc a.ac n true, scal := a.scal ++ [(n, a.axes.length)], err := a.err || twice }
        else
          { a with axes := a.axes ++ [(1, none)], cons := a.cons ++ [⟨.dim, v.val.sig, [a.axes.length], v.name, 2 * ndim⟩],
                   ac := a.ac.filter (·.1 != n), scal := a.scal ++ [(n, a.axes.length)] }
      else
        { a with cons := a.cons ++ [⟨.aux, v.val.sig, v.dims.filterMap (idxLast ddims), v.name, 2 * naux + 1⟩],
                 ac := if (lookup a.ac n).isSome then a.ac else a.ac ++ [(n, false)] }) a0

/-- formula terms: every coordinate whose variable carries the attribute gives domain ancillaries and a
vertical coordinate reference, remembered in `vertical_crs` under the coordinate's construct key -/
def readFTStep (F : File) (ddims : List Name) (acc : List RCons × List RRef × List VEntry) (c : RCons) :
    List RCons × List RRef × List VEntry :=
  match F.var? c.ncvar with
  | none => acc
  | some v =>
    if v.ft.isEmpty then acc else
    let tv := v.ft.filterMap (fun t => (F.var? t.2).map (fun dv => (t.1, dv)))
    if !(tv.all (fun t => t.2.dims.all ddims.contains)) then acc else
    -- a domain ancillary's bounds are found through the formula_terms of the coordinate's *bounds* variable only
    let hasBounds (term : String) (n : Name) : Bool := v.bounds.isSome && (match lookup v.bft term with | some b => b != n | none => false)
    let newCons := tv.map (fun t => (⟨.dan, if hasBounds t.1 t.2.name then t.2.val.sig else t.2.val.sig.take 1 ++ [0],
                                      t.2.dims.filterMap (idxLast ddims), t.2.name, 0⟩ : RCons))
    let r : RRef := { vertical := true, params := [], datum := none, coords := [c.key], terms := tv.map (fun t => (t.1, t.2.name)) }
    (acc.1 ++ newCons, acc.2.1 ++ [r], acc.2.2.filter (·.1 != c.key) ++ [(c.key, none, acc.2.1.length)])

def readFTs (F : File) (ddims : List Name) (coords : List RCons) (vcrs0 : List VEntry) :
    List RCons × List RRef × List VEntry :=
  coords.foldl (readFTStep F ddims) ([], [], vcrs0)

/-- one grid mapping of the `grid_mapping` attribute -/
def readGMStep (tab : GMTable) (F : File) (coords : List RCons) (vcrs : List VEntry)
    (acc : List RRef × List RField) (g : Name × List Name) : List RRef × List RField :=
  match F.var? g.1 with
  | none => acc
  | some gv =>
    let datum := gmDatum gv.val.sig
    let listed := g.2.filterMap (fun n => (coords.find? (·.ncvar == n)).map (·.key))
    if listed.isEmpty then
      let names := (lookupN tab (gv.val.sig.headD 0)).getD []
      let byName := names.flatMap (fun sn =>
        (coords.filter (fun c => ((F.var? c.ncvar).bind (·.stdname)) == some sn)).map (·.key))
      -- the datum goes to *every* vertical reference the reader knows of
      let p := pushDatum datum vcrs acc.1 acc.2
      (p.1 ++ [{ vertical := false, params := gv.val.sig.take 1, datum := datum, coords := byName, ncvar := some g.1 }], p.2)
    else
      let hit := vcrs.filter (fun e => listed.contains e.1)
      let p := pushDatum datum hit acc.1 acc.2
      let rest := listed.filter (fun k => !(hit.any (·.1 == k)))
      if hit.isEmpty || !rest.isEmpty then
        (p.1 ++ [{ vertical := false, params := gv.val.sig.take 1, datum := datum, coords := rest, ncvar := some g.1 }], p.2)
      else p

def readGMs (tab : GMTable) (F : File) (coords : List RCons) (vcrs : List VEntry) (gms : List (Name × List Name))
    (refs : List RRef) (earlier : List RField) : List RRef × List RField :=
  gms.foldl (readGMStep tab F coords vcrs) (refs, earlier)

def readPlain (F : File) (ddims : List Name) (k : Kind) (names : List Name) : List RCons :=
  names.filterMap (fun n => (F.var? n).map (fun v => (⟨k, v.val.sig, v.dims.filterMap (idxLast ddims), v.name, 0⟩ : RCons)))

def readCMs (ddims : List Name) (scal : List (Name × Nat)) (cms : List (List Name × Nat)) : List (List (Nat ⊕ Name) × Nat) :=
  cms.map (fun c => (c.1.map (fun n =>
      match lookup scal.reverse n with  -- (ncscalar_to_axis is a dict: the last occurrence wins)
      | some i => Sum.inl i
      | none => match idxLast ddims n with
        | some i => Sum.inl i
        | none => Sum.inr n), c.2))

def Var.ddims (x : Var) : List Name := if x.isDomain then x.domDims else x.dims

/-- the coordinates of data variable `x` (dimension, auxiliary and scalar) -/
def readCoordsOf (patched : Bool) (F : File) (x : Var) (ac : List (Name × Bool)) (err : Bool) : CoordAcc :=
  readCoords patched F x.ddims x.coords ⟨(readDims F x.ddims).1, (readDims F x.ddims).2, ac, [], err⟩

/-- the field built for data variable `x`, given its coordinates, the references found and the cell methods -/
def mkRField (F : File) (x : Var) (ca : CoordAcc) (dans : List RCons) (refs : List RRef) : RField :=
  { ncvar := x.name, isDomain := x.isDomain, sig := x.val.sig, axes := ca.axes,
    cons := ca.cons ++ dans ++ readPlain F x.ddims .msr x.measures ++ readPlain F x.ddims .fan x.ancils,
    refs := refs, cms := readCMs x.ddims ca.scal x.cms }

/-- `_create_field_or_domain` for data variable `x`.  `o.fields` = the constructs created so far
(in the old code earlier fields' vertical references are edited through the shared `vertical_crs`). -/
def readOne (patched : Bool) (tab : GMTable) (F : File) (o : ROut) (x : Var) : ROut :=
  let fi := o.fields.length
  let vcrs0 : List VEntry := if patched then [] else o.rst.vcrs.map (fun e => (e.1, some e.2.1, e.2.2))
  let ca := readCoordsOf patched F x o.rst.auxCache o.err
  let ft := readFTs F x.ddims ca.cons vcrs0
  let gm := readGMs tab F ca.cons ft.2.2 x.gms ft.2.1 o.fields
  let dimCache := x.ddims.foldl (fun dc d => if (ca.cons.any (·.ncvar == d)) && !dc.contains d then dc ++ [d] else dc) o.rst.dimCache
  { fields := gm.2 ++ [mkRField F x ca ft.1 gm.1],
    rst := { dimCache := dimCache, auxCache := ca.ac, vcrs := ft.2.2.map (fun e => (e.1, e.2.1.getD fi, e.2.2)) },
    err := ca.err }

/-- `cfdm.read(file)` (+ `domain=True`): one construct per data/domain variable, in file order -/
def readAllWith (patched : Bool) (tab : GMTable) (F : File) : ROut :=
  (F.vars.filter (·.isData)).foldl (readOne patched tab F) {}

def readAll (tab : GMTable) (F : File) : List RField := (readAllWith true tab F).fields

/-- the reader with no state carried from one data variable to the next -/
def readEach (tab : GMTable) (F : File) : List RField :=
  (F.vars.filter (·.isData)).flatMap (fun x => (readOne true tab F {} x).fields)

end Cfdm.Sharing
