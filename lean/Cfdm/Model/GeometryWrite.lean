import Cfdm.Model.Geometry
/-
C14 — several geometry fields written by ONE `cfdm.write` call.

Model of the sharing decisions of `NetCDFWrite` for geometry cells
(netcdfwrite.py), as the code performs them:

* `_already_in_file(variable, ncdims)`: the first variable written so far that
  spans exactly `ncdims` and is `equal_components` to the new one (`findVar`);
* `_write_field_or_domain`, axis without dimension coordinate: the cell axis
  re-uses (1) the dimension of the first earlier field of the same size that has
  an equal spanning construct, else (2) the dimension that carries the netCDF
  name the axis asks for if it has the axis' size, else (3) gets a new dimension
  (`cellDim`);
* `_netcdf_name(base, dimsize, role)`: a node / part dimension is the first
  dimension of that role and size (`roleDim`);
* `_write_auxiliary_coordinate`: a coordinate with representative values that is
  equal to one already written on the same cell dimension is re-used whole;
* `_write_node_coordinates`, `_write_node_count`, `_write_part_node_count`
  (with `write_vars['part_ncdim']`), `_write_interior_ring`;
* `_create_geometry_container` / `_write_geometry_container`: one node_count,
  part_node_count, interior_ring per container (else `ValueError`), containers
  with equal attributes are shared, `grid_mapping` only with a grid mapping.

`fixed = true` is the code after the proposed patch
fixes/C14-write-node-variable-reused-with-other-cells.patch: the count and ring
variables are found or written first and an equal node coordinate variable is
re-used only if its recorded encoding is the same; `fixed = false` is the code
as it stands: an equal node coordinate variable on the same geometry dimension
is re-used together with whatever node_count / part_node_count / interior_ring
the first field gave it.

Node values, count values and ring flags are explicit; properties are an
abstract label.  Core Lean only.
-/
namespace Cfdm.GeometryWrite
open Cfdm.Geometry

/-- One geometry coordinate of a field: `k` names the coordinate (x, y, z), the
cells hold the node values, `rep` the representative values if any, `props` is
the label of the properties of the node coordinates. -/
structure CoordIn where
  k : Nat
  cells : Cells Int
  ring : Option (List (List Int))
  rep : Option (List Int)
  props : Nat
deriving DecidableEq, Repr

/-- A geometry field: the netCDF dimension name its cell axis asks for, the
geometry type, its geometry coordinates in construct order, its grid mapping
(0 = none). -/
structure FieldIn where
  dim : Nat
  gtype : Nat
  coords : List CoordIn
  gm : Nat
deriving DecidableEq, Repr

/-- What `equal_components` compares. -/
inductive Content where
  | nodes (vals : List Int) (props : Nat)
  | count (vals : List Nat)
  | ring (flags : List Int)
  | coord (gtype : Nat) (c : CoordIn)
deriving DecidableEq, Repr

structure Var where
  content : Content
  dims : List Nat
deriving DecidableEq, Repr

inductive Role where
  | cell | node | part
deriving DecidableEq, Repr

structure Dim where
  role : Role
  size : Nat
  req : Nat
deriving DecidableEq, Repr

/-- `write_vars['geometry_encoding'][<node variable>]`. -/
structure Enc where
  geomDim : Nat
  nodeCount : Nat
  partNodeCount : Option Nat
  partDim : Option Nat
  ring : Option Nat
deriving DecidableEq, Repr

/-- The attributes of a geometry container variable (variables by identifier). -/
structure Container where
  gtype : Nat
  nodes : List Nat
  coords : List Nat
  gm : Nat
  nodeCount : Nat
  partNodeCount : Option Nat
  ring : Option Nat
deriving DecidableEq, Repr

structure St where
  dims : List Dim
  /-- `write_vars['seen']` in insertion order; a variable's identifier is its index. -/
  vars : List Var
  enc : List (Nat × Enc)
  /-- `ncdim_size_to_spanning_constructs` -/
  cellEntries : List (Nat × Nat × List (Nat × CoordIn))
  /-- `write_vars['bounds']`: coordinate variable ↦ node variable -/
  bounds : List (Nat × Nat)
  containers : List Container
deriving Repr

def St.empty : St := ⟨[], [], [], [], [], []⟩

/-- `_already_in_file(variable, ncdims)`. -/
def findVar (vars : List Var) (c : Content) (ds : List Nat) : Option Nat :=
  vars.findIdx? (fun v => v.dims == ds && v.content == c)

def addVar (st : St) (c : Content) (ds : List Nat) : St × Nat :=
  ({ st with vars := st.vars ++ [⟨c, ds⟩] }, st.vars.length)

/-- Re-use the equal variable on these dimensions or create it. -/
def findOrAdd (st : St) (c : Content) (ds : List Nat) : St × Nat :=
  match findVar st.vars c ds with
  | some v => (st, v)
  | none => addVar st c ds

/-- `_netcdf_name(base, dimsize=size, role=role)` + creation on first use. -/
def roleDim (st : St) (role : Role) (size : Nat) : St × Nat :=
  match st.dims.findIdx? (fun d => d.role == role && d.size == size) with
  | some i => (st, i)
  | none => ({ st with dims := st.dims ++ [⟨role, size, 0⟩] }, st.dims.length)

def lookup {β} (l : List (Nat × β)) (k : Nat) : Option β := (l.find? (·.1 == k)).map (·.2)

/-- The netCDF dimension of the cell axis of a field. -/
def cellDim (st : St) (f : FieldIn) (size : Nat) : St × Nat :=
  let own := f.coords.map (fun c => (f.gtype, c))
  match st.cellEntries.find? (fun e => e.2.1 == size && own.any (fun c => e.2.2.contains c)) with
  | some e => (st, e.1)
  | none =>
    match st.dims.findIdx? (fun d => d.role == Role.cell && d.req == f.dim) with
    | some i =>
      if (st.dims.getD i ⟨Role.cell, 0, 0⟩).size == size then (st, i)
      else
        ({ st with dims := st.dims ++ [⟨Role.cell, size, f.dim⟩],
                   cellEntries := st.cellEntries ++ [(st.dims.length, size, own)] }, st.dims.length)
    | none =>
      ({ st with dims := st.dims ++ [⟨Role.cell, size, f.dim⟩],
                 cellEntries := st.cellEntries ++ [(st.dims.length, size, own)] }, st.dims.length)

/-- `write_vars['part_ncdim']` if already set for this field, else the part
dimension of that size (`_netcdf_name(…, dimsize, role='part')`). -/
def partDimFor (st : St) (gpart : Option Nat) (n : Nat) : St × Nat :=
  match gpart with
  | some pd => (st, pd)
  | none => roleDim st Role.part n

/-- `_write_node_count`, `_write_part_node_count`, `_write_interior_ring` for one
coordinate.  `gpart` is `write_vars['part_ncdim']` (reset for every field). -/
def writeCounts (st : St) (cd : Nat) (gpart : Option Nat) (c : CoordIn) : St × Option Nat × Enc :=
  let r1 := findOrAdd st (Content.count (nodeCount c.cells)) [cd]
  if maxLen c.cells == 1 && c.ring.isNone then
    (r1.1, gpart, ⟨cd, r1.2, none, none, none⟩)
  else
    let r2 := partDimFor r1.1 gpart (partNodeCount c.cells).length
    let r3 := findOrAdd r2.1 (Content.count (partNodeCount c.cells)) [r2.2]
    match c.ring with
    | none => (r3.1, some r2.2, ⟨cd, r1.2, some r3.2, some r2.2, none⟩)
    | some rs =>
      let r4 := findOrAdd r3.1 (Content.ring rs.flatten) [r2.2]
      (r4.1, some r2.2, ⟨cd, r1.2, some r3.2, some r2.2, some r4.2⟩)

/-- A new node coordinate variable with its encoding. -/
def newNodes (st : St) (content : Content) (nd : Nat) (e : Enc) : St × Nat :=
  ({ (addVar st content [nd]).1 with enc := st.enc ++ [(st.vars.length, e)] }, st.vars.length)

/-- `_write_node_coordinates`: the node coordinate variable of one coordinate and
its encoding. -/
def writeNodes (fixed : Bool) (st : St) (cd : Nat) (gpart : Option Nat) (c : CoordIn) :
    St × Option Nat × Nat :=
  let content := Content.nodes (nodesOf c.cells) c.props
  let r0 := roleDim st Role.node (nodesOf c.cells).length
  if fixed then
    let r1 := writeCounts r0.1 cd gpart c
    match findVar r1.1.vars content [r0.2] with
    | some nv =>
      if lookup r1.1.enc nv == some r1.2.2 then (r1.1, r1.2.1, nv)
      else ((newNodes r1.1 content r0.2 r1.2.2).1, r1.2.1, (newNodes r1.1 content r0.2 r1.2.2).2)
    | none => ((newNodes r1.1 content r0.2 r1.2.2).1, r1.2.1, (newNodes r1.1 content r0.2 r1.2.2).2)
  else
    let fresh :=
      let a := addVar r0.1 content [r0.2]
      let r1 := writeCounts a.1 cd gpart c
      (({ r1.1 with enc := r1.1.enc ++ [(a.2, r1.2.2)] } : St), r1.2.1, a.2)
    match findVar r0.1.vars content [r0.2] with
    | some nv => if (lookup r0.1.enc nv).map (·.geomDim) == some cd then (r0.1, gpart, nv) else fresh
    | none => fresh

/-- The coordinate variable and node variable of a coordinate with
representative values that is already in the file on these dimensions. -/
def wholeCoord (gtype : Nat) (st : St) (cd : Nat) (c : CoordIn) : Option (Nat × Nat) :=
  if c.rep.isSome then
    match findVar st.vars (Content.coord gtype c) [cd] with
    | some cv => (lookup st.bounds cv).map (fun nv => (nv, cv))
    | none => none
  else none

/-- `_write_auxiliary_coordinate` for a geometry coordinate: (node variable,
coordinate variable if the coordinate has representative values). -/
def writeCoord (fixed : Bool) (gtype : Nat) (st : St) (cd : Nat) (gpart : Option Nat) (c : CoordIn) :
    St × Option Nat × Nat × Option Nat :=
  match wholeCoord gtype st cd c with
  | some (nv, cv) => (st, gpart, nv, some cv)
  | none =>
    let r := writeNodes fixed st cd gpart c
    if c.rep.isSome then
      let a := addVar r.1 (Content.coord gtype c) [cd]
      ({ a.1 with bounds := r.1.bounds ++ [(a.2, r.2.2)] }, r.2.1, r.2.2, some a.2)
    else (r.1, r.2.1, r.2.2, none)

def writeCoords (fixed : Bool) (gtype : Nat) (cd : Nat) :
    St → Option Nat → List CoordIn → St × List (Nat × Nat × Option Nat)
  | st, _, [] => (st, [])
  | st, gpart, c :: cs =>
    let r := writeCoord fixed gtype st cd gpart c
    let rest := writeCoords fixed gtype cd r.1 r.2.1 cs
    (rest.1, (c.k, r.2.2.1, r.2.2.2) :: rest.2)

def dedup {β} [BEq β] : List β → List β
  | [] => []
  | x :: xs => x :: (dedup xs).filter (· != x)

def insertNat (x : Nat) : List Nat → List Nat
  | [] => [x]
  | y :: ys => if x ≤ y then x :: y :: ys else y :: insertNat x ys

/-- The variables named by an attribute, as a set (the attribute is the sorted list of names). -/
def asSet (l : List Nat) : List Nat := (dedup l).foldr insertNat []

/-- What the writer reports for one field. -/
structure FieldOut where
  cell : Nat
  per : List (Nat × Nat × Option Nat)
  container : Container
  gc : Nat
deriving Repr

/-- `_create_geometry_container`: the attributes of the container of a field;
`none` = `ValueError` (several node_count / part_node_count / interior_ring
variables in one container). -/
def containerOf (st : St) (f : FieldIn) (per : List (Nat × Nat × Option Nat)) : Option Container :=
  let encs := per.filterMap (fun p => lookup st.enc p.2.1)
  let pncs := dedup (encs.filterMap (·.partNodeCount))
  let rings := dedup (encs.filterMap (·.ring))
  match dedup (encs.map (·.nodeCount)) with
  | [nc] =>
    if pncs.length > 1 || rings.length > 1 then none else
    some ⟨f.gtype, asSet (per.map (·.2.1)), asSet (per.filterMap (·.2.2)), f.gm, nc, pncs.head?, rings.head?⟩
  | _ => none

/-- `_write_geometry_container`: a container with equal attributes is shared. -/
def addContainer (st : St) (cont : Container) : St × Nat :=
  match st.containers.findIdx? (· == cont) with
  | some gi => (st, gi)
  | none => ({ st with containers := st.containers ++ [cont] }, st.containers.length)

def cellsSize (f : FieldIn) : Nat := (f.coords.head?.map (fun c => c.cells.length)).getD 0

/-- One field of the write. -/
def writeField (fixed : Bool) (st : St) (f : FieldIn) : Option (St × FieldOut) :=
  let r0 := cellDim st f (cellsSize f)
  let r1 := writeCoords fixed f.gtype r0.2 r0.1 none f.coords
  match containerOf r1.1 f r1.2 with
  | none => none
  | some cont =>
    let r2 := addContainer r1.1 cont
    some (r2.1, ⟨r0.2, r1.2, cont, r2.2⟩)

/-- The whole `cfdm.write(fields, …)`. -/
def writeAll (fixed : Bool) : St → List FieldIn → Option (St × List FieldOut)
  | st, [] => some (st, [])
  | st, f :: fs =>
    match writeField fixed st f with
    | none => none
    | some (st, o) =>
      match writeAll fixed st fs with
      | none => none
      | some (st, os) => some (st, o :: os)

/-! ## CF 7.5's decoder applied to what was written -/

def varNodes (st : St) (v : Nat) : Option (List Int) :=
  match st.vars[v]? with
  | some ⟨Content.nodes vals _, _⟩ => some vals
  | _ => none

def varCounts (st : St) (v : Nat) : Option (List Nat) :=
  match st.vars[v]? with
  | some ⟨Content.count l, _⟩ => some l
  | _ => none

def varFlags (st : St) (v : Nat) : Option (List Int) :=
  match st.vars[v]? with
  | some ⟨Content.ring l, _⟩ => some l
  | _ => none

/-- The count vectors a CF decoder works with for a container: `node_count`, and
`part_node_count` (one part per cell if the container names none). -/
def containerCounts (st : St) (cont : Container) : Option (List Nat × List Nat) :=
  match varCounts st cont.nodeCount with
  | none => none
  | some nc =>
    match cont.partNodeCount with
    | none => some (nc, nc)
    | some pv => (varCounts st pv).map (fun pnc => (nc, pnc))

/-- The cells CF's decoder recovers from the node coordinate variable `nv` of a container. -/
def decodeWritten (st : St) (cont : Container) (nv : Nat) : Option (Cells Int) :=
  match varNodes st nv, containerCounts st cont with
  | some nodes, some (nc, pnc) => some (specDecode nc pnc nodes)
  | _, _ => none

/-- The interior-ring flags by cell that CF's decoder recovers (`some none`: the
container names no interior_ring variable). -/
def decodeWrittenRing (st : St) (cont : Container) : Option (Option (List (List Int))) :=
  match cont.ring with
  | none => some none
  | some rv =>
    match varFlags st rv, containerCounts st cont with
    | some flags, some (nc, pnc) => some (some (specRing nc pnc flags))
    | _, _ => none

end Cfdm.GeometryWrite
