/-
C08 — the abstract dataset and what "well formed" means at file level.

`File` is what an independent netCDF reader sees of a written dataset once the
reference attributes are tokenised: dimensions, variables with their dimensions,
and for every variable the list of references it makes (attribute kind, token).
A domain variable is presented with the dimensions named by its `dimensions` attribute.
String-valued variables stored as character arrays are presented without their
trailing string-length dimension.

`wfFile` is the executable statement of the structural part of the property:

* names are unique (dimensions among dimensions, variables among variables);
* every dimension of every variable exists;
* every token of every reference attribute resolves to an existing variable /
  dimension whose dimensions are compatible with the referrer:
  `coordinates`, `ancillary_variables`, `cell_measures` (unless external), the
  coordinates named in an extended `grid_mapping`: dimensions ⊆ the referrer's (to
  which compression adds the dimensions of chapters 8.2 / 9.3: instance dimensions,
  compressed dimensions);
  `bounds` / `climatology`: the referrer's dimensions followed by exactly one more;
  `grid_mapping`, `formula_terms`, `geometry`, `node_coordinates`, `node_count`,
  `part_node_count`, `interior_ring`, `nodes`, the `coordinates` of a geometry container:
  the variable exists;
  `cell_methods` axes: a dimension of the variable, a scalar coordinate variable it
  lists in `coordinates`, or `area`;
  `compress`, `sample_dimension`, `instance_dimension`: the dimension exists;
* `external_variables`: every token is absent from the file and is referred to by
  some `cell_measures`;
* no reference is listed twice by one variable (an axis may of course occur in several cell
  methods, a coordinate under several grid mappings), and every variable is needed:
  it is a data (or domain) variable, or referenced by some variable, or declares
  itself a list / count / index variable (`compress`, `sample_dimension`,
  `instance_dimension`), or is the coordinate variable of a dimension that some
  variable uses or that a list variable names in `compress` (compression by gathering:
  the coordinate variables of the compressed dimensions) ("each construct is
  encoded exactly once": nothing is written that nothing points to).

The second half of the file is the abstract writer: the emission steps of
`_write_field_or_domain` as guarded operations on a `File`.

Core Lean only.
-/
namespace Cfdm.NcFile

inductive RefKind
  | coordinates | bounds | climatology | cellMeasures | ancillary | gridMapping | gridMappingCoord
  | formulaTerms | cellMethodAxis | compress | sampleDim | instanceDim | geometry | nodeCoordinates
  | nodeCount | partNodeCount | interiorRing | nodes | containerCoord
deriving Repr, DecidableEq

structure Ref where
  kind : RefKind
  target : String
deriving Repr, DecidableEq

structure Var where
  name : String
  dims : List String
  refs : List Ref := []
  isData : Bool := false
deriving Repr, DecidableEq

structure File where
  dims : List (String × Nat) := []
  vars : List Var := []
  external : List String := []
deriving Repr, DecidableEq

def File.dimNames (F : File) : List String := F.dims.map (·.1)
def File.varNames (F : File) : List String := F.vars.map (·.name)
def File.var? (F : File) (n : String) : Option Var := F.vars.find? (·.name == n)

/-- `a ⊆ b` on dimension lists. -/
def subsetOf (a b : List String) : Bool := a.all (b.contains ·)

/-- Boolean `Nodup`. -/
def distinct {α} [DecidableEq α] : List α → Bool
  | [] => true
  | x :: xs => !xs.contains x && distinct xs

/-- Dimensions that CF chapters 8.2 and 9.3 attach to a variable spanning `ds`: the instance
dimension of a count variable whose sample dimension is in `ds`, the instance dimension named by an
index variable lying in `ds`, the dimensions a list variable lying in `ds` compresses. -/
def implied (F : File) (ds : List String) : List String :=
  F.vars.flatMap (fun w => w.refs.flatMap (fun r =>
    match r.kind with
    | .sampleDim => if ds.contains r.target then w.dims else []
    | .instanceDim | .compress => if !w.dims.isEmpty && w.dims.all (ds.contains ·) then [r.target] else []
    | _ => []))

/-- The dimensions of `v` and those implied by compression (two rounds: ragged indexed contiguous). -/
def effDims (F : File) (v : Var) : List String :=
  let d1 := v.dims ++ implied F v.dims
  d1 ++ implied F d1

/-- One reference of variable `v` is resolvable and compatible. -/
def refOK (F : File) (v : Var) (r : Ref) : Bool :=
  match r.kind with
  | .coordinates | .ancillary | .gridMappingCoord =>
    match F.var? r.target with
    | some t => subsetOf t.dims (effDims F v)
    | none => false
  | .cellMeasures =>
    match F.var? r.target with
    | some t => subsetOf t.dims (effDims F v)
    | none => F.external.contains r.target
  | .bounds | .climatology =>
    match F.var? r.target with
    | some t => t.dims.length == v.dims.length + 1 && t.dims.take v.dims.length == v.dims
    | none => false
  | .gridMapping | .formulaTerms | .geometry | .nodeCoordinates | .nodeCount | .partNodeCount | .interiorRing
  | .nodes | .containerCoord =>
    (F.var? r.target).isSome
  | .cellMethodAxis =>
    (effDims F v).contains r.target
    || r.target == "area"
    || (v.refs.contains ⟨.coordinates, r.target⟩ &&
        match F.var? r.target with
        | some t => t.dims.isEmpty
        | none => false)
  | .compress | .sampleDim | .instanceDim => F.dimNames.contains r.target

def varOK (F : File) (v : Var) : Bool :=
  v.dims.all (F.dimNames.contains ·) && v.refs.all (refOK F v)

/-- No reference is listed twice (an axis may occur in several cell methods, a coordinate under
several grid mappings). -/
def refsDistinct (v : Var) : Bool :=
  distinct (v.refs.filter (fun r => r.kind != .cellMethodAxis && r.kind != .gridMappingCoord))

/-- Someone needs the variable `v`. -/
def needed (F : File) (v : Var) : Bool :=
  v.isData
  || v.refs.any (fun r => r.kind == .compress || r.kind == .sampleDim || r.kind == .instanceDim)
  || F.vars.any (fun w => w.refs.any (fun r => r.target == v.name
        && r.kind != .cellMethodAxis && r.kind != .compress && r.kind != .sampleDim && r.kind != .instanceDim))
  || (v.dims == [v.name] && F.vars.any (fun w => w.name != v.name
        && (w.dims.contains v.name || w.refs.contains ⟨.compress, v.name⟩)))

def externalOK (F : File) (e : String) : Bool :=
  (F.var? e).isNone && F.vars.any (fun w => w.refs.contains ⟨.cellMeasures, e⟩)

/-- References resolve, names are unique (the invariant of every writer step). -/
def wfCore (F : File) : Bool :=
  distinct F.dimNames && distinct F.varNames && F.vars.all (varOK F)

/-- The whole structural property of a finished file. -/
def wfFile (F : File) : Bool :=
  wfCore F && F.vars.all refsDistinct && F.vars.all (needed F) && F.external.all (externalOK F)

/-- The first rule a file breaks (for diagnostics only). -/
def firstFailure (F : File) : String :=
  if !distinct F.dimNames then "dimension-names" else
  if !distinct F.varNames then "variable-names" else
  match F.vars.find? (fun v => !v.dims.all (F.dimNames.contains ·)) with
  | some v => "dimension-missing:" ++ v.name
  | none =>
  match F.vars.find? (fun v => !v.refs.all (refOK F v)) with
  | some v => "reference:" ++ v.name
  | none =>
  match F.vars.find? (fun v => !refsDistinct v) with
  | some v => "duplicate-reference:" ++ v.name
  | none =>
  match F.vars.find? (fun v => !needed F v) with
  | some v => "orphan:" ++ v.name
  | none =>
  match F.external.find? (fun e => !externalOK F e) with
  | some e => "external:" ++ e
  | none => "ok"

/-! ## The abstract writer: emission steps

What `_write_field_or_domain` does to the dataset, one netCDF call at a time:
`createDimension`, `createVariable` + `setncatts` (a variable arrives with the reference
attributes known when it is created), a later `setncattr` of one more reference
(`formula_terms`, set after the domain ancillaries exist), and the registration of a name in
the `external_variables` global attribute.  A step is *guarded*: it is refused (`none`) when the
name is in use or when a reference of the variable being created / extended does not resolve
in the dataset as it then stands — "reference tokens always name variables already created,
with compatible dimensions". -/

inductive Step
  | dim (name : String) (size : Nat)
  | var (v : Var)
  | addRef (name : String) (r : Ref)
  | ext (name : String)
deriving Repr, DecidableEq

def addVar (F : File) (v : Var) : File := { F with vars := F.vars ++ [v] }

def addRefTo (r : Ref) (name : String) (w : Var) : Var :=
  if w.name == name then { w with refs := w.refs ++ [r] } else w

def setRef (F : File) (name : String) (r : Ref) : File := { F with vars := F.vars.map (addRefTo r name) }

def applyStep (F : File) : Step → Option File
  | .dim n k => if F.dimNames.contains n then none else some { F with dims := F.dims ++ [(n, k)] }
  | .var v =>
    if F.varNames.contains v.name || F.external.contains v.name then none
    else if varOK (addVar F v) v then some (addVar F v) else none
  | .addRef n r =>
    match F.var? n with
    | none => none
    | some w =>
      if refOK (setRef F n r) (addRefTo r n w) r then some (setRef F n r) else none
  | .ext e => if F.varNames.contains e then none else some { F with external := F.external ++ [e] }

/-- A whole emission sequence; `none` as soon as a guard fails. -/
def applySteps : File → List Step → Option File
  | F, [] => some F
  | F, s :: ss => match applyStep F s with
    | none => none
    | some F' => applySteps F' ss

end Cfdm.NcFile
