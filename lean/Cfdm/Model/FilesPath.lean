/-
C10 — which NAME the refusals of `cfdm.write` are decided on, and which FILE is then opened
(core Lean only; no Mathlib).

`Model/Files.lean` has a flat name space with one level of symbolic links.  Here the path from the
string the caller passes to the bytes that change is modelled stage by stage:

  string  --expand-->  string  --entOf-->  directory entry  --symbolic links-->  final entry  -->  inode

* `expand` is `os.path.expanduser ∘ os.path.expandvars` — an arbitrary function on strings (it
  need not be idempotent: the value of an environment variable may contain `$`);
* `entOf` is the operating system's look-up of every component but the last (current directory,
  `.`/`..`, symbolic links to directories): two spellings of the same directory entry agree here;
* a directory entry is a regular file (an inode: hard links are entries with the same inode), a
  symbolic link to another entry (chains of any depth; the OS follows at most `fuel` links), or a
  directory;
* contents belong to inodes.

What cfdm does with a name is mirrored call by call (`NetCDFWrite.write`, `_file_io_iteration`,
`file_open`, `_check_not_source_file`, the nested `write` of the external file), with what each
call hands to the operating system: `os.path.isfile(s)` and `os.path.realpath(s)` follow links,
`os.remove(s)` unlinks the entry itself, `netCDF4.Dataset(s, 'w')` creates or truncates what the
name resolves to, `Dataset(s, 'a')` opens the inode it resolves to.  Every such call is logged.

`Ver.old` is the code as it stands at /repo HEAD:
  - `_check_not_source_file` compares `os.path.realpath` names only: two hard links to one inode
    are different files to it (fatal in mode 'a', where the inode is opened for writing);
  - the `external=` name is checked after ONE expansion but opened by a nested `write`, which
    expands it AGAIN.
`Ver.new` is the code with fixes/C10-same-inode.patch and fixes/C10-external-name.patch.
-/
namespace Cfdm.FilesPath

abbrev Raw := Nat        -- a path string
abbrev Ent := Nat        -- a directory entry
abbrev Ino := Nat        -- an inode
abbrev Content := List Nat

inductive Entry
  | file (i : Ino)
  | link (to : Ent)
  | dir
deriving Repr, DecidableEq, Inhabited

structure OS where
  ent : Ent → Option Entry
  store : Ino → Content
  next : Ino               -- the next inode number to be handed out
deriving Inhabited

structure Env where
  expand : Raw → Raw
  entOf : Raw → Ent
  fuel : Nat               -- how many symbolic links the OS follows (40 on Linux)
deriving Inhabited

def setFn {β : Type} (f : Nat → β) (a : Nat) (b : β) : Nat → β := fun x => if x = a then b else f x

/-! ## The operating system -/

def OS.step (os : OS) (e : Ent) : Ent :=
  match os.ent e with
  | some (.link t) => t
  | _ => e

def OS.walk (os : OS) : Nat → Ent → Ent
  | 0, e => e
  | k + 1, e => os.walk k (os.step e)

/-- `os.path.realpath(s)` (as a directory entry; non-strict: a missing last component is itself). -/
def final (env : Env) (os : OS) (s : Raw) : Ent := os.walk env.fuel (env.entOf s)

def OS.inoAt (os : OS) (e : Ent) : Option Ino :=
  match os.ent e with
  | some (.file i) => some i
  | _ => none

def inoOf (env : Env) (os : OS) (s : Raw) : Option Ino := os.inoAt (final env os s)

/-- `os.path.isfile(s)` -/
def isfile (env : Env) (os : OS) (s : Raw) : Bool := (inoOf env os s).isSome

/-- what reading through the name yields -/
def readName (env : Env) (os : OS) (s : Raw) : Option Content := (inoOf env os s).map os.store

/-- `os.remove(s)`: the entry itself goes, whatever it is -/
def osRemove (env : Env) (os : OS) (s : Raw) : OS := { os with ent := setFn os.ent (env.entOf s) none }

/-- `netCDF4.Dataset(s, 'w')`: creates the file the name resolves to, or truncates it;
`none`: the call fails (a directory, too many levels of symbolic links). -/
def osCreate (env : Env) (os : OS) (s : Raw) : Option (OS × Ino) :=
  let z := final env os s
  match os.ent z with
  | none => some ({ ent := setFn os.ent z (some (.file os.next)), store := setFn os.store os.next [], next := os.next + 1 },
                  os.next)
  | some (.file i) => some ({ os with store := setFn os.store i [] }, i)
  | some (.link _) => none
  | some .dir => none

def osAppend (os : OS) (i : Ino) (x : Nat) : OS := { os with store := setFn os.store i (os.store i ++ [x]) }

/-! ## What is written -/

/-- An external cell measure: written to the `external=` file. -/
structure Part where
  need : List Raw
  orig : List Raw
deriving Repr, DecidableEq, Inhabited

/-- A field or domain as the guard and the writer see it. -/
structure FieldA where
  need : List Raw          -- files from which it still has unread data (names as the file arrays report them)
  orig : List Raw          -- `get_original_filenames()`
  ext : List Part := []    -- its external cell measures with data
deriving Repr, DecidableEq, Inhabited

inductive Ver | old | new
deriving Repr, DecidableEq, Inhabited

inductive Mode | w | a
deriving Repr, DecidableEq, Inhabited

inductive Fault
  | none
  | pre                 -- argument validation
  | emit (i : Nat)      -- while field number i is being written
deriving Repr, DecidableEq, Inhabited

inductive Outcome
  | ok
  | osError             -- refused: existing file and overwrite=False / nothing to append to
  | valueError          -- refused: the guard (or the validation of the arguments)
  | failed              -- an exception after the output file was opened
deriving Repr, DecidableEq, Inhabited

def Outcome.isRefusal : Outcome → Bool
  | .osError | .valueError => true
  | _ => false

/-- What cfdm asks of the operating system (or of its guard), with the string it passes. -/
inductive Ev
  | isfile (s : Raw)
  | guard (s : Raw)        -- `_check_not_source_file(s, <every field passed by the caller>)`
  | guardExt (s : Raw)     -- the same inside the nested write: against the external fields only
  | remove (s : Raw)
  | create (s : Raw)
  | openA (s : Raw)
deriving Repr, DecidableEq, Inhabited

structure Req where
  fields : List FieldA
  target : Raw
  mode : Mode
  overwrite : Bool
  external : Option Raw
  fault : Fault
  omitData : Bool := false
deriving Repr, Inhabited

structure Res where
  os : OS
  out : Outcome
  log : List Ev
deriving Inhabited

/-- `_check_not_source_file`: is `a` (an original file name) the file `b`?  `old`: equal
`realpath`; `new`: or the same inode. -/
def sameFile (v : Ver) (env : Env) (os : OS) (a b : Raw) : Bool :=
  final env os a == final env os b ||
    (v == .new && (inoOf env os a).isSome && inoOf env os a == inoOf env os b)

def hits (v : Ver) (env : Env) (os : OS) (fields : List FieldA) (s : Raw) : Bool :=
  fields.any (fun f => f.orig.any (fun o => sameFile v env os o s))

def stillThere : Option Content → Option Content → Bool
  | some old, some new => old.isPrefixOf new
  | _, _ => false

/-- every file the field still needs reads back what it held when the write began (possibly
with more appended) -/
def readable (env : Env) (os0 os : OS) (f : FieldA) : Bool :=
  f.need.all (fun n => stillThere (readName env os0 n) (readName env os n))

/-- Emission into the open inode `i`; stops at an injected fault or when a field's lazy data can
no longer be read. -/
def emit (env : Env) (os0 : OS) (fault : Fault) (skip : Bool) (i : Ino) (tok : Nat → Nat) :
    OS → Nat → List FieldA → OS × Bool
  | os, _, [] => (os, true)
  | os, k, f :: rest =>
    if fault = Fault.emit k ∨ (skip = false ∧ readable env os0 os f = false) then (os, false)
    else emit env os0 fault skip i tok (osAppend os i (tok k)) (k + 1) rest

def extFields (fields : List FieldA) : List FieldA :=
  fields.flatMap (fun f => f.ext.map (fun p => { need := p.need, orig := p.orig, ext := [] }))

/-- The nested `self.write(fields=external_fields, filename=e1, overwrite=…)` (mode w, no
external file of its own); `e1` is the name after the outer call's expansion.  Its exceptions
surface after the main file has been written. -/
def writeNested (v : Ver) (env : Env) (os0 os : OS) (xs : List FieldA) (e1 : Raw) (overwrite skip : Bool) : Res :=
  let fn2 := env.expand e1                                   -- `write` expands its file name
  if (isfile env os fn2 && !overwrite) = true then ⟨os, .failed, [.isfile fn2]⟩
  else
    let ow := isfile env os fn2 && overwrite
    if (!xs.isEmpty && hits v env os xs fn2) = true then ⟨os, .failed, [.isfile fn2, .guardExt fn2]⟩
    else
      let os1 := if ow = true then osRemove env os fn2 else os
      let lg := [.isfile fn2, .guardExt fn2] ++ (if ow = true then [Ev.remove fn2] else []) ++ [.create fn2]
      match osCreate env os1 fn2 with
      | none => ⟨os1, .failed, lg⟩
      | some (os2, i) =>
        let r := emit env os0 .none skip i (fun k => 1000 + k) os2 0 xs
        ⟨r.1, if r.2 = true then .ok else .failed, lg⟩

/-- after the main file has been written and closed -/
def writeExternal (v : Ver) (env : Env) (os0 os : OS) (rq : Req) (log : List Ev) : Res :=
  match rq.external with
  | none => ⟨os, .ok, log⟩
  | some e =>
    let xs := extFields rq.fields
    if xs.isEmpty = true then ⟨os, .ok, log⟩
    else
      let r := writeNested v env os0 os xs (env.expand e) rq.overwrite rq.omitData
      ⟨r.os, r.out, log ++ r.log⟩

/-- The name the early check of the `external=` file looks at: the once-expanded name (`old`),
the name the nested write will open (`new`). -/
def extCheckName (v : Ver) (env : Env) (e : Raw) : Raw :=
  match v with
  | .old => env.expand e
  | .new => env.expand (env.expand e)

/-- `_check_not_source_file(expand(external), fields)` before anything is opened -/
def extGuard (v : Ver) (env : Env) (os : OS) (fields : List FieldA) (ext : Option Raw) : Bool :=
  match ext with
  | some e => hits v env os fields (extCheckName v env e)
  | none => false

def extGuardLog (v : Ver) (env : Env) (ext : Option Raw) : List Ev :=
  match ext with
  | some e => [.guard (extCheckName v env e)]
  | none => []

/-- "Can't set filename and external to the same path" -/
def extIs (env : Env) (os : OS) (ext : Option Raw) (fn : Raw) : Bool :=
  match ext with
  | some e => final env os (env.expand e) == final env os fn
  | none => false

/-- mode 'w' -/
def writeW (v : Ver) (env : Env) (os : OS) (rq : Req) : Res :=
  let fn := env.expand rq.target
  if (isfile env os fn && !rq.overwrite) = true then ⟨os, .osError, [.isfile fn]⟩
  else
    let ow := isfile env os fn && rq.overwrite
    let lg0 := [Ev.isfile fn] ++ extGuardLog v env rq.external
    if extGuard v env os rq.fields rq.external = true then ⟨os, .valueError, lg0⟩
    else if (!rq.fields.isEmpty && hits v env os rq.fields fn) = true then ⟨os, .valueError, lg0 ++ [.guard fn]⟩
    else
      let os1 := if ow = true then osRemove env os fn else os
      let lg := lg0 ++ [.guard fn] ++ (if ow = true then [Ev.remove fn] else []) ++ [.create fn]
      match osCreate env os1 fn with
      | none => ⟨os1, .failed, lg⟩
      | some (os2, i) =>
        if extIs env os2 rq.external fn = true then ⟨os2, .failed, lg⟩
        else
          let r := emit env os rq.fault rq.omitData i (fun k => k) os2 0 rq.fields
          if r.2 = false then ⟨r.1, .failed, lg⟩
          else writeExternal v env os r.1 rq lg

/-- mode 'a' / 'r+' -/
def writeA (v : Ver) (env : Env) (os : OS) (rq : Req) : Res :=
  let fn := env.expand rq.target
  let rd := env.expand fn                                     -- the reader expands the name it is given
  -- the file is read first (dry run); it must exist
  if isfile env os rd = false then ⟨os, .osError, [.isfile rd]⟩
  else if isfile env os fn = false then ⟨os, .osError, [.isfile rd, .isfile fn]⟩
  -- dry run: `external` must not be the file itself
  else if extIs env os rq.external fn = true then ⟨os, .valueError, [.isfile rd, .isfile fn]⟩
  else
    let lg0 := [Ev.isfile rd, .isfile fn] ++ extGuardLog v env rq.external
    if extGuard v env os rq.fields rq.external = true then ⟨os, .valueError, lg0⟩
    else if (!rq.fields.isEmpty && hits v env os rq.fields fn) = true then ⟨os, .valueError, lg0 ++ [.guard fn]⟩
    else
      let lg := lg0 ++ [.guard fn, .openA fn]
      match inoOf env os fn with
      | none => ⟨os, .failed, lg⟩
      | some i =>
        let r := emit env os rq.fault rq.omitData i (fun k => k) os 0 rq.fields
        if r.2 = false then ⟨r.1, .failed, lg⟩
        else writeExternal v env os r.1 rq lg

/-- `cfdm.write(fields, target, mode=…, overwrite=…, external=…)` -/
def writeP (v : Ver) (env : Env) (os : OS) (rq : Req) : Res :=
  if rq.fault = Fault.pre then ⟨os, .valueError, []⟩
  else match rq.mode with
    | .w => writeW v env os rq
    | .a => writeA v env os rq

/-- the strings handed to `os.remove`, `Dataset(…, 'w')`, `Dataset(…, 'a')` -/
def Ev.opened : Ev → Option Raw
  | .remove s | .create s | .openA s => some s
  | _ => none

end Cfdm.FilesPath
