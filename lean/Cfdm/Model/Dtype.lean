/-
C12 decision core: the data type a file array ADVERTISES when it is created at read time
(`NetCDFRead._create_netcdfarray`, stored as the `dtype` component of `NetCDF4Array` /
`H5netcdfArray`; it is what `Data.dtype` of lazy data returns) against the data type of the values it
DELIVERS when it is fetched (`netcdf_indexer.__getitem__`: `_Unsigned` view, `_mask`, `_unpack`).

* `DT`            the numeric netCDF external types.
* `safeCast`      numpy's `can_cast(a, b, "safe")` on them — the order of the promotion lattice.
* `resultType`    `np.result_type(a, b)` (checked against numpy for all 100 pairs on every run).
* `Var`           what decides the types: the variable's type, the types of its `scale_factor` /
                  `add_offset` attributes and whether they are the neutral values 1 and 0, whether
                  `_Unsigned` is "true", and whether this is the data variable of a field (the only
                  caller that used to pass `unpacked_dtype`).
* `delivered`     `netcdf_indexer.__getitem__` as coded (including netCDF4-python's rule that neutral
                  packing casts to the type of the attribute: `data.astype(scale_factor.dtype)`).
* `advertised`    `_create_netcdfarray` / `_unpacked_dtype` as at /repo HEAD (repair a007f9a);
  `advertisedOld` the code before that repair.
Import-free (core Lean only).
-/
namespace Cfdm.Dtype

inductive DT where
  | i1 | i2 | i4 | i8 | u1 | u2 | u4 | u8 | f4 | f8
  deriving DecidableEq, Repr, Inhabited

inductive Kind where
  | int | uint | float
  deriving DecidableEq, Repr

def DT.kind : DT → Kind
  | .i1 | .i2 | .i4 | .i8 => .int
  | .u1 | .u2 | .u4 | .u8 => .uint
  | .f4 | .f8 => .float

/-- Item size in bytes. -/
def DT.size : DT → Nat
  | .i1 | .u1 => 1
  | .i2 | .u2 => 2
  | .i4 | .u4 | .f4 => 4
  | .i8 | .u8 | .f8 => 8

def DT.all : List DT := [.i1, .i2, .i4, .i8, .u1, .u2, .u4, .u8, .f4, .f8]

/-- `np.can_cast(a, b, casting="safe")`: every value of `a` is representable in `b` (numpy counts
64-bit integers → float64 as safe). -/
def safeCast (a b : DT) : Bool :=
  match a.kind, b.kind with
  | .int, .int => a.size ≤ b.size
  | .uint, .uint => a.size ≤ b.size
  | .uint, .int => a.size < b.size
  | .int, .uint => false
  | .float, .float => a.size ≤ b.size
  | .float, _ => false
  | _, .float => b.size == 8 || a.size ≤ 2

def ofKindSize (k : Kind) (s : Nat) : DT :=
  match k, s with
  | .int, 1 => .i1 | .int, 2 => .i2 | .int, 4 => .i4 | .int, _ => .i8
  | .uint, 1 => .u1 | .uint, 2 => .u2 | .uint, 4 => .u4 | .uint, _ => .u8
  | .float, 4 => .f4 | .float, _ => .f8

/-- `np.result_type(a, b)`. -/
def resultType (a b : DT) : DT :=
  match a.kind, b.kind with
  | .int, .int => ofKindSize .int (max a.size b.size)
  | .uint, .uint => ofKindSize .uint (max a.size b.size)
  | .float, .float => ofKindSize .float (max a.size b.size)
  | .int, .uint => if b.size < a.size then a else if b.size == 8 then .f8 else ofKindSize .int (2 * b.size)
  | .uint, .int => if a.size < b.size then b else if a.size == 8 then .f8 else ofKindSize .int (2 * a.size)
  | .float, _ => if b.size ≤ 2 then a else .f8
  | _, .float => if a.size ≤ 2 then b else .f8

/-- `np.result_type(d, *values)`. -/
def resultTypeL (d : DT) (vs : List DT) : DT := vs.foldl resultType d

/-- `data.view(f"u{itemsize}")`. -/
def toUnsigned (d : DT) : DT :=
  match d with
  | .i1 => .u1 | .i2 => .u2 | .i4 => .u4 | .i8 => .u8
  | d => d

/-- A `scale_factor` / `add_offset` attribute: its type, and whether its value is the neutral one
(`scale_factor == 1.0`, `add_offset == 0.0`). -/
structure Attr where
  dt : DT
  neutral : Bool
  deriving DecidableEq, Repr

structure Var where
  vtype : DT
  scale : Option Attr
  offset : Option Attr
  unsignedAttr : Bool      -- `_Unsigned` is "true" / "True"
  isData : Bool            -- the data variable of a field (`_create_data(field_ncvar, unpacked_dtype=…)`)
  deriving DecidableEq, Repr

def Var.packed (v : Var) : Bool := v.scale.isSome || v.offset.isSome

/-- `is_unsigned_int`: the view is taken when unpacking is on, the attribute says so and the
stored type is a signed integer. -/
def Var.viewed (v : Var) : DT :=
  if v.unsignedAttr && v.vtype.kind == .int then toUnsigned v.vtype else v.vtype

/-- `netcdf_indexer._unpack` on data of type `d`. -/
def unpack (d : DT) (scale offset : Option Attr) : DT :=
  match scale, offset with
  | some s, some a =>
    if !(a.neutral && s.neutral) then resultType (resultType d s.dt) a.dt   -- `data * scale_factor + add_offset`
    else s.dt                                                              -- `data.astype(scale_factor.dtype)`
  | some s, none => if !s.neutral then resultType d s.dt else s.dt
  | none, some a => if !a.neutral then resultType d a.dt else a.dt
  | none, none => d

/-- The data type of what `netcdf_indexer.__getitem__` returns (`cfdm.read(unpack=…)`). -/
def delivered (unpackOn : Bool) (v : Var) : DT :=
  if unpackOn then unpack v.viewed v.scale v.offset else v.vtype

/-- The attribute types in the order the reader collects them: `add_offset`, `scale_factor`. -/
def Var.values (v : Var) : List DT :=
  (match v.offset with | some a => [a.dt] | none => []) ++ (match v.scale with | some s => [s.dt] | none => [])

/-- `NetCDFRead._create_netcdfarray` before a007f9a: only the data variable of a field is given the
unpacked type, `np.result_type(dtype, np.result_type(*values))`; `_Unsigned` and neutral packing
are not looked at. -/
def advertisedOld (unpackOn : Bool) (v : Var) : DT :=
  if unpackOn && v.isData && v.packed then
    match v.values with
    | [] => v.vtype
    | x :: xs => resultType v.vtype (resultTypeL x xs)
  else v.vtype

/-- `_create_netcdfarray` → `_unpacked_dtype` (a007f9a): for EVERY variable, from its own
attributes: the `_Unsigned` view, then — neutral packing — the type of `scale_factor` (else of
`add_offset`), otherwise the promotions in the order the arithmetic performs them,
`np.result_type(np.result_type(dtype, scale_factor), add_offset)` (numpy's promotion is not
associative). -/
def advertised (unpackOn : Bool) (v : Var) : DT :=
  if !unpackOn then v.vtype else
  let d := v.viewed
  if !v.packed then d
  else
    let neutral := (match v.scale with | some s => s.neutral | none => true) &&
                   (match v.offset with | some a => a.neutral | none => true)
    if neutral then
      match v.scale, v.offset with
      | some s, _ => s.dt
      | none, some a => a.dt
      | none, none => d
    else
      let d1 := match v.scale with | some s => resultType d s.dt | none => d
      match v.offset with | some a => resultType d1 a.dt | none => d1

/-- The triples on which numpy's promotion depends on the order: a 32-bit float, a 16-bit unsigned
integer and a signed integer of at most 16 bits (`(i2, u2) → i4`, `(i4, f4) → f8`, but
`(u2, f4) → f4`, `(i2, f4) → f4`). -/
def exotic (a b c : DT) : Bool :=
  [a, b, c].contains .f4 && [a, b, c].contains .u2 && ([a, b, c].contains .i1 || [a, b, c].contains .i2)

/-- What the code before a007f9a got right: not unpacking, or no `_Unsigned` view and either no packing
or non-neutral packing of a field's data variable whose types promote in any order. -/
def Var.oldConsistent (unpackOn : Bool) (v : Var) : Bool :=
  !unpackOn ||
  ((!v.unsignedAttr || v.vtype.kind != .int) &&
   (!v.packed ||
    (v.isData && !((match v.scale with | some s => s.neutral | none => true) &&
                   (match v.offset with | some a => a.neutral | none => true)) &&
     (match v.scale, v.offset with | some s, some a => !exotic v.vtype s.dt a.dt | _, _ => true))))

end Cfdm.Dtype
