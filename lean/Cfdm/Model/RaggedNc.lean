import Cfdm.Model.RaggedND
/-
C06 — "a compressed field is written compressed, with count, index and list variables from which
an independent decoder recovers the same array": the netCDF encoding of compressed fields and
its decoding.

Model of
  cfdm/read_write/netcdf/netcdfwrite.py
      `_write_field_or_domain` (compression block: which of count / index / list variable is
        written, on which dimension, which dimension it creates), `_write_count_variable`
        (`sample_dimension` attribute, sample dimension of size `sum(count)`),
        `_write_index_variable` (`instance_dimension` attribute), `_write_list_variable`
        (`compress` attribute, dimension named like the variable), `_netcdf_dimensions` (a
        construct whose data are compressed is written on the sample dimension, one on the
        instance axis alone on the instance dimension, an UNcompressed one that spans an element
        axis cannot be written: that axis has no netCDF dimension)
  cfdm/read_write/netcdf/netcdfread.py
      `read` (list variables: `dimensions == (ncvar,)` with a `compress` attribute; count
        variables: `sample_dimension` attribute, only when the `featureType` global attribute is
        there; index variables: `instance_dimension`; both on one dimension: indexed contiguous),
      `_set_ragged_*_parameters`, `_parse_indexed_contiguous_compression` (the shapes),
      `_create_data` (dispatch on the variable's dimensions: gathered, indexed contiguous,
        contiguous, indexed), `_ncdimensions` (the compressed dimension is replaced by the
        implied ones)
over an abstract dataset (dimensions, variables with their dimensions, the three attributes and
their values).  netCDF names are taken as given (that `_netcdf_name` makes them unique is C08's
subject); attributes other than the three, data types and storage are outside the model.
Core Lean only.
-/
namespace Cfdm.RaggedNc
open Cfdm.Ragged Cfdm.Arr

/-! ## The abstract dataset -/

inductive Payload (α : Type) where
  | ints (l : List Nat)               -- count / index / list variable
  | samples (l : List (M α))          -- values along the variable's only dimension
  | nd (get : List Nat → M α)         -- values as a function of the multi-index over all dimensions

structure NcVar (α : Type) where
  name : String
  dims : List String
  sampleDimension : Option String := none
  instanceDimension : Option String := none
  compress : Option (List String) := none
  payload : Payload α

def NcVar.ints {α} (v : NcVar α) : List Nat :=
  match v.payload with
  | .ints l => l
  | _ => []

structure NcDs (α : Type) where
  featureType : Bool
  dims : List (String × Nat)
  vars : List (NcVar α)

/-! ## Writer -/

inductive Kind where
  | contiguous | indexed | indexedContiguous
  deriving DecidableEq, Repr

/-- Which of the field's axes a data-carrying construct spans. -/
inductive Span where
  | data        -- all data axes (the field itself, DSG coordinates such as time / altitude of each sample)
  | profile     -- indexed contiguous: the (instance, profile) axes (e.g. the time of each profile)
  | instance    -- the instance axis alone (station name, station latitude …)
  deriving DecidableEq, Repr

/-- A construct with data: `samples` is the compressed array when `compressed`, else the array. -/
structure Construct (α : Type) where
  name : String
  span : Span
  compressed : Bool
  samples : List (M α)

/-- A field whose data are a DSG ragged array, with its data-carrying constructs (the last one
is the field's own data), as `cfdm.write` sees it after the axes have been named. -/
structure RaggedField (α : Type) where
  kind : Kind
  featureType : Bool
  instDim : String
  ninst : Nat
  sampleDim : String       -- `count.nc_get_sample_dimension('element')` / `index.nc_get_dimension('sample')`
  profileDim : String      -- indexed contiguous: `count.nc_get_dimension('feature')`
  countVar : String
  indexVar : String
  count : List Nat
  index : List Nat
  constructs : List (Construct α)

/-- `_netcdf_dimensions`: the netCDF dimensions of a construct, `none` = cannot be written. -/
def constructDims {α} (f : RaggedField α) (c : Construct α) : Option (List String) :=
  match c.span, c.compressed with
  | .instance, false => some [f.instDim]
  | .data, true => some [f.sampleDim]
  | .profile, true => if f.kind = .indexedContiguous then some [f.profileDim] else none
  | _, _ => none

def constructVar {α} (f : RaggedField α) (c : Construct α) : Option (NcVar α) :=
  (constructDims f c).map (fun d => { name := c.name, dims := d, payload := .samples c.samples })

/-- The count / index variables and the dimensions they bring. -/
def compressionVars {α} (f : RaggedField α) : List (NcVar α) × List (String × Nat) :=
  match f.kind with
  | .contiguous =>
    ([{ name := f.countVar, dims := [f.instDim], sampleDimension := some f.sampleDim, payload := .ints f.count }],
     [(f.sampleDim, f.count.sum)])
  | .indexed =>
    ([{ name := f.indexVar, dims := [f.sampleDim], instanceDimension := some f.instDim, payload := .ints f.index }],
     [(f.sampleDim, f.index.length)])
  | .indexedContiguous =>
    ([{ name := f.countVar, dims := [f.profileDim], sampleDimension := some f.sampleDim, payload := .ints f.count },
      { name := f.indexVar, dims := [f.profileDim], instanceDimension := some f.instDim, payload := .ints f.index }],
     [(f.profileDim, f.count.length), (f.sampleDim, f.count.sum)])

def sequenceOpt {β} : List (Option β) → Option (List β)
  | [] => some []
  | none :: _ => none
  | some x :: rest => (sequenceOpt rest).map (x :: ·)

/-- `cfdm.write` of the field. -/
def encodeRagged {α} (f : RaggedField α) : Option (NcDs α) :=
  match sequenceOpt (f.constructs.map (constructVar f)) with
  | none => none
  | some cvars =>
    let (vs, ds) := compressionVars f
    some { featureType := f.featureType
           dims := (f.instDim, f.ninst) :: ds
           vars := vs ++ cvars }

/-- A field whose data (and every construct in `constructs`) are gathered over the dimensions
`dims`, with leading and trailing dimensions. -/
structure GatheredField (α : Type) where
  lead : List (String × Nat)
  dims : List (String × Nat)
  trail : List (String × Nat)
  listVar : String
  list : List Nat
  constructs : List (String × (List Nat → M α))

def encodeGathered {α} (g : GatheredField α) : NcDs α :=
  { featureType := false
    dims := g.lead ++ g.dims ++ g.trail ++ [(g.listVar, g.list.length)]
    vars :=
      { name := g.listVar, dims := [g.listVar], compress := some (g.dims.map Prod.fst), payload := .ints g.list }
      :: g.constructs.map (fun c =>
          { name := c.1, dims := g.lead.map Prod.fst ++ [g.listVar] ++ g.trail.map Prod.fst, payload := .nd c.2 }) }

/-! ## Reader -/

/-- `g['compression'][ncdim]`, the kind `_create_data` acts on. -/
inductive Comp where
  | gathered (list : List Nat) (implied : List String)
  | contiguous (count : List Nat)
  | indexed (index : List Nat) (instDim : String)
  | indexedContiguous (count index : List Nat) (instDim : String)

/-- Loops of the form `for ncvar in variables: if …: table[key] = …`: the last match stays. -/
def lastVar {α} (ds : NcDs α) (p : NcVar α → Bool) : Option (NcVar α) := ds.vars.reverse.find? p

def isListVarFor {α} (d : String) (v : NcVar α) : Bool :=
  v.dims == [v.name] && v.name == d && v.compress.isSome
def isCountVarFor {α} (d : String) (v : NcVar α) : Bool := v.sampleDimension == some d
def isIndexVarOn {α} (d : String) (v : NcVar α) : Bool :=
  v.instanceDimension.isSome && v.dims.head? == some d

/-- What the reader knows about the dimension `d`. -/
def compressionOf {α} (ds : NcDs α) (d : String) : Option Comp :=
  match lastVar ds (isListVarFor d) with
  | some lv => some (.gathered lv.ints (lv.compress.getD []))
  | none =>
    if !ds.featureType then none else
    match lastVar ds (isCountVarFor d) with
    | some cv =>
      match lastVar ds (isIndexVarOn (cv.dims.headD "")) with
      | some iv => some (.indexedContiguous cv.ints iv.ints (iv.instanceDimension.getD ""))
      | none => some (.contiguous cv.ints)
    | none =>
      match lastVar ds (isIndexVarOn d) with
      | some iv => some (.indexed iv.ints (iv.instanceDimension.getD ""))
      | none => none

def dimSize {α} (ds : NcDs α) (d : String) : Nat := (ds.dims.lookup d).getD 0

/-- A 1-d array. -/
def plain1 {α} (l : List (M α)) : Arr (M α) :=
  { shape := [l.length], get := fun idx => l.getD (idx.getD 0 0) none }

/-- Position and record of the first dimension of a variable that is gathered. -/
def firstGathered {α} (ds : NcDs α) : Nat → List String → Option (Nat × List Nat × List String)
  | _, [] => none
  | i, d :: rest =>
    match compressionOf ds d with
    | some (.gathered l implied) => some (i, l, implied)
    | _ => firstGathered ds (i + 1) rest

/-- `_create_data`: the array of a variable as `cfdm.read` presents it. -/
def readVar {α} (ds : NcDs α) (name : String) : Option (Arr (M α)) :=
  match ds.vars.find? (fun v => v.name == name) with
  | none => none
  | some v =>
    match v.payload with
    | .ints _ => none
    | .samples l =>
      match compressionOf ds (v.dims.headD "") with
      | some (.contiguous count) =>
        some (rowsToArr count.length (maxL count) (readContiguous count l))
      | some (.indexed index inst) =>
        some (rowsToArr (dimSize ds inst) (maxOcc index) (readIndexed (dimSize ds inst) index l))
      | some (.indexedContiguous count index inst) =>
        some (rowsToArr3 (dimSize ds inst) (maxOcc index) (maxL count)
          (readIndexedContiguous (dimSize ds inst) count index l))
      | _ => some (plain1 l)
    | .nd get =>
      match firstGathered ds 0 v.dims with
      | none => some { shape := v.dims.map (dimSize ds), get := get }
      | some (i, l, implied) =>
        some { shape := (v.dims.take i).map (dimSize ds) ++ implied.map (dimSize ds)
                        ++ (v.dims.drop (i + 1)).map (dimSize ds)
               get := decodeGatheredND i (implied.map (dimSize ds)) l get }

/-! ## Well-formedness of what is written -/

/-- The names the field brings are usable: the variable names are pairwise distinct, and the
sample / profile / instance dimensions are three different dimensions. -/
def RaggedField.WF {α} (f : RaggedField α) : Prop :=
  f.featureType = true
  ∧ (f.countVar :: f.indexVar :: f.constructs.map (·.name)).Nodup
  ∧ f.instDim ≠ f.sampleDim ∧ f.profileDim ≠ f.sampleDim ∧ f.profileDim ≠ f.instDim
  ∧ (f.kind = .indexedContiguous → f.index.length = f.count.length)

def GatheredField.WF {α} (g : GatheredField α) : Prop :=
  (g.listVar :: g.constructs.map Prod.fst).Nodup
  ∧ (g.listVar :: (g.lead ++ g.dims ++ g.trail).map Prod.fst).Nodup

end Cfdm.RaggedNc
