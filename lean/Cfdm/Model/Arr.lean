/-
N-d arrays as (shape, index function) and the per-axis "take" operations that
`netcdf_indexer._index` performs one list axis at a time.
-/
namespace Cfdm.Arr

structure Arr (α : Type) where
  shape : List Nat
  get : List Nat → α

/-- Apply a position list on one axis to one coordinate of a multi-index. -/
def pick (p : Option (List Nat)) (i : Nat) : Nat :=
  match p with
  | none => i
  | some l => l.getD i 0

/-- New extent of an axis under an optional position list. -/
def ext (p : Option (List Nat)) (n : Nat) : Nat :=
  match p with
  | none => n
  | some l => l.length

/-- Take on several axes at once: `ps[k] = some l` selects positions `l` on axis
`k`, `none` leaves the axis alone.  With every entry `some` this is the
numpy-per-axis (orthogonal) specification. -/
def takeSome {α} (A : Arr α) (ps : List (Option (List Nat))) : Arr α :=
  { shape := List.zipWith (fun p n => ext p n) ps A.shape
    get := fun idx => A.get (List.zipWith (fun p i => pick p i) ps idx) }

/-- The specification: every axis' selector applied independently. -/
def takeAll {α} (A : Arr α) (ps : List (List Nat)) : Arr α :=
  takeSome A (ps.map some)

/-- `data[(:, …, l, …, :)]`: one list axis, as numpy/netCDF4/h5py all support. -/
def takeAxis {α} (A : Arr α) (k : Nat) (l : List Nat) : Arr α :=
  { shape := A.shape.set k l.length
    get := fun idx => A.get (idx.set k (l.getD (idx.getD k 0) 0)) }

/-- `netcdf_indexer._index` core: apply the per-axis selectors one axis at a
time in the given order (the code picks the order by an `argmin` size heuristic;
the theorem shows the order is irrelevant). -/
def seqTake {α} (A : Arr α) (ps : List (List Nat)) (order : List Nat) : Arr α :=
  order.foldl (fun B k => takeAxis B k (ps.getD k [])) A

/-- Row-major flat offset of a multi-index. -/
def ravel : List Nat → List Nat → Nat
  | [], _ => 0
  | _, [] => 0
  | n :: ns, i :: is => i * ns.foldl (· * ·) 1 + ravel ns is

/-- All multi-indices of a shape in row-major order. -/
def allIdx : List Nat → List (List Nat)
  | [] => [[]]
  | n :: ns => (List.range n).flatMap (fun i => (allIdx ns).map (fun r => i :: r))

/-- Materialise an array in row-major order. -/
def toList {α} (A : Arr α) : List α := (allIdx A.shape).map A.get

/-- The array whose element at multi-index `idx` is its own flat offset. -/
def iota (shape : List Nat) : Arr Nat := { shape := shape, get := ravel shape }

end Cfdm.Arr
