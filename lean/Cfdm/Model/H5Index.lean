import Cfdm.Model.Lazy
/-
C12 decision core, h5netcdf path of `netcdf_indexer`: `_variable_subspace` and the `_index` that
calls it, against an h5py variable that is as strict as the real one.

* `h5Accepts`        what an `h5py.Dataset` takes on one axis: a slice with a positive step, or a
                     list of in-range positions in strictly increasing order (and at most one list
                     per index — `h5pyGet`).  Anything else raises (`Err.backend`).
* `vsAxis`           one turn of the `for n, (i, size) in enumerate(zip(index, data.shape))` loop of
                     `_variable_subspace`: a negative-step slice becomes the ascending slice
                     `slice(r[-1], r[0] + 1, -r.step)` over the same positions (`r =
                     range(*i.indices(size))`, anchored on the LAST selected element), or
                     `slice(0, 0)` when nothing is selected, with `reorder[n] = slice(None, None, -1)`;
                     a list that is not strictly increasing becomes `np.unique(i)` with
                     `reorder[n] = ` the inverse permutation-with-repeats; everything else is passed on.
* `vsAxisWrong`      the tempting variant `slice(stop + 1, start + 1, -step)` (anchored on the bounds of
                     the original slice); refuted in `Props/C12.lean`.
* `variableSubspace` `data = data[tuple(index)]; if reordered: data = data[tuple(reorder)]`.
* `indexH5`          `netcdf_indexer._index` for a variable without orthogonal indexing: the slices
                     and ONE list axis go to `_variable_subspace`, the other list axes are applied one
                     at a time to the numpy array that came back.
* `…Old`             the code before `fixes/C12-h5netcdf-index-order.patch` (commit 4483ba2): the index
                     went to h5py as it was.
Import-free (core Lean only).
-/
namespace Cfdm.H5Index
open Cfdm.PySlice Cfdm.Arr Cfdm.Indexing Cfdm.Lazy

/-- Insert into a strictly increasing list, dropping a duplicate. -/
def insertU (x : Nat) : List Nat → List Nat
  | [] => [x]
  | y :: ys => if x < y then x :: y :: ys else if x = y then y :: ys else y :: insertU x ys

/-- `np.unique(i)`: the distinct values in increasing order. -/
def unique (l : List Nat) : List Nat := l.foldr insertU []

/-- `np.unique(i, return_inverse=True)[1]`: where each entry of `i` sits in `np.unique(i)`. -/
def inverse (l : List Nat) : List Nat := l.map (fun x => (unique l).idxOf x)

/-- One entry of the `reorder` index that is applied to the numpy array h5py returned. -/
inductive Reorder where
  | keep                 -- `slice(None)`
  | rev                  -- `slice(None, None, -1)`
  | inv (l : List Nat)   -- the integer array from `np.unique(…, return_inverse=True)`
  deriving DecidableEq, Repr

/-- Positions selected by a `reorder` entry on an axis of length `m`. -/
def reorderPs (m : Nat) : Reorder → List Nat
  | .keep => List.range m
  | .rev => (List.range m).reverse
  | .inv l => l

/-- Positions of a selector as naturals (they are non-negative for a well-formed selector). -/
def natPositions (n : Nat) (s : Sel) : List Nat := (s.positions n).map Int.toNat

/-- `_variable_subspace`, one axis of size `n`.  A list index has been made non-negative by
`normalize_index` before it gets here. -/
def vsAxis (n : Nat) (s : Sel) : Sel × Reorder :=
  match s with
  | .slice a b (some c) =>
    if c < 0 then
      let r := slicePositions a b (some c) n          -- `range(*i.indices(size))`
      match r.head?, r.getLast? with
      | some first, some last => (.slice (some last) (some (first + 1)) (some (-c)), .rev)
      | _, _ => (.slice (some 0) (some 0) none, .rev)
    else (s, .keep)
  | .slice _ _ none => (s, .keep)
  | .list l =>
    let q := natPositions n (.list l)
    if decide (q.length > 1) && !strictlyIncreasing q then
      (.list ((unique q).map Int.ofNat), .inv (inverse q))
    else (.list (q.map Int.ofNat), .keep)

/-- The variant that builds the ascending slice from the bounds of the original slice instead of
from its last selected element.  Wrong whenever `|step|` does not divide `start - stop - 1`. -/
def vsAxisWrong (n : Nat) (s : Sel) : Sel × Reorder :=
  match s with
  | .slice a b (some c) =>
    if c < 0 then
      let (st, e) := adjust a b c n
      (.slice (some (e + 1)) (some (st + 1)) (some (-c)), .rev)
    else (s, .keep)
  | _ => vsAxis n s

/-- What h5py accepts on one axis. -/
def h5Accepts (n : Nat) : Sel → Bool
  | .slice _ _ none => true
  | .slice _ _ (some c) => decide (0 < c)
  | .list l => l.all (fun i => decide (0 ≤ i) && decide (i < (n : Int))) && strictlyIncreasing (l.map Int.toNat)

/-- `h5py.Dataset.__getitem__`: at most one list, every axis acceptable; then the selection. -/
def h5pyGet {α} (A : Arr α) (sels : List Sel) : Except Err (Arr α) :=
  if decide ((listAxes sels).length ≤ 1) && (List.zipWith (fun s n => h5Accepts n s) sels A.shape).all id then
    .ok (takeAll A (positionsNat A.shape sels))
  else .error .backend

def vsIndex (shape : List Nat) (sels : List Sel) : List (Sel × Reorder) :=
  List.zipWith (fun s n => vsAxis n s) sels shape

/-- `netcdf_indexer._variable_subspace` for an h5py variable. -/
def variableSubspace {α} (A : Arr α) (sels : List Sel) : Except Err (Arr α) :=
  let tr := vsIndex A.shape sels
  match h5pyGet A (tr.map (·.1)) with
  | .error e => .error e
  | .ok B =>
    if tr.any (fun t => t.2 != Reorder.keep) then
      .ok (takeAll B (List.zipWith (fun (t : Sel × Reorder) m => reorderPs m t.2) tr B.shape))
    else .ok B

/-- `normalize_index` has made list entries non-negative before `_index` passes them on. -/
def normSel (n : Nat) (s : Sel) : Sel :=
  match s with
  | .list l => .list ((natPositions n (.list l)).map Int.ofNat)
  | s => s

/-- Before the repair: `data[tuple(index)]`. -/
def variableSubspaceOld {α} (A : Arr α) (sels : List Sel) : Except Err (Arr α) :=
  h5pyGet A (List.zipWith (fun s n => normSel n s) sels A.shape)

/-- Observable content of an access: the elements in row-major order, or `none` when it raised. -/
def content {α} (r : Except Err (Arr α)) : Option (List Nat × List α) :=
  match r with
  | .ok B => some (B.shape, toList B)
  | .error _ => none

/-- `index1`: the slices and list axis `n`; every other list axis is `slice(None)`. -/
def index1 (sels : List Sel) (n : Nat) : List Sel :=
  (List.range sels.length).map (fun k =>
    if k = n || !(isListAt sels k) then sels.getD k (.slice none none none) else .slice none none none)

/-- `netcdf_indexer._index` when the variable cannot index orthogonally, parametrised by the
`_variable_subspace` in use. -/
def indexWith {α} (vs : Arr α → List Sel → Except Err (Arr α)) (A : Arr α) (sels : List Sel) :
    Except Err (Arr α) :=
  let ps := positionsNat A.shape sels
  if (listAxes sels).length ≤ 1 then vs A sels
  else match firstListAxis A.shape ps sels with
    | none => vs A sels
    | some n =>
      match vs A (index1 sels n) with
      | .error e => .error e
      | .ok B => .ok ((laterAxes A.shape sels ps).foldl (fun B k => takeAxis B k (ps.getD k [])) B)

def indexH5 {α} (A : Arr α) (sels : List Sel) : Except Err (Arr α) := indexWith variableSubspace A sels
def indexH5Old {α} (A : Arr α) (sels : List Sel) : Except Err (Arr α) := indexWith variableSubspaceOld A sels

/-- What the h5py variable is asked for by the first access (per-axis positions, in the order
asked). -/
def h5Reads (shape : List Nat) (sels : List Sel) : List (List Nat) :=
  let ps := positionsNat shape sels
  let first := if (listAxes sels).length ≤ 1 then sels
    else match firstListAxis shape ps sels with
      | none => sels
      | some n => index1 sels n
  positionsNat shape ((vsIndex shape first).map (·.1))

end Cfdm.H5Index
