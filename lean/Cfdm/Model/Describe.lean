/-
C19 — inspection (`repr`/`str`/`dump`) and `creation_commands` of the field/domain container.
Core Lean only (this file is linked into the model driver).

The abstract container (`MField`) is the three dictionaries of `core.Constructs`
joined by key (an `Entry` = construct + its recorded data axes, `none` when
`constructs.data_axes()` has no item for the key), the domain axes, the field's own
data / data axes, the cell methods and the coordinate references.

Construct identifiers have the standard form `<base of the construct type><n>`
(`domainaxis3`, `auxiliarycoordinate0`): a key is the pair (type, n); domain-axis,
cell-method and coordinate-reference keys are plain numbers in their own namespaces.

Part 1  `describe…`: the dictionary look-ups performed by
        `Field.__repr__/__str__/dump`, `Domain.__str__/dump`
        (cfdm/field.py, cfdm/domain.py, mixin/propertiesdata.py `dump`), `none` = `KeyError`.
        `axesNew` = the code at /repo HEAD, since repair fabc4b1 (`construct_data_axes.get(cid, ())`),
        `axesOld` = the code before that repair (`construct_data_axes[cid]`).
Part 2  `creationCommands`: the commands emitted by
        `Field/Domain/PropertiesDataBounds/…​.creation_commands`, in emission order, and
        `exec`, an interpreter for them with the semantics of `Constructs._set_construct`,
        `_set_construct_data_axes`, `new_identifier`, `Field.set_data`, `Field.set_data_axes`.
-/
namespace Cfdm.Describe

/-- Types of construct that may span domain axes (`Constructs._array_constructs`). -/
inductive CType
  | dim | aux | msr | dan | top | con | fan
  deriving DecidableEq, Repr

structure Key where
  t : CType
  n : Nat
  deriving DecidableEq, Repr

structure Axis where
  size : Option Nat
  ncdim : Option String
  deriving DecidableEq, Repr

structure Bnd where
  hasData : Bool
  ncvar : Option String
  deriving DecidableEq, Repr

structure Con where
  /-- what `construct.shape` reports; `none` = no data -/
  shape : Option (List Nat)
  ncvar : Option String
  bounds : Option Bnd
  deriving DecidableEq, Repr

structure CM where
  axes : Option (List String)
  method : Option String
  deriving DecidableEq, Repr

structure Ref where
  ncvar : Option String
  coords : List String
  ancils : List (String × Option String)
  deriving DecidableEq, Repr

structure Entry where
  key : Key
  con : Con
  /-- `constructs.data_axes().get(key)` -/
  axes : Option (List Nat)
  deriving DecidableEq, Repr

structure MField where
  isDomain : Bool
  ncvar : Option String
  data : Option (List Nat)
  dataAxes : Option (List Nat)
  axes : List (Nat × Axis)
  cons : List Entry
  cms : List (Nat × CM)
  refs : List (Nat × Ref)
  deriving DecidableEq, Repr

def MField.axisKeys (f : MField) : List Nat := f.axes.map (·.1)

def MField.ofType (f : MField) (t : CType) : List Entry := f.cons.filter (fun e => e.key.t = t)

/-! ## Part 1 — look-ups of the formatters -/

/-- `[axis_names[axis] for axis in axes]` -/
def lookAll (names : List Nat) : List Nat → Option Unit
  | [] => some ()
  | a :: l => if names.contains a then lookAll names l else none

def forAll {α} (g : α → Option Unit) : List α → Option Unit
  | [] => some ()
  | x :: l => match g x with
    | some _ => forAll g l
    | none => none

def Entry.hasData (e : Entry) : Bool := e.con.shape.isSome

def Entry.boundsData (e : Entry) : Bool :=
  match e.con.bounds with
  | some b => b.hasData
  | none => false

/-- the code before repair fabc4b1: `constructs.data_axes()[cid]` -/
def axesOld (e : Entry) : Option (List Nat) := e.axes
/-- the code at /repo HEAD (repair fabc4b1): `constructs.data_axes().get(cid, ())` -/
def axesNew (e : Entry) : Option (List Nat) := some (e.axes.getD [])

/-- `_print_item` of `Field.__str__` / `Domain.__str__` -/
def strItem (ax : Entry → Option (List Nat)) (names : List Nat) (e : Entry) : Option Unit :=
  match ax e with
  | none => none
  | some axes =>
    if e.hasData || ((e.key.t = .aux || e.key.t = .dan) && e.boundsData) then lookAll names axes
    else some ()

/-- `PropertiesDataBounds.dump(_axes=…, _axis_names=…)`: look-ups only `if _axes and _axis_names` -/
def dumpItem (ax : Entry → Option (List Nat)) (names : List Nat) (e : Entry) : Option Unit :=
  match ax e with
  | none => none
  | some axes =>
    if (e.hasData || e.boundsData) && !axes.isEmpty && !names.isEmpty then lookAll names axes
    else some ()

/-- `Field._one_line_description` (used by `__repr__`) -/
def reprF (f : MField) : Option Unit :=
  if f.isDomain then some () else lookAll f.axisKeys (f.dataAxes.getD [])

/-- `Domain.__repr__` before repair f9edab4: it first evaluated `sorted([axis.get_size(None) for …])`
(the result was never used); sorting two or more items of which one is `None` compares
`None` with another item and raises `TypeError`.  The repair removed the statement,
after which `repr` of a domain is `reprF`. -/
def reprDomainOld (f : MField) : Option Unit :=
  if decide (2 ≤ f.axes.length) && f.axes.any (fun p => p.2.size.isNone) then none else some ()

def reprFOld (f : MField) : Option Unit :=
  if f.isDomain then reprDomainOld f else reprF f

def strDomain (ax : Entry → Option (List Nat)) (f : MField) : Option Unit :=
  let names := f.axisKeys
  -- `for axis in domain_axes: for dim in dimension_coordinates: construct_data_axes[cid] == (axis,)`
  match (if f.axes.isEmpty then some () else forAll (fun e => (ax e).map (fun _ => ())) (f.ofType .dim)) with
  | none => none
  | some _ =>
  match forAll (strItem ax names) (f.ofType .aux) with
  | none => none
  | some _ =>
  match forAll (strItem ax names) (f.ofType .msr) with
  | none => none
  | some _ =>
  match forAll (strItem ax names) (f.ofType .dan) with
  | none => none
  | some _ =>
  match forAll (strItem ax names) (f.ofType .top) with
  | none => none
  | some _ => forAll (strItem ax names) (f.ofType .con)

def dumpDomain (ax : Entry → Option (List Nat)) (f : MField) : Option Unit :=
  let names := f.axisKeys
  match forAll (dumpItem ax names) (f.ofType .dim) with
  | none => none
  | some _ =>
  match forAll (dumpItem ax names) (f.ofType .aux) with
  | none => none
  | some _ =>
  match forAll (dumpItem ax names) (f.ofType .dan) with
  | none => none
  | some _ =>
  match forAll (dumpItem ax names) (f.ofType .msr) with
  | none => none
  | some _ =>
  match forAll (dumpItem ax names) (f.ofType .top) with
  | none => none
  | some _ => forAll (dumpItem ax names) (f.ofType .con)

/-- the data line of `Field.__str__` / `Field.dump` -/
def dataLine (f : MField) : Option Unit :=
  if f.data.isSome then lookAll f.axisKeys (f.dataAxes.getD []) else some ()

def strF (ax : Entry → Option (List Nat)) (f : MField) : Option Unit :=
  if f.isDomain then strDomain ax f else
  match dataLine f with
  | none => none
  | some _ =>
  match forAll (strItem ax f.axisKeys) (f.ofType .fan) with
  | none => none
  | some _ => strDomain ax f

def dumpF (ax : Entry → Option (List Nat)) (f : MField) : Option Unit :=
  if f.isDomain then dumpDomain ax f else
  match dataLine f with
  | none => none
  | some _ =>
  match forAll (dumpItem ax f.axisKeys) (f.ofType .fan) with
  | none => none
  | some _ => dumpDomain ax f

def describeWith (ax : Entry → Option (List Nat)) (f : MField) : Option Unit :=
  match reprF f with
  | none => none
  | some _ =>
  match strF ax f with
  | none => none
  | some _ => dumpF ax f

/-- the formatters at /repo HEAD (repairs fabc4b1, f9edab4) -/
def describe (f : MField) : Option Unit := describeWith axesNew f
/-- the formatters before those repairs -/
def describeOld (f : MField) : Option Unit := describeWith axesOld f

/-! ## Part 2 — creation commands and their interpreter -/

inductive Cmd
  | newField (dom : Bool)          -- `field = cfdm.Field()` / `domain = cfdm.Domain()`
  | fNcVar (v : String)            -- `field.nc_set_variable(v)`
  | fSetData (shape : List Nat)    -- `data = cfdm.Data(…)`; `field.set_data(data)`
  | newAxis                        -- `c = cfdm.DomainAxis()`
  | aSetSize (n : Nat)
  | aNcDim (v : String)
  | newCon (t : CType)             -- `c = cfdm.<Class>()`
  | cNcVar (v : String)
  | cSetData (shape : List Nat)
  | newBounds                      -- `b = cfdm.Bounds()`
  | bNcVar (v : String)
  | bSetData
  | cSetBounds                     -- `c.set_bounds(b)`
  | newCM                          -- `c = cfdm.CellMethod()`
  | mSetMethod (m : String)
  | mSetAxes (l : List String)
  | newRef                         -- `c = cfdm.CoordinateReference()`
  | rNcVar (v : String)
  | rSetCoords (l : List String)
  | rSetAncils (l : List (String × Option String))
  | setAxis (key : Nat)            -- `field.set_construct(c, key='domainaxis<key>', copy=False)`
  | setCon (key : Key) (axes : Option (List Nat))  -- `field.set_construct(c, axes=…, key=…, copy=False)`
  | setCM                          -- `field.set_construct(c)`
  | setRef                         -- `field.set_construct(c)`
  | setDataAxes (l : List Nat)     -- `field.set_data_axes(…)`
  deriving DecidableEq, Repr

def optCmd {α} (o : Option α) (f : α → Cmd) : List Cmd :=
  match o with
  | some a => [f a]
  | none => []

/-- `DomainAxis.creation_commands` + `set_construct(c, key=…)` -/
def axisBlock (p : Nat × Axis) : List Cmd :=
  [Cmd.newAxis] ++ optCmd p.2.size Cmd.aSetSize ++ optCmd p.2.ncdim Cmd.aNcDim ++ [Cmd.setAxis p.1]

def boundsCmds (b : Bnd) : List Cmd :=
  [Cmd.newBounds] ++ optCmd b.ncvar Cmd.bNcVar ++ (if b.hasData then [Cmd.bSetData] else []) ++ [Cmd.cSetBounds]

/-- `Properties` → `PropertiesData` → `PropertiesDataBounds.creation_commands` -/
def conCmds (t : CType) (c : Con) : List Cmd :=
  [Cmd.newCon t] ++ optCmd c.ncvar Cmd.cNcVar ++ optCmd c.shape Cmd.cSetData ++
    (match c.bounds with
     | some b => boundsCmds b
     | none => [])

/-- /repo HEAD (repair fabc4b1): `axes={self.get_data_axes(key, default=None)}` -/
def conBlock (e : Entry) : List Cmd := conCmds e.key.t e.con ++ [Cmd.setCon e.key e.axes]

def cmBlock (p : Nat × CM) : List Cmd :=
  [Cmd.newCM] ++ optCmd p.2.method Cmd.mSetMethod ++ optCmd p.2.axes Cmd.mSetAxes ++ [Cmd.setCM]

def refBlock (p : Nat × Ref) : List Cmd :=
  [Cmd.newRef] ++ optCmd p.2.ncvar Cmd.rNcVar ++
    (if p.2.coords.isEmpty then [] else [Cmd.rSetCoords p.2.coords]) ++
    (if p.2.ancils.isEmpty then [] else [Cmd.rSetAncils p.2.ancils]) ++ [Cmd.setRef]

/-- The array constructs in the order in which `Domain.creation_commands` meets them:
type by type (`order` = the iteration order of the `_constructs` dictionary, which is
derived from a Python *set* and so is not fixed), dictionary order within a type. -/
def domainCons (order : List CType) (f : MField) : List Entry :=
  (order.filter (fun t => t ≠ CType.fan)).flatMap (fun t => f.ofType t)

def headerCmds (f : MField) : List Cmd :=
  [Cmd.newField f.isDomain] ++ optCmd f.ncvar Cmd.fNcVar ++
    (if f.isDomain then [] else optCmd f.data Cmd.fSetData)

def domainCmds (order : List CType) (f : MField) : List Cmd :=
  f.axes.flatMap axisBlock ++ (domainCons order f).flatMap conBlock ++ f.refs.flatMap refBlock

def fieldCmds (f : MField) : List Cmd :=
  if f.isDomain then [] else
    (f.ofType .fan).flatMap conBlock ++ f.cms.flatMap cmBlock ++ optCmd f.dataAxes Cmd.setDataAxes

/-- `Field.creation_commands` / `Domain.creation_commands` at /repo HEAD. -/
def creationCommands (order : List CType) (f : MField) : List Cmd :=
  headerCmds f ++ (domainCmds order f ++ fieldCmds f)

/-- The code before repair fabc4b1: `self.get_data_axes(key)` raised `ValueError` for a construct
without data axes. -/
def creationCommandsOld (order : List CType) (f : MField) : Option (List Cmd) :=
  if f.cons.all (fun e => e.axes.isSome) then some (creationCommands order f) else none

/-! ### interpreter -/

inductive Reg
  | empty
  | axis (a : Axis)
  | con (t : CType) (c : Con)
  | cm (m : CM)
  | ref (r : Ref)
  deriving DecidableEq, Repr

structure XS where
  f : MField
  c : Reg
  b : Option Bnd
  deriving DecidableEq, Repr

/-- `Constructs.new_identifier`: start at `len(keys)` and count up while taken. -/
def newIdGo (ks : List Nat) : Nat → Nat → Nat
  | 0, n => n
  | fuel + 1, n => if ks.contains n then newIdGo ks fuel (n + 1) else n

def newId (ks : List Nat) : Nat := newIdGo ks (ks.length + 1) ks.length

def sizeOf (axes : List (Nat × Axis)) (a : Nat) : Option Nat :=
  match axes.lookup a with
  | some ax => ax.size
  | none => none

/-- `axes_shape`: every axis must exist and have a size -/
def sizesOf (axes : List (Nat × Axis)) : List Nat → Option (List Nat)
  | [] => some []
  | a :: l =>
    match sizeOf axes a, sizesOf axes l with
    | some n, some s => some (n :: s)
    | _, _ => none

/-- dictionary assignment `d[k] = v` -/
def insertAxis (k : Nat) (a : Axis) : List (Nat × Axis) → List (Nat × Axis)
  | [] => [(k, a)]
  | p :: l => if p.1 = k then (k, a) :: l else p :: insertAxis k a l

def insertEntry (e : Entry) : List Entry → List Entry
  | [] => [e]
  | p :: l => if p.key = e.key then e :: l else p :: insertEntry e l

def emptyField (dom : Bool) : MField :=
  { isDomain := dom, ncvar := none, data := none, dataAxes := none, axes := [], cons := [], cms := [], refs := [] }

/-- `_set_construct_data_axes`: the axes exist, have sizes, and match the construct's shape -/
def axesOk (dax : List (Nat × Axis)) (shape : Option (List Nat)) (axes : Option (List Nat)) : Bool :=
  match axes with
  | none => true
  | some l =>
    match sizesOf dax l with
    | none => false
    | some s =>
      match shape with
      | none => true
      | some sh => sh = s

def step (s : XS) : Cmd → Option XS
  | .newField _ => none
  | .fNcVar v => some { s with f := { s.f with ncvar := some v } }
  | .fSetData shape =>
    if s.f.isDomain then none else
    match s.f.dataAxes with
    | none => some { s with f := { s.f with data := some shape } }
    | some l => if sizesOf s.f.axes l = some shape then some { s with f := { s.f with data := some shape } } else none
  | .newAxis => some { s with c := .axis ⟨none, none⟩ }
  | .aSetSize n =>
    match s.c with
    | .axis a => some { s with c := .axis { a with size := some n } }
    | _ => none
  | .aNcDim v =>
    match s.c with
    | .axis a => some { s with c := .axis { a with ncdim := some v } }
    | _ => none
  | .newCon t => some { s with c := .con t ⟨none, none, none⟩ }
  | .cNcVar v =>
    match s.c with
    | .con t c => some { s with c := .con t { c with ncvar := some v } }
    | _ => none
  | .cSetData shape =>
    match s.c with
    | .con t c => some { s with c := .con t { c with shape := some shape } }
    | _ => none
  | .newBounds => some { s with b := some ⟨false, none⟩ }
  | .bNcVar v =>
    match s.b with
    | some b => some { s with b := some { b with ncvar := some v } }
    | none => none
  | .bSetData =>
    match s.b with
    | some b => some { s with b := some { b with hasData := true } }
    | none => none
  | .cSetBounds =>
    match s.c, s.b with
    | .con t c, some b => some { s with c := .con t { c with bounds := some b } }
    | _, _ => none
  | .newCM => some { s with c := .cm ⟨none, none⟩ }
  | .mSetMethod m =>
    match s.c with
    | .cm x => some { s with c := .cm { x with method := some m } }
    | _ => none
  | .mSetAxes l =>
    match s.c with
    | .cm x => some { s with c := .cm { x with axes := some l } }
    | _ => none
  | .newRef => some { s with c := .ref ⟨none, [], []⟩ }
  | .rNcVar v =>
    match s.c with
    | .ref r => some { s with c := .ref { r with ncvar := some v } }
    | _ => none
  | .rSetCoords l =>
    match s.c with
    | .ref r => some { s with c := .ref { r with coords := l } }
    | _ => none
  | .rSetAncils l =>
    match s.c with
    | .ref r => some { s with c := .ref { r with ancils := l } }
    | _ => none
  | .setAxis k =>
    match s.c with
    | .axis a => some { s with f := { s.f with axes := insertAxis k a s.f.axes } }
    | _ => none
  | .setCon key axes =>
    match s.c with
    | .con t c =>
      if key.t ≠ t then none
      else if s.f.isDomain && decide (t = CType.fan) then none
      else if axesOk s.f.axes c.shape axes then
        some { s with f := { s.f with cons := insertEntry ⟨key, c, axes⟩ s.f.cons } }
      else none
    | _ => none
  | .setCM =>
    match s.c with
    | .cm m =>
      if s.f.isDomain then none
      else some { s with f := { s.f with cms := s.f.cms ++ [(newId (s.f.cms.map (·.1)), m)] } }
    | _ => none
  | .setRef =>
    match s.c with
    | .ref r => some { s with f := { s.f with refs := s.f.refs ++ [(newId (s.f.refs.map (·.1)), r)] } }
    | _ => none
  | .setDataAxes l =>
    if s.f.isDomain then none else
    match s.f.data with
    | none => some { s with f := { s.f with dataAxes := some l } }
    | some shp => if sizesOf s.f.axes l = some shp then some { s with f := { s.f with dataAxes := some l } } else none

def run (s : XS) : List Cmd → Option XS
  | [] => some s
  | c :: cs => match step s c with
    | some s' => run s' cs
    | none => none

/-- Execute the emitted text in a fresh namespace. -/
def exec : List Cmd → Option MField
  | .newField d :: rest => (run ⟨emptyField d, .empty, none⟩ rest).map (·.f)
  | _ => none

/-! ### well-formedness (the C02 invariant, restricted to what the round trip needs) -/

def nodupNat : List Nat → Bool
  | [] => true
  | a :: l => !l.contains a && nodupNat l

def nodupKey : List Key → Bool
  | [] => true
  | a :: l => !l.contains a && nodupKey l

def entryOk (f : MField) (e : Entry) : Bool := axesOk f.axes e.con.shape e.axes

def wf (f : MField) : Bool :=
  nodupNat f.axisKeys && nodupKey (f.cons.map (·.key)) && f.cons.all (entryOk f) &&
  (match f.dataAxes, f.data with
   | some l, some shp => sizesOf f.axes l = some shp
   | _, _ => true) &&
  (!f.isDomain || (f.data.isNone && f.dataAxes.isNone && f.cms.isEmpty && f.cons.all (fun e => e.key.t ≠ CType.fan)))

end Cfdm.Describe
