import Cfdm.Lemmas.MaskApply
/-
Helper lemmas for C07: `Data.apply_masking` called directly, on data that may already
hold masked elements, with scalar criteria, is an elementwise map.
-/
namespace Cfdm.Mask

def scalarAttr (v : V) : AttrVal := .vals v []

/-- The accumulated mask of `Data.apply_masking` on an array with masked elements. -/
def OInv (arr : List (Option V)) (mask : Except String (Option MaskArr)) (g : Option V → Bool) : Prop :=
  ∃ k, mask = .ok k ∧ k.getD (List.replicate arr.length false) = arr.map g

theorem zipWith_or_map' {α} (l : List α) (f g : α → Bool) :
    List.zipWith (· || ·) (l.map f) (l.map g) = l.map (fun d => f d || g d) := by
  induction l with
  | nil => rfl
  | cons x xs ih => simp [ih]

theorem replicate_eq_map_false {α} {l : List α} {f : α → Bool}
    (h : List.replicate l.length false = l.map f) : ∀ d ∈ l, f d = false := by
  intro d hd
  have := congrArg (fun l => l.all (fun b => b == false)) h
  simp at this
  exact this d hd

theorem OInv_none (arr : List (Option V)) : OInv arr (.ok none) (fun _ => false) := by
  refine ⟨none, rfl, ?_⟩
  simp only [Option.getD_none]
  induction arr with
  | nil => rfl
  | cons x xs ih => simp [List.replicate_succ, ih]

theorem cmpWith_scalar' (f : V → V → Bool) (ord : Bool) (hd : V) (arr : List (Option V)) :
    cmpWith f ord (scalarAttr hd) arr
      = .ok (arr.map (fun o => match o with | some d => f d hd | none => false)) := rfl

theorem OInv_addCrit {arr : List (Option V)} {mask : Except String (Option MaskArr)} {g : Option V → Bool}
    (f : V → V → Bool) (ord : Bool) (hd : V) (h : OInv arr mask g) :
    OInv arr (addCrit mask (cmpWith f ord (scalarAttr hd) arr))
      (fun o => g o || (match o with | some d => f d hd | none => false)) := by
  obtain ⟨k, rfl, hk⟩ := h
  rw [cmpWith_scalar']
  cases k with
  | none =>
    simp only [Option.getD_none] at hk
    have hf := replicate_eq_map_false hk
    refine ⟨_, rfl, ?_⟩
    simp only [orOpt, Option.getD_some]
    apply List.map_congr_left
    intro o ho
    simp [hf o ho]
  | some m =>
    simp only [Option.getD_some] at hk
    subst hk
    refine ⟨_, rfl, ?_⟩
    simp only [orOpt, orMask, Option.getD_some, zipWith_or_map']

theorem OInv_congr {arr : List (Option V)} {mask : Except String (Option MaskArr)} {f g : Option V → Bool}
    (h : OInv arr mask f) (hfg : ∀ d, f d = g d) : OInv arr mask g := by
  have : f = g := funext hfg
  exact this ▸ h

theorem OInv_foldl (arr : List (Option V)) (feq : V → V → Bool) (fills : List V) :
    ∀ (mask : Except String (Option MaskArr)) (g : Option V → Bool), OInv arr mask g →
    OInv arr ((fills.map scalarAttr).foldl (fun mask fv => addCrit mask (cmpWith feq false fv arr)) mask)
      (fun o => g o || (match o with | some d => fills.any (fun m => feq d m) | none => false)) := by
  induction fills with
  | nil => intro mask g h; exact OInv_congr h (by intro d; cases d <;> simp)
  | cons m ms ih =>
    intro mask g h
    simp only [List.map_cons, List.foldl_cons]
    exact OInv_congr (ih _ _ (OInv_addCrit feq false m h))
      (by intro d; cases d <;> simp [Bool.or_assoc])

theorem finish_of_OInv {arr : List (Option V)} {mask : Except String (Option MaskArr)} {g : Option V → Bool}
    (h : OInv arr mask g) :
    finishMask mask arr = .ok (arr.map (fun o => if g o then none else o)) := by
  obtain ⟨k, rfl, hk⟩ := h
  unfold finishMask
  cases k with
  | none =>
    simp only [Option.getD_none] at hk
    have hf := replicate_eq_map_false hk
    simp only [Except.ok.injEq]
    symm
    calc arr.map (fun o => if g o then none else o) = arr.map id := by
          apply List.map_congr_left
          intro o ho
          simp [hf o ho]
      _ = arr := List.map_id arr
  | some m =>
    simp only [Option.getD_some] at hk
    subst hk
    simp only [Except.ok.injEq]
    induction arr with
    | nil => rfl
    | cons x xs ih => simp [ih]

/-- The Boolean form of the per-element criterion. -/
def critB (fills : List V) (vmin vmax : Option V) (o : Option V) : Bool :=
  match o with
  | none => false
  | some d => fills.any (fun m => fillEq d m) || (vmin.map (fun lo => V.lt d lo)).getD false
      || (vmax.map (fun hi => V.gt d hi)).getD false

/-- `Data.apply_masking` with scalar criteria is an elementwise map, whatever is already masked. -/
theorem dataApplyCore_elementwise (fills : List V) (vmin vmax : Option V) (arr : List (Option V)) :
    dataApplyCore fillEq (fills.map scalarAttr) (vmin.map scalarAttr) (vmax.map scalarAttr) arr
      = .ok (arr.map (fun o => if critB fills vmin vmax o then none else o)) := by
  have h0 := OInv_none arr
  have h1 := OInv_foldl arr fillEq fills _ _ h0
  unfold dataApplyCore
  cases vmin with
  | none =>
    cases vmax with
    | none =>
      simp only [Option.map_none]
      rw [finish_of_OInv h1]
      simp only [Except.ok.injEq]
      apply List.map_congr_left
      intro o _; cases o <;> simp [critB]
    | some hi =>
      simp only [Option.map_none, Option.map_some]
      rw [finish_of_OInv (OInv_addCrit V.gt true hi h1)]
      simp only [Except.ok.injEq]
      apply List.map_congr_left
      intro o _; cases o <;> simp [critB]
  | some lo =>
    cases vmax with
    | none =>
      simp only [Option.map_none, Option.map_some]
      rw [finish_of_OInv (OInv_addCrit V.lt true lo h1)]
      simp only [Except.ok.injEq]
      apply List.map_congr_left
      intro o _; cases o <;> simp [critB]
    | some hi =>
      simp only [Option.map_some]
      rw [finish_of_OInv (OInv_addCrit V.gt true hi (OInv_addCrit V.lt true lo h1))]
      simp only [Except.ok.injEq]
      apply List.map_congr_left
      intro o _; cases o <;> simp [critB, Bool.or_assoc]

/-- The Boolean criterion is the specification's. -/
theorem critB_spec (fills : List V) (vmin vmax : Option V) (o : Option V) :
    (if critB fills vmin vmax o then none else o) = specApplyElem fills vmin vmax o := by
  cases o with
  | none => simp [critB, specApplyElem]
  | some d =>
    have e : critB fills vmin vmax (some d) = true
        ↔ ((∃ m ∈ fills, matchFill m d = true) ∨ (∃ lo, vmin = some lo ∧ V.lt d lo = true)
          ∨ (∃ hi, vmax = some hi ∧ V.gt d hi = true)) := by
      simp only [critB, fillEq]
      cases vmin <;> cases vmax <;> simp [or_assoc]
    cases hc : critB fills vmin vmax (some d) with
    | true =>
      have hp := e.mp hc
      simp only [specApplyElem, if_true]
      rw [if_pos hp]
    | false =>
      have hp : ¬ ((∃ m ∈ fills, matchFill m d = true) ∨ (∃ lo, vmin = some lo ∧ V.lt d lo = true)
          ∨ (∃ hi, vmax = some hi ∧ V.gt d hi = true)) := by
        intro hp
        rw [e.mpr hp] at hc
        cases hc
      simp only [specApplyElem, Bool.false_eq_true, if_false]
      rw [if_neg hp]

end Cfdm.Mask
