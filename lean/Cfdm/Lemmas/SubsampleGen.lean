import Cfdm.Lemmas.Subsample
/-
C16 helper lemmas, second part: a generic form of the subarea loop + block
assignment (any block function whose blocks have the length of their `u_indices`
slice), in one and two subsampled dimensions, and its use for the bounds over two
subsampled dimensions (`recon2b`).
-/
namespace Cfdm.Subsample
open Cfdm.Spec.AppendixJ

theorem assembleG_cons {α} (blk : Sub → List α) (s : Sub) (ss : List Sub) (u : List (Option α)) :
    assembleG blk u (s :: ss) = assembleG blk (writeBlock u s.uStart (blk s)) ss := rfl

theorem assembleG_length {α} (blk : Sub → List α) (ss : List Sub) (u : List (Option α)) :
    (assembleG blk u ss).length = u.length := by
  induction ss generalizing u with
  | nil => rfl
  | cons s ss ih => rw [assembleG_cons, ih, writeBlock_length]

theorem assemble1_eq (F : Method) (tp : List Rat) (u : List (Option Rat)) (ss : List Sub) :
    assemble1 F tp u ss = assembleG (block1 F tp) u ss := rfl

theorem assemble1b_eq (F : Method) (tp : List Rat) (u : List (Option (List Rat))) (ss : List Sub) :
    assemble1b F tp u ss = assembleG (block1b F tp) u ss := rfl

theorem mkSub_uStart (i : Nat) (first : Bool) (j a b : Nat) :
    (mkSub i first j a b).uStart = lowVertex first a := rfl

/-- The invariant of the subarea loop for ANY block function whose block for the
pair `(a, b)` has the length of its `u_indices` slice: positions before the current
pair are left alone, and position `p` of the subarea between tie points `k`, `k + 1`
holds element `p - uStart` of that subarea's block. -/
theorem assembleG_get {α} (blk : Sub → List α)
    (hlen : ∀ i first j a b, a + 2 ≤ b →
      (blk (mkSub i first j a b)).length = b + 1 - lowVertex first a) :
    ∀ (t : List Nat) (i : Nat) (first : Bool) (j : Nat) (u : List (Option α)),
      t.Pairwise (· < ·) → (∀ x ∈ t, x < u.length) →
      (∀ p, (∀ a, t.head? = some a → p < lowVertex first a) →
        (assembleG blk u (subsGo i first j t))[p]? = u[p]?) ∧
      (∀ k a b, t[k]? = some a → t[k + 1]? = some b → a + 2 ≤ b →
        ∀ p, lowVertex (startAt first t k) a ≤ p → p ≤ b →
        (assembleG blk u (subsGo i first j t))[p]? =
          ((blk (mkSub (i + k) (startAt first t k) (j + subareaIndex t k) a b))[
            p - lowVertex (startAt first t k) a]?).map some) := by
  intro t
  induction t with
  | nil =>
    intro i first j u _ _
    refine ⟨fun p _ => by simp [subsGo, assembleG], fun k a b h => by simp at h⟩
  | cons a t ih =>
    cases t with
    | nil =>
      intro i first j u _ _
      refine ⟨fun p _ => by simp [subsGo, assembleG], fun k a' b _ h => by simp at h⟩
    | cons b rest =>
      intro i first j u hinc hlt
      have hab : a < b := List.rel_of_pairwise_cons hinc (List.mem_cons_self)
      have hinc' : (b :: rest).Pairwise (· < ·) := (List.pairwise_cons.mp hinc).2
      have hlt' : ∀ x ∈ b :: rest, x < u.length := fun x hx => hlt x (List.mem_cons_of_mem _ hx)
      by_cases hgap : b - a ≤ 1
      · rw [subsGo_skip _ _ _ _ _ _ hgap]
        obtain ⟨ih1, ih2⟩ := ih (i + 1) true j u hinc' hlt'
        refine ⟨fun p hp => ?_, fun k a' b' ha' hb' hg p h1 h2 => ?_⟩
        · apply ih1
          intro a'' ha''
          simp only [List.head?_cons, Option.some.injEq] at ha''
          subst ha''
          have := hp a (by simp)
          simp only [lowVertex, if_true] at this ⊢
          split at this <;> omega
        · cases k with
          | zero =>
            simp only [List.getElem?_cons_zero, Option.some.injEq, Nat.zero_add,
              List.getElem?_cons_succ] at ha' hb'
            omega
          | succ k =>
            simp only [List.getElem?_cons_succ] at ha' hb'
            rw [startAt_cons] at h1 ⊢
            simp only [hgap, decide_true] at h1 ⊢
            have := ih2 k a' b' ha' hb' hg p h1 h2
            rw [this]
            simp only [subareaIndex, hgap, if_true, Nat.zero_add]
            rw [show i + 1 + k = i + (k + 1) by omega]
      · rw [subsGo_emit _ _ _ _ _ _ hgap, assembleG_cons]
        have hab2 : a + 2 ≤ b := by omega
        have hblen := hlen i first j a b hab2
        have hustart : (mkSub i first j a b).uStart = lowVertex first a := rfl
        have hb_lt : b < u.length := hlt b (by simp)
        have hlv : lowVertex first a ≤ b := by simp only [lowVertex]; split <;> omega
        obtain ⟨ih1, ih2⟩ := ih (i + 1) false (j + 1)
          (writeBlock u (mkSub i first j a b).uStart (blk (mkSub i first j a b))) hinc'
          (by intro x hx; rw [writeBlock_length]; exact hlt' x hx)
        refine ⟨fun p hp => ?_, fun k a' b' ha' hb' hg p h1 h2 => ?_⟩
        · have hp' := hp a (by simp)
          rw [ih1 p (by
            intro a'' ha''
            simp only [List.head?_cons, Option.some.injEq] at ha''
            subst ha''
            simp only [lowVertex, Bool.false_eq_true, if_false]
            omega)]
          apply writeBlock_get_out
          left
          rw [hustart]
          exact hp'
        · cases k with
          | zero =>
            simp only [List.getElem?_cons_zero, Option.some.injEq, Nat.zero_add,
              List.getElem?_cons_succ] at ha' hb'
            subst ha' hb'
            simp only [startAt] at h1 ⊢
            rw [ih1 p (by
              intro a'' ha''
              simp only [List.head?_cons, Option.some.injEq] at ha''
              subst ha''
              simp only [lowVertex, Bool.false_eq_true, if_false]
              omega)]
            rw [hustart, writeBlock_get_in _ _ _ _ h1 (by rw [hblen]; omega) (by omega)]
            simp [subareaIndex]
          | succ k =>
            simp only [List.getElem?_cons_succ] at ha' hb'
            rw [startAt_cons] at h1 ⊢
            simp only [hgap, decide_false] at h1 ⊢
            have := ih2 k a' b' ha' hb' hg p h1 h2
            rw [this]
            simp only [subareaIndex, hgap, if_false]
            rw [show j + 1 + subareaIndex (b :: rest) k = j + (1 + subareaIndex (b :: rest) k) by omega,
              show i + 1 + k = i + (k + 1) by omega]

/-! ### two subsampled dimensions, generic blocks -/

theorem recon2_eq (n0 n1 : Nat) (t0 t1 : List Nat) (tp : List (List Rat)) :
    recon2 n0 n1 t0 t1 tp =
      assemble2G (block2 tp) (List.replicate n0 (List.replicate n1 none)) (subs t0) (subs t1) := rfl

theorem recon2b_eq (n0 n1 : Nat) (t0 t1 : List Nat) (tp : List (List Rat)) :
    recon2b n0 n1 t0 t1 tp =
      assemble2G (block2b tp) (List.replicate n0 (List.replicate n1 none)) (subs t0) (subs t1) := rfl

theorem innerG_length {α} (blk2 : Sub → Sub → List (List α)) (s0 : Sub) (ss1 : List Sub)
    (u : List (List (Option α))) :
    (ss1.foldl (fun u s1 => writeBlock2 u s0.uStart s1.uStart (blk2 s0 s1)) u).length = u.length := by
  induction ss1 generalizing u with
  | nil => rfl
  | cons s1 ss1 ih =>
    simp only [List.foldl_cons]
    rw [ih, writeBlock2_length]

/-- The inner loop for one subarea `s0` of the first dimension whose blocks all have
`L` rows, row `q` of the block for `s1` being `R q s1`: rows outside the block range are
left alone, row `uStart + q` becomes the 1-d assembly of the rows `R q ·`. -/
theorem innerG_get {α} (blk2 : Sub → Sub → List (List α)) (s0 : Sub) (L : Nat)
    (R : Nat → Sub → List α) (ss1 : List Sub)
    (hL : ∀ s1 ∈ ss1, (blk2 s0 s1).length = L)
    (hR : ∀ s1 ∈ ss1, ∀ q, q < L → (blk2 s0 s1)[q]? = some (R q s1))
    (u : List (List (Option α))) (p : Nat) :
    (p < s0.uStart ∨ s0.uStart + L ≤ p →
      (ss1.foldl (fun u s1 => writeBlock2 u s0.uStart s1.uStart (blk2 s0 s1)) u)[p]? = u[p]?) ∧
    (∀ row, s0.uStart ≤ p → p < s0.uStart + L → u[p]? = some row →
      (ss1.foldl (fun u s1 => writeBlock2 u s0.uStart s1.uStart (blk2 s0 s1)) u)[p]? =
        some (assembleG (R (p - s0.uStart)) row ss1)) := by
  induction ss1 generalizing u with
  | nil => exact ⟨fun _ => rfl, fun row _ _ h => by simpa [assembleG] using h⟩
  | cons s1 ss1 ih =>
    have hL1 := hL s1 (by simp)
    have hR1 := hR s1 (by simp)
    obtain ⟨ih1, ih2⟩ := ih (fun s hs => hL s (by simp [hs])) (fun s hs => hR s (by simp [hs]))
      (writeBlock2 u s0.uStart s1.uStart (blk2 s0 s1))
    simp only [List.foldl_cons]
    constructor
    · intro h
      rw [ih1 h]
      exact writeBlock2_get_out _ _ _ _ _ (by rw [hL1]; exact h)
    · intro row h1 h2 hrow
      rw [ih2 (writeBlock row s1.uStart (R (p - s0.uStart) s1)) h1 h2
        (writeBlock2_get_in _ _ _ _ _ h1 row hrow _ (hR1 _ (by omega)))]
      rfl

/-- The outer loop, generic blocks with disjoint row ranges (`uStart = lowVertex`):
row `p` of the subarea between tie points `k`, `k + 1` of the first dimension is the
1-d assembly, along the second dimension, of row `p - uStart` of that subarea's blocks. -/
theorem assemble2G_get {α} (blk2 : Sub → Sub → List (List α)) (R : Sub → Nat → Sub → List α)
    (ss1 : List Sub)
    (hL : ∀ i first j a b, a + 2 ≤ b → ∀ s1 ∈ ss1,
      (blk2 (mkSub i first j a b) s1).length = b + 1 - lowVertex first a)
    (hR : ∀ i first j a b, a + 2 ≤ b → ∀ s1 ∈ ss1, ∀ q, q < b + 1 - lowVertex first a →
      (blk2 (mkSub i first j a b) s1)[q]? = some (R (mkSub i first j a b) q s1))
    (row0 : List (Option α)) :
    ∀ (t : List Nat) (i : Nat) (first : Bool) (j : Nat) (u : List (List (Option α))),
      t.Pairwise (· < ·) → (∀ x ∈ t, x < u.length) →
      (∀ p a, t.head? = some a → lowVertex first a ≤ p → p < u.length → u[p]? = some row0) →
      (∀ p, (∀ a, t.head? = some a → p < lowVertex first a) →
        (assemble2G blk2 u (subsGo i first j t) ss1)[p]? = u[p]?) ∧
      (∀ k a b, t[k]? = some a → t[k + 1]? = some b → a + 2 ≤ b →
        ∀ p, lowVertex (startAt first t k) a ≤ p → p ≤ b →
        (assemble2G blk2 u (subsGo i first j t) ss1)[p]? =
          some (assembleG
            (R (mkSub (i + k) (startAt first t k) (j + subareaIndex t k) a b)
              (p - lowVertex (startAt first t k) a)) row0 ss1)) := by
  intro t
  induction t with
  | nil =>
    intro i first j u _ _ _
    refine ⟨fun p _ => by simp [subsGo, assemble2G], fun k a b h => by simp at h⟩
  | cons a t ih =>
    cases t with
    | nil =>
      intro i first j u _ _ _
      refine ⟨fun p _ => by simp [subsGo, assemble2G], fun k a' b _ h => by simp at h⟩
    | cons b rest =>
      intro i first j u hinc hlt hrow0
      have hab : a < b := List.rel_of_pairwise_cons hinc (List.mem_cons_self)
      have hinc' : (b :: rest).Pairwise (· < ·) := (List.pairwise_cons.mp hinc).2
      have hlt' : ∀ x ∈ b :: rest, x < u.length := fun x hx => hlt x (List.mem_cons_of_mem _ hx)
      by_cases hgap : b - a ≤ 1
      · rw [subsGo_skip _ _ _ _ _ _ hgap]
        obtain ⟨ih1, ih2⟩ := ih (i + 1) true j u hinc' hlt' (by
          intro p a'' ha'' hp hpl
          simp only [List.head?_cons, Option.some.injEq] at ha''
          subst ha''
          simp only [lowVertex, if_true] at hp
          exact hrow0 p a (by simp) (by simp only [lowVertex]; split <;> omega) hpl)
        refine ⟨fun p hp => ?_, fun k a' b' ha' hb' hg p h1 h2 => ?_⟩
        · apply ih1
          intro a'' ha''
          simp only [List.head?_cons, Option.some.injEq] at ha''
          subst ha''
          have := hp a (by simp)
          simp only [lowVertex, if_true] at this ⊢
          split at this <;> omega
        · cases k with
          | zero =>
            simp only [List.getElem?_cons_zero, Option.some.injEq, Nat.zero_add,
              List.getElem?_cons_succ] at ha' hb'
            omega
          | succ k =>
            simp only [List.getElem?_cons_succ] at ha' hb'
            rw [startAt_cons] at h1 ⊢
            simp only [hgap, decide_true] at h1 ⊢
            have := ih2 k a' b' ha' hb' hg p h1 h2
            rw [this]
            simp only [subareaIndex, hgap, if_true, Nat.zero_add]
            rw [show i + 1 + k = i + (k + 1) by omega]
      · rw [subsGo_emit _ _ _ _ _ _ hgap]
        have hab2 : a + 2 ≤ b := by omega
        have hustart : (mkSub i first j a b).uStart = lowVertex first a := rfl
        have hb_lt : b < u.length := hlt b (by simp)
        have hlv : lowVertex first a ≤ b := by simp only [lowVertex]; split <;> omega
        have hfold : assemble2G blk2 u (mkSub i first j a b :: subsGo (i + 1) false (j + 1) (b :: rest)) ss1 =
            assemble2G blk2
              (ss1.foldl (fun u s1 => writeBlock2 u (mkSub i first j a b).uStart s1.uStart
                (blk2 (mkSub i first j a b) s1)) u)
              (subsGo (i + 1) false (j + 1) (b :: rest)) ss1 := rfl
        rw [hfold]
        obtain ⟨in1, in2⟩ : (∀ p, (p < (mkSub i first j a b).uStart ∨
              (mkSub i first j a b).uStart + (b + 1 - lowVertex first a) ≤ p →
            (ss1.foldl (fun u s1 => writeBlock2 u (mkSub i first j a b).uStart s1.uStart
              (blk2 (mkSub i first j a b) s1)) u)[p]? = u[p]?)) ∧
            (∀ p row, (mkSub i first j a b).uStart ≤ p →
              p < (mkSub i first j a b).uStart + (b + 1 - lowVertex first a) →
              u[p]? = some row →
              (ss1.foldl (fun u s1 => writeBlock2 u (mkSub i first j a b).uStart s1.uStart
                (blk2 (mkSub i first j a b) s1)) u)[p]? =
              some (assembleG (R (mkSub i first j a b) (p - (mkSub i first j a b).uStart)) row ss1)) :=
          ⟨fun p => (innerG_get blk2 _ _ (R (mkSub i first j a b)) ss1
              (hL i first j a b hab2) (hR i first j a b hab2) u p).1,
           fun p => (innerG_get blk2 _ _ (R (mkSub i first j a b)) ss1
              (hL i first j a b hab2) (hR i first j a b hab2) u p).2⟩
        generalize hu' : (ss1.foldl (fun u s1 => writeBlock2 u (mkSub i first j a b).uStart s1.uStart
              (blk2 (mkSub i first j a b) s1)) u) = u' at in1 in2
        have hlen' : u'.length = u.length := by
          rw [← hu']; exact innerG_length blk2 _ ss1 u
        obtain ⟨ih1, ih2⟩ := ih (i + 1) false (j + 1) u' hinc'
          (by intro x hx; rw [hlen']; exact hlt' x hx)
          (by
            intro p a'' ha'' hp hpl
            simp only [List.head?_cons, Option.some.injEq] at ha''
            subst ha''
            simp only [lowVertex, Bool.false_eq_true, if_false] at hp
            rw [in1 p (Or.inr (by rw [hustart]; omega))]
            exact hrow0 p a (by simp) (by omega) (by rw [← hlen']; exact hpl))
        refine ⟨fun p hp => ?_, fun k a' b' ha' hb' hg p h1 h2 => ?_⟩
        · have hp' := hp a (by simp)
          rw [ih1 p (by
            intro a'' ha''
            simp only [List.head?_cons, Option.some.injEq] at ha''
            subst ha''
            simp only [lowVertex, Bool.false_eq_true, if_false]
            omega)]
          exact in1 p (Or.inl (by rw [hustart]; exact hp'))
        · cases k with
          | zero =>
            simp only [List.getElem?_cons_zero, Option.some.injEq, Nat.zero_add,
              List.getElem?_cons_succ] at ha' hb'
            subst ha' hb'
            simp only [startAt] at h1 ⊢
            rw [ih1 p (by
              intro a'' ha''
              simp only [List.head?_cons, Option.some.injEq] at ha''
              subst ha''
              simp only [lowVertex, Bool.false_eq_true, if_false]
              omega)]
            rw [in2 p row0 (by rw [hustart]; exact h1) (by rw [hustart]; omega)
              (hrow0 p a (by simp) h1 (by omega))]
            simp [subareaIndex, hustart]
          | succ k =>
            simp only [List.getElem?_cons_succ] at ha' hb'
            rw [startAt_cons] at h1 ⊢
            simp only [hgap, decide_false] at h1 ⊢
            have := ih2 k a' b' ha' hb' hg p h1 h2
            rw [this]
            simp only [subareaIndex, hgap, if_false]
            rw [show j + 1 + subareaIndex (b :: rest) k = j + (1 + subareaIndex (b :: rest) k) by omega,
              show i + 1 + k = i + (k + 1) by omega]

end Cfdm.Subsample

namespace Cfdm.Subsample
open Cfdm.Spec.AppendixJ

/-! ### bounds over two subsampled dimensions -/

theorem trim_bounds {α} (first : Bool) (u : List α) : trim first true u = u := by
  simp [trim]

theorem trim2_bounds {α} (f0 f1 : Bool) (u : List (List α)) : trim2 f0 f1 true u = u := by
  simp only [trim2, trim_bounds]
  exact List.map_id'' (fun _ => rfl) u

theorem block2b_eq_cells2 (tp : List (List Rat)) (s0 s1 : Sub) :
    block2b tp s0 s1 = cells2 (points2 tp true s0 s1) := by
  simp [block2b, trim2_bounds]

theorem points2_length (tp : List (List Rat)) (s0 s1 : Sub) :
    (points2 tp true s0 s1).length = s0.size + 1 := by
  simp [points2, sPoints, sGrid_length]

/-- Vertex `(q, r)` of the vertex grid of one 2-d interpolation subarea. -/
def vertex2 (tp : List (List Rat)) (s0 s1 : Sub) (q r : Nat) : Rat :=
  bilinear (get2 tp s0.tp s1.tp) (get2 tp s0.tp (s1.tp + 1)) (get2 tp (s0.tp + 1) s1.tp)
    (get2 tp (s0.tp + 1) (s1.tp + 1)) ((q : Rat) / ((s0.size : Nat) : Rat)) ((r : Rat) / ((s1.size : Nat) : Rat))

theorem points2_row (tp : List (List Rat)) (s0 s1 : Sub) (q : Nat) (hq : q < s0.size + 1) :
    (points2 tp true s0 s1)[q]? =
      some ((List.range (s1.size + 1)).map (fun r => vertex2 tp s0 s1 q r)) := by
  simp only [points2, sPoints, Bool.true_or, if_true, List.getElem?_map]
  rw [sGrid_get _ _ hq]
  simp only [Option.map_some, sGrid, List.map_map, Nat.add_sub_cancel]
  rfl

theorem get2_points2 (tp : List (List Rat)) (s0 s1 : Sub) (q r : Nat) (hq : q < s0.size + 1)
    (hr : r < s1.size + 1) :
    get2 (points2 tp true s0 s1) q r = vertex2 tp s0 s1 q r := by
  have h := points2_row tp s0 s1 q hq
  simp only [get2, List.getD_eq_getElem?_getD, h, Option.getD_some, List.getElem?_map,
    List.getElem?_range hr, Option.map_some]

/-- Row `q` of the block of cells of one 2-d interpolation subarea. -/
def cellRow2 (tp : List (List Rat)) (s0 : Sub) (q : Nat) (s1 : Sub) : List (List Rat) :=
  (List.range s1.size).map (fun r =>
    [vertex2 tp s0 s1 q r, vertex2 tp s0 s1 q (r + 1), vertex2 tp s0 s1 (q + 1) (r + 1),
     vertex2 tp s0 s1 (q + 1) r])

theorem block2b_length (tp : List (List Rat)) (s0 s1 : Sub) : (block2b tp s0 s1).length = s0.size := by
  simp [block2b_eq_cells2, cells2, points2_length]

theorem block2b_row (tp : List (List Rat)) (s0 s1 : Sub) (q : Nat) (hq : q < s0.size) :
    (block2b tp s0 s1)[q]? = some (cellRow2 tp s0 q s1) := by
  rw [block2b_eq_cells2]
  simp only [cells2, points2_length, Nat.add_sub_cancel, List.getElem?_map, List.getElem?_range hq,
    Option.map_some, cellRow2]
  congr 1
  have hrow : ((points2 tp true s0 s1).getD q []).length = s1.size + 1 := by
    rw [List.getD_eq_getElem?_getD, points2_row tp s0 s1 q (by omega)]
    simp
  rw [hrow, Nat.add_sub_cancel]
  apply List.map_congr_left
  intro r hr
  simp only [List.mem_range] at hr
  rw [get2_points2 _ _ _ _ _ (by omega) (by omega), get2_points2 _ _ _ _ _ (by omega) (by omega),
    get2_points2 _ _ _ _ _ (by omega) (by omega), get2_points2 _ _ _ _ _ (by omega) (by omega)]

theorem mkSub_size (i : Nat) (first : Bool) (j a b : Nat) (hab : a + 2 ≤ b) :
    (mkSub i first j a b).size = b + 1 - lowVertex first a := by
  cases first <;> simp [mkSub, lowVertex] <;> omega

theorem cellRow2_length (tp : List (List Rat)) (s0 : Sub) (q : Nat) (s1 : Sub) :
    (cellRow2 tp s0 q s1).length = s1.size := by simp [cellRow2]

/-- **Cell `(p0, p1)` of the assembled bounds over two subsampled dimensions**, in terms
of the vertex grid of its interpolation subarea. -/
theorem recon2b_get (t0 t1 : List Nat) (n0 n1 : Nat) (tp : List (List Rat))
    (hinc0 : t0.Pairwise (· < ·)) (hinc1 : t1.Pairwise (· < ·))
    (hn0 : ∀ x ∈ t0, x < n0) (hn1 : ∀ x ∈ t1, x < n1)
    (k0 a0 b0 : Nat) (ha0 : t0[k0]? = some a0) (hb0 : t0[k0 + 1]? = some b0) (hg0 : a0 + 2 ≤ b0)
    (k1 a1 b1 : Nat) (ha1 : t1[k1]? = some a1) (hb1 : t1[k1 + 1]? = some b1) (hg1 : a1 + 2 ≤ b1)
    (p0 : Nat) (h0 : lowVertex (areaStart t0 k0) a0 ≤ p0) (h0' : p0 ≤ b0)
    (p1 : Nat) (h1 : lowVertex (areaStart t1 k1) a1 ≤ p1) (h1' : p1 ≤ b1) :
    ∃ row, (recon2b n0 n1 t0 t1 tp)[p0]? = some row ∧
      row[p1]? = some (some (
        let s0 := mkSub k0 (areaStart t0 k0) (subareaIndex t0 k0) a0 b0
        let s1 := mkSub k1 (areaStart t1 k1) (subareaIndex t1 k1) a1 b1
        let q := p0 - lowVertex (areaStart t0 k0) a0
        let r := p1 - lowVertex (areaStart t1 k1) a1
        [vertex2 tp s0 s1 q r, vertex2 tp s0 s1 q (r + 1), vertex2 tp s0 s1 (q + 1) (r + 1),
         vertex2 tp s0 s1 (q + 1) r])) := by
  have hrow := (assemble2G_get (block2b tp) (cellRow2 tp) (subs t1)
    (by intro i f j a b hab s1 _; rw [block2b_length, mkSub_size _ _ _ _ _ hab])
    (by intro i f j a b hab s1 _ q hq
        exact block2b_row tp _ s1 q (by rw [mkSub_size _ _ _ _ _ hab]; exact hq))
    (List.replicate n1 none) t0 0 true 0 (List.replicate n0 (List.replicate n1 none)) hinc0
    (by simpa using hn0)
    (by
      intro p a _ _ hp
      simp only [List.length_replicate] at hp
      simp [List.getElem?_replicate, hp])).2 k0 a0 b0 ha0 hb0 hg0 p0 h0 h0'
  have hrow' : (recon2b n0 n1 t0 t1 tp)[p0]? = _ := hrow
  refine ⟨_, hrow', ?_⟩
  have hcol := (assembleG_get
    (cellRow2 tp (mkSub (0 + k0) (startAt true t0 k0) (0 + subareaIndex t0 k0) a0 b0)
      (p0 - lowVertex (startAt true t0 k0) a0))
    (by intro i f j a b hab; rw [cellRow2_length, mkSub_size _ _ _ _ _ hab])
    t1 0 true 0 (List.replicate n1 none) hinc1 (by simpa using hn1)).2 k1 a1 b1 ha1 hb1 hg1 p1 h1 h1'
  rw [subs, hcol]
  simp only [Nat.zero_add, areaStart]
  have hr : p1 - lowVertex (startAt true t1 k1) a1 <
      (mkSub k1 (startAt true t1 k1) (subareaIndex t1 k1) a1 b1).size := by
    rw [mkSub_size _ _ _ _ _ hg1]
    unfold areaStart at h1
    omega
  simp only [cellRow2, List.getElem?_map, List.getElem?_range hr, Option.map_some]

end Cfdm.Subsample

namespace Cfdm.Subsample
open Cfdm.Spec.AppendixJ

theorem vertex2_eq_spec (tp : List (List Rat)) (k0 j0 a0 b0 k1 j1 a1 b1 : Nat) (f0 f1 : Bool)
    (hg0 : a0 + 2 ≤ b0) (hg1 : a1 + 2 ≤ b1) (g0 g1 : Nat)
    (h0 : lowVertex f0 a0 ≤ g0) (h1 : lowVertex f1 a1 ≤ g1) :
    vertex2 tp (mkSub k0 f0 j0 a0 b0) (mkSub k1 f1 j1 a1 b1) (g0 - lowVertex f0 a0) (g1 - lowVertex f1 a1) =
      vertexValue (get2 tp k0 k1) (get2 tp k0 (k1 + 1)) (get2 tp (k0 + 1) k1) (get2 tp (k0 + 1) (k1 + 1))
        (lowVertex f0 a0) b0 (lowVertex f1 a1) b1 g0 g1 := by
  have hv0 : lowVertex f0 a0 ≤ b0 + 1 := by simp only [lowVertex]; split <;> omega
  have hv1 : lowVertex f1 a1 ≤ b1 + 1 := by simp only [lowVertex]; split <;> omega
  simp only [vertex2, vertexValue, sParam, mkSub_size _ _ _ _ _ hg0, mkSub_size _ _ _ _ _ hg1]
  rw [Nat.cast_sub h0, Nat.cast_sub h1, Nat.cast_sub hv0, Nat.cast_sub hv1]
  simp only [mkSub, bilinear, linear, fbl]
  ring

end Cfdm.Subsample
