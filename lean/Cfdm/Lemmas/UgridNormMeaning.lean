import Cfdm.Lemmas.UgridNormalise
/- What `_normalise_cell_ids` does to every single row (helper lemmas for C15). -/
namespace Cfdm.Ugrid

/-! ### rows of the intermediate arrays -/

theorem rowVals_mapVals (f : Int → Int) (m : IMat) (k : Nat) :
    rowVals (mapVals f m) k = (rowVals m k).map f := by
  simp only [rowVals, mapVals, List.getD_eq_getElem?_getD, List.getElem?_map]
  cases m[k]? with
  | none => simp [compressed]
  | some r => simp only [Option.map_some, Option.getD_some]; exact compressed_map f r

theorem rowVals_maskIf (p : Int → Bool) (m : IMat) (k : Nat) :
    rowVals (maskIf p m) k = (rowVals m k).filter (fun v => !p v) := by
  simp only [rowVals, maskIf, List.getD_eq_getElem?_getD, List.getElem?_map]
  cases m[k]? with
  | none => simp [compressed]
  | some r => simp only [Option.map_some, Option.getD_some]; exact compressed_maskIf p r

theorem mem_rowVals_sortTails (m : IMat) (k : Nat) (v : Int) :
    v ∈ rowVals (sortTails m) k ↔ v ∈ rowVals m k := by
  simp only [rowVals, sortTails, List.getD_eq_getElem?_getD, List.getElem?_map]
  cases m[k]? with
  | none => simp [compressed]
  | some r => simp only [Option.map_some, Option.getD_some]; exact mem_compressed_sortTail r v

theorem mem_rowVals_clipCore (smallest : Option Int) (largest : Int) (d : IMat) (k : Nat) (v : Int) :
    v ∈ rowVals (clipCore smallest largest d) k ↔ v ∈ rowVals d k ∧ keepB smallest largest v = true := by
  cases smallest with
  | none =>
    simp only [clipCore, rowVals_maskIf, List.mem_filter, keepB, Bool.and_true]
  | some lo =>
    simp only [clipCore, rowVals_maskIf, List.mem_filter, keepB, Bool.and_eq_true]
    constructor
    · rintro ⟨⟨h1, h2⟩, h3⟩; exact ⟨h1, h2, h3⟩
    · rintro ⟨h1, h2, h3⟩; exact ⟨⟨h1, h2⟩, h3⟩

/-- Row by row, `clip` keeps exactly the values in `[smallest, largest]`. -/
theorem mem_rowVals_clip (smallest : Option Int) (largest : Int) (d : IMat) (k : Nat) (v : Int) :
    v ∈ rowVals (clip smallest largest d) k ↔ v ∈ rowVals d k ∧ keepB smallest largest v = true := by
  rcases clip_cases smallest largest d with h | h <;> rw [h]
  · exact mem_rowVals_clipCore _ _ _ _ _
  · rw [mem_rowVals_sortTails]; exact mem_rowVals_clipCore _ _ _ _ _

theorem rowVals_sub_vals {α} (m : List (List (Option α))) (k : Nat) (v : α) (h : v ∈ rowVals m k) :
    v ∈ vals m := by
  simp only [rowVals, List.getD_eq_getElem?_getD] at h
  cases hk : m[k]? with
  | none => rw [hk] at h; simp [compressed] at h
  | some r =>
    rw [hk] at h
    simp only [Option.getD_some] at h
    exact (mem_vals m v).mpr ⟨r, List.mem_of_getElem? hk, (mem_compressed r v).mp h⟩

/-! ### positions in the list of identifiers -/

theorem idxOf_arange (s : Int) (n : Nat) (v : Int) (h1 : s ≤ v) (h2 : v < s + n) :
    (arange s n).idxOf v = (v - s).toNat := by
  have hk : (v - s).toNat < n := by omega
  have hget : (arange s n)[(v - s).toNat]'(by rw [length_arange]; exact hk) = v := by
    simp only [arange, List.getElem_map, List.getElem_range, Int.ofNat_eq_natCast]; omega
  have hnd : (arange s n).Nodup := by
    simp only [arange]
    exact List.Pairwise.map _ (fun a b (hab : a ≠ b) => by
      simp only [Int.ofNat_eq_natCast, ne_eq]; omega) List.nodup_range
  have := List.Nodup.idxOf_getElem hnd (v - s).toNat (by rw [length_arange]; exact hk)
  rw [hget] at this
  exact this

theorem idxOf_arange_not (s : Int) (n : Nat) (v : Int) (h : ¬(s ≤ v ∧ v < s + n)) :
    ¬ (arange s n).idxOf v < (arange s n).length := by
  intro hlt
  have := List.idxOf_lt_length_iff.mp hlt
  exact h ((mem_arange s n v).mp this)

theorem idxOf_map_sub (ids : List Int) (c v : Int) :
    (ids.map (· - c)).idxOf (v - c) = ids.idxOf v := by
  induction ids with
  | nil => rfl
  | cons a t ih =>
    simp only [List.map_cons, List.idxOf_cons]
    by_cases h : a = v
    · subst h; simp
    · have h1 : (a == v) = false := by simpa using h
      have h2 : (a - c == v - c) = false := by
        simp only [beq_eq_false_iff_ne, ne_eq]; omega
      simp [h1, h2, ih]

theorem replSeqVal_not_mem (ids : List Int) (j v : Int) (h : v ∉ ids) : replSeqVal ids j v = v := by
  induction ids generalizing j with
  | nil => rfl
  | cons i is ih =>
    simp only [replSeqVal]
    have h1 : v ≠ i := fun e => h (by simp [e])
    rw [if_neg h1]
    exact ih _ (fun hm => h (List.mem_cons_of_mem _ hm))

/-- The sequential `copyto` loop, seen from one value. -/
theorem replSeqVal_eq (ids : List Int) (j v : Int) (hids : ∀ i ∈ ids, 0 ≤ i) (hnd : ids.Nodup)
    (hj : j + ids.length ≤ 0) :
    replSeqVal ids j v = if ids.idxOf v < ids.length then j + ((ids.idxOf v : Nat) : Int) else v := by
  by_cases hm : v ∈ ids
  · have hlt : ids.idxOf v < ids.length := List.idxOf_lt_length_iff.mpr hm
    rw [if_pos hlt]
    have := replSeqVal_getElem ids j hids hnd hj (ids.idxOf v) hlt
    rwa [List.getElem_idxOf hlt] at this
  · have hlt : ¬ ids.idxOf v < ids.length := fun h => hm (List.idxOf_lt_length_iff.mp h)
    rw [if_neg hlt]
    exact replSeqVal_not_mem ids j v hm

/-! ### the two branches -/

/-- Not-relabel branch: the identifiers are `s, s+1, …`; the values are moved by `δ = base - s` and
those outside the new range of identifiers are dropped. -/
theorem keep_rows (base s : Int) (n : Nat) (hn : 1 ≤ n) (m : IMat) (hids : firstCol m = arange s n)
    (k : Nat) (w : Int) :
    w ∈ rowVals (clip (some base) (base + ((n - 1 : Nat) : Int)) (mapVals (· + (base - s)) m)) k ↔
      ∃ v ∈ rowVals m k, relabelOf (firstCol m) base v = some w := by
  rw [mem_rowVals_clip, rowVals_mapVals, keepB_range base n hn, List.mem_map, hids]
  constructor
  · rintro ⟨⟨v, hv, rfl⟩, h1, h2⟩
    refine ⟨v, hv, ?_⟩
    unfold relabelOf
    rw [length_arange, idxOf_arange s n v (by omega) (by omega)]
    have : (v - s).toNat < n := by omega
    rw [if_pos this]
    congr 1; omega
  · rintro ⟨v, hv, hrel⟩
    unfold relabelOf at hrel
    by_cases hin : s ≤ v ∧ v < s + n
    · rw [length_arange, idxOf_arange s n v hin.1 hin.2] at hrel
      have hlt : (v - s).toNat < n := by omega
      rw [if_pos hlt] at hrel
      have hw : w = base + ((v - s).toNat : Int) := by
        have := Option.some.inj hrel; omega
      refine ⟨⟨v, hv, by omega⟩, by omega, by omega⟩
    · have := idxOf_arange_not s n v hin
      rw [if_neg this] at hrel
      cases hrel

/-- Relabel branch on non-negative data. -/
theorem relabel_rows (base : Int) (d : IMat) (hheads : (firstCol d).length = d.length)
    (hnd : (firstCol d).Nodup) (hpos : ∀ v ∈ vals d, 0 ≤ v) (k : Nat) (w : Int) :
    w ∈ rowVals (mapVals (· + ((d.length : Int) + base))
        (clip none (-1) (mapVals (replSeqVal (firstCol d) (-(d.length : Int))) d))) k ↔
      ∃ v ∈ rowVals d k, relabelOf (firstCol d) base v = some w := by
  have hidspos : ∀ i ∈ firstCol d, 0 ≤ i := fun i hi => hpos i (firstCol_sub_vals d i hi)
  have hkeep : ∀ v : Int, keepB none (-1) v = true ↔ v ≤ -1 := by
    intro v; simp only [keepB, Bool.and_true, Bool.not_eq_true', decide_eq_false_iff_not]; omega
  have hrepl : ∀ v, replSeqVal (firstCol d) (-(d.length : Int)) v =
      if (firstCol d).idxOf v < (firstCol d).length
      then -(d.length : Int) + (((firstCol d).idxOf v : Nat) : Int) else v :=
    fun v => replSeqVal_eq (firstCol d) _ v hidspos hnd (by rw [hheads]; omega)
  rw [rowVals_mapVals, List.mem_map]
  constructor
  · rintro ⟨x, hx, rfl⟩
    rw [mem_rowVals_clip, hkeep, rowVals_mapVals, List.mem_map] at hx
    obtain ⟨⟨v, hv, rfl⟩, hle⟩ := hx
    refine ⟨v, hv, ?_⟩
    have hv0 := hpos v (rowVals_sub_vals d k v hv)
    rw [hrepl v] at hle ⊢
    unfold relabelOf
    by_cases hlt : (firstCol d).idxOf v < (firstCol d).length
    · rw [if_pos hlt]
      congr 1; omega
    · rw [if_neg hlt] at hle; omega
  · rintro ⟨v, hv, hrel⟩
    unfold relabelOf at hrel
    by_cases hlt : (firstCol d).idxOf v < (firstCol d).length
    · rw [if_pos hlt] at hrel
      have hw := Option.some.inj hrel
      refine ⟨replSeqVal (firstCol d) (-(d.length : Int)) v, ?_, ?_⟩
      · rw [mem_rowVals_clip, hkeep, rowVals_mapVals, List.mem_map]
        refine ⟨⟨v, hv, rfl⟩, ?_⟩
        rw [hrepl v, if_pos hlt]; rw [hheads] at hlt; omega
      · rw [hrepl v, if_pos hlt]; omega
    · rw [if_neg hlt] at hrel; cases hrel

/-! ### both branches together -/

/-- **What `_normalise_cell_ids` means, row by row**: the unmasked values of row `k` of the result
are exactly the new identifiers of those values of row `k` of the input that identify a cell of the
array; everything else is dropped. -/
theorem normaliseCellIds_rows (ob : Bool) (m : IMat) (h : WFIds m) (k : Nat) (w : Int) :
    w ∈ rowVals (normaliseCellIds ob m) k ↔
      ∃ v ∈ rowVals m k, relabelOf (firstCol m) (baseOf ob) v = some w := by
  have hn := h.nonempty
  have hheads := h.heads
  unfold normaliseCellIds
  simp only [hheads]
  split
  · -- not relabel
    rename_i hcase
    simp only [Bool.or_eq_true, beq_iff_eq] at hcase
    have key : ∀ (s : Int) (d : IMat), firstCol m = arange s m.length →
        d = mapVals (· + (baseOf ob - s)) m →
        (w ∈ rowVals (clip (some ((firstCol d).head?.getD 0)) ((firstCol d).getLast?.getD 0) d) k ↔
          ∃ v ∈ rowVals m k, relabelOf (firstCol m) (baseOf ob) v = some w) := by
      intro s d hs hd
      have hfd : firstCol d = arange (baseOf ob) m.length := by
        rw [hd, firstCol_mapVals, hs, arange_map_add]; congr 1; omega
      rw [hfd, arange_head _ _ hn, arange_getLast _ _ hn]
      simp only [Option.getD_some]
      rw [hd]
      exact keep_rows (baseOf ob) s m.length hn m hs k w
    cases ob
    · simp only [Bool.false_and, Bool.false_eq_true, if_false, Bool.not_false, Bool.true_and]
      split
      · rename_i h1
        apply key 1 _ (eq_of_beq h1)
        simp only [baseOf, Bool.false_eq_true, if_false]
        apply mapVals_congr; intro v _; omega
      · rename_i h1
        rcases hcase with h2 | h2
        · apply key 0 _ h2
          simp only [baseOf, Bool.false_eq_true, if_false]
          exact (mapVals_id' _ m (fun v _ => by omega)).symm
        · rw [h2] at h1; simp at h1
    · simp only [Bool.true_and, Bool.not_true, Bool.false_and, Bool.false_eq_true, if_false]
      split
      · rename_i h1
        apply key 0 _ (eq_of_beq h1)
        simp only [baseOf, if_true]
        apply mapVals_congr; intro v _; omega
      · rename_i h1
        rcases hcase with h2 | h2
        · rw [h2] at h1; simp at h1
        · apply key 1 _ h2
          simp only [baseOf, if_true]
          exact (mapVals_id' _ m (fun v _ => by omega)).symm
  · -- relabel
    have key : ∀ (c : Int) (d : IMat), d = mapVals (· - c) m → (∀ v ∈ vals d, 0 ≤ v) →
        (w ∈ rowVals (mapVals (· + ((m.length : Int) + (if ob then 1 else 0)))
            (clip none (-1) (mapVals (replSeqVal (firstCol d) (-(m.length : Int))) d))) k ↔
          ∃ v ∈ rowVals m k, relabelOf (firstCol m) (baseOf ob) v = some w) := by
      intro c d hd hp
      have hl : d.length = m.length := by rw [hd]; exact length_mapVals _ _
      have hfc : firstCol d = (firstCol m).map (· - c) := by rw [hd, firstCol_mapVals]
      have hh : (firstCol d).length = d.length := by rw [hfc, List.length_map, hheads, hl]
      have hndp : (firstCol d).Nodup := by
        rw [hfc]
        exact List.Pairwise.map (fun x => x - c) (fun a b (hab : a ≠ b) => by omega) h.nodup
      have := relabel_rows (baseOf ob) d hh hndp hp k w
      rw [hl] at this
      have hb : (if ob then (1 : Int) else 0) = baseOf ob := rfl
      rw [hb, this]
      constructor
      · rintro ⟨v, hv, hrel⟩
        rw [hd, rowVals_mapVals, List.mem_map] at hv
        obtain ⟨v0, hv0, rfl⟩ := hv
        refine ⟨v0, hv0, ?_⟩
        unfold relabelOf at hrel ⊢
        rw [hfc, idxOf_map_sub, List.length_map] at hrel
        exact hrel
      · rintro ⟨v0, hv0, hrel⟩
        refine ⟨v0 - c, ?_, ?_⟩
        · rw [hd, rowVals_mapVals, List.mem_map]; exact ⟨v0, hv0, rfl⟩
        · unfold relabelOf at hrel ⊢
          rw [hfc, idxOf_map_sub, List.length_map]
          exact hrel
    cases hmin : minVal m with
    | none =>
      simp only []
      apply key 0 m (mapVals_id' _ m (fun v _ => by omega)).symm
      intro v hv
      unfold minVal at hmin
      cases hvm : vals m with
      | nil => rw [hvm] at hv; simp at hv
      | cons a t => rw [hvm] at hmin; simp at hmin
    | some dmin =>
      have hle := minVal_le m dmin hmin
      simp only []
      by_cases hneg : dmin < 0
      · simp only [if_pos hneg]
        apply key dmin _ rfl
        intro v hv
        rw [vals_mapVals] at hv
        obtain ⟨x, hx, rfl⟩ := List.mem_map.mp hv
        have := hle x hx; omega
      · simp only [if_neg hneg]
        apply key 0 m (mapVals_id' _ m (fun v _ => by omega)).symm
        intro v hv
        have := hle v hv; omega

end Cfdm.Ugrid
