import Cfdm.Lemmas.Lazy
/- C12: the lazy world simulates the eager world (same observations, related heaps). -/
namespace Cfdm.Lazy
open Cfdm.PySlice Cfdm.Arr Cfdm.Indexing

variable {α : Type} [DecidableEq α]

/-- A `disk` state records the shape of the variable it points at. -/
def WFState (st : Store α) : AState α → Prop
  | .disk loc shape => (st loc).shape = shape
  | .mem _ => True

/-- The lazy object `s` denotes the array `a`. -/
def Rel (st : Store α) (s : AState α) (a : Arr α) : Prop := WFState st s ∧ EqvIn (realise st s) a

/-- Heaps related handle by handle. -/
def SimH (st : Store α) (heap : List (AState α)) (e : List (Arr α)) : Prop :=
  heap.length = e.length ∧ ∀ (i : Nat) (s : AState α) (a : Arr α), heap[i]? = some s → e[i]? = some a → Rel st s a

theorem Rel.shape_eq {st : Store α} {s : AState α} {a : Arr α} (h : Rel st s a) : s.shape = a.shape := by
  cases s with
  | disk loc shape =>
    have h1 : (st loc).shape = shape := h.1
    have h2 := h.2.1
    simp only [realise] at h2
    simp [AState.shape, ← h1, h2]
  | mem a0 => exact h.2.1

theorem SimH.lookup {st : Store α} {heap : List (AState α)} {e : List (Arr α)} (h : SimH st heap e) {i : Nat}
    {s : AState α} (hs : heap[i]? = some s) : ∃ a, e[i]? = some a ∧ Rel st s a := by
  have hi : i < heap.length := by
    by_contra hc
    rw [List.getElem?_eq_none (by omega)] at hs
    cases hs
  have hi' : i < e.length := h.1 ▸ hi
  exact ⟨e[i], List.getElem?_eq_getElem hi', h.2 i s e[i] hs (List.getElem?_eq_getElem hi')⟩

theorem SimH.lookup_none {st : Store α} {heap : List (AState α)} {e : List (Arr α)} (h : SimH st heap e) {i : Nat}
    (hs : heap[i]? = none) : e[i]? = none := by
  rw [List.getElem?_eq_none_iff] at hs ⊢
  have := h.1
  omega

theorem SimH.set {st : Store α} {heap : List (AState α)} {e : List (Arr α)} (h : SimH st heap e) (i : Nat)
    {s : AState α} {a : Arr α} (hr : Rel st s a) : SimH st (heap.set i s) (e.set i a) := by
  refine ⟨by simp [h.1], ?_⟩
  intro j s' a' hs ha
  rw [List.getElem?_set] at hs ha
  by_cases hij : i = j
  · rw [if_pos hij] at hs ha
    by_cases h1 : i < heap.length
    · have h2 : i < e.length := h.1 ▸ h1
      rw [if_pos h1] at hs
      rw [if_pos h2] at ha
      cases hs; cases ha; exact hr
    · rw [if_neg h1] at hs
      cases hs
  · rw [if_neg hij] at hs ha
    exact h.2 j s' a' hs ha

theorem SimH.append {st : Store α} {heap : List (AState α)} {e : List (Arr α)} (h : SimH st heap e)
    {s : AState α} {a : Arr α} (hr : Rel st s a) : SimH st (heap ++ [s]) (e ++ [a]) := by
  refine ⟨by simp [h.1], ?_⟩
  intro j s' a' hs ha
  by_cases hj : j < heap.length
  · rw [List.getElem?_append_left hj] at hs
    rw [List.getElem?_append_left (h.1 ▸ hj)] at ha
    exact h.2 j s' a' hs ha
  · have hj' : heap.length ≤ j := by omega
    rw [List.getElem?_append_right hj'] at hs
    rw [List.getElem?_append_right (h.1 ▸ hj')] at ha
    rw [h.1] at hs
    cases hm : j - e.length with
    | zero =>
      rw [hm] at hs ha
      simp only [List.getElem?_cons_zero, Option.some.injEq] at hs ha
      subst hs; subst ha; exact hr
    | succ m =>
      rw [hm] at hs
      simp at hs

/-- `put` and `eput` keep the heaps related and return the same observation. -/
theorem put_sim {st : Store α} {w : World α} {e : List (Arr α)} (h : SimH st w.heap e) (i : Nat)
    {s : AState α} {a : Arr α} (hr : Rel st s a) (inplace : Bool) :
    (put w i s inplace).2 = (eput e i a inplace).2 ∧ SimH st (put w i s inplace).1.heap (eput e i a inplace).1 := by
  unfold put eput
  cases inplace with
  | true => exact ⟨rfl, h.set i hr⟩
  | false =>
    simp only [Bool.false_eq_true, if_false]
    exact ⟨by have := h.1; simp only [this], h.append hr⟩

theorem checkIndex_none {shape : List Nat} {sels : List Sel} (h : checkIndex shape sels = none) :
    selsWf shape sels = true := by
  unfold checkIndex at h
  split at h
  · assumption
  · split at h <;> cases h

theorem selsWf_length {shape : List Nat} {sels : List Sel} (h : selsWf shape sels = true) :
    sels.length = shape.length := by
  simp only [selsWf, Bool.and_eq_true, beq_iff_eq] at h
  exact h.1

/-- `Data.array` of a lazy object is the array it denotes; the heap is untouched. -/
theorem getArray_sim (b : Backend) {st : Store α} (w : World α) {s : AState α} {a : Arr α} (hr : Rel st s a) :
    ∃ r w', getArray b st w s = (.ok r, w') ∧ EqvIn r a ∧ w'.heap = w.heap := by
  cases s with
  | mem a0 => exact ⟨a0, w, rfl, hr.2, rfl⟩
  | disk loc shape => exact ⟨st loc, _, rfl, hr.2, rfl⟩

/-- A subspace of a lazy object against numpy's orthogonal selection of the array it denotes. -/
theorem getSub_sim {b : Backend} (hb : b.strict = false) {st : Store α} (w : World α) {s : AState α} {a : Arr α}
    (hr : Rel st s a) (ix : List RawIx) :
    (∃ er w', getSub b st w s ix = (.error er, w') ∧ eSub a ix = .error er ∧ w'.heap = w.heap) ∨
    (∃ r r' w', getSub b st w s ix = (.ok r, w') ∧ eSub a ix = .ok r' ∧ EqvIn r r' ∧ w'.heap = w.heap) := by
  have hsh := hr.shape_eq
  unfold getSub eSub
  rw [hsh]
  cases hp : parse a.shape ix with
  | error er => exact Or.inl ⟨er, w, rfl, rfl, rfl⟩
  | ok sels =>
    simp only
    cases s with
    | mem a0 =>
      have h0 : a0.shape = a.shape := hsh
      have heq : EqvIn a0 a := hr.2
      simp only [h0]
      cases hc : checkIndex a.shape sels with
      | some er => exact Or.inl ⟨er, w, rfl, rfl, rfl⟩
      | none =>
        refine Or.inr ⟨_, _, w, rfl, rfl, ?_, rfl⟩
        have hwf := checkIndex_none hc
        have h1 := indexBackend_eqv numpy a0 sels (by rw [h0]; exact selsWf_length hwf)
        have h2 := takeAll_congr heq (positionsNat a0.shape sels) (by rw [h0]; exact positionsNat_ok _ _ hwf)
        rw [h0] at h1 h2
        exact h1.trans h2
    | disk loc shape =>
      have h0 : shape = a.shape := hsh
      have hst : (st loc).shape = shape := hr.1
      have heq : EqvIn (st loc) a := hr.2
      subst h0
      unfold fetch
      simp only
      cases hc : checkIndex a.shape sels with
      | some er => exact Or.inl ⟨er, _, rfl, rfl, rfl⟩
      | none =>
        have hrej : backendRejects b a.shape sels = false := by simp [backendRejects, hb]
        simp only [hrej, Bool.false_eq_true, if_false]
        refine Or.inr ⟨_, _, _, rfl, rfl, ?_, rfl⟩
        have hwf := checkIndex_none hc
        have h1 := indexBackend_eqv b (st loc) sels (by rw [hst]; exact selsWf_length hwf)
        have h2 := takeAll_congr heq (positionsNat (st loc).shape sels) (by rw [hst]; exact positionsNat_ok _ _ hwf)
        rw [hst] at h1 h2
        exact h1.trans h2

theorem item_sim {b : Backend} (hb : b.strict = false) {st : Store α} (w : World α) {s : AState α} {a : Arr α}
    (hr : Rel st s a) (ix : List RawIx) :
    (∃ er w', item b st w s ix = (.error er, w') ∧ eItem a ix = .error er ∧ w'.heap = w.heap) ∨
    (∃ x w', item b st w s ix = (.ok x, w') ∧ eItem a ix = .ok x ∧ w'.heap = w.heap) := by
  unfold item eItem
  rcases getSub_sim hb w hr ix with ⟨er, w', h1, h2, h3⟩ | ⟨r, r', w', h1, h2, h3, h4⟩
  · rw [h1, h2]; exact Or.inl ⟨er, w', rfl, rfl, h3⟩
  · rw [h1, h2]
    simp only
    rw [toList_congr h3]
    cases toList r' with
    | nil => exact Or.inl ⟨_, w', rfl, rfl, h4⟩
    | cons x xs =>
      cases xs with
      | nil => exact Or.inr ⟨x, w', rfl, rfl, h4⟩
      | cons y ys => exact Or.inl ⟨_, w', rfl, rfl, h4⟩

theorem items_sim {b : Backend} (hb : b.strict = false) {st : Store α} {s : AState α} {a : Arr α}
    (hr : Rel st s a) : ∀ (ixs : List (List RawIx)) (w : World α) (acc : List α),
    (∃ er w', items b st s ixs w acc = (.error er, w') ∧ eItems a ixs acc = .error er ∧ w'.heap = w.heap) ∨
    (∃ xs w', items b st s ixs w acc = (.ok xs, w') ∧ eItems a ixs acc = .ok xs ∧ w'.heap = w.heap) := by
  intro ixs
  induction ixs with
  | nil => intro w acc; exact Or.inr ⟨_, w, rfl, rfl, rfl⟩
  | cons ix rest ih =>
    intro w acc
    unfold items eItems
    rcases item_sim hb w hr ix with ⟨er, w', h1, h2, h3⟩ | ⟨x, w', h1, h2, h3⟩
    · rw [h1, h2]; exact Or.inl ⟨er, w', rfl, rfl, h3⟩
    · rw [h1, h2]
      simp only
      rcases ih w' (x :: acc) with ⟨er, w'', g1, g2, g3⟩ | ⟨xs, w'', g1, g2, g3⟩
      · exact Or.inl ⟨er, w'', g1, g2, g3.trans h3⟩
      · exact Or.inr ⟨xs, w'', g1, g2, g3.trans h3⟩

theorem SimH.of_heap_eq {st : Store α} {heap heap' : List (AState α)} {e : List (Arr α)} (h : SimH st heap e)
    (hh : heap' = heap) : SimH st heap' e := hh ▸ h

/-- One operation: the lazy world and the eager world return the same observation and stay related. -/
theorem step_sim {b : Backend} (hb : b.strict = false) {st : Store α} {w : World α} {e : List (Arr α)}
    (h : SimH st w.heap e) (op : Op α) :
    (step b st w op).2 = (estep e op).2 ∧ SimH st (step b st w op).1.heap (estep e op).1 := by
  cases op with
  | copy i =>
    simp only [step, estep]
    cases hs : w.heap[i]? with
    | none => rw [h.lookup_none hs]; exact ⟨rfl, h⟩
    | some s =>
      obtain ⟨a, ha, hr⟩ := h.lookup hs
      rw [ha]
      exact put_sim h i hr false
  | edit i =>
    simp only [step, estep]
    cases hs : w.heap[i]? with
    | none => rw [h.lookup_none hs]; exact ⟨rfl, h⟩
    | some s =>
      obtain ⟨a, ha, hr⟩ := h.lookup hs
      rw [ha]
      exact ⟨rfl, h⟩
  | subspace i ix =>
    simp only [step, estep]
    cases hs : w.heap[i]? with
    | none => rw [h.lookup_none hs]; exact ⟨rfl, h⟩
    | some s =>
      obtain ⟨a, ha, hr⟩ := h.lookup hs
      rw [ha]
      rcases getSub_sim hb w hr ix with ⟨er, w', h1, h2, h3⟩ | ⟨r, r', w', h1, h2, h3, h4⟩
      · simp only [h1, h2]; exact ⟨by first | rfl | trivial, h.of_heap_eq h3⟩
      · simp only [h1, h2]
        exact put_sim (h.of_heap_eq h4) i (⟨trivial, h3⟩ : Rel st (.mem r) r') false
  | toMemory i inplace =>
    simp only [step, estep]
    cases hs : w.heap[i]? with
    | none => rw [h.lookup_none hs]; exact ⟨rfl, h⟩
    | some s =>
      obtain ⟨a, ha, hr⟩ := h.lookup hs
      rw [ha]
      obtain ⟨r, w', hg, heq, hh⟩ := getArray_sim b w hr
      simp only [hg]
      exact put_sim (h.of_heap_eq hh) i (⟨trivial, heq⟩ : Rel st (.mem r) a) inplace
  | array i =>
    simp only [step, estep]
    cases hs : w.heap[i]? with
    | none => rw [h.lookup_none hs]; exact ⟨rfl, h⟩
    | some s =>
      obtain ⟨a, ha, hr⟩ := h.lookup hs
      rw [ha]
      obtain ⟨r, w', hg, heq, hh⟩ := getArray_sim b w hr
      simp only [hg]
      exact ⟨by rw [heq.1, toList_congr heq], h.of_heap_eq hh⟩
  | setitem i ix v =>
    simp only [step, estep]
    cases hs : w.heap[i]? with
    | none => rw [h.lookup_none hs]; exact ⟨rfl, h⟩
    | some s =>
      obtain ⟨a, ha, hr⟩ := h.lookup hs
      rw [ha]
      simp only [hr.shape_eq]
      cases hp : parse a.shape ix with
      | error er => exact ⟨rfl, h⟩
      | ok sels =>
        obtain ⟨r, w', hg, heq, hh⟩ := getArray_sim b w hr
        simp only [hg, heq.1]
        cases hc : checkIndex a.shape sels with
        | some er => exact ⟨by first | rfl | trivial, h.of_heap_eq hh⟩
        | none =>
          exact put_sim (h.of_heap_eq hh) i
            (⟨trivial, assign_congr heq _ v⟩ : Rel st (.mem (assignArr r (positionsNat a.shape sels) v)) _) true
  | equals i j =>
    simp only [step, estep]
    cases hs : w.heap[i]? with
    | none =>
      rw [h.lookup_none hs]
      cases w.heap[j]? <;> cases (e[j]?) <;> exact ⟨rfl, h⟩
    | some s =>
      obtain ⟨a, ha, hr⟩ := h.lookup hs
      rw [ha]
      cases ht : w.heap[j]? with
      | none => rw [h.lookup_none ht]; exact ⟨rfl, h⟩
      | some t =>
        obtain ⟨c, hc, hrc⟩ := h.lookup ht
        rw [hc]
        simp only [hr.shape_eq, hrc.shape_eq]
        by_cases hij : (i == j) = true
        · have hij' : i = j := by simpa using hij
          subst hij'
          have hac : a = c := by rw [ha] at hc; exact Option.some.inj hc
          subst hac
          simp only [hij, if_true, bne_self_eq_false, Bool.false_eq_true, if_false, decide_true]
          exact ⟨trivial, h⟩
        · simp only [hij, if_false]
          by_cases hsh : (a.shape != c.shape) = true
          · simp only [hsh, if_true]; exact ⟨by first | rfl | trivial, h⟩
          · simp only [hsh, if_false]
            obtain ⟨r1, w1, hg1, heq1, hh1⟩ := getArray_sim b w hr
            obtain ⟨r2, w2, hg2, heq2, hh2⟩ := getArray_sim b w1 hrc
            simp only [hg1, hg2, toList_congr heq1, toList_congr heq2]
            exact ⟨by first | rfl | trivial, h.of_heap_eq (hh2.trans hh1)⟩
  | first i =>
    simp only [step, estep]
    cases hs : w.heap[i]? with
    | none => rw [h.lookup_none hs]; exact ⟨rfl, h⟩
    | some s =>
      obtain ⟨a, ha, hr⟩ := h.lookup hs
      rw [ha]
      simp only [hr.shape_eq]
      rcases item_sim hb w hr (firstIx a.shape.length) with ⟨er, w', h1, h2, h3⟩ | ⟨x, w', h1, h2, h3⟩
      · simp only [h1, h2]; exact ⟨by first | rfl | trivial, h.of_heap_eq h3⟩
      · simp only [h1, h2]; exact ⟨by first | rfl | trivial, h.of_heap_eq h3⟩
  | last i =>
    simp only [step, estep]
    cases hs : w.heap[i]? with
    | none => rw [h.lookup_none hs]; exact ⟨rfl, h⟩
    | some s =>
      obtain ⟨a, ha, hr⟩ := h.lookup hs
      rw [ha]
      simp only [hr.shape_eq]
      rcases item_sim hb w hr (lastIx a.shape.length) with ⟨er, w', h1, h2, h3⟩ | ⟨x, w', h1, h2, h3⟩
      · simp only [h1, h2]; exact ⟨by first | rfl | trivial, h.of_heap_eq h3⟩
      · simp only [h1, h2]; exact ⟨by first | rfl | trivial, h.of_heap_eq h3⟩
  | second i =>
    simp only [step, estep]
    cases hs : w.heap[i]? with
    | none => rw [h.lookup_none hs]; exact ⟨rfl, h⟩
    | some s =>
      obtain ⟨a, ha, hr⟩ := h.lookup hs
      rw [ha]
      simp only [hr.shape_eq]
      rcases item_sim hb w hr (secondIx a.shape) with ⟨er, w', h1, h2, h3⟩ | ⟨x, w', h1, h2, h3⟩
      · simp only [h1, h2]; exact ⟨by first | rfl | trivial, h.of_heap_eq h3⟩
      · simp only [h1, h2]; exact ⟨by first | rfl | trivial, h.of_heap_eq h3⟩
  | str i =>
    simp only [step, estep]
    cases hs : w.heap[i]? with
    | none => rw [h.lookup_none hs]; exact ⟨rfl, h⟩
    | some s =>
      obtain ⟨a, ha, hr⟩ := h.lookup hs
      rw [ha]
      simp only [hr.shape_eq]
      rcases item_sim hb w hr (firstIx a.shape.length) with ⟨er, w', h1, h2, h3⟩ | ⟨x, w', h1, h2, h3⟩
      · simp only [h1, h2]; exact ⟨by first | rfl | trivial, h.of_heap_eq h3⟩
      · simp only [h1, h2]
        rcases items_sim hb hr (strPlan a.shape).tail w' [x] with ⟨er, w'', g1, g2, g3⟩ | ⟨xs, w'', g1, g2, g3⟩
        · simp only [g1, g2]; exact ⟨by first | rfl | trivial, h.of_heap_eq (g3.trans h3)⟩
        · simp only [g1, g2]; exact ⟨by first | rfl | trivial, h.of_heap_eq (g3.trans h3)⟩
  | transpose i inplace =>
    simp only [step, estep]
    cases hs : w.heap[i]? with
    | none => rw [h.lookup_none hs]; exact ⟨rfl, h⟩
    | some s =>
      obtain ⟨a, ha, hr⟩ := h.lookup hs
      rw [ha]
      simp only [hr.shape_eq]
      by_cases hl : a.shape.length ≤ 1
      · simp only [hl, if_true]; exact put_sim h i hr inplace
      · simp only [hl, if_false]
        obtain ⟨r, w', hg, heq, hh⟩ := getArray_sim b w hr
        simp only [hg]
        exact put_sim (h.of_heap_eq hh) i (⟨trivial, transpose_congr heq⟩ : Rel st (.mem (transposeArr r)) _) inplace
  | insertDim i inplace =>
    simp only [step, estep]
    cases hs : w.heap[i]? with
    | none => rw [h.lookup_none hs]; exact ⟨rfl, h⟩
    | some s =>
      obtain ⟨a, ha, hr⟩ := h.lookup hs
      rw [ha]
      obtain ⟨r, w', hg, heq, hh⟩ := getArray_sim b w hr
      simp only [hg]
      exact put_sim (h.of_heap_eq hh) i (⟨trivial, insertDim_congr heq⟩ : Rel st (.mem (insertDimArr r)) _) inplace
  | squeeze i inplace =>
    simp only [step, estep]
    cases hs : w.heap[i]? with
    | none => rw [h.lookup_none hs]; exact ⟨rfl, h⟩
    | some s =>
      obtain ⟨a, ha, hr⟩ := h.lookup hs
      rw [ha]
      simp only [hr.shape_eq]
      by_cases hl : (!(a.shape.any (· == 1))) = true
      · simp only [hl, if_true]; exact put_sim h i hr inplace
      · simp only [hl, if_false]
        obtain ⟨r, w', hg, heq, hh⟩ := getArray_sim b w hr
        simp only [hg]
        exact put_sim (h.of_heap_eq hh) i (⟨trivial, squeeze_congr heq⟩ : Rel st (.mem (squeezeArr r)) _) inplace
  | flatten i inplace =>
    simp only [step, estep]
    cases hs : w.heap[i]? with
    | none => rw [h.lookup_none hs]; exact ⟨rfl, h⟩
    | some s =>
      obtain ⟨a, ha, hr⟩ := h.lookup hs
      rw [ha]
      simp only [hr.shape_eq]
      by_cases hl : a.shape.length ≤ 1
      · simp only [hl, if_true]; exact put_sim h i hr inplace
      · simp only [hl, if_false]
        obtain ⟨r, w', hg, heq, hh⟩ := getArray_sim b w hr
        simp only [hg]
        exact put_sim (h.of_heap_eq hh) i (⟨trivial, flatten_congr heq⟩ : Rel st (.mem (flattenArr r)) _) inplace

/-- Whole histories. -/
theorem run_sim {b : Backend} (hb : b.strict = false) {st : Store α} (ops : List (Op α)) :
    ∀ {w : World α} {e : List (Arr α)}, SimH st w.heap e →
      (run b st w ops).2 = (erun e ops).2 ∧ SimH st (run b st w ops).1.heap (erun e ops).1 := by
  induction ops with
  | nil => intro w e h; exact ⟨rfl, h⟩
  | cons op ops ih =>
    intro w e h
    simp only [run, erun]
    have hs := step_sim hb h op
    have hr := ih hs.2
    exact ⟨by rw [hs.1, hr.1], hr.2⟩

end Cfdm.Lazy
