import Cfdm.Lemmas.CodecB
/-
C01, stage B: the field read from the data variable of the written file — its domain ancillaries
and coordinate references — and the round trip up to construct keys.
-/
namespace Cfdm.Codec

/-- What the reader makes of a formula-terms reference (by its parametric coordinate). -/
def ftReadOf (o : Opts) (f : MField) (names : List (Slot × String)) (kr : Key × MRef) : FTRead :=
  match ownerOf f kr.2 with
  | some c =>
    { coord := nameOf names (.con c.key)
      dans := (termDans f kr.2).map (fun td => rdB o f names td.2)
      ref := rdFTRef f names c kr.2 }
  | none => { coord := "", dans := [], ref := ("", ⟨none, [], [], [], []⟩) }

section
variable {o : Opts} {f : MField} {names : List (Slot × String)} (hwf : WFFieldB f) (hg : GoodNames f (wfAx f) names)
include hwf hg

omit hg in
/-- The parametric coordinate of the reference found by a coordinate is that coordinate. -/
theorem ownerOf_ftOf {c : Entry} (hc : c ∈ f.cons) {kr : Key × MRef} (h : ftOf f c = some kr) : ownerOf f kr.2 = some c := by
  obtain ⟨hkr, hkc⟩ := ftOf_some h
  obtain ⟨c', hoc, hm', _, hcc, _⟩ := ft_owner hwf hkr
  have hkk : c'.key = c.key := by rw [hkc] at hcc; injection hcc with h1 _; exact h1.symm
  rw [← wf_keys_inj hwf hm' hc hkk]; exact hoc

omit hg in
theorem fts_eq : (coordOrder f).filterMap (ftRead o f names) = (ftOrder f).map (ftReadOf o f names) := by
  unfold ftOrder
  rw [List.map_filterMap]
  apply filterMap_congr'
  intro c hc
  unfold ftRead
  cases hf : ftOf f c with
  | none => rfl
  | some kr =>
    simp only [Option.map_some]
    unfold ftReadOf
    rw [ownerOf_ftOf hwf ((mem_coordOrder hwf).mp hc).1 hf]

omit hg in
theorem fts_dans : ((ftOrder f).map (ftReadOf o f names)).flatMap (·.dans) = (dansOrder f).map (rdB o f names) := by
  unfold dansOrder
  rw [List.flatMap_map, List.map_flatMap]
  apply List.flatMap_congr
  intro kr hkr
  have hkr' := (ftOrder_perm hwf).mem_iff.mp hkr
  obtain ⟨c, hoc, _⟩ := ft_owner hwf hkr'
  unfold ftReadOf
  rw [hoc]
  simp only [List.map_map]
  rfl

/-- The state of the reader when it comes to the `grid_mapping` attribute. -/
def gmInit (o : Opts) (f : MField) (names : List (Slot × String)) : GMSt :=
  ⟨((ftOrder f).map (ftReadOf o f names)).map (fun x => (x.coord, x.ref)), [], [], []⟩

/-- The coordinate references and domain ancillaries read from the data variable. -/
theorem readB_shape :
    readB (wfFile o f names) (dataVar o f (wfAx f) names) (readVarA (wfFile o f names) (dataVar o f (wfAx f) names)).cons
      = (let st := (gmAttr f names).foldl
            (gmStep (wfFile o f names) ((coordOrder f).map (rd o f names))
              (((dansOrder f).map (rdB o f names)).filterMap (·.con.ncvar))) (gmInit o f names)
         { dans := (dansOrder f).map (rdB o f names)
           refs := st.vcrs.map (·.2) ++ st.out
           referenced := ((dansOrder f).map (rdB o f names)).flatMap danRefs ++ st.seen ++ st.used
           createdGM := st.seen }) := by
  unfold readB
  simp only
  rw [read_fts hwf hg, read_coords hwf hg, file_gm, fts_eq hwf, fts_dans hwf]
  rfl

end

/-! ### Lists related element by element -/

theorem forall2_map_right {α β} (R : α → β → Prop) (l : List α) (h : α → β) (hr : ∀ x ∈ l, R x (h x)) :
    Forall2 R l (l.map h) := by
  induction l with
  | nil => trivial
  | cons x xs ih =>
    exact ⟨hr x List.mem_cons_self, ih (fun y hy => hr y (List.mem_cons_of_mem _ hy))⟩

theorem forall2_append {α β} (R : α → β → Prop) {l1 l2 : List α} {m1 m2 : List β}
    (h1 : Forall2 R l1 m1) (h2 : Forall2 R l2 m2) : Forall2 R (l1 ++ l2) (m1 ++ m2) := by
  induction l1 generalizing m1 with
  | nil =>
    cases m1 with
    | nil => exact h2
    | cons _ _ => exact absurd h1 id
  | cons x xs ih =>
    cases m1 with
    | nil => exact absurd h1 id
    | cons y ys => exact ⟨h1.1, ih h1.2⟩

/-- A relation element by element survives a permutation of the left list, up to a permutation of
the right one. -/
theorem forall2_perm_left {α β} (R : α → β → Prop) {l1 l2 : List α} (hp : l1.Perm l2) :
    ∀ {m : List β}, Forall2 R l2 m → ∃ m', m'.Perm m ∧ Forall2 R l1 m' := by
  induction hp with
  | nil => intro m h; exact ⟨m, List.Perm.refl _, h⟩
  | cons x _ ih =>
    intro m h
    cases m with
    | nil => exact absurd h id
    | cons y ys =>
      obtain ⟨m', hp', hf⟩ := ih h.2
      exact ⟨y :: m', hp'.cons y, h.1, hf⟩
  | swap x y l =>
    intro m h
    match m, h with
    | a :: b :: ms, h => exact ⟨b :: a :: ms, List.Perm.swap a b ms, h.2.1, h.1, h.2.2⟩
  | trans _ _ ih1 ih2 =>
    intro m h
    obtain ⟨m2, hp2, hf2⟩ := ih2 h
    obtain ⟨m1, hp1, hf1⟩ := ih1 hf2
    exact ⟨m1, hp1.trans hp2, hf1⟩

/-- References are equivalent when, part by part, each is read back as an equivalent one. -/
theorem refsEquiv_parts (κ : Key → Key) {rs A B A' rs' : List (Key × MRef)} (imgA imgB : Key × MRef → Key × MRef)
    (hparts : rs.Perm (A ++ B)) (hA : A'.Perm A)
    (hrs' : rs' = A'.map imgA ++ B.map imgB)
    (hRA : ∀ kr ∈ A, RefEquiv κ kr.2 (imgA kr).2) (hRB : ∀ kr ∈ B, RefEquiv κ kr.2 (imgB kr).2) :
    RefsEquiv κ rs rs' := by
  have h1 : Forall2 (fun a b : Key × MRef => RefEquiv κ a.2 b.2) (A ++ B) (A.map imgA ++ B.map imgB) :=
    forall2_append _ (forall2_map_right _ A imgA hRA) (forall2_map_right _ B imgB hRB)
  obtain ⟨m', hp', hf⟩ := forall2_perm_left _ hparts h1
  refine ⟨m', ?_, hf⟩
  rw [hrs']
  exact hp'.trans ((hA.map imgA).symm.append_right _)

/-! ### The key renaming and the references read back -/

theorem mem_of_lookup {β} {l : List (String × β)} {k : String} {v : β} (h : l.lookup k = some v) : (k, v) ∈ l := by
  induction l with
  | nil => cases h
  | cons x xs ih =>
    rw [List.lookup_cons] at h
    cases hk : (k == x.1) with
    | true =>
      rw [hk] at h
      have : k = x.1 := by simpa using hk
      cases x; simp only at this h
      cases h; subst this; exact List.mem_cons_self
    | false => rw [hk] at h; exact List.mem_cons_of_mem _ (ih h)

/-- The keys the reader gives the constructs: the netCDF variable name, for a domain ancillary marked
as such (`danKey`). -/
def kappaB (f : MField) (names : List (Slot × String)) (k : Key) : Key :=
  if (f.dan? k).isSome then danKey (nameOf names (.con k)) else nameOf names (.con k)

/-- The formula-terms reference read back, with the datum `D` the grid mappings give it. -/
def imgFT (o : Opts) (f : MField) (names : List (Slot × String)) (D : Key × MRef → Props) (kr : Key × MRef) : Key × MRef :=
  ((ftReadOf o f names kr).ref.1, { (ftReadOf o f names kr).ref.2 with datum := D kr })

section
variable {o : Opts} {f : MField} {names : List (Slot × String)} (hwf : WFFieldB f) (hg : GoodNames f (wfAx f) names)
include hwf hg

omit hg in
theorem kappaB_coord {c : Entry} (hc : c ∈ f.cons) (hnd : c.con.ctype ≠ .dan) : kappaB f names c.key = nameOf names (.con c.key) := by
  unfold kappaB
  cases hd : f.dan? c.key with
  | none => rfl
  | some d =>
    obtain ⟨hm, hk, ht⟩ := dan?_some hd
    rw [wf_keys_inj hwf hm hc hk] at ht
    exact absurd ht hnd

omit hg in
theorem kappaB_dan {d : Entry} (hd : d ∈ f.cons) (ht : d.con.ctype = .dan) :
    kappaB f names d.key = danKey (nameOf names (.con d.key)) := by
  unfold kappaB
  rw [dan?_of_mem hwf hd ht]; rfl

omit hg in
/-- The conversion parameters of a formula-terms reference are the names the coordinate carries. -/
theorem ft_params_perm {kr : Key × MRef} (h : kr ∈ ftOnly f) {c : Entry} (hoc : ownerOf f kr.2 = some c) :
    (["standard_name", "computed_standard_name"].filterMap (fun p => (c.con.props.lookup p).map (fun x => (p, x)))).Perm kr.2.params := by
  obtain ⟨c', hoc', _, _, _, hsn, hcsn, _⟩ := ft_owner hwf h
  rw [hoc] at hoc'; cases hoc'
  have hw := wf_ft hwf h
  have hkeys := hw.2.2.1
  have honly := hw.2.2.2.1
  have hsn' : c.con.props.lookup "standard_name" = kr.2.params.lookup "standard_name" := hsn
  have hcsn' : c.con.props.lookup "computed_standard_name" = kr.2.params.lookup "computed_standard_name" := hcsn
  have hn2 : kr.2.params.Nodup := List.Nodup.of_map _ hkeys
  have hn1 : (["standard_name", "computed_standard_name"].filterMap (fun p => (c.con.props.lookup p).map (fun x => (p, x)))).Nodup := by
    simp only [List.filterMap_cons, List.filterMap_nil]
    cases c.con.props.lookup "standard_name" <;> cases c.con.props.lookup "computed_standard_name" <;> simp
  rw [List.perm_ext_iff_of_nodup hn1 hn2]
  intro p
  constructor
  · intro hp
    obtain ⟨k, hk, hpk⟩ := List.mem_filterMap.mp hp
    cases hl : c.con.props.lookup k with
    | none => rw [hl] at hpk; cases hpk
    | some x =>
      rw [hl] at hpk; simp at hpk; subst hpk
      have hlk : kr.2.params.lookup k = some x := by
        simp only [List.mem_cons, List.mem_nil_iff, or_false] at hk
        rcases hk with rfl | rfl
        · rw [← hsn', hl]
        · rw [← hcsn', hl]
      exact mem_of_lookup hlk
  · intro hp
    have hlk : kr.2.params.lookup p.1 = some p.2 := lookup_of_mem_nodup kr.2.params hkeys hp
    rcases honly p hp with h1 | h1
    · apply List.mem_filterMap.mpr
      refine ⟨"standard_name", by simp, ?_⟩
      rw [hsn', ← h1, hlk]; simp
    · apply List.mem_filterMap.mpr
      refine ⟨"computed_standard_name", by simp, ?_⟩
      rw [hcsn', ← h1, hlk]; simp

/-- A formula-terms reference is read back as itself, up to keys, given the right datum. -/
theorem refEquiv_ft {kr : Key × MRef} (h : kr ∈ ftOnly f) (D : Key × MRef → Props) (hD : (D kr).Perm kr.2.datum) :
    RefEquiv (kappaB f names) kr.2 (imgFT o f names D kr).2 := by
  obtain ⟨c, hoc, hc, hco, hcc, _⟩ := ft_owner hwf h
  have hnd : c.con.ctype ≠ .dan := by unfold isCoord at hco; intro e; rw [e] at hco; simp at hco
  unfold imgFT ftReadOf
  rw [hoc]
  unfold rdFTRef
  refine ⟨?_, ?_, hD, ?_⟩
  · simp only
    rw [hcc]
    simp only [List.map_cons, List.map_nil]
    rw [kappaB_coord hwf hc hnd]
  · exact ft_params_perm hwf h hoc
  · simp only
    have hsp := termDans_spec hwf h
    rw [← hsp.1, List.map_map]
    have : (termDans f kr.2).map ((fun tk : String × Option Key => (tk.1, tk.2.map (kappaB f names))) ∘ fun td => (td.1, some td.2.key))
        = (termDans f kr.2).map (fun td => (td.1, some (danKey (nameOf names (.con td.2.key))))) := by
      apply List.map_congr_left
      intro td htd
      obtain ⟨hm, ht⟩ := hsp.2 td htd
      simp only [Function.comp, Option.map_some]
      rw [kappaB_dan hwf hm ht]
    rw [this]

end

/-! ### The grid mappings read back -/

/-- A grid mapping read back, with the coordinates `cs`. -/
def imgGM (names : List (Slot × String)) (cs : Key × MRef → List Key) (g : Key × MRef) : Key × MRef :=
  (gmKey (nameOf names (.gm g.1)),
   { ncvar := some (nameOf names (.gm g.1)), coords := cs g, params := g.2.params, datum := g.2.datum, terms := [] })

section
variable {o : Opts} {f : MField} {names : List (Slot × String)} (hwf : WFFieldB f) (hg : GoodNames f (wfAx f) names)
include hwf hg

omit hg in
theorem gmVar_attrs {g : Key × MRef} (hgm : g ∈ gmOnly f) :
    (gmVar names g).attrs.filter isDatumParam = g.2.datum ∧ (gmVar names g).attrs.filter (fun p => !isDatumParam p) = g.2.params := by
  have hw := wf_gm hwf hgm
  exact split_datum hw.2.2.2.2.1 hw.2.2.2.2.2.1

/-- **A single grid mapping** (short form of the attribute): every vertical reference gets its datum,
its own coordinates are inferred from standard names. -/
theorem readB_refs_single {g : Key × MRef} (hgo : gmOnly f = [g]) :
    (readB (wfFile o f names) (dataVar o f (wfAx f) names)
        (readVarA (wfFile o f names) (dataVar o f (wfAx f) names)).cons).refs
      = (ftOrder f).map (imgFT o f names (fun _ => g.2.datum))
        ++ [g].map (imgGM names (fun g => inferredRead ((coordOrder f).map (rd o f names)) (gmVar names g)))
    ∧ (readB (wfFile o f names) (dataVar o f (wfAx f) names)
        (readVarA (wfFile o f names) (dataVar o f (wfAx f) names)).cons).referenced
      = ((dansOrder f).map (rdB o f names)).flatMap danRefs ++ [nameOf names (.gm g.1)] := by
  have hgm : g ∈ gmOnly f := by rw [hgo]; exact List.mem_cons_self
  obtain ⟨cs, hgr⟩ := gmRefs_single hwf hgo
  have hgv : gmVar names (g.1, { g.2 with coords := cs }) = gmVar names g := rfl
  rw [readB_shape hwf hg]
  simp only
  have hattr : gmAttr f names = [(nameOf names (.gm g.1), [])] := by
    unfold gmAttr; rw [hgr]
  rw [hattr]
  simp only [List.foldl_cons, List.foldl_nil]
  have hv : (wfFile o f names).var? (nameOf names (.gm g.1)) = some (gmVar names g) := by
    have := var_gm (o := o) hwf hg (g := (g.1, { g.2 with coords := cs })) (by rw [hgr]; exact List.mem_cons_self)
      (by intro g' hg' _; rw [hgr] at hg'; simpa using hg')
    rw [hgv] at this
    exact this
  rw [gmStep_short _ _ _ _ _ _ hv]
  simp only
  obtain ⟨hd, hp⟩ := gmVar_attrs (names := names) hwf hgm
  unfold gmInit
  refine ⟨?_, by simp⟩
  simp only [List.map_map, List.nil_append, List.map_cons, List.map_nil]
  congr 1
  · apply List.map_congr_left
    intro kr _
    simp only [Function.comp, imgFT, hd]
  · unfold rdGM imgGM
    rw [hd, hp]

/-- The `variable: coordinate …` group written for one of several grid mappings. -/
def gmEntry (names : List (Slot × String)) (g : Key × MRef) : String × List String :=
  (nameOf names (.gm g.1), sortKeys (g.2.coords.map (fun k => nameOf names (.con k))))

omit hwf hg in
theorem gmAttr_long (h : (gmRefs f).length ≠ 1) : gmAttr f names = (gmRefs f).map (gmEntry names) := by
  unfold gmAttr
  match hgr : gmRefs f with
  | [] => rfl
  | [g] => rw [hgr] at h; exact absurd rfl h
  | _ :: _ :: _ => rfl

omit hg in
theorem gmOnly_keys_inj {g g' : Key × MRef} (h : g ∈ gmOnly f) (h' : g' ∈ gmOnly f) (hk : g'.1 = g.1) : g' = g :=
  List.inj_on_of_nodup_map hwf.2.2.2.2.2.2.2.2.1 (mem_gmOnly.mp h').1 (mem_gmOnly.mp h).1 hk

/-- **Several grid mappings** (or none), no vertical datum: each is read back with the coordinates
listed for it; the vertical references are not touched. -/
theorem readB_refs_multi (hlen : (gmOnly f).length ≠ 1) (hd : ∀ kr ∈ ftOnly f, kr.2.datum = []) :
    (readB (wfFile o f names) (dataVar o f (wfAx f) names)
        (readVarA (wfFile o f names) (dataVar o f (wfAx f) names)).cons).refs
      = (ftOrder f).map (imgFT o f names (fun _ => []))
        ++ (gmOnly f).map (imgGM names (fun g => sortKeys (g.2.coords.map (fun k => nameOf names (.con k)))))
    ∧ (readB (wfFile o f names) (dataVar o f (wfAx f) names)
        (readVarA (wfFile o f names) (dataVar o f (wfAx f) names)).cons).referenced
      = ((dansOrder f).map (rdB o f names)).flatMap danRefs ++ (gmOnly f).map (fun g => nameOf names (.gm g.1)) := by
  have hgr : gmRefs f = gmOnly f := gmRefs_noDatum hd
  rw [readB_shape hwf hg]
  simp only
  rw [gmAttr_long (by rw [hgr]; exact hlen), hgr]
  -- the loop over the grid mappings
  have key : ∀ (l : List (Key × MRef)), (∀ g ∈ l, g ∈ gmOnly f) → ∀ (st : GMSt), st.vcrs = (gmInit o f names).vcrs →
      (l.map (gmEntry names)).foldl (gmStep (wfFile o f names) ((coordOrder f).map (rd o f names))
          (((dansOrder f).map (rdB o f names)).filterMap (·.con.ncvar))) st
        = { vcrs := st.vcrs
            out := st.out ++ l.map (imgGM names (fun g => sortKeys (g.2.coords.map (fun k => nameOf names (.con k)))))
            seen := st.seen ++ l.map (fun g => nameOf names (.gm g.1)), used := st.used } := by
    intro l
    induction l with
    | nil => intro _ st _; simp
    | cons g gs ih =>
      intro hl st hst
      have hgm := hl g List.mem_cons_self
      have hw := wf_gm hwf hgm
      rw [List.map_cons, List.foldl_cons]
      have hv : (wfFile o f names).var? (nameOf names (.gm g.1)) = some (gmVar names g) :=
        var_gm (o := o) hwf hg (by rw [hgr]; exact hgm) (by intro g' hg' hk; rw [hgr] at hg'; exact gmOnly_keys_inj hwf hgm hg' hk)
      -- the coordinates listed are variables of coordinate constructs
      have hcoord : ∀ n ∈ sortKeys (g.2.coords.map (fun k => nameOf names (.con k))),
          ∃ e ∈ f.cons, isCoord e = true ∧ e.key ∈ g.2.coords ∧ n = nameOf names (.con e.key) := by
        intro n hn
        obtain ⟨k, hk, rfl⟩ := List.mem_map.mp (mem_sortKeys.mp hn)
        have hsome := hw.2.2.1 k hk
        cases hc : f.coord? k with
        | none => rw [hc] at hsome; cases hsome
        | some e =>
          obtain ⟨h1, h2, h3⟩ := coord?_some hc
          exact ⟨e, h1, h3, by rw [h2]; exact hk, by rw [h2]⟩
      unfold gmEntry
      rw [gmStep_long _ _ _ _ _ _ _ hv]
      · have := ih (fun x hx => hl x (List.mem_cons_of_mem _ hx))
          { vcrs := st.vcrs
            out := st.out ++ [rdGM (nameOf names (.gm g.1)) (gmVar names g) (sortKeys (g.2.coords.map (fun k => nameOf names (.con k))))]
            seen := st.seen ++ [nameOf names (.gm g.1)], used := st.used } hst
        unfold gmEntry at this
        rw [this]
        obtain ⟨hda, hpa⟩ := gmVar_attrs (names := names) hwf hgm
        simp only [List.append_assoc, List.map_cons, List.singleton_append]
        unfold rdGM imgGM
        rw [hda, hpa]
      · -- the variables exist
        intro n hn
        obtain ⟨e, he, _, _, rfl⟩ := hcoord n hn
        rw [var_con hwf hg he]; rfl
      · -- they are the variables of coordinates the reader has
        intro n hn
        obtain ⟨e, he, hco, _, rfl⟩ := hcoord n hn
        exact List.mem_map.mpr ⟨rd o f names e, List.mem_map_of_mem ((mem_coordOrder hwf).mpr ⟨he, hco⟩), rfl⟩
      · -- some coordinate is listed
        have hne := hw.2.2.2.2.2.2.2 hlen
        intro h0
        have := (sortKeys_perm (g.2.coords.map (fun k => nameOf names (.con k)))).length_eq
        rw [h0] at this
        cases hc : g.2.coords with
        | nil => exact hne hc
        | cons _ _ => rw [hc] at this; simp at this
      · -- no parametric coordinate is among them
        intro v hv' hin
        rw [hst] at hv'
        unfold gmInit at hv'
        simp only [List.map_map, List.mem_map, Function.comp] at hv'
        obtain ⟨kr, hkr, rfl⟩ := hv'
        have hkr' := (ftOrder_perm hwf).mem_iff.mp hkr
        obtain ⟨c, hoc, hc, hco, hcc, _⟩ := ft_owner hwf hkr'
        unfold ftReadOf at hin
        rw [hoc] at hin
        simp only at hin
        obtain ⟨e, he, _, hek, hname⟩ := hcoord _ hin
        have : Slot.con c.key = Slot.con e.key := hg.nameOf_inj (slot_con hwf hg hc) (slot_con hwf hg he) hname (Or.inl rfl)
        have hkk : c.key = e.key := by injection this
        exact hwf.2.2.2.2.2.2.2.2.2.2 g hgm kr hkr' c.key (by rw [hcc]; simp) (by rw [hkk]; exact hek)
  rw [key (gmOnly f) (fun _ h => h) (gmInit o f names) rfl]
  simp only
  unfold gmInit
  refine ⟨?_, by simp⟩
  simp only [List.map_map, List.nil_append]
  congr 1
  apply List.map_congr_left
  intro kr hkr
  have hkr' := (ftOrder_perm hwf).mem_iff.mp hkr
  obtain ⟨c, hoc, _⟩ := ft_owner hwf hkr'
  simp only [Function.comp, imgFT]
  unfold ftReadOf
  rw [hoc]
  rfl

omit hg in
/-- The keys of the coordinates of a grid mapping are renamed to their variables' names. -/
theorem gm_coords_kappa {g : Key × MRef} (hgm : g ∈ gmOnly f) :
    g.2.coords.map (kappaB f names) = g.2.coords.map (fun k => nameOf names (.con k)) := by
  apply List.map_congr_left
  intro k hk
  have hsome := (wf_gm hwf hgm).2.2.1 k hk
  cases hc : f.coord? k with
  | none => rw [hc] at hsome; cases hsome
  | some e =>
    obtain ⟨h1, h2, h3⟩ := coord?_some hc
    have hnd : e.con.ctype ≠ .dan := by unfold isCoord at h3; intro e'; rw [e'] at h3; simp at h3
    rw [← h2, kappaB_coord hwf h1 hnd]

omit hg in
/-- One of several grid mappings is read back as itself, up to keys. -/
theorem refEquiv_gm_long {g : Key × MRef} (hgm : g ∈ gmOnly f) :
    RefEquiv (kappaB f names) g.2
      (imgGM names (fun g => sortKeys (g.2.coords.map (fun k => nameOf names (.con k)))) g).2 := by
  unfold imgGM
  refine ⟨?_, List.Perm.refl _, List.Perm.refl _, ?_⟩
  · simp only
    rw [gm_coords_kappa hwf hgm]
    exact sortKeys_perm _
  · simp only
    rw [(wf_gm hwf hgm).2.1]
    exact List.Perm.refl _

omit hwf hg in
theorem rd_props_coord {c : Entry} (hco : isCoord c = true) : (rd o f names c).con.props = c.con.props := by
  have hmv : mainVar f names (wfAx f) c = coordVar f names c (cdimsOf names (wfAx f) c) := by
    unfold mainVar; unfold isCoord at hco
    cases htc : c.con.ctype <;> simp [htc] at hco ⊢
  unfold rd Entry.con rdCon
  simp only
  unfold isCoord at hco
  cases htc : c.con.ctype <;> simp [htc] at hco <;> simp only [readCoord] <;> rw [hmv] <;> rfl

omit hg in
theorem coordOrder_perm : (coordOrder f).Perm (f.cons.filter Entry.isCoordinate) := by
  rw [List.perm_ext_iff_of_nodup (coordOrder_nodup hwf) ((cons_nodup hwf).filter _)]
  intro c
  rw [mem_coordOrder hwf, List.mem_filter]
  rfl

omit hg in
/-- The single grid mapping is read back as itself, up to keys: the coordinates inferred from the
standard names are its coordinates. -/
theorem refEquiv_gm_short {g : Key × MRef} (hgo : gmOnly f = [g]) :
    RefEquiv (kappaB f names) g.2
      (imgGM names (fun g => inferredRead ((coordOrder f).map (rd o f names)) (gmVar names g)) g).2 := by
  have hgm : g ∈ gmOnly f := by rw [hgo]; exact List.mem_cons_self
  have hw := wf_gm hwf hgm
  unfold imgGM
  refine ⟨?_, List.Perm.refl _, List.Perm.refl _, ?_⟩
  · simp only
    -- the grid mapping name is found among the conversion parameters
    have hname : (gmVar names g).attrs.lookup "grid_mapping_name" = g.2.gmName := by
      unfold gmVar MRef.gmName
      simp only
      rw [lookup_append]
      have : g.2.datum.lookup "grid_mapping_name" = none := by
        apply lookup_none_of_forall
        intro p hp he
        have := hw.2.2.2.2.1 p hp
        unfold isDatumParam at this
        rw [he] at this
        revert this; decide
      rw [this]; rfl
    have hsingle := hw.2.2.2.2.2.2.1
    unfold singleGM at hsingle
    rw [hgo] at hsingle
    simp only at hsingle
    have hgmn := (mem_gmOnly.mp hgm).2
    unfold MRef.isGM at hgmn
    cases hn : g.2.gmName with
    | none => rw [hn] at hgmn; cases hgmn
    | some nm =>
      rw [hn] at hsingle
      simp only [Option.getD_some] at hsingle
      unfold inferredRead
      rw [hname, hn]
      simp only [Option.bind_some]
      -- per standard name, the reader's coordinates are the field's, renamed
      have hstep : ∀ n, (((coordOrder f).map (rd o f names)).filter (fun e => stdName e.con.props == some n)).map Entry.key
          = ((coordOrder f).filter (fun e => stdName e.con.props == some n)).map (fun c => nameOf names (.con c.key)) := by
        intro n
        rw [List.filter_map, List.map_map]
        have : (coordOrder f).filter ((fun e : Entry => stdName e.con.props == some n) ∘ rd o f names)
            = (coordOrder f).filter (fun e => stdName e.con.props == some n) := by
          apply List.filter_congr
          intro c hc
          simp only [Function.comp]
          rw [rd_props_coord ((mem_coordOrder hwf).mp hc).2]
        rw [this]
        rfl
      simp only [hstep]
      have hperm : (((Cfdm.Generated.coordRefCoordinates.lookup nm).getD []).flatMap (fun n =>
            ((coordOrder f).filter (fun e => stdName e.con.props == some n)).map (fun c => nameOf names (.con c.key)))).Perm
          ((inferredCoords f nm).map (fun k => nameOf names (.con k))) := by
        unfold inferredCoords
        rw [List.map_flatMap]
        apply List.Perm.flatMap_left
        intro n _
        rw [List.map_map]
        exact ((coordOrder_perm hwf).filter _).map _
      refine hperm.trans ?_
      rw [gm_coords_kappa hwf hgm]
      exact (hsingle.map _).symm
  · simp only
    rw [hw.2.1]
    exact List.Perm.refl _

end

/-! ### The round trip of the field, up to construct keys -/

theorem danKey_inj {x y : String} (h : danKey x = danKey y) : x = y := by
  unfold danKey at h
  have := congrArg String.toList h
  simp only [String.toList_append] at this
  exact String.toList_injective (List.append_cancel_left this)

/-- No variable of a construct is called like the key the modelled reader gives a domain ancillary
(`"@" ++ name`; netCDF names made of letters, digits, `_`, `.`, `-` never are). -/
def NoKeyClash (f : MField) (names : List (Slot × String)) : Prop :=
  ∀ d ∈ f.cons, d.con.ctype = .dan → ∀ e ∈ f.cons, danKey (nameOf names (.con d.key)) ≠ nameOf names (.con e.key)

instance (f : MField) (names : List (Slot × String)) : Decidable (NoKeyClash f names) := by
  unfold NoKeyClash; infer_instance

section
variable {o : Opts} {f : MField} {names : List (Slot × String)} (hwf : WFFieldB f) (hg : GoodNames f (wfAx f) names)
include hwf hg

theorem kappaB_inj (hat : NoKeyClash f names) : InjOn (kappaB f names) (f.cons.map Entry.key) := by
  intro a ha b hb hab
  obtain ⟨e, he, rfl⟩ := List.mem_map.mp ha
  obtain ⟨e', he', rfl⟩ := List.mem_map.mp hb
  have hslot : ∀ {x y : Entry}, x ∈ f.cons → y ∈ f.cons → nameOf names (.con x.key) = nameOf names (.con y.key) → x.key = y.key := by
    intro x y hx hy h
    have : Slot.con x.key = Slot.con y.key := hg.nameOf_inj (slot_con hwf hg hx) (slot_con hwf hg hy) h (Or.inl rfl)
    injection this
  by_cases h1 : e.con.ctype = .dan <;> by_cases h2 : e'.con.ctype = .dan
  · rw [kappaB_dan hwf he h1, kappaB_dan hwf he' h2] at hab
    exact hslot he he' (danKey_inj hab)
  · rw [kappaB_dan hwf he h1, kappaB_coord hwf he' h2] at hab
    exact absurd hab (hat e he h1 e' he')
  · rw [kappaB_coord hwf he h1, kappaB_dan hwf he' h2] at hab
    exact absurd hab.symm (hat e' he' h2 e he)
  · rw [kappaB_coord hwf he h1, kappaB_coord hwf he' h2] at hab
    exact hslot he he' hab

/-- The constructs read back are the constructs of the field, renamed. -/
theorem read_consB :
    (((readOrder f).map (rd o f names) ++ (dansOrder f).map (rdB o f names)).map (renEntry id id)).Perm
      (f.cons.map (renEntry (piOf f names) (kappaB f names))) := by
  rw [List.map_append, List.map_map, List.map_map]
  have h1 : (readOrder f).map (renEntry id id ∘ rd o f names) = (readOrder f).map (renEntry (piOf f names) (kappaB f names)) := by
    apply List.map_congr_left
    intro e he
    obtain ⟨hm, hnd⟩ := mem_consA.mp ((readOrder_perm hwf).mem_iff.mp he)
    simp only [Function.comp]
    rw [rd_ren hwf hg hm]
    unfold renEntry
    rw [kappaB_coord hwf hm hnd]
    rfl
  have h2 : (dansOrder f).map (renEntry id id ∘ rdB o f names) = (dansOrder f).map (renEntry (piOf f names) (kappaB f names)) := by
    apply List.map_congr_left
    intro d hd
    obtain ⟨hm, ht⟩ := List.mem_filter.mp ((dansOrder_perm hwf).mem_iff.mp hd)
    have ht' : d.con.ctype = .dan := by simpa using ht
    simp only [Function.comp]
    unfold renEntry rdB
    simp only [id, List.map_id', Entry.key, Entry.con, Entry.axes]
    have := rdCon_strip (o := o) hwf hg hm
    unfold Entry.con at this
    have hk := kappaB_dan (names := names) hwf hm ht'
    unfold Entry.key at hk
    rw [this, hk]
    simp
  rw [h1, h2, ← List.map_append]
  apply List.Perm.map
  have hp := (readOrder_perm hwf).append (dansOrder_perm hwf)
  refine hp.trans ?_
  unfold consA
  have := List.filter_append_perm (fun e : Entry => e.con.ctype != .dan) f.cons
  have hcongr : f.cons.filter (fun e => !(e.con.ctype != .dan)) = f.cons.filter (fun e => e.con.ctype == .dan) := by
    apply List.filter_congr
    intro e _
    cases e.con.ctype <;> rfl
  rw [hcongr] at this
  exact this

omit hg in
/-- Without exactly one grid mapping no parametric coordinate has a datum. -/
theorem noDatum_of_simple (hS : GMSimple f) (hlen : ¬ (gmOnly f).length = 1) : ∀ kr ∈ ftOnly f, kr.2.datum = [] := by
  rcases hS with h | h
  · intro kr hkr
    cases hdt : kr.2.datum with
    | nil => rfl
    | cons x xs =>
      have hone := (wf_ft hwf hkr).2.2.2.2.2.2.2.2.1 (by rw [hdt]; simp)
      have h0 : (gmOnly f).length = 0 := by omega
      have hnil : gmOnly f = [] := List.length_eq_zero_iff.mp h0
      rw [hnil] at hone
      simp at hone
  · exact h

/-- The data variable references the grid mapping variables and the variables of the domain
ancillaries (with their bounds variables). -/
theorem read_referencedB (hS : GMSimple f) :
    (∀ d ∈ f.cons, d.con.ctype = .dan → ∀ r ∈ danRefs (rdB o f names d),
      r ∈ (readB (wfFile o f names) (dataVar o f (wfAx f) names)
            (readVarA (wfFile o f names) (dataVar o f (wfAx f) names)).cons).referenced)
    ∧ (∀ g ∈ gmRefs f, nameOf names (.gm g.1) ∈
        (readB (wfFile o f names) (dataVar o f (wfAx f) names)
            (readVarA (wfFile o f names) (dataVar o f (wfAx f) names)).cons).referenced) := by
  have hdan : ∀ d ∈ f.cons, d.con.ctype = .dan → ∀ r ∈ danRefs (rdB o f names d),
      r ∈ ((dansOrder f).map (rdB o f names)).flatMap danRefs := by
    intro d hd ht r hr
    have hdo : d ∈ dansOrder f := (dansOrder_perm hwf).mem_iff.mpr (List.mem_filter.mpr ⟨hd, by rw [ht]; rfl⟩)
    exact List.mem_flatMap.mpr ⟨_, List.mem_map_of_mem hdo, hr⟩
  by_cases hlen : (gmOnly f).length = 1
  · obtain ⟨g, hgo⟩ : ∃ g, gmOnly f = [g] := by
      match h : gmOnly f, hlen with
      | [g], _ => exact ⟨g, rfl⟩
    rw [(readB_refs_single hwf hg hgo).2]
    refine ⟨fun d hd ht r hr => List.mem_append_left _ (hdan d hd ht r hr), ?_⟩
    intro g' hg'
    obtain ⟨cs, hgr⟩ := gmRefs_single hwf hgo
    rw [hgr] at hg'
    simp only [List.mem_singleton] at hg'
    rw [hg']
    exact List.mem_append_right _ List.mem_cons_self
  · have hd := noDatum_of_simple hwf hS hlen
    rw [(readB_refs_multi hwf hg hlen hd).2]
    refine ⟨fun d hd' ht r hr => List.mem_append_left _ (hdan d hd' ht r hr), ?_⟩
    intro g' hg'
    rw [gmRefs_noDatum hd] at hg'
    exact List.mem_append_right _ (List.mem_map_of_mem hg')

/-- The coordinate references read back are the coordinate references of the field, up to keys. -/
theorem read_refsB (hS : GMSimple f) :
    RefsEquiv (kappaB f names) f.refs
      (readB (wfFile o f names) (dataVar o f (wfAx f) names)
        (readVarA (wfFile o f names) (dataVar o f (wfAx f) names)).cons).refs := by
  by_cases hlen : (gmOnly f).length = 1
  · -- a single grid mapping
    obtain ⟨g, hgo⟩ : ∃ g, gmOnly f = [g] := by
      match h : gmOnly f, hlen with
      | [g], _ => exact ⟨g, rfl⟩
    have hgm : g ∈ gmOnly f := by rw [hgo]; exact List.mem_cons_self
    apply refsEquiv_parts (kappaB f names) (imgFT o f names (fun _ => g.2.datum))
      (imgGM names (fun g => inferredRead ((coordOrder f).map (rd o f names)) (gmVar names g)))
      (refs_partition hwf) (ftOrder_perm hwf)
    · rw [(readB_refs_single hwf hg hgo).1, hgo]
    · intro kr hkr
      apply refEquiv_ft hwf hg hkr
      have := (wf_ft hwf hkr).2.2.2.2.2.2.2.2.2
      unfold singleGM at this
      rw [hgo] at this
      simp only at this
      rw [this]
    · intro g' hg'
      rw [hgo] at hg'
      simp only [List.mem_cons, List.mem_nil_iff, or_false] at hg'
      subst hg'
      exact refEquiv_gm_short hwf hgo
  · -- none or several: no vertical datum
    have hd := noDatum_of_simple hwf hS hlen
    apply refsEquiv_parts (kappaB f names) (imgFT o f names (fun _ => []))
      (imgGM names (fun g => sortKeys (g.2.coords.map (fun k => nameOf names (.con k)))))
      (refs_partition hwf) (ftOrder_perm hwf)
    · exact (readB_refs_multi hwf hg hlen hd).1
    · intro kr hkr
      apply refEquiv_ft hwf hg hkr
      rw [hd kr hkr]
    · intro g hgm
      exact refEquiv_gm_long hwf hgm

/-- **The field read from the data variable of the written file is the original field up to
construct keys and insertion order** — with its domain ancillaries and coordinate references. -/
theorem read_equivB (hS : GMSimple f) (hat : NoKeyClash f names)
    (hfree : ∀ cm ∈ f.cms, ∀ a ∈ cm.axes, a ∉ f.axisKeys →
      a ∉ (wfFile o f names).dims.map (·.name) ∧ a ∉ (wfFile o f names).vars.map (·.name)) :
    Equiv f (readVar (wfFile o f names) (dataVar o f (wfAx f) names)) := by
  have hshape := readB_shape (o := o) hwf hg
  refine ⟨piOf f names, kappaB f names, pi_inj hwf hg, kappaB_inj hwf hg hat, ?_, ?_, ?_, ?_, ?_, ?_, ?_⟩
  · exact read_props
  · -- data
    unfold readVar readVarA dataVar
    simp
  · -- data axes
    exact dataVar_dims (o := o) hwf
  · -- axes
    show ((readVarA (wfFile o f names) (dataVar o f (wfAx f) names)).axes.map (axisSig id)).Perm _
    rw [read_axes_sig hwf hg, axes_eq_keys hwf.1]
    exact (axisOrder_perm hwf).map _
  · -- constructs
    show (((readVarA (wfFile o f names) (dataVar o f (wfAx f) names)).cons
        ++ (readB (wfFile o f names) (dataVar o f (wfAx f) names)
            (readVarA (wfFile o f names) (dataVar o f (wfAx f) names)).cons).dans).map (renEntry id id)).Perm _
    rw [hshape, read_cons hwf hg]
    exact read_consB hwf hg
  · -- cell methods
    rfl
  · refine ⟨?_, ?_⟩
    · intro cm hcm a ha hak
      refine ⟨pi_free hwf hak, ?_⟩
      intro hin
      obtain ⟨h1, h2⟩ := hfree cm hcm a ha hak
      rcases read_axisKeys hwf hg hin with h | h
      · exact h1 h
      · exact h2 h
    · exact read_refsB hwf hg hS

end

end Cfdm.Codec
