import Cfdm.Lemmas.ConstructsOps
/-
C02 — preservation of the core invariant by the deriving operations
(copy, squeeze, transpose, insert_dimension, subspace, convert).
-/
namespace Cfdm.Constructs

theorem setDataAxes_ok {pt : Bool} {s : St} {A : List Key} {sh : Option (List Nat)} {s' : St} {o : Option Key}
    (hr : setDataAxes pt s A sh = (s', .ok o)) :
    s' = { s with dataAxes := some A, fda := some A } ∧
      (match sh with
       | some shp => Fits s A shp
       | none => pt = true → AxesExist s A) := by
  unfold setDataAxes at hr
  cases sh with
  | some shp =>
    simp only at hr
    split at hr
    · rename_i hs
      simp only [Prod.mk.injEq, Out.ok.injEq] at hr
      exact ⟨hr.1.symm, (sizesOf_iff s A shp).mp hs⟩
    · simp at hr
  | none =>
    simp only at hr
    split at hr
    · simp at hr
    · rename_i hs
      simp only [Prod.mk.injEq, Out.ok.injEq] at hr
      refine ⟨hr.1.symm, fun hp => ?_⟩
      subst hp
      exact all_isAxis (by simpa using hs)

theorem fits_pick {s : St} {A : List Key} {shp : List Nat} (hf : Fits s A shp) (ix : List Nat) {A' : List Key}
    (hp : pick A ix = some A') : ∃ shp', pick shp ix = some shp' ∧ Fits s A' shp' := by
  induction ix generalizing A' with
  | nil =>
    simp only [pick, Option.some.injEq] at hp; subst hp
    exact ⟨[], rfl, by simp [Fits]⟩
  | cons i r ih =>
    unfold pick at hp
    cases hx : A[i]? with
    | none => simp [hx] at hp
    | some x =>
      cases hy : pick A r with
      | none => simp [hx, hy] at hp
      | some y =>
        simp only [hx, hy, Option.some.injEq] at hp
        subst hp
        obtain ⟨shp1, h1, h2⟩ := ih hy
        have hl := fits_length hf
        have hi : i < A.length := by
          rcases List.getElem?_eq_some_iff.mp hx with ⟨hi, _⟩; exact hi
        have hn : shp[i]? = some (shp[i]'(by omega)) := List.getElem?_eq_getElem (by omega)
        refine ⟨shp[i]'(by omega) :: shp1, by unfold pick; simp [hn, h1], ?_⟩
        rw [fits_def] at hf h2 ⊢
        have e : (A.map (axSize s))[i]? = (shp.map (fun n => some (some n)))[i]? := by rw [hf]
        rw [List.getElem?_map, List.getElem?_map, hx, hn] at e
        simp only [Option.map_some, Option.some.injEq] at e
        simp [e, h2]


theorem fits_sizesOf {s : St} {A : List Key} {shp : List Nat} (h : Fits s A shp) : sizesOf s A = some shp :=
  (sizesOf_iff s A shp).mpr h

/-- `set_data_axes` with matching sizes is accepted -/
theorem setDataAxes_accepts {s : St} {A : List Key} {shp : List Nat} (h : sizesOf s A = some shp) :
    setDataAxes true s A (some shp) = ({ s with dataAxes := some A, fda := some A }, .ok none) := by
  unfold setDataAxes; simp [h]

theorem copyField_core {s : St} (h : Core s) : Core (copyField true s).1 := by
  unfold copyField
  split
  · exact h
  have hf := h.fax
  cases hd : s.data with
  | some shp =>
    simp only
    unfold setData dataAxesFor
    cases hA : s.dataAxes with
    | some A =>
      simp only
      have h1 := hf.1
      simp only [hA, hd] at h1
      have hs : sizesOf ({ s with data := none, dataAxes := none } : St) A = some shp := fits_sizesOf h1.2
      rw [setDataAxes_accepts hs]
      exact core_field h rfl rfl rfl ⟨⟨h1.1, h1.2⟩, rfl⟩
    | none =>
      simp only
      refine core_field h rfl rfl rfl ⟨trivial, ?_⟩
      show s.fda = none
      rw [hf.2, hA]
  | none =>
    cases hA : s.dataAxes with
    | some A =>
      simp only
      have h1 := hf.1
      simp only [hA] at h1
      cases hr : setDataAxes true ({ s with data := none, dataAxes := none } : St) A none with
      | mk s' o =>
        cases o with
        | rejected => exact h
        | ok k =>
          simp only
          obtain ⟨rfl, _⟩ := setDataAxes_ok hr
          exact core_field h rfl rfl rfl ⟨⟨h1.1, trivial⟩, rfl⟩
    | none =>
      simp only
      refine core_field h rfl rfl rfl ⟨trivial, ?_⟩
      show s.fda = none
      rw [hf.2, hA]

/-- the field-level part of `squeeze` / `transpose` -/
theorem relabel_core {s : St} (h : Core s) {shp : List Nat} (hd : s.data = some shp) (inplace : Bool) (idx : List Nat) :
    Core (relabel true s inplace shp idx).1 := by
  unfold relabel
  have hf := h.fax
  cases hA : s.dataAxes with
  | none =>
    simp only
    refine core_field h rfl rfl rfl ⟨trivial, ?_⟩
    show s.fda = none
    rw [hf.2, hA]
  | some A =>
    simp only
    cases hp : pick A idx with
    | none => exact h
    | some A' =>
      simp only
      have h1 := hf.1
      simp only [hA, hd] at h1
      obtain ⟨shp', hs1, hs2⟩ := fits_pick h1.2 idx hp
      have hn : newShapeOf shp idx = shp' := by unfold newShapeOf; rw [hs1]; rfl
      rw [hn]
      have e : sizesOfD s.cons A' = some shp' := fits_sizesOf hs2
      simp only [setDataAxes, sizesOf, e, ↓reduceIte]
      exact core_field h rfl rfl rfl ⟨⟨fits_exist hs2, hs2⟩, rfl⟩

theorem squeezeField_core {s : St} (h : Core s) (axes : Option (List Nat)) (inplace : Bool) :
    Core (squeezeField true s axes inplace).1 := by
  unfold squeezeField
  split
  · exact h
  cases hd : s.data with
  | none => exact h
  | some shp =>
    simp only
    cases squeezeIdx shp axes with
    | none => exact h
    | some keep =>
      simp only
      have := relabel_core h hd inplace keep
      cases hr : relabel true s inplace shp keep with
      | mk s' b =>
        rw [hr] at this
        cases b <;> exact this



theorem foldOpt_inv {α β} (P : β → Prop) (f : β → α → Option β)
    (hstep : ∀ b a b', P b → f b a = some b' → P b') :
    ∀ (l : List α) (b b' : β), P b → foldOpt f b l = some b' → P b' := by
  intro l
  induction l with
  | nil => intro b b' hb h; simp only [foldOpt, Option.some.injEq] at h; subst h; exact hb
  | cons a r ih =>
    intro b b' hb h
    unfold foldOpt at h
    cases hf : f b a with
    | none => simp [hf] at h
    | some b1 => simp only [hf] at h; exact ih b1 b' (hstep b a b1 hb hf) h

/-- a construct of an array type is replaced (in place) and its axes are re-set through `set_data_axes` -/
theorem core_restore {s : St} (h : Core s) {p : CType × Key} {c c' : Con} {A : List Key}
    (hc : s.cons.get p = some c) (harr : p.1.isArray = true) (hwf : c'.WF p.1)
    (hchk : axesCheck s p.1 c' A = true) :
    Core { s with cons := s.cons.set p c', caxes := s.caxes.set p.2 A } := by
  obtain ⟨t, k⟩ := p
  have hreg := h.tos _ c hc
  simp only at hreg harr hwf hchk
  have htax : t ≠ .axis := by intro e; subst e; simp [CType.isArray] at harr
  refine core_store (t := t) (k := k) (c := c') (ax := some A) h
    (fun q => by simp [Dict.get_set])
    (fun q => by by_cases hq : q = k <;> simp [hq, hreg])
    (fun q => by simp [Dict.get_set]) rfl rfl rfl
    (fun t' ht' => by rw [hreg] at ht'; cases ht'; rfl) hwf ?_
    (fun e => absurd e htax)
    (fun e => by subst e; simp [CType.isArray] at harr) (fun e => by subst e; simp [CType.isArray] at harr)
  intro A' hA'
  simp only [Option.some.injEq] at hA'; subst hA'
  refine (axesOK_congr (fun a _ => ?_) t c').mpr (axesOK_of_check hwf hchk)
  unfold axSize
  show ((s.cons.set (t, k) c').get (CType.axis, a)).map _ = _
  rw [Dict.get_set, if_neg (by intro e; cases e; exact htax rfl)]

theorem take_insertIdx {α} (x : α) (p : Nat) : ∀ (l : List α) (n : Nat), p ≤ n →
    (l.insertIdx p x).take (n + 1) = (l.take n).insertIdx p x := by
  induction p with
  | zero => intro l n _; simp
  | succ p ih =>
    intro l n hn
    cases l with
    | nil => simp
    | cons a l' =>
      cases n with
      | zero => omega
      | succ m =>
        simp only [List.insertIdx_succ_cons, List.take_succ_cons]
        rw [ih l' m (by omega)]

theorem modelled_shape {t : CType} (ht : modelled t = true) (c : Con) :
    c.shape t = match c.data with
      | some d => some d
      | none => c.bounds.map (fun b => b.take (b.length - (if c.geom then 2 else 1))) := by
  unfold Con.shape
  unfold modelled at ht
  simp only [Bool.and_eq_true, bne_iff_ne, ne_eq] at ht
  simp [ht.1.1, ht.1.2, ht.2]
  rfl

theorem insCon_wf {t : CType} (ht : modelled t = true) (hnd : t ≠ .dim) {c : Con} {d : List Nat} (hd : c.data = some d)
    (hwf : c.WF t) {p : Nat} (hp : p ≤ d.length) : (insCon c p).WF t := by
  have hwf := hwf.1
  refine ⟨?_, fun e => absurd e hnd⟩
  unfold Con.LeadOK at hwf ⊢
  rw [modelled_shape ht] at hwf ⊢
  simp only [hd, insCon, Option.map_some] at hwf ⊢
  have hl : (d.insertIdx p 1).length = d.length + 1 := by
    rw [List.length_insertIdx]; simp [hp]
  rw [hl]
  refine ⟨?_, ?_⟩
  · cases hb : c.bounds with
    | none => trivial
    | some b =>
      have := hwf.1
      simp only [hb] at this
      simp only [Option.map_some]
      rw [take_insertIdx 1 p b d.length hp, this]
  · cases hr : c.ring with
    | none => trivial
    | some r =>
      have := hwf.2
      simp only [hr] at this
      simp only [Option.map_some]
      rw [take_insertIdx 1 p r d.length hp, this]



theorem pick_length {α} {l : List α} : ∀ {ix : List Nat} {r : List α}, pick l ix = some r → r.length = ix.length := by
  intro ix
  induction ix with
  | nil => intro r h; simp only [pick, Option.some.injEq] at h; subst h; rfl
  | cons i rest ih =>
    intro r h
    unfold pick at h
    cases hx : l[i]? with
    | none => simp [hx] at h
    | some x =>
      cases hy : pick l rest with
      | none => simp [hx, hy] at h
      | some y =>
        simp only [hx, hy, Option.some.injEq] at h
        subst h
        simp [ih hy]

theorem pick_lt {α} {l : List α} : ∀ {ix : List Nat} {r : List α}, pick l ix = some r → ∀ i ∈ ix, i < l.length := by
  intro ix
  induction ix with
  | nil => intro r _ i hi; simp at hi
  | cons j rest ih =>
    intro r h i hi
    unfold pick at h
    cases hx : l[j]? with
    | none => simp [hx] at h
    | some x =>
      cases hy : pick l rest with
      | none => simp [hx, hy] at h
      | some y =>
        rcases List.mem_cons.mp hi with e | e
        · subst e; exact (List.getElem?_eq_some_iff.mp hx).1
        · exact ih hy i e

theorem pick_congr {α} {l1 l2 : List α} : ∀ (ix : List Nat), (∀ i ∈ ix, l1[i]? = l2[i]?) → pick l1 ix = pick l2 ix := by
  intro ix
  induction ix with
  | nil => intro _; rfl
  | cons j rest ih =>
    intro h
    unfold pick
    rw [h j (by simp), ih (fun i hi => h i (by simp [hi]))]

theorem transShape_wf {d d' : List Nat} {ix : List Nat} (hd : pick d ix = some d') {x : Option (List Nat)}
    {x' : Option (List Nat)} (hx : transShape ix x = some x')
    (hwf : ∀ b, x = some b → b.take d.length = d) :
    ∀ b, x' = some b → b.take d'.length = d' := by
  unfold transShape at hx
  cases x with
  | none => simp only [Option.some.injEq] at hx; subst hx; intro b hb; cases hb
  | some b =>
    have hwf := hwf b rfl
    simp only at hx
    cases hp : pick b ix with
    | none => simp [hp] at hx
    | some l =>
      simp only [hp, Option.map_some, Option.some.injEq] at hx
      subst hx
      intro b0 hb0
      simp only [Option.some.injEq] at hb0
      subst hb0
      have hlt := pick_lt hd
      have : pick b ix = pick d ix := by
        apply pick_congr
        intro i hi
        have := hlt i hi
        rw [← hwf, List.getElem?_take]
        simp [this]
      rw [this, hd] at hp
      simp only [Option.some.injEq] at hp
      subst hp
      rw [pick_length hd, List.take_append_of_le_length (by rw [pick_length hd]; exact Nat.le_refl _)]
      rw [← pick_length hd, List.take_length]

theorem transCon_wf {t : CType} (ht : modelled t = true) (hnd : t ≠ .dim) {c c' : Con} {d : List Nat} (hd : c.data = some d)
    (hwf : c.WF t) {ix : List Nat} (h : transCon c ix = some c') : c'.WF t := by
  have hwf := hwf.1
  unfold Con.LeadOK at hwf
  rw [modelled_shape ht] at hwf
  simp only [hd] at hwf
  obtain ⟨h1, h2⟩ := hwf
  unfold transCon at h
  simp only [hd] at h
  cases hp : pick d ix with
  | none => simp [hp] at h
  | some d' =>
    cases hb : transShape ix c.bounds with
    | none => simp [hp, hb] at h
    | some b' =>
      cases hr : transShape ix c.ring with
      | none => simp [hp, hb, hr] at h
      | some r' =>
        simp only [hp, hb, hr, Option.some.injEq] at h
        subst h
        refine ⟨?_, fun e => absurd e hnd⟩
        unfold Con.LeadOK
        rw [modelled_shape ht]
        simp only
        have g1 := transShape_wf hp hb (fun b hb => by rw [hb] at h1; exact h1)
        have g2 := transShape_wf hp hr (fun b hb => by rw [hb] at h2; exact h2)
        refine ⟨?_, ?_⟩
        · cases b' with
          | none => trivial
          | some b => exact g1 b rfl
        · cases r' with
          | none => trivial
          | some r => exact g2 r rfl

theorem transOne_core {s s' : St} (h : Core s) (p : CType × Key) (hr : transOne s p = some s') : Core s' := by
  unfold transOne at hr
  cases hc : s.cons.get p with
  | none => simp only [hc, Option.some.injEq] at hr; subst hr; exact h
  | some c =>
    simp only [hc] at hr
    split at hr
    · simp only [Option.some.injEq] at hr; subst hr; exact h
    rename_i harr
    cases hd : c.data with
    | none => simp only [hd, Option.some.injEq] at hr; subst hr; exact h
    | some d =>
      simp only [hd] at hr
      split at hr
      · simp only [Option.some.injEq] at hr; subst hr; exact h
      split at hr
      · -- a domain topology / cell connectivity: the construct is unchanged, its axes are re-set
        split at hr
        · split at hr
          · rename_i hcond
            simp only [Option.some.injEq] at hr
            subst hr
            simp only [Bool.and_eq_true] at hcond
            exact core_restore h hc (by simpa using harr) (h.wf _ c hc) hcond.2
          · cases hr
        · cases hr
      split at hr
      · cases hr
      rename_i hmod
      cases hx : s.caxes.get p.2 with
      | none => simp [hx] at hr
      | some cax =>
        cases hn : s.dataAxes with
        | none => simp [hx, hn] at hr
        | some nda =>
          simp only [hx, hn] at hr
          split at hr
          · cases hr
          cases ht : transCon c ((insertMissing cax (nda.filter (fun a => cax.contains a))).map (fun a => cax.idxOf a)) with
          | none => simp only [ht] at hr; cases hr
          | some c' =>
            simp only [ht] at hr
            split at hr
            · rename_i hchk
              simp only [Option.some.injEq] at hr
              subst hr
              have hnd : p.1 ≠ .dim := by
                intro e
                have := (h.wf _ c hc).2 e
                simp only [hd] at this
                omega
              have := core_restore h hc (by simpa using harr) (transCon_wf (by simpa using hmod) hnd hd (h.wf _ c hc) ht) hchk
              rw [hn] at this
              exact this
            · cases hr

theorem insOne_core {s s' : St} (h : Core s) (axis : Key) (position : Nat) (da0 : List Key) (p : CType × Key)
    (hr : insOne true axis position da0 s p = some s') : Core s' := by
  unfold insOne at hr
  cases hc : s.cons.get p with
  | none => simp only [hc, Option.some.injEq] at hr; subst hr; exact h
  | some c =>
    simp only [hc] at hr
    split at hr
    · simp only [Option.some.injEq] at hr; subst hr; exact h
    rename_i harr
    cases hd : c.data with
    | none => simp only [hd, Option.some.injEq] at hr; subst hr; exact h
    | some d =>
      simp only [hd] at hr
      cases hx : s.caxes.get p.2 with
      | none => simp [hx] at hr
      | some cax =>
        simp only [hx] at hr
        split at hr
        · simp only [Option.some.injEq] at hr; subst hr; exact h
        split at hr
        · simp only [Option.some.injEq] at hr; subst hr; exact h
        rename_i hdim
        split at hr
        · cases hr
        rename_i hmod
        split at hr
        · cases hr
        rename_i hpos
        split at hr
        · rename_i hchk
          simp only [Option.some.injEq] at hr
          subst hr
          exact core_restore h hc (by simpa using harr)
            (insCon_wf (by simpa using hmod) (by intro e; simp [skippedByInsert, e] at hdim) hd (h.wf _ c hc) (by omega)) hchk
        · cases hr

theorem map_insertIdx' {α β} (f : α → β) (x : α) : ∀ (p : Nat) (l : List α), (l.insertIdx p x).map f = (l.map f).insertIdx p (f x) := by
  intro p
  induction p with
  | zero => intro l; simp
  | succ p ih =>
    intro l
    cases l with
    | nil => simp
    | cons a r => simp [ih r]

theorem fits_insertIdx {s : St} {A : List Key} {shp : List Nat} (hf : Fits s A shp) {a : Key}
    (ha : axSize s a = some (some 1)) (p : Nat) : Fits s (A.insertIdx p a) (shp.insertIdx p 1) := by
  rw [fits_def] at hf ⊢
  rw [map_insertIdx', map_insertIdx', hf, ha]

theorem insertAxisKey_spec {s s1 : St} (h : Core s) {axis : Option Key} {a : Key}
    (hr : insertAxisKey true s axis = some (s1, a)) : Core s1 ∧ axSize s1 a = some (some 1) := by
  unfold insertAxisKey at hr
  cases axis with
  | none =>
    simp only at hr
    have hc := setConstruct_core h false .axis { size := some 1 } none none
      ⟨(by decide), (fun _ k old hk => by cases hk), (fun e => by cases e), (fun e => by cases e)⟩
    cases hsc : setConstruct true s false .axis { size := some 1 } none none with
    | mk s' o =>
      rw [hsc] at hr hc
      cases o with
      | rejected => simp at hr
      | ok ko =>
        cases ko with
        | none => simp at hr
        | some k =>
          simp only [Option.some.injEq, Prod.mk.injEq] at hr
          obtain ⟨rfl, rfl⟩ := hr
          refine ⟨hc, ?_⟩
          -- the stored construct is the new axis
          unfold setConstruct at hsc
          simp only [ignored, Bool.false_and, Bool.false_eq_true, ↓reduceIte, resolveKey] at hsc
          unfold storeAt at hsc
          simp only [CType.isArray, Bool.false_eq_true, ↓reduceIte, Option.isSome_none, Prod.mk.injEq, Out.ok.injEq,
            Option.some.injEq] at hsc
          obtain ⟨rfl, rfl⟩ := hsc
          unfold axSize
          rw [putCon_cons]; simp
  | some a0 =>
    simp only at hr
    cases hg : s.cons.get (.axis, a0) with
    | none => simp [hg] at hr
    | some c =>
      simp only [hg] at hr
      split at hr
      · rename_i hs1
        simp only [Option.some.injEq, Prod.mk.injEq] at hr
        obtain ⟨rfl, rfl⟩ := hr
        exact ⟨h, by unfold axSize; rw [hg]; simp [hs1]⟩
      · cases hr

theorem insertField_core {s : St} (h : Core s) {a : Key} (ha : axSize s a = some (some 1)) (position : Nat) :
    Core (insertField true s a position).1 := by
  unfold insertField
  have hf := h.fax
  have haex : (s.cons.get (.axis, a)).isSome = true := by
    unfold axSize at ha
    cases hg : s.cons.get (.axis, a) with
    | none => simp [hg] at ha
    | some _ => rfl
  cases hA : s.dataAxes with
  | none =>
    cases hd : s.data with
    | none => exact h
    | some shp =>
      simp only
      split
      · refine core_field h rfl rfl rfl ⟨trivial, ?_⟩
        show s.fda = none
        rw [hf.2, hA]
      · exact h
  | some A =>
    have h1 := hf.1
    simp only [hA] at h1
    cases hd : s.data with
    | none =>
      simp only
      split
      · exact h
      cases hr : setDataAxes true s (A.insertIdx (min position A.length) a) none with
      | mk s' o =>
        cases o with
        | rejected => exact h
        | ok k =>
          simp only
          obtain ⟨rfl, hex⟩ := setDataAxes_ok hr
          exact core_field h rfl rfl rfl ⟨⟨hex rfl, by simp only [hd]⟩, rfl⟩
    | some shp =>
      simp only [hd] at h1
      simp only
      split
      · exact h
      split
      · rename_i hpos
        have hl := fits_length h1.2
        have hmin : min position A.length = position := by omega
        rw [hmin]
        have hfit := fits_insertIdx h1.2 ha position
        have e : sizesOfD s.cons (A.insertIdx position a) = some (shp.insertIdx position 1) := fits_sizesOf hfit
        simp only [setDataAxes, sizesOf, e, ↓reduceIte]
        exact core_field h rfl rfl rfl ⟨⟨fits_exist hfit, hfit⟩, rfl⟩
      · exact h


end Cfdm.Constructs
