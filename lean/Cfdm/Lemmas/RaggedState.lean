import Cfdm.Model.RaggedState
/-
Helper lemmas for the C06 compression state machine.
-/
namespace Cfdm.RaggedState

variable {C A I V : Type} (np : NpOps A I V) (dec : C → A)

@[simp] theorem view_plain (a : A) : view dec (Repr.plain a : Repr C A) = a := rfl
@[simp] theorem view_comp (c : C) : view dec (Repr.comp c : Repr C A) = dec c := rfl
@[simp] theorem isComp_plain (a : A) : isComp (Repr.plain a : Repr C A) = false := rfl
@[simp] theorem isComp_comp (c : C) : isComp (Repr.comp c : Repr C A) = true := rfl

theorem put_map (f : Repr C A → A × Bool) (heap : List (Repr C A)) (i : Nat) (b : Bool) (r : Repr C A) :
    (put heap i b r).map f = if b then (heap.map f).set i (f r) else heap.map f ++ [f r] := by
  cases b <;> simp [put, List.map_set]

/-- One step of the model is one step of the specification on the abstracted heap. -/
theorem step_abs (heap : List (Repr C A)) (op : Op I V) :
    (step np dec heap op).1.map (abs dec) = (specStep np (heap.map (abs dec)) op).1
    ∧ (step np dec heap op).2 = (specStep np (heap.map (abs dec)) op).2 := by
  cases op with
  | array i => cases h : heap[i]? <;> simp [step, specStep, h, abs]
  | getitem i ix => cases h : heap[i]? <;> simp [step, specStep, h, abs]
  | copy i => cases h : heap[i]? <;> simp [step, specStep, h]
  | setitem i ix v =>
    cases h : heap[i]? <;>
      simp [step, specStep, h, abs, target, effect, changes, List.map_set]
  | transpose i axes b =>
    cases h : heap[i]? with
    | none => simp [step, specStep, h, target]
    | some d =>
      cases ht : transposeAxes (np.shape (view dec d)).length axes <;>
        cases b <;>
        simp [step, specStep, h, target, effect, changes, ht, abs, put, List.map_set]
  | squeeze i axes b =>
    cases h : heap[i]? with
    | none => simp [step, specStep, h, target]
    | some d =>
      cases ht : squeezeAxes (np.shape (view dec d)) axes <;>
        cases b <;>
        simp [step, specStep, h, target, effect, changes, ht, abs, put, List.map_set]
  | insertDim i pos b =>
    cases h : heap[i]? <;> cases b <;>
      simp [step, specStep, h, target, effect, changes, abs, put, List.map_set]
  | toMemory i b =>
    cases h : heap[i]? <;> cases b <;>
      simp [step, specStep, h, target, effect, changes, abs, put, List.map_set]
  | uncompress i b =>
    cases h : heap[i]? with
    | none => simp [step, specStep, h, target]
    | some d =>
      cases d <;> cases b <;>
        simp [step, specStep, h, target, effect, changes, abs, put, List.map_set]
  | equals i j =>
    cases h : heap[i]? <;> cases h' : heap[j]? <;> simp [step, specStep, h, h', abs]
  | write i => cases h : heap[i]? <;> simp [step, specStep, h, abs]

theorem run_abs (ops : List (Op I V)) : ∀ (heap : List (Repr C A)),
    (run np dec heap ops).1.map (abs dec) = (specRun np (heap.map (abs dec)) ops).1
    ∧ (run np dec heap ops).2 = (specRun np (heap.map (abs dec)) ops).2 := by
  induction ops with
  | nil => intro heap; simp [run, specRun]
  | cons op ops ih =>
    intro heap
    obtain ⟨h1, h2⟩ := step_abs np dec heap op
    obtain ⟨i1, i2⟩ := ih (step np dec heap op).1
    simp only [run, specRun]
    rw [← h1, ← h2]
    exact ⟨i1, by rw [i2]⟩

/-! ### an object that is not touched keeps its compressed array -/

theorem getElem?_put_of_ne (heap : List (Repr C A)) (i j : Nat) (b : Bool) (r x : Repr C A)
    (hx : heap[i]? = some x) (hne : ¬ (b = true ∧ j = i)) : (put heap j b r)[i]? = some x := by
  have hi : i < heap.length := (List.getElem?_eq_some_iff.mp hx).1
  cases b with
  | false => simp [put, List.getElem?_append_left hi, hx]
  | true =>
    have : j ≠ i := fun e => hne ⟨rfl, e⟩
    simp [put, List.getElem?_set_ne this, hx]

theorem step_untouched (heap : List (Repr C A)) (op : Op I V) (i : Nat) (x : Repr C A)
    (hx : heap[i]? = some x) (ht : touches i op = false) : (step np dec heap op).1[i]? = some x := by
  have hi : i < heap.length := (List.getElem?_eq_some_iff.mp hx).1
  cases op with
  | array j => cases h : heap[j]? <;> simp [step, h, hx]
  | getitem j ix => cases h : heap[j]? <;> simp [step, h, hx, List.getElem?_append_left hi]
  | copy j => cases h : heap[j]? <;> simp [step, h, hx, List.getElem?_append_left hi]
  | setitem j ix v =>
    have hne : j ≠ i := by simpa [touches, target] using ht
    cases h : heap[j]? <;> simp [step, h, hx, List.getElem?_set_ne hne]
  | transpose j axes b =>
    have hne : ¬ (b = true ∧ j = i) := by
      cases b <;> simp_all [touches, target]
    cases h : heap[j]? with
    | none => simp [step, h, hx]
    | some d =>
      cases hta : transposeAxes (np.shape (view dec d)).length axes <;>
        simp [step, h, hta, getElem?_put_of_ne heap i j b _ x hx hne]
  | squeeze j axes b =>
    have hne : ¬ (b = true ∧ j = i) := by
      cases b <;> simp_all [touches, target]
    cases h : heap[j]? with
    | none => simp [step, h, hx]
    | some d =>
      cases hta : squeezeAxes (np.shape (view dec d)) axes <;>
        simp [step, h, hta, getElem?_put_of_ne heap i j b _ x hx hne]
  | insertDim j pos b =>
    have hne : ¬ (b = true ∧ j = i) := by
      cases b <;> simp_all [touches, target]
    cases h : heap[j]? <;> simp [step, h, hx, getElem?_put_of_ne heap i j b _ x hx hne]
  | toMemory j b =>
    have hne : ¬ (b = true ∧ j = i) := by
      cases b <;> simp_all [touches, target]
    cases h : heap[j]? <;> simp [step, h, hx, getElem?_put_of_ne heap i j b _ x hx hne]
  | uncompress j b =>
    have hne : ¬ (b = true ∧ j = i) := by
      cases b <;> simp_all [touches, target]
    cases h : heap[j]? <;> simp [step, h, hx, getElem?_put_of_ne heap i j b _ x hx hne]
  | equals j k => cases h : heap[j]? <;> cases h' : heap[k]? <;> simp [step, h, h', hx]
  | write j => cases h : heap[j]? <;> simp [step, h, hx]

theorem run_untouched (ops : List (Op I V)) : ∀ (heap : List (Repr C A)) (i : Nat) (x : Repr C A),
    heap[i]? = some x → (∀ op ∈ ops, touches i op = false) → (run np dec heap ops).1[i]? = some x := by
  induction ops with
  | nil => intro heap i x hx _; simpa [run] using hx
  | cons op ops ih =>
    intro heap i x hx ht
    simp only [run]
    exact ih _ i x (step_untouched np dec heap op i x hx (ht op (by simp))) (fun o ho => ht o (by simp [ho]))

/-! ### the specification's arrays do not depend on the flags -/

/-- Forget whether something was written compressed. -/
def eraseWritten : Obs A → Obs A
  | .written _ => .none
  | o => o

theorem specStep_values (h1 h2 : List (A × Bool)) (op : Op I V) (h : h1.map Prod.fst = h2.map Prod.fst) :
    (specStep np h1 op).1.map Prod.fst = (specStep np h2 op).1.map Prod.fst
    ∧ eraseWritten (specStep np h1 op).2 = eraseWritten (specStep np h2 op).2 := by
  have hget : ∀ i : Nat, (h1[i]?).map Prod.fst = (h2[i]?).map Prod.fst := by
    intro i
    have := congrArg (fun l => l[i]?) h
    simpa [List.getElem?_map] using this
  have key : ∀ i : Nat, (h1[i]? = .none ∧ h2[i]? = .none) ∨
      ∃ a f1 f2, h1[i]? = some (a, f1) ∧ h2[i]? = some (a, f2) := by
    intro i
    have := hget i
    cases e1 : h1[i]? with
    | none => cases e2 : h2[i]? with
      | none => exact .inl ⟨rfl, rfl⟩
      | some y => rw [e1, e2] at this; simp at this
    | some x => cases e2 : h2[i]? with
      | none => rw [e1, e2] at this; simp at this
      | some y =>
        rw [e1, e2] at this
        have : x.1 = y.1 := by simpa using this
        exact .inr ⟨x.1, x.2, y.2, by simp, by simp [this]⟩
  have hset : ∀ (i : Nat) (a : A) (f1 f2 : Bool),
      (h1.set i (a, f1)).map Prod.fst = (h2.set i (a, f2)).map Prod.fst := by
    intro i a f1 f2; simp [List.map_set, h]
  cases op with
  | array i =>
    rcases key i with ⟨e1, e2⟩ | ⟨a, f1, f2, e1, e2⟩ <;> simp [specStep, e1, e2, h, eraseWritten]
  | getitem i ix =>
    rcases key i with ⟨e1, e2⟩ | ⟨a, f1, f2, e1, e2⟩ <;> simp [specStep, e1, e2, h, eraseWritten]
  | copy i =>
    rcases key i with ⟨e1, e2⟩ | ⟨a, f1, f2, e1, e2⟩ <;> simp [specStep, e1, e2, h, eraseWritten]
  | equals i j =>
    rcases key i with ⟨e1, e2⟩ | ⟨a, f1, f2, e1, e2⟩ <;>
      rcases key j with ⟨e3, e4⟩ | ⟨a', f3, f4, e3, e4⟩ <;>
      simp [specStep, e1, e2, e3, e4, h, eraseWritten]
  | write i =>
    rcases key i with ⟨e1, e2⟩ | ⟨a, f1, f2, e1, e2⟩ <;> simp [specStep, e1, e2, h, eraseWritten]
  | setitem i ix v =>
    rcases key i with ⟨e1, e2⟩ | ⟨a, f1, f2, e1, e2⟩ <;>
      simp [specStep, target, e1, e2, h, eraseWritten, List.map_set]
  | transpose i axes b =>
    rcases key i with ⟨e1, e2⟩ | ⟨a, f1, f2, e1, e2⟩ <;> cases b <;>
      simp [specStep, target, e1, e2, h, eraseWritten, List.map_set]
  | squeeze i axes b =>
    rcases key i with ⟨e1, e2⟩ | ⟨a, f1, f2, e1, e2⟩ <;> cases b <;>
      simp [specStep, target, e1, e2, h, eraseWritten, List.map_set]
  | insertDim i pos b =>
    rcases key i with ⟨e1, e2⟩ | ⟨a, f1, f2, e1, e2⟩ <;> cases b <;>
      simp [specStep, target, e1, e2, h, eraseWritten, List.map_set]
  | toMemory i b =>
    rcases key i with ⟨e1, e2⟩ | ⟨a, f1, f2, e1, e2⟩ <;> cases b <;>
      simp [specStep, target, e1, e2, h, eraseWritten, List.map_set]
  | uncompress i b =>
    rcases key i with ⟨e1, e2⟩ | ⟨a, f1, f2, e1, e2⟩ <;> cases b <;>
      simp [specStep, target, e1, e2, h, eraseWritten, List.map_set]

theorem specRun_values (ops : List (Op I V)) : ∀ (h1 h2 : List (A × Bool)),
    h1.map Prod.fst = h2.map Prod.fst →
    (specRun np h1 ops).1.map Prod.fst = (specRun np h2 ops).1.map Prod.fst
    ∧ (specRun np h1 ops).2.map eraseWritten = (specRun np h2 ops).2.map eraseWritten := by
  induction ops with
  | nil => intro h1 h2 h; simpa [specRun] using h
  | cons op ops ih =>
    intro h1 h2 h
    obtain ⟨s1, s2⟩ := specStep_values np h1 h2 op h
    obtain ⟨i1, i2⟩ := ih _ _ s1
    simp only [specRun, List.map_cons]
    exact ⟨i1, by rw [s2, i2]⟩

/-! ### a compressed array is never created or altered by an operation on an existing object -/

theorem getElem?_put_comp (heap : List (Repr C A)) (i j : Nat) (b : Bool) (r : Repr C A) (c : C)
    (hi : i < heap.length) (h : (put heap j b r)[i]? = some (.comp c))
    (hr : (b = true ∧ j = i) → r = .comp c → heap[i]? = some (.comp c)) :
    heap[i]? = some (.comp c) := by
  cases b with
  | false => simpa [put, List.getElem?_append_left hi] using h
  | true =>
    by_cases hj : j = i
    · subst hj
      have : r = .comp c := by simpa [put, List.getElem?_set_self hi] using h
      exact hr ⟨rfl, rfl⟩ this
    · simpa [put, List.getElem?_set_ne hj] using h

theorem step_comp_origin (heap : List (Repr C A)) (op : Op I V) (i : Nat) (c : C)
    (hi : i < heap.length) (h : (step np dec heap op).1[i]? = some (.comp c)) :
    heap[i]? = some (.comp c) := by
  cases op with
  | array j => cases hj : heap[j]? <;> simpa [step, hj] using h
  | getitem j ix => cases hj : heap[j]? <;> simpa [step, hj, List.getElem?_append_left hi] using h
  | copy j => cases hj : heap[j]? <;> simpa [step, hj, List.getElem?_append_left hi] using h
  | setitem j ix v =>
    cases hj : heap[j]? with
    | none => simpa [step, hj] using h
    | some d =>
      by_cases e : j = i
      · subst e; simp [step, hj, List.getElem?_set_self hi] at h
      · simpa [step, hj, List.getElem?_set_ne e] using h
  | transpose j axes b =>
    cases hj : heap[j]? with
    | none => simpa [step, hj] using h
    | some d =>
      cases hta : transposeAxes (np.shape (view dec d)).length axes with
      | none =>
        simp only [step, hj, hta] at h
        exact getElem?_put_comp heap i j b d c hi h (fun ⟨_, e⟩ hd => by subst e; rw [hj, hd])
      | some ax =>
        simp only [step, hj, hta] at h
        exact getElem?_put_comp heap i j b _ c hi h (fun _ hd => by simp at hd)
  | squeeze j axes b =>
    cases hj : heap[j]? with
    | none => simpa [step, hj] using h
    | some d =>
      cases hta : squeezeAxes (np.shape (view dec d)) axes with
      | none =>
        simp only [step, hj, hta] at h
        exact getElem?_put_comp heap i j b d c hi h (fun ⟨_, e⟩ hd => by subst e; rw [hj, hd])
      | some ax =>
        simp only [step, hj, hta] at h
        exact getElem?_put_comp heap i j b _ c hi h (fun _ hd => by simp at hd)
  | insertDim j pos b =>
    cases hj : heap[j]? with
    | none => simpa [step, hj] using h
    | some d =>
      simp only [step, hj] at h
      exact getElem?_put_comp heap i j b _ c hi h (fun _ hd => by simp at hd)
  | toMemory j b =>
    cases hj : heap[j]? with
    | none => simpa [step, hj] using h
    | some d =>
      simp only [step, hj] at h
      exact getElem?_put_comp heap i j b d c hi h (fun ⟨_, e⟩ hd => by subst e; rw [hj, hd])
  | uncompress j b =>
    cases hj : heap[j]? with
    | none => simpa [step, hj] using h
    | some d =>
      simp only [step, hj] at h
      refine getElem?_put_comp heap i j b _ c hi h (fun ⟨_, e⟩ hd => ?_)
      cases d <;> simp at hd
  | equals j k => cases hj : heap[j]? <;> cases hk : heap[k]? <;> simpa [step, hj, hk] using h
  | write j => cases hj : heap[j]? <;> simpa [step, hj] using h

theorem step_length_le (heap : List (Repr C A)) (op : Op I V) :
    heap.length ≤ (step np dec heap op).1.length := by
  have hput : ∀ (j : Nat) (b : Bool) (r : Repr C A), heap.length ≤ (put heap j b r).length := by
    intro j b r; cases b <;> simp [put]
  cases op with
  | array j => cases hj : heap[j]? <;> simp [step, hj]
  | getitem j ix => cases hj : heap[j]? <;> simp [step, hj]
  | copy j => cases hj : heap[j]? <;> simp [step, hj]
  | setitem j ix v => cases hj : heap[j]? <;> simp [step, hj]
  | transpose j axes b =>
    cases hj : heap[j]? with
    | none => simp [step, hj]
    | some d => cases hta : transposeAxes (np.shape (view dec d)).length axes <;> simp [step, hj, hta, hput]
  | squeeze j axes b =>
    cases hj : heap[j]? with
    | none => simp [step, hj]
    | some d => cases hta : squeezeAxes (np.shape (view dec d)) axes <;> simp [step, hj, hta, hput]
  | insertDim j pos b => cases hj : heap[j]? <;> simp [step, hj, hput]
  | toMemory j b => cases hj : heap[j]? <;> simp [step, hj, hput]
  | uncompress j b => cases hj : heap[j]? <;> simp [step, hj, hput]
  | equals j k => cases hj : heap[j]? <;> cases hk : heap[k]? <;> simp [step, hj, hk]
  | write j => cases hj : heap[j]? <;> simp [step, hj]

theorem run_comp_origin (ops : List (Op I V)) : ∀ (heap : List (Repr C A)) (i : Nat) (c : C),
    i < heap.length → (run np dec heap ops).1[i]? = some (.comp c) → heap[i]? = some (.comp c) := by
  induction ops with
  | nil => intro heap i c _ h; simpa [run] using h
  | cons op ops ih =>
    intro heap i c hi h
    simp only [run] at h
    have hl := step_length_le np dec heap op
    exact step_comp_origin np dec heap op i c hi (ih _ i c (by omega) h)

end Cfdm.RaggedState

namespace Cfdm.RaggedState
variable {C A I V : Type} (np : NpOps A I V)

/-! ### two decoders that agree on the compressed arrays present give the same history -/

/-- The decoders agree on every compressed array held by an object of the heap. -/
def AgreeOn (dec dec' : C → A) (heap : List (Repr C A)) : Prop :=
  ∀ c, Repr.comp c ∈ heap → dec c = dec' c

theorem view_agree (dec dec' : C → A) (heap : List (Repr C A)) (h : AgreeOn dec dec' heap)
    (i : Nat) (d : Repr C A) (hd : heap[i]? = some d) : view dec d = view dec' d := by
  cases d with
  | plain a => rfl
  | comp c => exact h c (List.mem_of_getElem? hd)

theorem agreeOn_put (dec dec' : C → A) (heap : List (Repr C A)) (h : AgreeOn dec dec' heap)
    (j : Nat) (b : Bool) (r : Repr C A) (hr : ∀ c, r = .comp c → dec c = dec' c) :
    AgreeOn dec dec' (put heap j b r) := by
  intro c hc
  cases b with
  | false =>
    simp only [put, Bool.false_eq_true, if_false, List.mem_append, List.mem_singleton] at hc
    rcases hc with hc | hc
    · exact h c hc
    · exact hr c hc.symm
  | true =>
    simp only [put, if_true] at hc
    rcases List.mem_or_eq_of_mem_set hc with hc | hc
    · exact h c hc
    · exact hr c hc.symm

theorem step_agree (dec dec' : C → A) (heap : List (Repr C A)) (h : AgreeOn dec dec' heap) (op : Op I V) :
    step np dec heap op = step np dec' heap op ∧ AgreeOn dec dec' (step np dec heap op).1 := by
  have hself : ∀ (i : Nat) (d : Repr C A), heap[i]? = some d → ∀ c, d = .comp c → dec c = dec' c :=
    fun i d hd c e => h c (e ▸ List.mem_of_getElem? hd)
  have hplain : ∀ (a : A) (c : C), (Repr.plain a : Repr C A) = .comp c → dec c = dec' c := by
    intro a c e; cases e
  cases op with
  | array i =>
    cases hi : heap[i]? with
    | none => simp [step, hi]; exact h
    | some d => simp [step, hi, view_agree dec dec' heap h i d hi]; exact h
  | getitem i ix =>
    cases hi : heap[i]? with
    | none => simp [step, hi]; exact h
    | some d =>
      simp only [step, hi, view_agree dec dec' heap h i d hi, true_and]
      exact agreeOn_put dec dec' heap h 0 false _ (hplain _)
  | copy i =>
    cases hi : heap[i]? with
    | none => simp [step, hi]; exact h
    | some d =>
      simp only [step, hi, true_and]
      exact agreeOn_put dec dec' heap h 0 false d (hself i d hi)
  | setitem i ix v =>
    cases hi : heap[i]? with
    | none => simp [step, hi]; exact h
    | some d =>
      simp only [step, hi, view_agree dec dec' heap h i d hi, true_and]
      exact agreeOn_put dec dec' heap h i true _ (hplain _)
  | transpose i axes b =>
    cases hi : heap[i]? with
    | none => simp [step, hi]; exact h
    | some d =>
      simp only [step, hi, view_agree dec dec' heap h i d hi]
      cases transposeAxes (np.shape (view dec' d)).length axes with
      | none => exact ⟨trivial, agreeOn_put dec dec' heap h i b d (hself i d hi)⟩
      | some ax => exact ⟨trivial, agreeOn_put dec dec' heap h i b _ (hplain _)⟩
  | squeeze i axes b =>
    cases hi : heap[i]? with
    | none => simp [step, hi]; exact h
    | some d =>
      simp only [step, hi, view_agree dec dec' heap h i d hi]
      cases squeezeAxes (np.shape (view dec' d)) axes with
      | none => exact ⟨trivial, agreeOn_put dec dec' heap h i b d (hself i d hi)⟩
      | some ax => exact ⟨trivial, agreeOn_put dec dec' heap h i b _ (hplain _)⟩
  | insertDim i pos b =>
    cases hi : heap[i]? with
    | none => simp [step, hi]; exact h
    | some d =>
      simp only [step, hi, view_agree dec dec' heap h i d hi, true_and]
      exact agreeOn_put dec dec' heap h i b _ (hplain _)
  | toMemory i b =>
    cases hi : heap[i]? with
    | none => simp [step, hi]; exact h
    | some d =>
      simp only [step, hi, true_and]
      exact agreeOn_put dec dec' heap h i b d (hself i d hi)
  | uncompress i b =>
    cases hi : heap[i]? with
    | none => simp [step, hi]; exact h
    | some d =>
      simp only [step, hi, view_agree dec dec' heap h i d hi, true_and]
      refine agreeOn_put dec dec' heap h i b _ ?_
      cases d with
      | plain a => simp
      | comp c => simp
  | equals i j =>
    cases hi : heap[i]? with
    | none => simp [step, hi]; exact h
    | some d =>
      cases hj : heap[j]? with
      | none => simp [step, hi, hj]; exact h
      | some e =>
        simp [step, hi, hj, view_agree dec dec' heap h i d hi, view_agree dec dec' heap h j e hj]; exact h
  | write i =>
    cases hi : heap[i]? with
    | none => simp [step, hi]; exact h
    | some d => simp [step, hi]; exact h

theorem run_agree (dec dec' : C → A) (ops : List (Op I V)) : ∀ (heap : List (Repr C A)),
    AgreeOn dec dec' heap → run np dec heap ops = run np dec' heap ops := by
  induction ops with
  | nil => intro heap _; rfl
  | cons op ops ih =>
    intro heap h
    obtain ⟨s1, s2⟩ := step_agree np dec dec' heap h op
    simp only [run]
    rw [← s1, ih _ s2]

end Cfdm.RaggedState
