import Cfdm.Model.NcNames
import Std.Data.String.ToNat
/-
Helper lemmas for the `_netcdf_name` state machine: the counter search always
finds a free name (pigeonhole), a fresh allocation is outside the names in use,
the names allocated over any request sequence are pairwise distinct.
-/
namespace Cfdm.NcNames

theorem suffixed_inj (base : String) {j k : Nat} (h : suffixed base j = suffixed base k) : j = k := by
  unfold suffixed at h
  have h1 := (String.append_right_inj _).mp h
  exact Nat.repr_injective h1

/-- `base_k, base_{k+1}, …` (n names). -/
def candidates (base : String) (k n : Nat) : List String := (List.range' k n).map (suffixed base)

theorem candidates_nodup (base : String) (k n : Nat) : (candidates base k n).Nodup := by
  unfold candidates
  exact List.Pairwise.map _ (fun a b hab h => hab (suffixed_inj base h))
    (List.nodup_range' (step := 1) (by omega))

theorem candidates_succ (base : String) (k n : Nat) :
    candidates base k (n + 1) = candidates base k n ++ [suffixed base (k + n)] := by
  unfold candidates
  rw [List.range'_1_concat, List.map_append]
  simp

/-- The loop invariant: the candidates tried so far are all in use, and the fuel left covers
the rest of `ex`. -/
theorem firstFree_not_mem_aux (ex : List String) (base : String) :
    ∀ (fuel k : Nat), (∀ n ∈ candidates base 1 (k - 1), n ∈ ex) → 1 ≤ k → (k - 1) + fuel = ex.length →
      firstFree ex base fuel k ∉ ex := by
  intro fuel
  induction fuel with
  | zero =>
    intro k hall hk hlen hmem
    simp only [firstFree] at hmem
    have hsub : ∀ n ∈ candidates base 1 k, n ∈ ex := by
      intro n hn
      have : k = (k - 1) + 1 := by omega
      rw [this, candidates_succ] at hn
      rcases List.mem_append.mp hn with h | h
      · exact hall n h
      · have : 1 + (k - 1) = k := by omega
        simp only [List.mem_singleton, this] at h
        exact h ▸ hmem
    have hle := List.Nodup.length_le_of_subset (candidates_nodup base 1 k) hsub
    simp only [candidates, List.length_map, List.length_range'] at hle
    omega
  | succ fuel ih =>
    intro k hall hk hlen
    simp only [firstFree]
    split
    · rename_i hin
      apply ih (k + 1)
      · intro n hn
        have : k + 1 - 1 = (k - 1) + 1 := by omega
        rw [this, candidates_succ] at hn
        rcases List.mem_append.mp hn with h | h
        · exact hall n h
        · have : 1 + (k - 1) = k := by omega
          simp only [List.mem_singleton, this] at h
          exact h ▸ hin
      · omega
      · omega
    · rename_i hnot
      exact hnot

/-- The counter search of `_netcdf_name` always ends on a name that is not in use. -/
theorem firstFree_not_mem (ex : List String) (base : String) : firstFree ex base ex.length 1 ∉ ex := by
  apply firstFree_not_mem_aux ex base ex.length 1
  · intro n hn; simp [candidates] at hn
  · omega
  · omega

/-- The search returns `base_k` for some `k ≥ 1`, every smaller counter being in use. -/
theorem firstFree_form (ex : List String) (base : String) :
    ∀ (fuel k : Nat), ∃ j, k ≤ j ∧ firstFree ex base fuel k = suffixed base j ∧
      ∀ i, k ≤ i → i < j → suffixed base i ∈ ex := by
  intro fuel
  induction fuel with
  | zero => intro k; exact ⟨k, Nat.le_refl _, rfl, by intro i h1 h2; omega⟩
  | succ fuel ih =>
    intro k
    simp only [firstFree]
    split
    · rename_i hin
      obtain ⟨j, hj, he, hall⟩ := ih (k + 1)
      refine ⟨j, by omega, he, ?_⟩
      intro i h1 h2
      by_cases hik : i = k
      · exact hik ▸ hin
      · exact hall i (by omega) h2
    · exact ⟨k, Nat.le_refl _, rfl, by intro i h1 h2; omega⟩

/-! ### allocation -/

theorem allocate_fresh (s : St) (base : String) (d : Option Nat) (r : Option String) :
    ∃ n roles, allocate true s base d r = (.fresh n, { s with vars := n :: s.vars, roles := roles })
      ∧ n ∉ s.existing := by
  unfold allocate
  simp only [if_true]
  refine ⟨_, _, rfl, ?_⟩
  split
  · exact firstFree_not_mem _ _
  · rename_i h; exact h

/-- The name a patched allocation returns: the sanitized base, or the sanitized base plus the
first free counter. -/
theorem allocate_name (s : St) (base : String) (d : Option Nat) (r : Option String) :
    ∃ n, (allocate true s base d r).1 = .fresh n ∧
      (n = sanitize base ∨ ∃ k, 1 ≤ k ∧ n = suffixed (sanitize base) k ∧ sanitize base ∈ s.existing ∧
        ∀ i, 1 ≤ i → i < k → suffixed (sanitize base) i ∈ s.existing) := by
  unfold allocate
  simp only [if_true]
  refine ⟨_, rfl, ?_⟩
  split
  · rename_i h
    obtain ⟨j, hj, he, hall⟩ := firstFree_form s.existing (sanitize base) s.existing.length 1
    exact Or.inr ⟨j, hj, he, h, hall⟩
  · exact Or.inl rfl

theorem reuseLoop_sound (s : St) (size : Nat) :
    ∀ (l : List String) (d : String), reuseLoop s size l = .ok (some d) → d ∈ l ∧ s.dimSize d = some size := by
  intro l
  induction l with
  | nil => intro d h; simp [reuseLoop] at h
  | cons x xs ih =>
    intro d h
    simp only [reuseLoop] at h
    split at h
    · cases h
    · rename_i n hn
      split at h
      · rename_i heq
        have hx : x = d := by injection h with h; injection h
        subst hx
        have : n = size := by simpa using heq
        exact ⟨List.mem_cons_self, this ▸ hn⟩
      · obtain ⟨h1, h2⟩ := ih d h
        exact ⟨List.mem_cons_of_mem _ h1, h2⟩

/-- What one request does, in one statement (patched method). -/
theorem request_cases (s : St) (base : String) (d : Option Nat) (r : Option String) :
    (∃ n roles, request true s base d r = (.fresh n, { s with vars := n :: s.vars, roles := roles }) ∧ n ∉ s.existing)
    ∨ (∃ n size role, d = some size ∧ r = some role ∧ request true s base d r = (.reused n, s)
        ∧ n ∈ s.roleDims role ∧ s.dimSize n = some size)
    ∨ (request true s base d r = (.valueError, s) ∧ d.isSome ∧ (r = none ∨ r = some ""))
    ∨ (request true s base d r = (.keyError, s)) := by
  unfold request
  cases d with
  | none => exact Or.inl (allocate_fresh s base none r)
  | some size =>
    cases r with
    | none => exact Or.inr (Or.inr (Or.inl ⟨rfl, by simp, Or.inl rfl⟩))
    | some role =>
      simp only
      by_cases hr : (role == "") = true
      · have hr' : role = "" := by simpa using hr
        subst hr'
        exact Or.inr (Or.inr (Or.inl ⟨by simp, by simp, Or.inr rfl⟩))
      · simp only [hr]
        cases hl : reuseLoop s size (s.roleDims role) with
        | error e => exact Or.inr (Or.inr (Or.inr rfl))
        | ok o =>
          cases o with
          | none => exact Or.inl (allocate_fresh s base (some size) (some role))
          | some n =>
            obtain ⟨h1, h2⟩ := reuseLoop_sound s size _ n hl
            exact Or.inr (Or.inl ⟨n, size, role, rfl, rfl, rfl, h1, h2⟩)

/-! ### whole runs -/

theorem regDim_vars (s : St) (n : String) (k : Nat) : (regDim s n k).vars = s.vars := by
  unfold regDim; split <;> rfl

theorem regDim_dimNames_sup (s : St) (n : String) (k : Nat) : ∀ x ∈ s.dimNames, x ∈ (regDim s n k).dimNames := by
  intro x hx
  unfold regDim
  split
  · simp only [St.dimNames, List.map_map] at hx ⊢
    obtain ⟨d, hd, rfl⟩ := List.mem_map.mp hx
    refine List.mem_map.mpr ⟨d, hd, ?_⟩
    simp only [Function.comp]
    split <;> rfl
  · simp only [St.dimNames, List.map_append] at hx ⊢
    exact List.mem_append_left _ hx

/-- A step never forgets a name in use. -/
theorem step_existing_mono (s : St) (e : Ev) : ∀ x ∈ s.existing, x ∈ (step true s e).1.existing := by
  intro x hx
  cases e with
  | regdim n k =>
    simp only [step, St.existing, List.mem_append] at hx ⊢
    rcases hx with h | h
    · exact Or.inl (by rw [regDim_vars]; exact h)
    · exact Or.inr (regDim_dimNames_sup s n k x h)
  | req b d r =>
    simp only [step]
    rcases request_cases s b d r with ⟨n, roles, h, _⟩ | ⟨n, size, role, _, _, h, _⟩ | ⟨h, _⟩ | h
    · rw [h]
      simp only [St.existing, St.dimNames, List.mem_append, List.mem_cons] at hx ⊢
      rcases hx with h | h
      · exact Or.inl (Or.inr h)
      · exact Or.inr h
    · rw [h]; exact hx
    · rw [h]; exact hx
    · rw [h]; exact hx

theorem run_cons (s : St) (e : Ev) (es : List Ev) :
    run true s (e :: es) =
      ((run true (step true s e).1 es).1,
        match (step true s e).2 with
        | some x => x :: (run true (step true s e).1 es).2
        | none => (run true (step true s e).1 es).2) := by
  rfl

/-- Main invariant: every name freshly allocated during a run is outside the names in use at
the start, they are pairwise distinct, and they are all in use at the end. -/
theorem run_fresh (es : List Ev) : ∀ (s : St),
    (freshNames (run true s es).2).Nodup
    ∧ (∀ n ∈ freshNames (run true s es).2, n ∉ s.existing)
    ∧ (∀ n ∈ freshNames (run true s es).2, n ∈ (run true s es).1.vars)
    ∧ (∀ x ∈ s.existing, x ∈ (run true s es).1.existing) := by
  induction es with
  | nil => intro s; simp [run, freshNames]
  | cons e es ih =>
    intro s
    rw [run_cons]
    obtain ⟨ih1, ih2, ih3, ih4⟩ := ih (step true s e).1
    have hmono := step_existing_mono s e
    cases e with
    | regdim n k =>
      simp only [step] at ih1 ih2 ih3 ih4 hmono ⊢
      refine ⟨ih1, ?_, ih3, fun x hx => ih4 x (hmono x hx)⟩
      intro m hm hin
      exact ih2 m hm (hmono m hin)
    | req b d r =>
      simp only [step] at ih1 ih2 ih3 ih4 hmono ⊢
      rcases request_cases s b d r with ⟨n, roles, h, hn⟩ | ⟨n, size, role, _, _, h, _⟩ | ⟨h, _⟩ | h
      · rw [h] at ih1 ih2 ih3 ih4 hmono ⊢
        simp only [freshNames]
        refine ⟨?_, ?_, ?_, fun x hx => ih4 x (hmono x hx)⟩
        · refine List.nodup_cons.mpr ⟨?_, ih1⟩
          intro hmem
          exact ih2 n hmem (by simp [St.existing])
        · intro m hm
          rcases List.mem_cons.mp hm with rfl | hm
          · exact hn
          · intro hin; exact ih2 m hm (hmono m hin)
        · intro m hm
          rcases List.mem_cons.mp hm with rfl | hm
          · have := ih4 m (by simp [St.existing])
            -- m is a variable name of the state after the step, and stays one
            clear this
            have hv : ∀ (es : List Ev) (t : St), m ∈ t.vars → m ∈ (run true t es).1.vars := by
              intro es
              induction es with
              | nil => intro t ht; simpa [run] using ht
              | cons e es ihh =>
                intro t ht
                rw [run_cons]
                apply ihh
                cases e with
                | regdim n k => simp only [step]; rw [regDim_vars]; exact ht
                | req b d r =>
                  simp only [step]
                  rcases request_cases t b d r with ⟨n, roles, h, _⟩ | ⟨n, size, role, _, _, h, _⟩ | ⟨h, _⟩ | h
                  · rw [h]; exact List.mem_cons_of_mem _ ht
                  · rw [h]; exact ht
                  · rw [h]; exact ht
                  · rw [h]; exact ht
            exact hv es _ (by simp)
          · exact ih3 m hm
      · rw [h] at ih1 ih2 ih3 ih4 ⊢
        simp only [freshNames]
        exact ⟨ih1, ih2, ih3, ih4⟩
      · rw [h] at ih1 ih2 ih3 ih4 ⊢
        simp only [freshNames]
        exact ⟨ih1, ih2, ih3, ih4⟩
      · rw [h] at ih1 ih2 ih3 ih4 ⊢
        simp only [freshNames]
        exact ⟨ih1, ih2, ih3, ih4⟩

/-! ### exact forms used by the abstract writer -/

theorem request_plain (s : St) (base : String) :
    ∃ n, request true s base none none = (.fresh n, { s with vars := n :: s.vars }) ∧ n ∉ s.existing := by
  unfold request allocate
  simp only [if_true]
  refine ⟨_, rfl, ?_⟩
  split
  · exact firstFree_not_mem _ _
  · rename_i h; exact h

theorem reuseLoop_ok (s : St) (size : Nat) : ∀ (l : List String), (∀ d ∈ l, (s.dimSize d).isSome) →
    ∃ o, reuseLoop s size l = .ok o
  | [], _ => ⟨none, rfl⟩
  | d :: ds, h => by
    simp only [reuseLoop]
    have hd := h d List.mem_cons_self
    cases hs : s.dimSize d with
    | none => simp [hs] at hd
    | some n =>
      simp only
      split
      · exact ⟨some d, rfl⟩
      · exact reuseLoop_ok s size ds (fun x hx => h x (List.mem_cons_of_mem _ hx))

theorem request_role (s : St) (base : String) (size : Nat) (r : String) (hr : r ≠ "")
    (hroles : ∀ d ∈ s.roleDims r, (s.dimSize d).isSome) :
    (∃ n, request true s base (some size) (some r)
        = (.fresh n, { s with vars := n :: s.vars, roles := addRole s.roles r n }) ∧ n ∉ s.existing)
    ∨ (∃ n, request true s base (some size) (some r) = (.reused n, s) ∧ n ∈ s.roleDims r ∧ s.dimSize n = some size) := by
  unfold request
  have hr' : (r == "") = false := by simpa using hr
  simp only [hr']
  obtain ⟨o, ho⟩ := reuseLoop_ok s size _ hroles
  rw [ho]
  cases o with
  | some d =>
    obtain ⟨h1, h2⟩ := reuseLoop_sound s size _ d ho
    exact Or.inr ⟨d, rfl, h1, h2⟩
  | none =>
    left
    unfold allocate
    simp only [if_true, hr']
    refine ⟨_, rfl, ?_⟩
    split
    · exact firstFree_not_mem _ _
    · rename_i h; exact h

/-- `dimensions_with_role[r']` as a function of the list. -/
def lookupRole (roles : List (String × List String)) (r : String) : List String :=
  ((roles.find? (·.1 == r)).map (·.2)).getD []

theorem roleDims_eq (s : St) (r : String) : s.roleDims r = lookupRole s.roles r := rfl

theorem mem_lookup_addRole : ∀ (roles : List (String × List String)) (r n r' d : String),
    d ∈ lookupRole (addRole roles r n) r' → d ∈ lookupRole roles r' ∨ d = n
  | [], r, n, r', d, h => by
    simp only [addRole, lookupRole, List.find?_cons] at h
    split at h
    · simp at h; exact Or.inr h
    · simp at h
  | x :: xs, r, n, r', d, h => by
    simp only [addRole] at h
    by_cases hxr : (x.1 == r) = true
    · simp only [hxr, if_true] at h
      by_cases hx' : (x.1 == r') = true
      · simp only [lookupRole, List.find?_cons, hx', Option.map_some, Option.getD_some, List.mem_append,
          List.mem_singleton] at h ⊢
        exact h
      · have hx'' : (x.1 == r') = false := by simpa using hx'
        simp only [lookupRole, List.find?_cons, hx''] at h ⊢
        exact Or.inl h
    · have hxr' : (x.1 == r) = false := by simpa using hxr
      simp only [hxr', Bool.false_eq_true, if_false] at h
      by_cases hx' : (x.1 == r') = true
      · simp only [lookupRole, List.find?_cons, hx', Option.map_some, Option.getD_some] at h ⊢
        exact Or.inl h
      · have hx'' : (x.1 == r') = false := by simpa using hx'
        simp only [lookupRole, List.find?_cons, hx''] at h ⊢
        exact mem_lookup_addRole xs r n r' d h

/-! ### registering a dimension -/

theorem regDim_new (s : St) (n : String) (k : Nat) (hn : n ∉ s.dimNames) :
    regDim s n k = { s with dims := s.dims ++ [(n, k)] } := by
  unfold regDim
  have : s.dims.any (·.1 == n) = false := by
    rw [List.any_eq_false]
    intro x hx hxn
    exact hn (List.mem_map.mpr ⟨x, hx, by simpa using hxn⟩)
  simp [this]

theorem dimSize_append_self (dims : List (String × Nat)) (n : String) (k : Nat) (hn : n ∉ dims.map (·.1)) :
    ((dims ++ [(n, k)]).find? (·.1 == n)).map (·.2) = some k := by
  induction dims with
  | nil => simp
  | cons x xs ih =>
    simp only [List.map_cons, List.mem_cons, not_or] at hn
    have : (x.1 == n) = false := by simpa using (fun h => hn.1 h.symm)
    simp only [List.cons_append, List.find?_cons, this]
    exact ih hn.2

theorem dimSize_append_mono (dims : List (String × Nat)) (e : String × Nat) (d : String)
    (h : ((dims.find? (·.1 == d)).map (·.2)).isSome) :
    (((dims ++ [e]).find? (·.1 == d)).map (·.2)) = ((dims.find? (·.1 == d)).map (·.2)) := by
  induction dims with
  | nil => simp at h
  | cons x xs ih =>
    simp only [List.cons_append, List.find?_cons] at h ⊢
    split
    · rfl
    · rename_i hx
      simp only [hx] at h
      exact ih h

theorem dimSize_isSome_mem (s : St) (d : String) (h : (s.dimSize d).isSome) : d ∈ s.dimNames := by
  unfold St.dimSize at h
  cases hf : s.dims.find? (·.1 == d) with
  | none => simp [hf] at h
  | some x =>
    have h1 := List.mem_of_find?_eq_some hf
    have h2 : x.1 = d := by simpa using List.find?_some hf
    exact List.mem_map.mpr ⟨x, h1, h2⟩

end Cfdm.NcNames
