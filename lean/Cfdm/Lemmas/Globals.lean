import Cfdm.Spec.Globals
/-
Helper lemmas for the global-attribute placement and the Conventions assembly.
-/
namespace Cfdm.Globals

/-! ### dictionaries -/

theorem lookup_some_mem {β} {k : String} {l : List (String × β)} {v : β} (h : lookup k l = some v) : (k, v) ∈ l := by
  unfold lookup at h
  cases hf : l.find? (·.1 == k) with
  | none => simp [hf] at h
  | some kv =>
    simp only [hf, Option.map_some, Option.some.injEq] at h
    have h1 := List.mem_of_find?_eq_some hf
    have h2 := List.find?_some hf
    have : kv.1 = k := by simpa using h2
    cases kv
    simp only at this h
    subst this; subst h
    exact h1

theorem lookup_of_mem_nodup {β} {l : List (String × β)} (hnd : (keys l).Nodup) {k : String} {v : β}
    (h : (k, v) ∈ l) : lookup k l = some v := by
  induction l with
  | nil => cases h
  | cons x xs ih =>
    simp only [keys, List.map_cons, List.nodup_cons] at hnd
    unfold lookup
    simp only [List.find?_cons]
    rcases List.mem_cons.mp h with rfl | h
    · simp
    · have hne : x.1 ≠ k := by
        intro he
        exact hnd.1 (he ▸ List.mem_map.mpr ⟨(k, v), h, rfl⟩)
      have : (x.1 == k) = false := by simpa using hne
      simp only [this]
      exact ih hnd.2 h

theorem lookup_isSome_iff {β} {k : String} {l : List (String × β)} : (lookup k l).isSome ↔ k ∈ keys l := by
  induction l with
  | nil => simp [lookup, keys]
  | cons x xs ih =>
    unfold lookup at ih ⊢
    simp only [List.find?_cons, keys, List.map_cons, List.mem_cons]
    by_cases hx : x.1 = k
    · simp [hx]
    · have : (x.1 == k) = false := by simpa using hx
      simp only [this]
      constructor
      · intro h; exact Or.inr (ih.mp h)
      · intro h
        rcases h with h | h
        · exact absurd h.symm hx
        · exact ih.mpr h

/-! ### sets as lists -/

theorem mem_dedup {x : String} : ∀ {l : List String}, x ∈ dedup l ↔ x ∈ l
  | [] => by simp [dedup]
  | y :: ys => by
    simp only [dedup]
    split
    · rename_i h
      rw [mem_dedup (l := ys)]
      constructor
      · intro hx; exact List.mem_cons_of_mem _ hx
      · intro hx
        rcases List.mem_cons.mp hx with rfl | hx
        · exact h
        · exact hx
    · simp only [List.mem_cons, mem_dedup (l := ys)]

theorem nodup_dedup : ∀ (l : List String), (dedup l).Nodup
  | [] => by simp [dedup]
  | y :: ys => by
    simp only [dedup]
    split
    · exact nodup_dedup ys
    · rename_i h
      exact List.nodup_cons.mpr ⟨fun hm => h (mem_dedup.mp hm), nodup_dedup ys⟩

/-! ### forced values -/

theorem allEq_iff {v0 : Val} {vs : List Val} : allEq (v0 :: vs) = true ↔ ∀ v ∈ vs, v = v0 := by
  simp [allEq]

/-- The values given for `attr`, field by field. -/
theorem forcedVals_eq_map {fs : List FieldG} {attr : String} {v : Val}
    (h : ∀ f ∈ fs, lookup attr f.ncg = some (some v)) : forcedVals fs attr = fs.map (fun _ => v) := by
  induction fs with
  | nil => rfl
  | cons f fs ih =>
    simp only [forcedVals, List.filterMap_cons, List.map_cons]
    rw [h f List.mem_cons_self]
    simp only [Option.join_some]
    congr 1
    exact ih (fun g hg => h g (List.mem_cons_of_mem _ hg))

theorem forcedVals_length_le (fs : List FieldG) (attr : String) : (forcedVals fs attr).length ≤ fs.length := by
  unfold forcedVals
  exact List.length_filterMap_le _ _

/-- All the fields give a value iff as many values as fields were collected. -/
theorem forcedVals_full {fs : List FieldG} {attr : String} (h : (forcedVals fs attr).length = fs.length) :
    ∀ f ∈ fs, ∃ v, lookup attr f.ncg = some (some v) ∧ v ∈ forcedVals fs attr := by
  induction fs with
  | nil => intro f hf; cases hf
  | cons g gs ih =>
    intro f hf
    simp only [forcedVals, List.filterMap_cons] at h ⊢
    cases hg : (lookup attr g.ncg).join with
    | none =>
      simp only [hg] at h
      have := forcedVals_length_le gs attr
      simp only [forcedVals, List.length_cons] at this h
      omega
    | some v =>
      simp only [hg, List.length_cons, Nat.add_right_cancel_iff] at h
      have hgv : lookup attr g.ncg = some (some v) := by
        cases hl : lookup attr g.ncg with
        | none => simp [hl] at hg
        | some o => simp only [hl, Option.join_some] at hg; rw [hg]
      rcases List.mem_cons.mp hf with rfl | hf
      · exact ⟨v, hgv, by simp [hg]⟩
      · obtain ⟨w, hw1, hw2⟩ := ih h f hf
        exact ⟨w, hw1, by simp only [hg]; exact List.mem_cons_of_mem _ hw2⟩

/-- Independent reading of step 2: `(k, v)` is forced iff there is a field and every field
gives exactly `v` for `k`. -/
theorem mem_forceGlobal {fs : List FieldG} {k : String} {v : Val} :
    (k, v) ∈ forceGlobal fs ↔ fs ≠ [] ∧ ∀ f ∈ fs, lookup k f.ncg = some (some v) := by
  unfold forceGlobal
  simp only [List.mem_filterMap]
  constructor
  · rintro ⟨a, ha, h⟩
    cases hv : forcedVals fs a with
    | nil => simp [hv] at h
    | cons v0 vs =>
      simp only [hv] at h
      split at h
      · rename_i hc
        simp only [Option.some.injEq, Prod.mk.injEq] at h
        obtain ⟨rfl, rfl⟩ := h
        simp only [Bool.and_eq_true, beq_iff_eq] at hc
        obtain ⟨hlen, heq⟩ := hc
        have hne : fs ≠ [] := by
          intro he; subst he; simp at hlen
        refine ⟨hne, ?_⟩
        intro f hf
        obtain ⟨w, hw1, hw2⟩ := forcedVals_full (attr := a) (by rw [hv]; exact hlen) f hf
        rw [hv] at hw2
        rcases List.mem_cons.mp hw2 with rfl | hw2
        · exact hw1
        · have := (allEq_iff.mp heq) w hw2
          exact this ▸ hw1
      · cases h
  · rintro ⟨hne, hall⟩
    refine ⟨k, ?_, ?_⟩
    · unfold forcedKeys
      rw [mem_dedup]
      obtain ⟨f, hf⟩ := List.exists_mem_of_ne_nil fs hne
      refine List.mem_flatMap.mpr ⟨f, hf, ?_⟩
      refine List.mem_filterMap.mpr ⟨(k, some v), lookup_some_mem (hall f hf), rfl⟩
    · rw [forcedVals_eq_map hall]
      cases fs with
      | nil => exact absurd rfl hne
      | cons f fs =>
        simp only [List.map_cons, List.length_cons, List.length_map, beq_self_eq_true, Bool.true_and]
        have : allEq (v :: List.map (fun _ => v) fs) = true := by
          rw [allEq_iff]; intro w hw; obtain ⟨_, _, rfl⟩ := List.mem_map.mp hw; rfl
        simp [this]

/-! ### step 4 -/

theorem identical_iff {fs : List FieldG} {p : String} {v : Val} :
    identical fs p = some v ↔ fs ≠ [] ∧ ∀ f ∈ fs, lookup p f.props = some v := by
  cases fs with
  | nil => simp [identical]
  | cons f0 rest =>
    simp only [identical]
    cases h0 : lookup p f0.props with
    | none =>
      simp only [ne_eq, reduceCtorEq, not_false_eq_true, List.mem_cons, forall_eq_or_imp, true_and, false_iff, not_and]
      intro h; rw [h0] at h; cases h
    | some v0 =>
      simp only
      split
      · rename_i hall
        simp only [Option.some.injEq, ne_eq, reduceCtorEq, not_false_eq_true, List.mem_cons, forall_eq_or_imp, true_and]
        constructor
        · rintro rfl
          refine ⟨h0, ?_⟩
          intro f hf
          have := List.all_eq_true.mp hall f hf
          simpa using this
        · rintro ⟨h, _⟩; rw [h0] at h; injection h
      · rename_i hall
        simp only [reduceCtorEq, ne_eq, not_false_eq_true, List.mem_cons, forall_eq_or_imp, true_and, false_iff, not_and]
        intro h hrest
        apply hall
        rw [h0] at h
        injection h with h
        subst h
        exact List.all_eq_true.mpr (fun f hf => by simpa using hrest f hf)

/-! ### Conventions -/

theorem splitC_ne_nil (sep : Char) : ∀ (s : List Char), splitC sep s ≠ []
  | [] => by simp [splitC]
  | c :: cs => by
    simp only [splitC]
    split
    · simp
    · split <;> simp

theorem splitC_no_sep (sep : Char) : ∀ (s : List Char), sep ∉ s → splitC sep s = [s]
  | [], _ => rfl
  | c :: cs, h => by
    have hc : c ≠ sep := fun e => h (e ▸ List.mem_cons_self)
    have hcs : sep ∉ cs := fun e => h (List.mem_cons_of_mem _ e)
    simp only [splitC, hc, if_false, splitC_no_sep sep cs hcs]

theorem splitC_append_sep (sep : Char) : ∀ (x rest : List Char), sep ∉ x →
    splitC sep (x ++ sep :: rest) = x :: splitC sep rest
  | [], rest, _ => by simp [splitC]
  | c :: cs, rest, h => by
    have hc : c ≠ sep := fun e => h (e ▸ List.mem_cons_self)
    have hcs : sep ∉ cs := fun e => h (List.mem_cons_of_mem _ e)
    simp only [List.cons_append, splitC, hc, if_false, splitC_append_sep sep cs rest hcs]

/-- Splitting undoes joining when no entry contains the separator. -/
theorem splitC_joinC (sep : Char) : ∀ (ls : List (List Char)), ls ≠ [] → (∀ l ∈ ls, sep ∉ l) →
    splitC sep (joinC sep ls) = ls
  | [], h, _ => absurd rfl h
  | [x], _, h => by
    simp only [joinC]
    exact splitC_no_sep sep x (h x List.mem_cons_self)
  | x :: y :: r, _, h => by
    simp only [joinC]
    rw [splitC_append_sep sep x _ (h x List.mem_cons_self)]
    rw [splitC_joinC sep (y :: r) (by simp) (fun l hl => h l (List.mem_cons_of_mem _ hl))]

theorem mem_joinC {sep c : Char} : ∀ {ls : List (List Char)}, c ∈ joinC sep ls →
    (c = sep ∧ 2 ≤ ls.length) ∨ ∃ l ∈ ls, c ∈ l
  | [], h => by simp [joinC] at h
  | [x], h => by simp only [joinC] at h; exact Or.inr ⟨x, List.mem_cons_self, h⟩
  | x :: y :: r, h => by
    simp only [joinC, List.mem_append, List.mem_cons] at h
    rcases h with h | h | h
    · exact Or.inr ⟨x, List.mem_cons_self, h⟩
    · exact Or.inl ⟨h, by simp⟩
    · rcases mem_joinC h with ⟨h1, _⟩ | ⟨l, hl, hc⟩
      · exact Or.inl ⟨h1, by simp⟩
      · exact Or.inr ⟨l, List.mem_cons_of_mem _ hl, hc⟩

theorem sep_mem_joinC (sep : Char) : ∀ (ls : List (List Char)), 2 ≤ ls.length → sep ∈ joinC sep ls
  | [], h => by simp at h
  | [_], h => by simp at h
  | x :: y :: r, _ => by simp [joinC]

theorem hasCF_iff : ∀ (c : List Char), hasCF c = true ↔ IsCF c
  | [] => by
    simp only [hasCF, Bool.false_eq_true, IsCF, false_iff, not_exists, not_and]
    intro pre d post h; cases pre <;> cases h
  | c :: cs => by
    simp only [hasCF, Bool.or_eq_true]
    rw [hasCF_iff cs]
    constructor
    · rintro (h | ⟨pre, d, post, rfl, hd⟩)
      · split at h
        · rename_i d rest
          exact ⟨[], d, rest, rfl, h⟩
        · cases h
      · exact ⟨c :: pre, d, post, rfl, hd⟩
    · rintro ⟨pre, d, post, h, hd⟩
      cases pre with
      | nil =>
        simp only [List.nil_append, List.cons.injEq] at h
        obtain ⟨rfl, rfl⟩ := h
        exact Or.inl hd
      | cons p pre =>
        simp only [List.cons_append, List.cons.injEq] at h
        obtain ⟨rfl, rfl⟩ := h
        exact Or.inr ⟨pre, d, post, rfl, hd⟩

instance : DecidablePred IsCF := fun c => decidable_of_iff _ (hasCF_iff c)

theorem removeCF_eq (l : List (List Char)) : removeCF l = l.filter (fun c => decide (¬ IsCF c)) := by
  unfold removeCF
  congr 1
  funext c
  by_cases h : IsCF c
  · simp [h, (hasCF_iff c).mpr h]
  · have : hasCF c = false := by
      cases hh : hasCF c with
      | false => rfl
      | true => exact absurd ((hasCF_iff c).mp hh) h
    simp [h, this]

/-! ### placement -/

theorem mem_forceKept {o : Opts} {fs : List FieldG} {p : String} {v : Val} :
    (p, v) ∈ forceKept o fs ↔ Forced fs p v ∧ p ∉ keys o.fileDesc := by
  unfold forceKept Forced
  rw [List.mem_filter, mem_forceGlobal]
  simp

theorem mem_keys_forceKept {o : Opts} {fs : List FieldG} {p : String} :
    p ∈ keys (forceKept o fs) ↔ (∃ v, Forced fs p v) ∧ p ∉ keys o.fileDesc := by
  unfold keys
  rw [List.mem_map]
  constructor
  · rintro ⟨⟨k, v⟩, h, rfl⟩
    exact ⟨⟨v, (mem_forceKept.mp h).1⟩, (mem_forceKept.mp h).2⟩
  · rintro ⟨⟨v, hv⟩, hfd⟩
    exact ⟨(p, v), mem_forceKept.mpr ⟨hv, hfd⟩, rfl⟩

theorem mem_candidates {o : Opts} {fs : List FieldG} {p : String} : p ∈ candidates o fs ↔ Eligible o fs p := by
  unfold candidates Eligible flagged
  simp only [List.mem_append, List.mem_flatMap, List.mem_filterMap]
  constructor
  · rintro ((h | h) | ⟨f, hf, kv, hkv, hm⟩)
    · exact Or.inr (Or.inl h)
    · exact Or.inl h
    · refine Or.inr (Or.inr ⟨f, hf, ?_⟩)
      obtain ⟨k, w⟩ := kv
      cases w with
      | none =>
        simp only [Option.some.injEq] at hm
        subst hm
        exact hkv
      | some _ => cases hm
  · rintro (h | h | ⟨f, hf, hl⟩)
    · exact Or.inl (Or.inr h)
    · exact Or.inl (Or.inl h)
    · exact Or.inr ⟨f, hf, (p, none), hl, rfl⟩

theorem mem_globalSet {o : Opts} {fs : List FieldG} {p : String} :
    p ∈ globalSet o fs ↔ Eligible o fs p ∧ (∃ v, AllEqual fs p v) ∧ ¬ Overridden o fs p := by
  unfold globalSet
  rw [mem_dedup, List.mem_filter, mem_candidates]
  simp only [Bool.and_eq_true, Bool.not_eq_true', List.contains_eq_mem, decide_eq_false_iff_not]
  have hid : (identical fs p).isSome = true ↔ ∃ v, AllEqual fs p v := by
    rw [Option.isSome_iff_exists]
    exact exists_congr (fun v => identical_iff)
  rw [hid]
  unfold Overridden
  rw [mem_keys_forceKept]
  constructor
  · rintro ⟨he, ⟨⟨hva, hfd⟩, hfk⟩, hall⟩
    refine ⟨he, hall, ?_⟩
    rintro (h | h | h)
    · exact hva h
    · exact hfd h
    · exact hfk ⟨h, hfd⟩
  · rintro ⟨he, hall, hov⟩
    refine ⟨he, ⟨⟨fun h => hov (Or.inl h), fun h => hov (Or.inr (Or.inl h))⟩, ?_⟩, hall⟩
    rintro ⟨h, _⟩
    exact hov (Or.inr (Or.inr h))

theorem mem_propertyGlobals {o : Opts} {fs : List FieldG} {p : String} {v : Val} :
    (p, v) ∈ propertyGlobals o fs ↔ p ≠ "Conventions" ∧ p ∈ globalSet o fs ∧ AllEqual fs p v := by
  unfold propertyGlobals
  simp only [List.mem_filterMap, List.mem_filter, bne_iff_ne, ne_eq]
  constructor
  · rintro ⟨a, ⟨ha, hne⟩, hm⟩
    cases hi : identical fs a with
    | none => simp [hi] at hm
    | some w =>
      simp only [hi, Option.map_some, Option.some.injEq, Prod.mk.injEq] at hm
      obtain ⟨rfl, rfl⟩ := hm
      exact ⟨hne, ha, identical_iff.mp hi⟩
  · rintro ⟨hne, hg, hall⟩
    exact ⟨p, ⟨hg, hne⟩, by rw [identical_iff.mpr hall]; rfl⟩

theorem propertyGlobals_keys_nodup (o : Opts) (fs : List FieldG) : (keys (propertyGlobals o fs)).Nodup := by
  unfold propertyGlobals keys
  have hnd : ((globalSet o fs).filter (· != "Conventions")).Nodup := (nodup_dedup _).filter _
  generalize (globalSet o fs).filter (· != "Conventions") = l at hnd
  induction l with
  | nil => simp
  | cons x xs ih =>
    simp only [List.filterMap_cons]
    have hx := (List.nodup_cons.mp hnd)
    cases hi : identical fs x with
    | none => simp only [Option.map_none]; exact ih hx.2
    | some w =>
      simp only [Option.map_some, List.map_cons, List.nodup_cons]
      refine ⟨?_, ih hx.2⟩
      intro hm
      obtain ⟨⟨k, u⟩, hku, hk⟩ := List.mem_map.mp hm
      simp only at hk
      subst hk
      obtain ⟨a, ha, hm2⟩ := List.mem_filterMap.mp hku
      cases hia : identical fs a with
      | none => simp [hia] at hm2
      | some w2 =>
        simp only [hia, Option.map_some, Option.some.injEq, Prod.mk.injEq] at hm2
        exact hx.1 (hm2.1 ▸ ha)

theorem keys_filterMap_sublist {β} (f : String → Option (String × β)) (hf : ∀ a b, f a = some b → b.1 = a) :
    ∀ (l : List String), ((l.filterMap f).map (·.1)).Sublist l
  | [] => by simp
  | x :: xs => by
    simp only [List.filterMap_cons]
    cases h : f x with
    | none => exact List.Sublist.cons _ (keys_filterMap_sublist f hf xs)
    | some b =>
      simp only [List.map_cons]
      rw [hf x b h]
      exact List.Sublist.cons_cons _ (keys_filterMap_sublist f hf xs)

theorem forceGlobal_keys_nodup (fs : List FieldG) : (keys (forceGlobal fs)).Nodup := by
  unfold forceGlobal keys
  refine List.Nodup.sublist (keys_filterMap_sublist _ ?_ _) (nodup_dedup _)
  intro a b h
  simp only at h
  split at h
  · cases h
  · split at h
    · injection h with h; rw [← h]
    · cases h

theorem keys_filter_sublist {β} (q : String × β → Bool) (l : List (String × β)) :
    (keys (l.filter q)).Sublist (keys l) := by
  unfold keys
  exact List.Sublist.map _ List.filter_sublist

theorem forceKept_filter_keys_nodup (o : Opts) (fs : List FieldG) (q : String × Val → Bool) :
    (keys ((forceKept o fs).filter q)).Nodup := by
  unfold forceKept
  exact List.Nodup.sublist ((keys_filter_sublist _ _).trans (keys_filter_sublist _ _)) (forceGlobal_keys_nodup fs)

end Cfdm.Globals
