import Cfdm.Lemmas.Emit
/- Cell methods, coordinate references, and the soundness of the interpreter with respect to the
static "defined before use" check (C19). Core Lean only. -/
namespace Cfdm.Emit

/-! ### cell methods -/

def qualOK (fix : Bool) : QualVal → Bool
  | .str _ => true
  | .interval l => l.all (dataOK fix)

def rebuiltQual : QualVal → QualVal
  | .str s => .str s
  | .interval l => .interval (l.map rebuiltData)

/-- hypotheses: qualifier names distinct (a dictionary); every interval Data satisfies `dataOK` -/
def cmOK (fix : Bool) (m : MCM) : Bool :=
  decide ((m.quals.map (·.1)).Nodup) && m.quals.all (fun q => qualOK fix q.2)

def rebuiltCM (m : MCM) : MCM := { m with quals := m.quals.map (fun q => (q.1, rebuiltQual q.2)) }

theorem run_quals (fix : Bool) (name : String) (ns0 : Option (List Char)) (qs : List (String × QualVal)) :
    ∀ (acc : List (String × QualVal)) (c : MCM) (env : Env),
    qs.all (fun q => qualOK fix q.2) = true → ((acc ++ qs).map (·.1)).Nodup →
    env name = some (.cm { c with quals := acc }) →
    ∃ ss env', mapMOpt (emitQual fix name ns0) qs = some ss ∧ run (nsPrefix ns0) env ss = some env' ∧
      env' name = some (.cm { c with quals := acc ++ qs.map (fun q => (q.1, rebuiltQual q.2)) }) ∧
      ss.all (fun s => s.ctorsUse (nsPrefix ns0)) = true := by
  induction qs with
  | nil => intro acc c env _ _ he; exact ⟨[], env, rfl, rfl, by simpa using he, rfl⟩
  | cons q qs ih =>
    intro acc c env hok hnd he
    simp only [List.all_cons, Bool.and_eq_true] at hok
    have hq : q.1 ∉ acc.map (·.1) := by
      simp only [List.map_append, List.map_cons, List.nodup_append, List.mem_cons] at hnd
      intro hm
      exact hnd.2.2 _ hm _ (Or.inl rfl) rfl
    have hnd' : (((acc ++ [(q.1, rebuiltQual q.2)]) ++ qs).map (·.1)).Nodup := by
      simpa [List.map_append] using hnd
    obtain ⟨k, v⟩ := q
    cases v with
    | str s =>
      have hstep : step (nsPrefix ns0) env (Stmt.setQualifier name k (.str s)) =
          some (env.set name (.cm { c with quals := acc ++ [(k, rebuiltQual (.str s))] })) := by
        simp [step, he, dictSet_append _ _ _ hq, rebuiltQual]
      obtain ⟨ss, env', h1, h2, h3, h4⟩ := ih (acc ++ [(k, rebuiltQual (.str s))]) c
        (env.set name (.cm { c with quals := acc ++ [(k, rebuiltQual (.str s))] })) hok.2 hnd' (Env.set_same _ _ _)
      refine ⟨Stmt.setQualifier name k (.str s) :: ss, env', by simp [mapMOpt, emitQual, h1], ?_, ?_, ?_⟩
      · simp [run_cons, hstep, h2]
      · simpa [List.append_assoc] using h3
      · simp only [List.all_cons, Bool.and_eq_true]
        exact ⟨rfl, h4⟩
    | interval l =>
      simp only [qualOK] at hok
      obtain ⟨es, g1, g2, g3⟩ := emitDatas_eval fix l ns0 hok.1
      have hstep : step (nsPrefix ns0) env (Stmt.setQualifier name k (.interval es)) =
          some (env.set name (.cm { c with quals := acc ++ [(k, rebuiltQual (.interval l))] })) := by
        simp [step, he, g2, dictSet_append _ _ _ hq, rebuiltQual]
      obtain ⟨ss, env', h1, h2, h3, h4⟩ := ih (acc ++ [(k, rebuiltQual (.interval l))]) c
        (env.set name (.cm { c with quals := acc ++ [(k, rebuiltQual (.interval l))] })) hok.2 hnd' (Env.set_same _ _ _)
      refine ⟨Stmt.setQualifier name k (.interval es) :: ss, env', by simp [mapMOpt, emitQual, g1, h1], ?_, ?_, ?_⟩
      · simp [run_cons, hstep, h2]
      · simpa [List.append_assoc] using h3
      · simp only [List.all_cons, Bool.and_eq_true]
        exact ⟨by simpa [Stmt.ctorsUse] using g3, h4⟩

/-- `CellMethod.creation_commands` on any environment -/
theorem run_emitCM (fix : Bool) (m : MCM) (name : String) (ns0 : Option (List Char)) (header : Bool) (env : Env)
    (hok : cmOK fix m = true) :
    ∃ stmts env', emitCMWith fix m name ns0 header = some stmts ∧ run (nsPrefix ns0) env stmts = some env' ∧
      env' name = some (.cm (rebuiltCM m)) ∧ stmts.all (fun s => s.ctorsUse (nsPrefix ns0)) = true := by
  simp only [cmOK, Bool.and_eq_true, decide_eq_true_eq] at hok
  obtain ⟨method, axes, quals⟩ := m
  -- the statements before the qualifiers
  let c0 : MCM := ⟨method, axes, []⟩
  let pre := headerS header ++ [Stmt.new name (nsPrefix ns0) .CellMethod] ++
    optS method (Stmt.setMethod name) ++ optS axes (Stmt.setAxes name)
  have hpre : run (nsPrefix ns0) env pre = some (env.set name (.cm { c0 with quals := [] })) := by
    simp only [pre, run_append, run_headerS, Option.bind_some, run_cons, run_nil, step_new]
    cases method <;> cases axes <;>
      simp [optS, run, step, newObj, Cls.isLeaf, Cls.hasBounds, Env.set_set, c0]
  obtain ⟨ss, env', h1, h2, h3, h4⟩ := run_quals fix name ns0 quals [] c0 _ hok.2 (by simpa using hok.1)
    (Env.set_same _ _ _)
  refine ⟨pre ++ ss, env', by simp [emitCMWith, h1, pre], ?_, ?_, ?_⟩
  · rw [run_append, hpre]; exact h2
  · simpa [rebuiltCM, c0] using h3
  · simp only [List.all_append, Bool.and_eq_true, pre]
    refine ⟨⟨⟨⟨?_, by simp [Stmt.ctorsUse]⟩, ?_⟩, ?_⟩, h4⟩
    · cases header <;> simp [headerS, Stmt.ctorsUse]
    · cases method <;> simp [optS, Stmt.ctorsUse]
    · cases axes <;> simp [optS, Stmt.ctorsUse]

theorem rebuiltCM_obs (fix : Bool) (m : MCM) (hok : cmOK fix m = true) : (rebuiltCM m).obs = m.obs := by
  simp only [cmOK, Bool.and_eq_true] at hok
  simp only [MCM.obs, rebuiltCM, List.map_map]
  congr 1
  apply List.map_congr_left
  intro q hq
  have := List.all_eq_true.mp hok.2 q hq
  obtain ⟨k, v⟩ := q
  cases v with
  | str s => rfl
  | interval l =>
    simp only [qualOK] at this
    simp only [Function.comp, rebuiltQual, QualVal.obs, List.map_map]
    congr 2
    apply List.map_congr_left
    intro d hd
    exact rebuiltData_norm fix d (List.all_eq_true.mp this d hd)

/-! ### coordinate references -/

def Param.ok (fix : Bool) : Param → Bool
  | .val v => v.evaluable
  | .data d => dataOK fix d

def Param.rebuilt : Param → Param
  | .val v => .val v.norm
  | .data d => .data (rebuiltData d)

/-- hypotheses: parameter names and terms distinct (dictionaries); every parameter value is spelt
evaluably / every Data-valued parameter satisfies `dataOK` -/
def refOK (fix : Bool) (r : MRef) : Bool :=
  decide ((r.datum.map (·.1)).Nodup) && decide ((r.conv.map (·.1)).Nodup) && decide ((r.ancils.map (·.1)).Nodup) &&
  r.datum.all (fun p => p.2.ok fix) && r.conv.all (fun p => p.2.ok fix)

def rebuiltRef (r : MRef) : MRef :=
  { r with datum := r.datum.map (fun p => (p.1, p.2.rebuilt)), conv := r.conv.map (fun p => (p.1, p.2.rebuilt)) }

def MRef.setParams (r : MRef) (datum : Bool) (l : List (String × Param)) : MRef :=
  if datum then { r with datum := l } else { r with conv := l }

def MRef.params (r : MRef) (datum : Bool) : List (String × Param) := if datum then r.datum else r.conv

theorem run_params (fix : Bool) (name : String) (ns0 : Option (List Char)) (datum : Bool) (ps : List (String × Param)) :
    ∀ (acc : List (String × Param)) (r : MRef) (env : Env),
    ps.all (fun p => p.2.ok fix) = true → ((acc ++ ps).map (·.1)).Nodup →
    env name = some (.ref (r.setParams datum acc)) →
    ∃ ss env', mapMOpt (emitParam fix name ns0 datum) ps = some ss ∧ run (nsPrefix ns0) env ss = some env' ∧
      env' name = some (.ref (r.setParams datum (acc ++ ps.map (fun p => (p.1, p.2.rebuilt))))) ∧
      ss.all (fun s => s.ctorsUse (nsPrefix ns0)) = true := by
  induction ps with
  | nil => intro acc r env _ _ he; exact ⟨[], env, rfl, rfl, by simpa using he, rfl⟩
  | cons p ps ih =>
    intro acc r env hok hnd he
    simp only [List.all_cons, Bool.and_eq_true] at hok
    have hq : p.1 ∉ acc.map (·.1) := by
      simp only [List.map_append, List.map_cons, List.nodup_append, List.mem_cons] at hnd
      intro hm
      exact hnd.2.2 _ hm _ (Or.inl rfl) rfl
    have hnd' : (((acc ++ [(p.1, p.2.rebuilt)]) ++ ps).map (·.1)).Nodup := by
      simpa [List.map_append] using hnd
    obtain ⟨k, v⟩ := p
    have hacc : (r.setParams datum acc).params datum = acc := by
      cases datum <;> simp [MRef.setParams, MRef.params]
    cases v with
    | val v =>
      simp only [Param.ok] at hok
      have hstep : step (nsPrefix ns0) env (Stmt.setParam name datum k (.lit v.spell)) =
          some (env.set name (.ref (r.setParams datum (acc ++ [(k, Param.rebuilt (.val v))])))) := by
        cases datum <;>
          simp [step, he, spell_eval v hok.1, MRef.setParams, dictSet_append _ _ _ hq, Param.rebuilt]
      obtain ⟨ss, env', h1, h2, h3, h4⟩ := ih (acc ++ [(k, Param.rebuilt (.val v))]) r
        (env.set name (.ref (r.setParams datum (acc ++ [(k, Param.rebuilt (.val v))])))) hok.2 hnd' (Env.set_same _ _ _)
      refine ⟨Stmt.setParam name datum k (.lit v.spell) :: ss, env', by simp [mapMOpt, emitParam, h1], ?_, ?_, ?_⟩
      · simp [run_cons, hstep, h2]
      · simpa [List.append_assoc] using h3
      · simp only [List.all_cons, Bool.and_eq_true]
        exact ⟨rfl, h4⟩
    | data d =>
      simp only [Param.ok] at hok
      obtain ⟨e, g1, g2, g3⟩ := emitData_eval fix d none ns0 hok.1 (fun _ => by simp)
      have hstep : step (nsPrefix ns0) env (Stmt.setParam name datum k (.data e)) =
          some (env.set name (.ref (r.setParams datum (acc ++ [(k, Param.rebuilt (.data d))])))) := by
        cases datum <;>
          simp [step, he, g2, MRef.setParams, dictSet_append _ _ _ hq, Param.rebuilt]
      obtain ⟨ss, env', h1, h2, h3, h4⟩ := ih (acc ++ [(k, Param.rebuilt (.data d))]) r
        (env.set name (.ref (r.setParams datum (acc ++ [(k, Param.rebuilt (.data d))])))) hok.2 hnd' (Env.set_same _ _ _)
      refine ⟨Stmt.setParam name datum k (.data e) :: ss, env', by simp [mapMOpt, emitParam, g1, h1], ?_, ?_, ?_⟩
      · simp [run_cons, hstep, h2]
      · simpa [List.append_assoc] using h3
      · simp only [List.all_cons, Bool.and_eq_true]
        exact ⟨by simpa [Stmt.ctorsUse] using g3, h4⟩

/-- `CoordinateReference.creation_commands` on any environment -/
theorem run_emitRef (fix : Bool) (r : MRef) (name : String) (ns0 : Option (List Char)) (header : Bool) (env : Env)
    (hok : refOK fix r = true) :
    ∃ stmts env', emitRefWith fix r name ns0 header = some stmts ∧ run (nsPrefix ns0) env stmts = some env' ∧
      env' name = some (.ref (rebuiltRef r)) ∧ stmts.all (fun s => s.ctorsUse (nsPrefix ns0)) = true := by
  simp only [refOK, Bool.and_eq_true, decide_eq_true_eq] at hok
  obtain ⟨⟨⟨⟨nd1, nd2⟩, nd3⟩, ok1⟩, ok2⟩ := hok
  obtain ⟨ncvar, coords, datum, conv, ancils⟩ := r
  let r0 : MRef := ⟨ncvar, coords, [], [], []⟩
  let pre := headerS header ++ [Stmt.new name (nsPrefix ns0) .CoordinateReference] ++
    optS ncvar (Stmt.ncVar name) ++ (if coords.isEmpty then [] else [Stmt.setCoords name coords])
  have hpre : run (nsPrefix ns0) env pre = some (env.set name (.ref r0)) := by
    simp only [pre, run_append, run_headerS, Option.bind_some, run_cons, run_nil, step_new]
    cases ncvar <;> cases coords <;>
      simp [optS, run, step, newObj, Cls.isLeaf, Cls.hasBounds, Env.set_set, r0]
  obtain ⟨ds, e1, d1, d2, d3, d4⟩ := run_params fix name ns0 true datum [] r0 (env.set name (.ref r0)) ok1
    (by simpa using nd1) (by simp [MRef.setParams, r0])
  simp only [List.nil_append, MRef.setParams, if_true] at d3
  obtain ⟨cs, e2, c1, c2, c3, c4⟩ := run_params fix name ns0 false conv []
    { r0 with datum := datum.map (fun p => (p.1, p.2.rebuilt)) } e1 ok2
    (by simpa using nd2) (by simpa [MRef.setParams, r0] using d3)
  simp only [List.nil_append, MRef.setParams, Bool.false_eq_true, if_false] at c3
  let post := if ancils.isEmpty then [] else [Stmt.setAncils name ancils]
  have hpost : ∃ e3, run (nsPrefix ns0) e2 post = some e3 ∧
      e3 name = some (.ref (rebuiltRef ⟨ncvar, coords, datum, conv, ancils⟩)) := by
    cases ha : ancils with
    | nil => exact ⟨e2, by simp [post, ha], by simpa [rebuiltRef, r0] using c3⟩
    | cons a as =>
      refine ⟨e2.set name (.ref (rebuiltRef ⟨ncvar, coords, datum, conv, a :: as⟩)), ?_, Env.set_same _ _ _⟩
      have hnd : ((a :: as).map (·.1)).Nodup := by rw [← ha]; exact nd3
      simp [post, ha, run_cons, step, c3, dictUpdate_nil _ hnd, rebuiltRef, r0]
  obtain ⟨e3, p1, p2⟩ := hpost
  refine ⟨pre ++ ds ++ cs ++ post, e3, ?_, ?_, p2, ?_⟩
  · simp [emitRefWith, d1, c1, pre, post, List.append_assoc]
  · simp only [run_append, hpre, Option.bind_some, d2, c2, p1]
  · simp only [List.all_append, Bool.and_eq_true, pre, post]
    refine ⟨⟨⟨⟨⟨⟨?_, by simp [Stmt.ctorsUse]⟩, ?_⟩, ?_⟩, d4⟩, c4⟩, ?_⟩
    · cases header <;> simp [headerS, Stmt.ctorsUse]
    · cases ncvar <;> simp [optS, Stmt.ctorsUse]
    · split <;> simp [Stmt.ctorsUse]
    · split <;> simp [Stmt.ctorsUse]

theorem Param.rebuilt_obs (fix : Bool) (p : Param) (h : p.ok fix = true) : p.rebuilt.obs = p.obs := by
  cases p with
  | val v => simp [Param.rebuilt, Param.obs, PVal.norm_norm]
  | data d => simp [Param.rebuilt, Param.obs, rebuiltData_norm fix d h]

theorem rebuiltRef_obs (fix : Bool) (r : MRef) (hok : refOK fix r = true) : (rebuiltRef r).obs = r.obs := by
  simp only [refOK, Bool.and_eq_true] at hok
  have h1 : (r.datum.map (fun p => (p.1, p.2.rebuilt))).map (fun p => (p.1, p.2.obs)) =
      r.datum.map (fun p => (p.1, p.2.obs)) := by
    rw [List.map_map]
    apply List.map_congr_left
    intro p hp
    simp [Param.rebuilt_obs fix p.2 (List.all_eq_true.mp hok.1.2 p hp)]
  have h2 : (r.conv.map (fun p => (p.1, p.2.rebuilt))).map (fun p => (p.1, p.2.obs)) =
      r.conv.map (fun p => (p.1, p.2.obs)) := by
    rw [List.map_map]
    apply List.map_congr_left
    intro p hp
    simp [Param.rebuilt_obs fix p.2 (List.all_eq_true.mp hok.2 p hp)]
  simp only [MRef.obs, rebuiltRef, h1, h2]

/-! ### the interpreter is sound for the static "defined before use" check -/

/-- every name bound in `env` is in `known` -/
def Bound (env : Env) (known : List String) : Prop := ∀ n, env n ≠ none → n ∈ known

theorem bound_set {env : Env} {known : List String} {n : String} (o : Obj) (h : Bound env known) (hn : n ∈ known) :
    Bound (env.set n o) known := by
  intro m hm
  by_cases e : m = n
  · exact e ▸ hn
  · rw [Env.set_other _ _ _ _ e] at hm; exact h m hm

theorem bound_set_new {env : Env} {known : List String} (n : String) (o : Obj) (h : Bound env known) :
    Bound (env.set n o) (n :: known) := by
  intro m hm
  by_cases e : m = n
  · simp [e]
  · rw [Env.set_other _ _ _ _ e] at hm; exact List.mem_cons_of_mem _ (h m hm)

theorem bound_of_some {env : Env} {known : List String} {n : String} {o : Obj} (h : Bound env known)
    (hn : env n = some o) : n ∈ known := h n (by simp [hn])

theorem updLeaf_set_bound {env : Env} {known : List String} {n : String} {o : Obj} {f : Leaf → Option Leaf} {env' : Env}
    (hb : Bound env known) (hn : n ∈ known) (h : (o.updLeaf f).map (env.set n) = some env') : Bound env' known := by
  cases hu : o.updLeaf f with
  | none => simp [hu] at h
  | some o' => simp [hu] at h; subst h; exact bound_set _ hb hn

/-- a statement that executes reads only bound names, and binds at most the name it defines -/
theorem step_defined (pkg : List Char) (env env' : Env) (s : Stmt) (known : List String) (hinv : Bound env known)
    (h : step pkg env s = some env') :
    s.uses.all (fun n => known.contains n) = true ∧
      Bound env' (match s.defines with
                  | some d => d :: known
                  | none => known) := by
  cases s with
  | comment => simp only [step, Option.some.injEq] at h; subst h; exact ⟨rfl, hinv⟩
  | new n ns cls =>
    simp only [step] at h
    split at h
    · contradiction
    · simp only [Option.some.injEq] at h; subst h; exact ⟨rfl, bound_set_new _ _ hinv⟩
  | newData n e =>
    simp only [step] at h
    cases he : e.eval pkg with
    | none => simp [he] at h
    | some d => simp [he] at h; subst h; exact ⟨rfl, bound_set_new _ _ hinv⟩
  | setProps n ps =>
    simp only [step] at h
    cases hn : env n with
    | none => simp [hn] at h
    | some o =>
      have hm := bound_of_some hinv hn
      refine ⟨by simp [Stmt.uses, hm], ?_⟩
      cases hp : evalProps ps with
      | none => simp [hn, hp] at h
      | some vs => simp only [hn, hp] at h; exact updLeaf_set_bound hinv hm h
  | ncVar n v =>
    simp only [step] at h
    cases hn : env n with
    | none => simp [hn] at h
    | some o =>
      have hm := bound_of_some hinv hn
      refine ⟨by simp [Stmt.uses, hm], ?_⟩
      cases o <;> simp only [hn] at h <;>
        first
        | (simp only [Option.some.injEq] at h; subst h; exact bound_set _ hinv hm)
        | exact updLeaf_set_bound hinv hm h
  | ncDim n k v =>
    simp only [step] at h
    cases hn : env n with
    | none => simp [hn] at h
    | some o =>
      have hm := bound_of_some hinv hn
      refine ⟨by simp [Stmt.uses, hm], ?_⟩
      cases o <;> simp only [hn] at h <;>
        first
        | (split at h
           · simp only [Option.some.injEq] at h; subst h; exact bound_set _ hinv hm
           · contradiction)
        | exact updLeaf_set_bound hinv hm h
  | setData n dn =>
    simp only [step] at h
    cases hn : env n with
    | none => simp [hn] at h
    | some o =>
      cases hd : env dn with
      | none => simp [hn, hd] at h
      | some od =>
        have hm := bound_of_some hinv hn
        have hm2 := bound_of_some hinv hd
        refine ⟨by simp [Stmt.uses, hm, hm2], ?_⟩
        cases od <;> simp only [hn, hd] at h <;> first | contradiction | exact updLeaf_set_bound hinv hm h
  | setAttr n k v =>
    simp only [step] at h
    cases hn : env n with
    | none => simp [hn] at h
    | some o =>
      have hm := bound_of_some hinv hn
      refine ⟨by simp [Stmt.uses, hm], ?_⟩
      cases o <;> simp only [hn] at h <;> try contradiction
      · split at h
        · simp only [Option.some.injEq] at h; subst h; exact bound_set _ hinv hm
        · contradiction
      · cases k <;> simp only at h <;> try contradiction
        · simp only [Option.some.injEq] at h; subst h; exact bound_set _ hinv hm
        · split at h
          · simp only [Option.some.injEq] at h; subst h; exact bound_set _ hinv hm
          · contradiction
  | setClimatology n =>
    simp only [step] at h
    cases hn : env n with
    | none => simp [hn] at h
    | some o =>
      have hm := bound_of_some hinv hn
      refine ⟨by simp [Stmt.uses, hm], ?_⟩
      cases o <;> simp only [hn] at h <;> try contradiction
      split at h
      · simp only [Option.some.injEq] at h; subst h; exact bound_set _ hinv hm
      · contradiction
  | setBounds n bn =>
    simp only [step] at h
    cases hn : env n with
    | none => simp [hn] at h
    | some o =>
      cases hd : env bn with
      | none => cases o <;> simp [hn, hd] at h
      | some ob =>
        have hm := bound_of_some hinv hn
        have hm2 := bound_of_some hinv hd
        refine ⟨by simp [Stmt.uses, hm, hm2], ?_⟩
        cases o <;> cases ob <;> simp only [hn, hd] at h <;> try contradiction
        split at h
        · simp only [Option.some.injEq] at h; subst h; exact bound_set _ hinv hm
        · contradiction
  | setRing n rn =>
    simp only [step] at h
    cases hn : env n with
    | none => simp [hn] at h
    | some o =>
      cases hd : env rn with
      | none => cases o <;> simp [hn, hd] at h
      | some ob =>
        have hm := bound_of_some hinv hn
        have hm2 := bound_of_some hinv hd
        refine ⟨by simp [Stmt.uses, hm, hm2], ?_⟩
        cases o <;> cases ob <;> simp only [hn, hd] at h <;> try contradiction
        simp only [Option.some.injEq] at h; subst h; exact bound_set _ hinv hm
  | setSize n k =>
    simp only [step] at h
    cases hn : env n with
    | none => simp [hn] at h
    | some o =>
      have hm := bound_of_some hinv hn
      refine ⟨by simp [Stmt.uses, hm], ?_⟩
      cases o <;> simp only [hn] at h <;> try contradiction
      simp only [Option.some.injEq] at h; subst h; exact bound_set _ hinv hm
  | setUnlimited n =>
    simp only [step] at h
    cases hn : env n with
    | none => simp [hn] at h
    | some o =>
      have hm := bound_of_some hinv hn
      refine ⟨by simp [Stmt.uses, hm], ?_⟩
      cases o <;> simp only [hn] at h <;> try contradiction
      simp only [Option.some.injEq] at h; subst h; exact bound_set _ hinv hm
  | setMethod n m =>
    simp only [step] at h
    cases hn : env n with
    | none => simp [hn] at h
    | some o =>
      have hm := bound_of_some hinv hn
      refine ⟨by simp [Stmt.uses, hm], ?_⟩
      cases o <;> simp only [hn] at h <;> try contradiction
      simp only [Option.some.injEq] at h; subst h; exact bound_set _ hinv hm
  | setAxes n l =>
    simp only [step] at h
    cases hn : env n with
    | none => simp [hn] at h
    | some o =>
      have hm := bound_of_some hinv hn
      refine ⟨by simp [Stmt.uses, hm], ?_⟩
      cases o <;> simp only [hn] at h <;> try contradiction
      simp only [Option.some.injEq] at h; subst h; exact bound_set _ hinv hm
  | setQualifier n t v =>
    simp only [step] at h
    cases hn : env n with
    | none => simp [hn] at h
    | some o =>
      have hm := bound_of_some hinv hn
      refine ⟨by simp [Stmt.uses, hm], ?_⟩
      cases o <;> simp only [hn] at h <;> try contradiction
      cases v with
      | str s => simp only [Option.some.injEq] at h; subst h; exact bound_set _ hinv hm
      | interval es =>
        cases he : evalDatas pkg es with
        | none => simp [he] at h
        | some ds => simp [he] at h; subst h; exact bound_set _ hinv hm
  | setCoords n l =>
    simp only [step] at h
    cases hn : env n with
    | none => simp [hn] at h
    | some o =>
      have hm := bound_of_some hinv hn
      refine ⟨by simp [Stmt.uses, hm], ?_⟩
      cases o <;> simp only [hn] at h <;> try contradiction
      simp only [Option.some.injEq] at h; subst h; exact bound_set _ hinv hm
  | setParam n datum t v =>
    simp only [step] at h
    cases hn : env n with
    | none => simp [hn] at h
    | some o =>
      have hm := bound_of_some hinv hn
      refine ⟨by simp [Stmt.uses, hm], ?_⟩
      cases o <;> simp only [hn] at h <;> try contradiction
      split at h
      · contradiction
      · split at h <;> (simp only [Option.some.injEq] at h; subst h; exact bound_set _ hinv hm)
  | setAncils n l =>
    simp only [step] at h
    cases hn : env n with
    | none => simp [hn] at h
    | some o =>
      have hm := bound_of_some hinv hn
      refine ⟨by simp [Stmt.uses, hm], ?_⟩
      cases o <;> simp only [hn] at h <;> try contradiction
      simp only [Option.some.injEq] at h; subst h; exact bound_set _ hinv hm

/-- **Soundness of the interpreter for the static check**: a text that executes from an
environment whose names are `known` reads every name only after it has been bound. -/
theorem run_defined (pkg : List Char) (ss : List Stmt) :
    ∀ (env env' : Env) (known : List String), Bound env known → run pkg env ss = some env' →
      definedBeforeUse known ss = true := by
  induction ss with
  | nil => intros; rfl
  | cons s ss ih =>
    intro env env' known hinv h
    rw [run_cons] at h
    cases hs : step pkg env s with
    | none => simp [hs] at h
    | some e1 =>
      simp only [hs, Option.bind_some] at h
      obtain ⟨hu, hb⟩ := step_defined pkg env e1 s known hinv hs
      simp only [definedBeforeUse, hu, Bool.true_and]
      exact ih e1 env' _ hb h

theorem exec_defined (pkg : List Char) (ss : List Stmt) (env' : Env) (h : exec pkg ss = some env') :
    definedBeforeUse [] ss = true :=
  run_defined pkg ss Env.empty env' [] (fun n hn => by simp [Env.empty] at hn) h

end Cfdm.Emit
