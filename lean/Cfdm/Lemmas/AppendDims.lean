import Cfdm.Model.AppendHyp
import Cfdm.Lemmas.AppendHoare
import Cfdm.Lemmas.AppendNames
/-
C17 — the writer never makes an existing dimension longer.

Invariants of the registry during the post-dry-run pass (relative to the dataset `E` being appended to) and
the pre/post-conditions of the writer's helper functions.
-/
namespace Cfdm.Append

theorem DimFits.of_not_mem {E : Ds} {d : Name} (n : Nat) (h : d ∉ E.dimNames) : DimFits E d n := by
  intro D hD _ hn
  exact absurd (hn ▸ List.mem_map_of_mem (f := (·.name)) hD) h

theorem DimFits.of_fresh {E : Ds} {d : Name} (n : Nat) (h : d ∉ E.names) : DimFits E d n :=
  DimFits.of_not_mem n (fun hc => h (List.mem_append.mpr (Or.inr hc)))

theorem ShapeOK.headFits {E : Ds} {ds : List Name} {sh : List Nat} (h : ShapeOK E ds sh) : HeadFits E ds sh := by
  cases ds with
  | nil => simp [HeadFits]
  | cons d t => cases sh with
    | nil => simp [HeadFits]
    | cons n ns => simp only [ShapeOK] at h; exact h.1

theorem ShapeOK.single {E : Ds} {d : Name} {n : Nat} (h : DimFits E d n) : ShapeOK E [d] [n] := by
  simp only [ShapeOK]; exact ⟨h, trivial⟩

structure RInv (E : Ds) (sz : Nat → Nat) (r : Reg) : Prop where
  names : NamesInv E r.nm
  agrees : RegAgrees E r
  safe : Safe E sz r

theorem sizeOf?_mem {nm : NameReg} {d : Name} {s : Nat} (h : nm.sizeOf? d = some s) : (d, s) ∈ nm.dimSize := by
  unfold NameReg.sizeOf? at h
  cases hf : nm.dimSize.find? (fun x => x.1 == d) with
  | none => rw [hf] at h; cases h
  | some p =>
    rw [hf] at h
    have hm := List.mem_of_find?_eq_some hf
    have hp : p.1 = d := by simpa using List.find?_some hf
    have hs : p.2 = s := by simpa using h
    rw [← hp, ← hs]; exact hm

theorem RInv.fits_of_size {E : Ds} {sz : Nat → Nat} {r : Reg} (h : RInv E sz r) {d : Name} {s : Nat}
    (hs : r.nm.sizeOf? d = some s) : DimFits E d s :=
  h.agrees.1 (d, s) (sizeOf?_mem hs)

/-- Changes of `write_vars` that do not touch the tables of the invariant. -/
theorem RInv.frame {E : Ds} {sz : Nat → Nat} {r : Reg} (h : RInv E sz r) (g : Aux → Aux)
    (h1 : (g r.aux).seen = r.aux.seen) (h2 : (g r.aux).spans = r.aux.spans) (h3 : (g r.aux).localSpans = r.aux.localSpans)
    (h4 : (g r.aux).axisDim = r.aux.axisDim) : RInv E sz { r with aux := g r.aux } := by
  refine ⟨h.names, ?_, ?_⟩
  · obtain ⟨a, b, c, d⟩ := h.agrees
    refine ⟨a, ?_, ?_, ?_⟩
    · simpa [h2] using b
    · simpa [h3] using c
    · simpa [h1] using d
  · show ∀ p ∈ (g r.aux).axisDim, DimFits E p.2 (sz p.1)
    rw [h4]; exact h.safe

theorem triple_modA_frame {fx : Fix} {E : Ds} {sz : Nat → Nat} (g : Aux → Aux)
    (h1 : ∀ a, (g a).seen = a.seen) (h2 : ∀ a, (g a).spans = a.spans) (h3 : ∀ a, (g a).localSpans = a.localSpans)
    (h4 : ∀ a, (g a).axisDim = a.axisDim) :
    Triple fx E (RInv E sz) (modA g) (fun _ => RInv E sz) := by
  unfold modA
  exact Triple.modAux (fun r hr => hr.frame g (h1 _) (h2 _) (h3 _) (h4 _)) (Triple.pure' (Q := fun _ => RInv E sz) ())

theorem triple_allocN {fx : Fix} (hb : fx.blanks = true) {E : Ds} {sz : Nat → Nat} (b : Name) :
    Triple fx E (RInv E sz) (allocN b) (fun n r => RInv E sz r ∧ n ∉ E.names) := by
  unfold allocN
  apply Triple.alloc
  intro r0 h0
  rw [hb]
  intro r fs hr hI
  subst hr
  refine ⟨⟨⟨h0.names.alloc b, ?_, h0.safe⟩, ?_⟩, hI⟩
  · obtain ⟨a, b', c, d⟩ := h0.agrees
    exact ⟨by rw [(netcdfName_names true r0.nm b).2.2]; exact a, b', c, d⟩
  · intro hc
    exact netcdfName_fresh r0.nm b (h0.names.cover _ hc)

theorem netcdfNameRole_cases (nm : NameReg) (b : Name) (s : Nat) (role : String) :
    let out := netcdfNameRole true nm b s role
    (out.2.2 = nm ∧ nm.sizeOf? out.1 = some s) ∨
    (out.1 ∉ nm.existing ∧ out.2.2.dimSize = nm.dimSize) := by
  unfold netcdfNameRole
  cases hf : nm.roles.find? (fun x => x.1 == role && nm.sizeOf? x.2 == some s) with
  | some p =>
    left
    have := List.find?_some hf
    simp only [Bool.and_eq_true, beq_iff_eq] at this
    exact ⟨rfl, this.2⟩
  | none =>
    right
    exact ⟨netcdfName_fresh nm b, (netcdfName_names true nm b).2.2⟩

theorem triple_allocRole {fx : Fix} (hb : fx.blanks = true) {E : Ds} {sz : Nat → Nat} (b : Name) (s : Nat) (role : String) :
    Triple fx E (RInv E sz) (Prog.allocRole b s role Prog.pure) (fun d r => RInv E sz r ∧ DimFits E d s) := by
  apply Triple.allocRole
  intro r0 h0
  rw [hb]
  intro r fs hr hI
  subst hr
  refine ⟨⟨⟨h0.names.allocRole b s role, ?_, h0.safe⟩, ?_⟩, hI⟩
  · obtain ⟨a, b', c, d⟩ := h0.agrees
    refine ⟨?_, b', c, d⟩
    rcases netcdfNameRole_cases r0.nm b s role with ⟨h1, _⟩ | ⟨_, h2⟩
    · show ∀ p ∈ (netcdfNameRole true r0.nm b s role).2.2.dimSize, _
      rw [h1]; exact a
    · show ∀ p ∈ (netcdfNameRole true r0.nm b s role).2.2.dimSize, _
      rw [h2]; exact a
  · rcases netcdfNameRole_cases r0.nm b s role with ⟨_, h2⟩ | ⟨h1, _⟩
    · exact h0.fits_of_size h2
    · exact DimFits.of_fresh s (fun hc => h1 (h0.names.cover _ hc))

theorem triple_getNm {fx : Fix} {E : Ds} {P : Reg → Prop} : Triple fx E P getNm (fun nm r => P r ∧ nm = r.nm) := by
  unfold getNm
  apply Triple.get
  intro r0 r fs h hI
  exact ⟨⟨h.1, by rw [h.2]⟩, hI⟩

theorem triple_getAux {fx : Fix} {E : Ds} {P : Reg → Prop} : Triple fx E P getAux (fun a r => P r ∧ a = r.aux) := by
  unfold getAux
  apply Triple.get
  intro r0 r fs h hI
  exact ⟨⟨h.1, by rw [h.2]⟩, hI⟩

theorem triple_getMode {fx : Fix} {E : Ds} {P : Reg → Prop} : Triple fx E P getMode (fun m r => P r ∧ m = .post) := by
  unfold getMode
  apply Triple.mode
  intro r fs h hI
  exact ⟨⟨h, rfl⟩, hI⟩

theorem RInv.noteDim {E : Ds} {sz : Nat → Nat} {r : Reg} (h : RInv E sz r) (d : Name) (n : Nat) (hf : DimFits E d n) :
    RInv E sz { r with nm := { r.nm with dimSize := r.nm.dimSize.filter (·.1 != d) ++ [(d, n)] } } := by
  refine ⟨h.names.noteDim d n, ?_, h.safe⟩
  obtain ⟨a, b, c, e⟩ := h.agrees
  refine ⟨?_, b, c, e⟩
  intro p hp
  rcases List.mem_append.mp hp with h1 | h1
  · exact a p (List.mem_filter.mp h1).1
  · simp at h1; subst h1; exact hf

theorem triple_strlenDim {fx : Fix} (hb : fx.blanks = true) {E : Ds} {sz : Nat → Nat} (n : Nat) :
    Triple fx E (RInv E sz) (strlenDim n) (fun d r => RInv E sz r ∧ DimFits E d n) := by
  unfold strlenDim
  apply Triple.bind (triple_allocRole hb _ n _)
  intro d
  apply Triple.bind triple_getNm
  intro nm
  split
  · exact (Triple.pure' (Q := fun d r => RInv E sz r ∧ DimFits E d n) d).weaken (fun r h => h.1) (fun _ _ h => h)
  · apply Triple.noteDim (P' := fun r => RInv E sz r ∧ DimFits E d n)
    · intro r h
      exact ⟨h.1.1.noteDim d n h.1.2, h.1.2⟩
    · apply Triple.ensureDim
      exact Triple.pure' (Q := fun d r => RInv E sz r ∧ DimFits E d n) d
/-- A fact that does not depend on the state can be taken out of the pre-condition … -/
theorem Triple.of_pure {fx : Fix} {E : Ds} {α : Type} {P : Reg → Prop} {Q : α → Reg → Prop} {p : Prog α} {φ : Prop}
    (h : φ → Triple fx E P p Q) : Triple fx E (fun r => P r ∧ φ) p Q := by
  intro r fs hP hI
  exact h hP.2 r fs hP.1 hI

/-- … and carried to the post-condition. -/
theorem Triple.carry {fx : Fix} {E : Ds} {α : Type} {P : Reg → Prop} {Q : α → Reg → Prop} {p : Prog α} (φ : Prop)
    (h : Triple fx E P p Q) : Triple fx E (fun r => P r ∧ φ) p (fun a r => Q a r ∧ φ) := by
  intro r fs hP hI
  have := h r fs hP.1 hI
  revert this
  cases run fx .post p r fs with
  | mk res rest =>
    cases rest with
    | mk r' fs' =>
      cases res with
      | ok a => intro h; exact ⟨⟨h.1, hP.2⟩, h.2⟩
      | error e => intro h; exact h

theorem RInv.regSeen {E : Ds} {sz : Nat → Nat} {r : Reg} (h : RInv E sz r) (c : Cons) (ncvar : Name) (ds : Option (List Name))
    (hf : ∀ l, ds = some l → HeadFits E l c.shape) : RInv E sz { r with aux := regSeen c ncvar ds r.aux } := by
  refine ⟨h.names, ?_, h.safe⟩
  obtain ⟨a, b, c', e⟩ := h.agrees
  refine ⟨a, b, c', ?_⟩
  intro x hx
  simp only [Cfdm.Append.regSeen] at hx
  rcases List.mem_append.mp hx with h1 | h1
  · exact e x h1
  · simp at h1; subst h1
    unfold SeenFits
    cases ds with
    | none => trivial
    | some l => exact hf l rfl

theorem triple_writeVar {fx : Fix} (hb : fx.blanks = true) {E : Ds} {sz : Nat → Nat} (ncvar : Name) (ncdims : List Name) (c : Cons)
    (extra : List (String × String)) (om : List String) (regDims : Option (List Name))
    (hs : ShapeOK E ncdims c.shape) (hr : HeadFits E (regDims.getD ncdims) c.shape) :
    Triple fx E (RInv E sz) (writeVar ncvar ncdims c extra om regDims) (fun _ => RInv E sz) := by
  unfold writeVar
  apply Triple.bind (Q := fun _ => RInv E sz)
  · unfold modA
    exact Triple.modAux (fun r h => h.regSeen c ncvar _ (fun l hl => by cases hl; exact hr)) (Triple.pure' (Q := fun _ => RInv E sz) ())
  intro _
  apply Triple.bind triple_getMode
  intro m
  apply Triple.of_pure
  intro hm
  subst hm
  have : (Mode.post == Mode.dry) = false := by decide
  simp only [this, Bool.false_eq_true, ↓reduceIte]
  split
  · exact Triple.createVar hs (Triple.pure' (Q := fun _ => RInv E sz) ())
  · rename_i n _
    apply Triple.bind (triple_strlenDim hb n)
    intro d
    apply Triple.of_pure
    intro hd
    exact Triple.createVar (hs.append (ShapeOK.single hd)) (Triple.pure' (Q := fun _ => RInv E sz) ())

theorem RInv.setAxis {E : Ds} {sz : Nat → Nat} {r : Reg} (h : RInv E sz r) (axis : Nat) (d : Name) (hf : DimFits E d (sz axis)) :
    RInv E sz { r with aux := { r.aux with axisDim := r.aux.axisDim.filter (·.1 != axis) ++ [(axis, d)] } } := by
  refine ⟨h.names, h.agrees, ?_⟩
  intro p hp
  rcases List.mem_append.mp hp with h1 | h1
  · exact h.safe p (List.mem_filter.mp h1).1
  · simp at h1; subst h1; exact hf

theorem triple_writeDimension {fx : Fix} {E : Ds} {sz : Nat → Nat} (ncdim : Name) (axis size : Nat) (unlim : Bool) :
    Triple fx E (RInv E sz) (writeDimension ncdim axis size unlim) (fun _ r => RInv E sz r ∧ ncdim ∉ E.dimNames) := by
  unfold writeDimension
  apply Triple.bind (Q := fun _ r => ncdim ∉ E.dimNames → RInv E sz r)
  · unfold modA
    refine Triple.modAux (P' := fun r => ncdim ∉ E.dimNames → RInv E sz r) ?_ (Triple.pure' (Q := fun _ r => ncdim ∉ E.dimNames → RInv E sz r) ())
    intro r h hn
    exact h.setAxis axis ncdim (DimFits.of_not_mem _ hn)
  intro _
  apply Triple.noteDim (P' := fun r => ncdim ∉ E.dimNames → RInv E sz r)
  · intro r h hn
    exact (h hn).noteDim ncdim size (DimFits.of_not_mem _ hn)
  · apply Triple.createDim
    intro hn r fs hP hI
    exact ⟨⟨hP hn, hn⟩, hI⟩

theorem triple_setKeyVar {fx : Fix} {E : Ds} {sz : Nat → Nat} (key : Nat) (v : Option Name) :
    Triple fx E (RInv E sz) (setKeyVar key v) (fun _ => RInv E sz) := by
  unfold setKeyVar
  exact triple_modA_frame _ (fun _ => rfl) (fun _ => rfl) (fun _ => rfl) (fun _ => rfl)


/-- a `modA` that leaves the tables of the invariant alone, followed by the rest of the program -/
macro "tframe" : tactic =>
  `(tactic| (refine Triple.bind (triple_modA_frame _ ?_ ?_ ?_ ?_) ?_ <;> first | (intro _; rfl) | skip))

theorem Triple.pure_bind {fx : Fix} {E : Ds} {α β : Type} {P : Reg → Prop} {Q : β → Reg → Prop} {a : α} {k : α → Prog β}
    (h : Triple fx E P (k a) Q) : Triple fx E P (Prog.bind (Prog.pure a) k) Q := h

theorem triple_writeBounds {fx : Fix} (hb : fx.blanks = true) {E : Ds} {sz : Nat → Nat} (b : Option BReq) (coordDims : List Name)
    (coordVar : Name) (parent : Cons) (sh : List Nat) (hs : ShapeOK E coordDims sh) (hw : bWF b sh) :
    Triple fx E (RInv E sz) (writeBounds b coordDims coordVar parent) (fun _ => RInv E sz) := by
  unfold writeBounds
  cases b with
  | none => exact (Triple.pure' (Q := fun _ => RInv E sz) _)
  | some b =>
    simp only
    simp only [bWF] at hw
    apply Triple.bind (triple_allocRole hb _ b.size _)
    intro bdim
    apply Triple.of_pure
    intro hfit
    have hsh : ShapeOK E (coordDims ++ [bdim]) b.c.shape := by rw [hw]; exact hs.append (ShapeOK.single hfit)
    have tail : ∀ (ncvar : Name) (lbl : String), Triple fx E (RInv E sz)
        (do modA (fun a => { a with bounds := a.bounds.filter (·.1 != coordVar) ++ [(coordVar, ncvar)] }); pure [(lbl, ncvar)])
        (fun _ => RInv E sz) := by
      intro ncvar lbl
      tframe
      intro _
      exact Triple.pure' (Q := fun _ => RInv E sz) _
    have body : ∀ (dflt : Name) (lbl : String), Triple fx E (RInv E sz)
        (do let ncvar ← allocN (b.varPinned.getD dflt)
            writeVar ncvar (coordDims ++ [bdim]) b.c [] (omitBoundsProps parent)
            let ncvar ← pure ncvar
            modA (fun a => { a with bounds := a.bounds.filter (·.1 != coordVar) ++ [(coordVar, ncvar)] })
            pure [(lbl, ncvar)])
        (fun _ => RInv E sz) := by
      intro dflt lbl
      apply Triple.bind ((triple_allocN hb _).weaken (fun _ h => h) (fun _ _ h => h.1))
      intro ncvar
      apply Triple.bind (triple_writeVar hb ncvar _ b.c _ _ none hsh hsh.headFits)
      intro _
      exact tail ncvar lbl
    apply Triple.bind triple_getAux
    intro a
    split
    · exact (tail _ _).weaken (fun r h => h.1) (fun _ _ h => h)
    · apply Triple.bind triple_getNm
      intro nm
      split
      · exact (body _ _).weaken (fun r h => h.1.1) (fun _ _ h => h)
      · apply Triple.bind (Q := fun _ => RInv E sz)
        · apply Triple.noteDim (P' := RInv E sz)
          · intro r h; exact h.1.1.noteDim bdim b.size hfit
          · apply Triple.createDim
            intro _
            exact Triple.pure' (Q := fun _ => RInv E sz) ()
        · intro _
          exact body _ _

end Cfdm.Append
