import Cfdm.Lemmas.ConstructsDict
import Cfdm.Lemmas.Describe
/-
C02 — the inductive core of the invariant and the two frame lemmas (`core_store`, `core_remove`)
from which the preservation theorems of the dictionary operations follow.
-/
namespace Cfdm.Constructs

/-- the clauses of `Inv` from which the remaining two (domain view, inspection) follow -/
structure Core (s : St) : Prop where
  tos : TypeOfStored s
  sot : StoredOfType s
  cax : ConstructAxes s
  wf : BoundsLead s
  fax : FieldAxes s
  refs : RefsOK s
  cms : CellMethodsOK s

/-! ### sizes -/

/-- what the clauses see of a domain axis: whether it exists and its size -/
def axSize (s : St) (a : Key) : Option (Option Nat) := (s.cons.get (.axis, a)).map (·.size)

theorem fits_def (s : St) (A : List Key) (shp : List Nat) :
    Fits s A shp ↔ A.map (axSize s) = shp.map (fun n => some (some n)) := Iff.rfl

theorem sizesOfD_iff (s : St) (A : List Key) (shp : List Nat) : sizesOfD s.cons A = some shp ↔ Fits s A shp := by
  induction A generalizing shp with
  | nil =>
    cases shp <;> simp [sizesOfD, Fits]
  | cons a l ih =>
    unfold sizesOfD
    cases shp with
    | nil =>
      simp only [Fits, List.map_cons, List.map_nil, reduceCtorEq, iff_false]
      cases hg : s.cons.get (.axis, a) with
      | none => simp
      | some c => cases hs : c.size <;> cases hr : sizesOfD s.cons l <;> simp [hs]
    | cons m r =>
      have := ih r
      simp only [Fits, List.map_cons, List.cons.injEq] at this ⊢
      cases hg : s.cons.get (.axis, a) with
      | none => simp
      | some c =>
        cases hs : c.size with
        | none => simp [hs]
        | some n =>
          cases hr : sizesOfD s.cons l with
          | none =>
            rw [hr] at this
            simp only [reduceCtorEq, false_iff] at this
            simp [hs, this]
          | some r0 =>
            rw [hr] at this
            simp only [Option.some.injEq] at this
            simp only [Option.map_some, hs, Option.some.injEq, List.cons.injEq]
            rw [this]

theorem sizesOf_iff (s : St) (A : List Key) (shp : List Nat) : sizesOf s A = some shp ↔ Fits s A shp :=
  sizesOfD_iff s A shp

theorem fits_length {s : St} {A : List Key} {shp : List Nat} (h : Fits s A shp) : A.length = shp.length := by
  have := congrArg List.length h
  simpa using this

theorem fits_exist {s : St} {A : List Key} {shp : List Nat} (h : Fits s A shp) : AxesExist s A := by
  intro a ha
  rw [fits_def] at h
  obtain ⟨i, hi, rfl⟩ := List.getElem_of_mem ha
  have h1 : (A.map (axSize s))[i]? = (shp.map (fun n => some (some n)))[i]? := by rw [h]
  have hl := fits_length h
  rw [List.getElem?_map, List.getElem?_map, List.getElem?_eq_getElem hi, List.getElem?_eq_getElem (by omega)] at h1
  simp only [Option.map_some, Option.some.injEq, axSize] at h1
  cases hg : s.cons.get (.axis, A[i]) with
  | none => simp [hg] at h1
  | some c => simp

/-- `Fits` and `AxesExist` only look at the sizes of the named axes -/
theorem fits_congr {s s' : St} {A : List Key} (h : ∀ a ∈ A, axSize s' a = axSize s a) (shp : List Nat) :
    Fits s' A shp ↔ Fits s A shp := by
  rw [fits_def, fits_def]
  have : A.map (axSize s') = A.map (axSize s) := List.map_congr_left h
  rw [this]

theorem axesExist_congr {s s' : St} {A : List Key} (h : ∀ a ∈ A, axSize s' a = axSize s a) :
    AxesExist s' A ↔ AxesExist s A := by
  unfold AxesExist
  constructor
  · intro h1 a ha
    have := h1 a ha
    have e := h a ha
    unfold axSize at e
    cases hg : s.cons.get (.axis, a) with
    | some _ => rfl
    | none => rw [hg] at e; cases hg' : s'.cons.get (.axis, a) <;> simp_all
  · intro h1 a ha
    have := h1 a ha
    have e := h a ha
    unfold axSize at e
    cases hg : s'.cons.get (.axis, a) with
    | some _ => rfl
    | none => rw [hg] at e; cases hg' : s.cons.get (.axis, a) <;> simp_all

theorem axesOK_congr {s s' : St} {A : List Key} (h : ∀ a ∈ A, axSize s' a = axSize s a) (t : CType) (c : Con) :
    AxesOK s' t c A ↔ AxesOK s t c A := by
  unfold AxesOK
  rw [axesExist_congr h]
  cases c.shape t with
  | none => rfl
  | some shp =>
    simp only
    rw [fits_congr h]
    cases c.bounds <;> cases c.ring <;> simp only [fits_congr h]

/-- the checks of `_set_construct_data_axes`, for a consistent construct, establish the axes clause -/
theorem axesOK_of_check {s : St} {t : CType} {c : Con} {A : List Key} (hwf : c.WF t)
    (h : axesCheck s t c A = true) : AxesOK s t c A := by
  unfold axesCheck at h
  cases hs : sizesOf s A with
  | none => simp [hs] at h
  | some sz =>
    have hf := (sizesOf_iff s A sz).mp hs
    refine ⟨fits_exist hf, ?_⟩
    have hwf := hwf.1
    unfold Con.LeadOK at hwf
    cases hsh : c.shape t with
    | none => trivial
    | some shp =>
      simp only [hs, hsh, decide_eq_true_eq] at h
      subst h
      simp only [hsh] at hwf
      have hl := fits_length hf
      refine ⟨hf, ?_, ?_⟩
      · cases hb : c.bounds with
        | none => trivial
        | some b => simp only [hb] at hwf; simp only; rw [hl, hwf.1]; exact hf
      · cases hr : c.ring with
        | none => trivial
        | some r => simp only [hr] at hwf; simp only; rw [hl, hwf.2]; exact hf

theorem axesExist_of_axesOK {s : St} {t : CType} {c : Con} {A : List Key} (h : AxesOK s t c A) : AxesExist s A := h.1

/-- a construct without a shape (a domain axis, cell method, coordinate reference, or an array construct
without data and bounds) only needs its recorded axes to exist -/
theorem axesOK_of_noShape {s : St} {t : CType} {c : Con} {A : List Key} (hs : c.shape t = none)
    (h : AxesExist s A) : AxesOK s t c A := by
  unfold AxesOK; rw [hs]; exact ⟨h, trivial⟩

/-! ### the domain view and inspection follow from the core -/

theorem mem_todict (s : St) (view : Bool) (k : Key) :
    k ∈ todict s view ↔ ∃ t c, s.cons.get (t, k) = some c ∧ ignored view t = false := by
  unfold todict
  simp only [List.mem_map, List.mem_filter, Dict.mem_live, Bool.not_eq_eq_eq_not, Bool.not_true, Prod.exists]
  constructor
  · rintro ⟨t, k', c, ⟨hg, hi⟩, rfl⟩; exact ⟨t, c, hg, hi⟩
  · rintro ⟨t, c, hg, hi⟩; exact ⟨t, k, c, ⟨hg, hi⟩, rfl⟩

theorem viewOK_of_core {s : St} (h : Core s) : ViewOK s := by
  constructor
  · intro k hk
    rw [mem_todict] at hk ⊢
    obtain ⟨t, c, hg, hi⟩ := hk
    refine ⟨⟨t, c, hg, by simp [ignored]⟩, ?_⟩
    unfold visibleInView
    rw [h.tos (t, k) c hg]
    exact hi
  · intro k hk hv
    rw [mem_todict] at hk ⊢
    obtain ⟨t, c, hg, _⟩ := hk
    unfold visibleInView at hv
    rw [h.tos (t, k) c hg] at hv
    exact ⟨t, c, hg, hv⟩

theorem mem_axisKeyList (s : St) (k : Key) : k ∈ axisKeyList s ↔ (s.cons.get (.axis, k)).isSome = true := by
  unfold axisKeyList
  simp only [List.mem_map, List.mem_filter, Dict.mem_live, decide_eq_true_eq, Prod.exists]
  constructor
  · rintro ⟨t, k', c, ⟨hg, ht⟩, rfl⟩
    subst ht; simp [hg]
  · intro h
    cases hg : s.cons.get (.axis, k) with
    | none => simp [hg] at h
    | some c => exact ⟨.axis, k, c, ⟨hg, rfl⟩, rfl⟩

theorem enc_mem {s : St} {k : Key} (h : (s.cons.get (.axis, k)).isSome = true) (d : Bool) :
    encAxis s k ∈ (toM s d).axisKeys := by
  unfold Describe.MField.axisKeys toM
  simp only [List.map_map, List.mem_map, Function.comp_apply]
  exact ⟨k, (mem_axisKeyList s k).mpr h, rfl⟩

theorem describe_axesExist {s : St} (h : Core s) (d : Bool) : Describe.AxesExist (toM s d) := by
  constructor
  · intro a ha
    cases d with
    | true => simp [toM] at ha
    | false =>
      simp only [toM, Bool.false_eq_true, ↓reduceIte] at ha
      cases hda : s.dataAxes with
      | none => simp [hda] at ha
      | some A =>
        simp only [hda, Option.map_some, Option.getD_some, List.mem_map] at ha
        obtain ⟨a0, ha0, rfl⟩ := ha
        have hf := h.fax.1
        simp only [hda] at hf
        exact enc_mem (hf.1 a0 ha0) false
  · intro e he l hl a ha
    simp only [toM, List.mem_filterMap] at he
    obtain ⟨p, hp, hpe⟩ := he
    rw [Dict.mem_live] at hp
    cases ht : toDescType p.1.1 with
    | none => simp [ht] at hpe
    | some t' =>
      simp only [ht, Option.some.injEq] at hpe
      subst hpe
      simp only at hl
      cases hx : s.caxes.get p.1.2 with
      | none => simp [hx] at hl
      | some A =>
        simp only [hx, Option.map_some, Option.some.injEq] at hl
        subst hl
        simp only [List.mem_map] at ha
        obtain ⟨a0, ha0, rfl⟩ := ha
        have hc := h.cax p.1.2 A hx
        cases hco : conOf s p.1.2 with
        | none => simp [hco] at hc
        | some tc =>
          simp only [hco] at hc
          exact enc_mem (hc.1 a0 ha0) d

theorem describeOK_of_core {s : St} (h : Core s) : DescribeOK s := by
  constructor
  · rw [Describe.describeWith_new_ok _ (describe_axesExist h false)]; simp
  · rw [Describe.describeWith_new_ok _ (describe_axesExist h true)]; simp

theorem inv_iff_core (s : St) : Inv s ↔ Core s := by
  constructor
  · rintro ⟨a, b, c, d, e, f, g, _, _⟩; exact ⟨a, b, c, d, e, f, g⟩
  · intro h; exact ⟨h.tos, h.sot, h.cax, h.wf, h.fax, h.refs, h.cms, viewOK_of_core h, describeOK_of_core h⟩

end Cfdm.Constructs
