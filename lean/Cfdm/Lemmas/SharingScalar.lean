import Cfdm.Lemmas.Sharing
/-
C09 — helper lemmas: the per-field scalar-coordinate bookkeeping of the writer (`axis_to_ncscalar`, from which the
names of the cell-method axes are taken) and the field counter `nf`.
-/
namespace Cfdm.Sharing

/-! ### the field counter is constant while one field is written -/

theorem emitVar_nf (s : St) (v : Var) : (emitVar s v).nf = s.nf := rfl
theorem link_nf (s : St) (k : Nat) (v : CVal) (n : Name) : (link s k v n).nf = s.nf := rfl
theorem netcdfName_nf (s : St) (b : Name) : (netcdfName s b).1.nf = s.nf := (netcdfName_same s b).nf
theorem createName_nf (s : St) (p d : Option Name) (f : Name) : (createName s p d f).1.nf = s.nf := (createName_same s p d f).nf

theorem boundsVar_nf (s : St) (parent : Name) (dims : List Name) (bdim : Name) (b : BSpec) :
    (boundsVar s parent dims bdim b).1.nf = s.nf := by
  unfold boundsVar
  split
  · rfl
  · simp only [emitVar_nf, netcdfName_nf]
    exact (boundsNewDim_same s bdim b.nv).nf

theorem writeBounds_nf (s : St) (parent : Name) (pdims : List Name) (b : Option BSpec) :
    (writeBounds s parent pdims b).1.nf = s.nf := by
  unfold writeBounds
  cases b with
  | none => rfl
  | some b =>
    simp only [boundsVar_nf]
    exact (boundsDim_same s b).nf

theorem createCoord_nf (s : St) (base : Name) (dims : List Name) (v : CVal) (c : Cons) (wb : Bool) :
    (createCoord s base dims v c wb).1.nf = s.nf := by
  unfold createCoord
  simp only [emitVar_nf, writeBounds_nf, netcdfName_nf]

theorem createDimCoord_nf (s : St) (size : Nat) (p : Option Name) (c : Cons) : (createDimCoord s size p c).1.nf = s.nf := by
  unfold createDimCoord
  simp only [emitVar_nf, writeBounds_nf]
  exact (dimCoordName_same s p c).nf

theorem writeDimCoord_nf (s : St) (fs : FSt) (axis size : Nat) (p : Option Name) (key : Nat) (c : Cons) :
    (writeDimCoord s fs axis size p key c).1.nf = s.nf := by
  unfold writeDimCoord
  split
  · rfl
  · simp only [link_nf, createDimCoord_nf]

theorem shareOrCreate_nf (s : St) (key : Nat) (v : CVal) (dims : List Name) (it : Bool) (base : Name) (c : Cons) (wb : Bool) :
    (shareOrCreate s key v dims it base c wb).1.nf = s.nf := by
  unfold shareOrCreate
  split
  · rfl
  · simp only [link_nf, createCoord_nf]

theorem writeScalar_nf (s : St) (fs : FSt) (axis key : Nat) (c : Cons) : (writeScalar s fs axis key c).1.nf = s.nf := by
  unfold writeScalar; exact shareOrCreate_nf _ _ _ _ _ _ _ _

theorem writeAux_nf (s : St) (fs : FSt) (key : Nat) (c : Cons) : (writeAux s fs key c).1.nf = s.nf := by
  unfold writeAux; exact shareOrCreate_nf _ _ _ _ _ _ _ _

theorem writeDan_nf (s : St) (fs : FSt) (key : Nat) (c : Cons) (t : Option Name) : (writeDan s fs key c t).1.nf = s.nf := by
  unfold writeDan; exact shareOrCreate_nf _ _ _ _ _ _ _ _

theorem writePlain_nf (s : St) (fs : FSt) (key : Nat) (c : Cons) (fb : Name) : (writePlain s fs key c fb).1.nf = s.nf := by
  unfold writePlain; exact shareOrCreate_nf _ _ _ _ _ _ _ _

theorem writeAxis_nf (p : Bool) (f : AField) (s : St) (fs : FSt) (axis : Nat) (ax : AAxis) :
    (writeAxis p f s fs axis ax).1.nf = s.nf := by
  unfold writeAxis
  split
  · split
    · exact writeDimCoord_nf _ _ _ _ _ _ _
    · split
      · exact writeDimCoord_nf _ _ _ _ _ _ _
      · exact writeScalar_nf _ _ _ _ _
  · dsimp only
    split
    · exact (writeNoCoordAxis_same _ _ _ _ _ _).nf
    · rfl

theorem writeAxes_nf (p : Bool) (f : AField) (l : List (Nat × AAxis)) : ∀ (s : St) (fs : FSt), (writeAxes p f s fs l).1.nf = s.nf := by
  induction l with
  | nil => intro s fs; rfl
  | cons a rest ih =>
    intro s fs
    obtain ⟨i, a⟩ := a
    unfold writeAxes
    rw [ih, writeAxis_nf]

theorem writeAuxStep_nf (s : St) (fs : FSt) (k : Nat) (c : Cons) : (writeAuxStep s fs k c).1.nf = s.nf := by
  unfold writeAuxStep
  split
  · split
    · exact writeAux_nf _ _ _ _
    · exact writeScalar_nf _ _ _ _ _
  · rfl

theorem writeAuxs_nf (l : List (Nat × Cons)) : ∀ (s : St) (fs : FSt), (writeAuxs s fs l).1.nf = s.nf := by
  induction l with
  | nil => intro s fs; rfl
  | cons a rest ih =>
    intro s fs
    obtain ⟨k, c⟩ := a
    unfold writeAuxs
    rw [ih, writeAuxStep_nf]

theorem writeDans_nf (f : AField) (l : List (Nat × Cons)) : ∀ (s : St) (fs : FSt), (writeDans f s fs l).1.nf = s.nf := by
  induction l with
  | nil => intro s fs; rfl
  | cons a rest ih =>
    intro s fs
    obtain ⟨k, c⟩ := a
    unfold writeDans
    rw [ih]
    unfold writeDanStep
    split
    · exact writeDan_nf _ _ _ _ _
    · rfl

theorem writePlains_nf (kind : Kind) (fb : Name) (l : List (Nat × Cons)) :
    ∀ (s : St) (fs : FSt) (acc : List Name), (writePlains kind fb s fs l acc).1.nf = s.nf := by
  induction l with
  | nil => intro s fs acc; rfl
  | cons a rest ih =>
    intro s fs acc
    obtain ⟨k, c⟩ := a
    unfold writePlains
    split
    · rw [ih, writePlain_nf]
    · exact ih _ _ _

theorem writeFormulaTerms_nf (f : AField) (s : St) (fs : FSt) (r : VRef) : (writeFormulaTerms f s fs r).nf = s.nf := by
  unfold writeFormulaTerms
  split
  · rfl
  · split
    · rfl
    · simp only []
      split
      · rfl
      · rfl

theorem writeFTs_nf (f : AField) (fs : FSt) (l : List VRef) : ∀ s : St, (writeFTs f fs s l).nf = s.nf := by
  induction l with
  | nil => intro s; rfl
  | cons r rest ih =>
    intro s
    unfold writeFTs
    rw [ih, writeFormulaTerms_nf]

theorem writeGMVar_nf (s : St) (g : GM) : (writeGMVar s g).1.nf = s.nf := by
  unfold writeGMVar
  split
  · rfl
  · simp only [link_nf, emitVar_nf, createName_nf]

theorem writeGMs_nf (fs : FSt) (multi : Bool) (l : List GM) :
    ∀ (s : St) (acc : List (Name × List Name)), (writeGMs fs multi s l acc).1.nf = s.nf := by
  induction l with
  | nil => intro s acc; rfl
  | cons g rest ih =>
    intro s acc
    unfold writeGMs
    rw [ih, writeGMVar_nf]

theorem emitData_nf (s : St) (v : Var) : (emitData s v).nf = s.nf := by
  unfold emitData
  split <;> rfl

theorem stage1_nf (p : Bool) (s : St) (f : AField) : (stage1 p s f).1.nf = s.nf := writeAxes_nf _ _ _ _ _
theorem stage2_nf (p : Bool) (s : St) (f : AField) : (stage2 p s f).1.nf = s.nf := by
  unfold stage2; rw [writeAuxs_nf, stage1_nf]
theorem stage3_nf (p : Bool) (s : St) (f : AField) : (stage3 p s f).1.nf = s.nf := by
  unfold stage3; rw [writeDans_nf, stage2_nf]
theorem stage4_nf (p : Bool) (s : St) (f : AField) : (stage4 p s f).1.nf = s.nf := by
  unfold stage4; rw [writePlains_nf, stage3_nf]
theorem stage5_nf (p : Bool) (s : St) (f : AField) : (stage5 p s f).nf = s.nf := by
  unfold stage5; rw [writeFTs_nf, stage4_nf]
theorem stage6_nf (p : Bool) (s : St) (f : AField) : (stage6 p s f).1.nf = s.nf := by
  unfold stage6; rw [writeGMs_nf, stage5_nf]
theorem stage7_nf (p : Bool) (s : St) (f : AField) : (stage7 p s f).1.nf = s.nf := by
  unfold stage7
  split
  · exact stage6_nf p s f
  · rw [writePlains_nf, stage6_nf]
theorem stage9_nf (p : Bool) (s : St) (f : AField) : (stage9 p s f).nf = s.nf := by
  unfold stage9 stage8; rw [emitData_nf, createName_nf, stage7_nf]

/-- every field written advances the counter by one -/
theorem writeField_nf (p : Bool) (s : St) (f : AField) : (writeField p s f).nf = s.nf + 1 := by
  rw [writeField_eq]; simp only [stage9_nf]

theorem writeAllFrom_nf (p : Bool) (l : List AField) : ∀ s : St, (writeAllFrom p s l).nf = s.nf + l.length := by
  induction l with
  | nil => intro s; rfl
  | cons f rest ih =>
    intro s
    unfold writeAllFrom
    rw [ih, writeField_nf, List.length_cons]; omega

theorem writeAll_nf (l : List AField) : (writeAll l).nf = l.length := by
  unfold writeAll; rw [writeAllFrom_nf]; simp

/-! ### `axis_to_ncscalar` -/

theorem enum_mem {α} {l : List α} {k : Nat} {c : α} (h : (k, c) ∈ enum l) : l[k]? = some c := by
  unfold enum at h
  obtain ⟨i, hi, he⟩ := List.mem_iff_getElem.mp h
  rw [List.getElem_zip] at he
  simp only [List.getElem_range, Prod.mk.injEq] at he
  obtain ⟨rfl, rfl⟩ := he
  simp only [List.length_zip, List.length_range, Nat.min_self] at hi
  exact List.getElem?_eq_getElem hi

/-- the entry `axis_to_ncscalar[a] = n` of the field being written is backed by the field's own scalar
coordinate: a construct of the field on that axis, linked (in the sharing graph) to variable `n` under
its scalar (0-d) content -/
def ScalarBacked (f : AField) (nf : Nat) (links : List Link) (a : Nat) (n : Name) : Prop :=
  ∃ key c, f.cons[key]? = some c ∧ c.axes.headD 0 = a ∧ (⟨nf, key, c.valAs (scalarKind c), n⟩ : Link) ∈ links

theorem ScalarBacked.mono {f : AField} {nf : Nat} {l l' : List Link} (h : l <+: l') {a : Nat} {n : Name}
    (hb : ScalarBacked f nf l a n) : ScalarBacked f nf l' a n := by
  obtain ⟨k, c, h1, h2, h3⟩ := hb
  exact ⟨k, c, h1, h2, h.subset h3⟩

/-- the invariant of the per-field state while field number `nf` is written -/
structure ScalarInv (f : AField) (nf : Nat) (s : St) (fs : FSt) : Prop where
  count : s.nf = nf
  backed : ∀ p ∈ fs.axisScalar, ScalarBacked f nf s.links p.1 p.2
  coords : ∀ p ∈ fs.axisScalar, p.2 ∈ fs.coords

/-- a step of the writer that leaves `axis_to_ncscalar` alone and only adds to `coordinates` -/
theorem ScalarInv.keep {f : AField} {nf : Nat} {s s' : St} {fs fs' : FSt} (i : ScalarInv f nf s fs) (hs : Step s s')
    (hn : s'.nf = s.nf) (ha : fs'.axisScalar = fs.axisScalar) (hc : ∀ n ∈ fs.coords, n ∈ fs'.coords) : ScalarInv f nf s' fs' :=
  ⟨hn.trans i.count, fun p hp => (i.backed p (ha ▸ hp)).mono hs.ext.links, fun p hp => hc _ (i.coords p (ha ▸ hp))⟩

theorem shareOrCreate_link (s : St) (key : Nat) (v : CVal) (dims : List Name) (it : Bool) (base : Name) (c : Cons) (wb : Bool) :
    (⟨s.nf, key, v, (shareOrCreate s key v dims it base c wb).2⟩ : Link) ∈ (shareOrCreate s key v dims it base c wb).1.links := by
  unfold shareOrCreate
  split
  · simp [link]
  · simp [link, createCoord_nf]

theorem writeScalar_scalarInv {f : AField} {nf : Nat} {s : St} {fs : FSt} (i : ScalarInv f nf s fs) (axis key : Nat) (c : Cons)
    (hk : f.cons[key]? = some c) (ha : c.axes.headD 0 = axis) :
    ScalarInv f nf (writeScalar s fs axis key c).1 (writeScalar s fs axis key c).2 := by
  have hst := writeScalar_step s fs axis key c
  have hl := shareOrCreate_link s key (c.valAs (scalarKind c)) [] false (c.ncvar.getD (c.dflt.getD "scalar")) c true
  refine ⟨(writeScalar_nf s fs axis key c).trans i.count, ?_, ?_⟩
  · intro p hp
    simp only [writeScalar, List.mem_append, List.mem_singleton] at hp
    rcases hp with hp | hp
    · exact (i.backed p hp).mono hst.ext.links
    · subst hp
      refine ⟨key, c, hk, ha, ?_⟩
      rw [← i.count]
      exact hl
  · intro p hp
    simp only [writeScalar, List.mem_append, List.mem_singleton] at hp ⊢
    rcases hp with hp | hp
    · exact Or.inl (i.coords p hp)
    · subst hp; exact Or.inr rfl

theorem writeDimCoord_fs (s : St) (fs : FSt) (axis size : Nat) (p : Option Name) (key : Nat) (c : Cons) :
    (writeDimCoord s fs axis size p key c).2.axisScalar = fs.axisScalar ∧ (writeDimCoord s fs axis size p key c).2.coords = fs.coords := by
  unfold writeDimCoord
  split <;> exact ⟨rfl, rfl⟩

theorem writeNoCoordAxis_fs (p : Bool) (f : AField) (s : St) (fs : FSt) (axis : Nat) (ax : AAxis) :
    (writeNoCoordAxis p f s fs axis ax).2.axisScalar = fs.axisScalar ∧ (writeNoCoordAxis p f s fs axis ax).2.coords = fs.coords := by
  unfold writeNoCoordAxis
  dsimp only
  split
  · exact ⟨rfl, rfl⟩
  · split <;> exact ⟨rfl, rfl⟩

theorem insertAxis_fs (f : AField) (fs : FSt) (axis : Nat) :
    (insertAxis f fs axis).axisScalar = fs.axisScalar ∧ (insertAxis f fs axis).coords = fs.coords := by
  unfold insertAxis
  dsimp only
  split <;> exact ⟨rfl, rfl⟩

theorem ite_fs (b : Bool) (r : FSt) (axis : Nat) :
    (if b = true then r else { r with dataAxes := axis :: r.dataAxes, localAxes := r.localAxes ++ [axis] }).axisScalar = r.axisScalar ∧
    (if b = true then r else { r with dataAxes := axis :: r.dataAxes, localAxes := r.localAxes ++ [axis] }).coords = r.coords := by
  split <;> exact ⟨rfl, rfl⟩

theorem writeAxis_scalarInv (p : Bool) {f : AField} {nf : Nat} {s : St} {fs : FSt} (i : ScalarInv f nf s fs) (axis : Nat) (ax : AAxis) :
    ScalarInv f nf (writeAxis p f s fs axis ax).1 (writeAxis p f s fs axis ax).2 := by
  have hst := writeAxis_step p f s fs axis ax
  have hnf := writeAxis_nf p f s fs axis ax
  revert hst hnf
  unfold writeAxis
  split
  · rename_i key c hfind
    have hmem := List.mem_of_find?_eq_some hfind
    have hpred := List.find?_some hfind
    simp only [Bool.and_eq_true, beq_iff_eq] at hpred
    have hd := writeDimCoord_fs s fs axis ax.size ax.ncdim key c
    split
    · intro hst hnf
      exact i.keep hst hnf hd.1 (fun n hn => by rw [hd.2]; exact hn)
    · split
      · intro hst hnf
        have hi := ite_fs f.isDomain (writeDimCoord s fs axis ax.size ax.ncdim key c).2 axis
        refine i.keep hst hnf ?_ ?_
        · exact hi.1.trans hd.1
        · intro n hn
          have : n ∈ (writeDimCoord s fs axis ax.size ax.ncdim key c).2.coords := by rw [hd.2]; exact hn
          exact hi.2 ▸ this
      · intro _ _
        exact writeScalar_scalarInv i axis key c (enum_mem hmem) (by rw [hpred.2]; rfl)
  · dsimp only
    have hia := insertAxis_fs f fs axis
    split
    · intro hst hnf
      have hw := writeNoCoordAxis_fs p f s (insertAxis f fs axis) axis ax
      refine i.keep hst hnf (hw.1.trans hia.1) ?_
      intro n hn
      rw [hw.2, hia.2]; exact hn
    · intro hst hnf
      exact i.keep hst hnf hia.1 (fun n hn => by rw [hia.2]; exact hn)

theorem writeAxes_scalarInv (p : Bool) {f : AField} {nf : Nat} (l : List (Nat × AAxis)) :
    ∀ {s : St} {fs : FSt}, ScalarInv f nf s fs → ScalarInv f nf (writeAxes p f s fs l).1 (writeAxes p f s fs l).2 := by
  induction l with
  | nil => intro s fs i; exact i
  | cons a rest ih =>
    intro s fs i
    obtain ⟨k, a⟩ := a
    unfold writeAxes
    exact ih (writeAxis_scalarInv p i k a)

theorem writeAuxStep_scalarInv {f : AField} {nf : Nat} {s : St} {fs : FSt} (i : ScalarInv f nf s fs) (k : Nat) (c : Cons)
    (hk : f.cons[k]? = some c) : ScalarInv f nf (writeAuxStep s fs k c).1 (writeAuxStep s fs k c).2 := by
  have hst := writeAuxStep_step s fs k c
  have hnf := writeAuxStep_nf s fs k c
  revert hst hnf
  unfold writeAuxStep
  split
  · split
    · intro hst hnf
      refine i.keep hst hnf rfl ?_
      intro n hn
      simp only [writeAux, List.mem_append]
      exact Or.inl hn
    · intro _ _
      exact writeScalar_scalarInv i _ k c hk rfl
  · intro _ _; exact i

theorem writeAuxs_scalarInv {f : AField} {nf : Nat} (l : List (Nat × Cons)) (hl : ∀ p ∈ l, f.cons[p.1]? = some p.2) :
    ∀ {s : St} {fs : FSt}, ScalarInv f nf s fs → ScalarInv f nf (writeAuxs s fs l).1 (writeAuxs s fs l).2 := by
  induction l with
  | nil => intro s fs i; exact i
  | cons a rest ih =>
    intro s fs i
    obtain ⟨k, c⟩ := a
    unfold writeAuxs
    exact ih (fun p hp => hl p (List.mem_cons_of_mem _ hp)) (writeAuxStep_scalarInv i k c (hl (k, c) List.mem_cons_self))

theorem scalarInv_init (f : AField) (s : St) : ScalarInv f s.nf s (initFSt f) :=
  ⟨rfl, fun p hp => by simp [initFSt] at hp, fun p hp => by simp [initFSt] at hp⟩

theorem stage2_scalarInv (p : Bool) (s : St) (f : AField) : ScalarInv f s.nf (stage2 p s f).1 (stage2 p s f).2 := by
  unfold stage2
  exact writeAuxs_scalarInv _ (fun q hq => enum_mem hq) (by unfold stage1; exact writeAxes_scalarInv p _ (scalarInv_init f s))

/-! ### from the scalar coordinates to the data variable -/

theorem writeDans_fs (f : AField) (l : List (Nat × Cons)) : ∀ (s : St) (fs : FSt),
    (writeDans f s fs l).2.axisScalar = fs.axisScalar ∧ (writeDans f s fs l).2.coords = fs.coords := by
  induction l with
  | nil => intro s fs; exact ⟨rfl, rfl⟩
  | cons a rest ih =>
    intro s fs
    obtain ⟨k, c⟩ := a
    unfold writeDans
    have h := ih (writeDanStep f s fs k c).1 (writeDanStep f s fs k c).2
    have h2 : (writeDanStep f s fs k c).2.axisScalar = fs.axisScalar ∧ (writeDanStep f s fs k c).2.coords = fs.coords := by
      unfold writeDanStep
      split
      · exact ⟨rfl, rfl⟩
      · exact ⟨rfl, rfl⟩
    exact ⟨h.1.trans h2.1, h.2.trans h2.2⟩

theorem writePlains_fs (kind : Kind) (fb : Name) (l : List (Nat × Cons)) : ∀ (s : St) (fs : FSt) (acc : List Name),
    (writePlains kind fb s fs l acc).2.1.axisScalar = fs.axisScalar ∧ (writePlains kind fb s fs l acc).2.1.coords = fs.coords := by
  induction l with
  | nil => intro s fs acc; exact ⟨rfl, rfl⟩
  | cons a rest ih =>
    intro s fs acc
    obtain ⟨k, c⟩ := a
    unfold writePlains
    split
    · have h := ih (writePlain s fs k c fb).1 (writePlain s fs k c fb).2.1 (acc ++ [(writePlain s fs k c fb).2.2])
      exact ⟨h.1.trans rfl, h.2.trans rfl⟩
    · exact ih _ _ _

/-- the per-field state the data variable is built from has the `axis_to_ncscalar` and `coordinates` of stage 2 -/
theorem stage7_fs (p : Bool) (s : St) (f : AField) :
    (stage7 p s f).2.1.axisScalar = (stage2 p s f).2.axisScalar ∧ (stage7 p s f).2.1.coords = (stage2 p s f).2.coords := by
  have h3 : (stage3 p s f).2.axisScalar = (stage2 p s f).2.axisScalar ∧ (stage3 p s f).2.coords = (stage2 p s f).2.coords :=
    writeDans_fs f _ _ _
  have h4 : (stage4 p s f).2.1.axisScalar = (stage3 p s f).2.axisScalar ∧ (stage4 p s f).2.1.coords = (stage3 p s f).2.coords :=
    writePlains_fs _ _ _ _ _ _
  unfold stage7
  split
  · exact ⟨h4.1.trans h3.1, h4.2.trans h3.2⟩
  · have h7 := writePlains_fs .fan "ancillary_data" (enum f.cons) (stage6 p s f).1 (stage4 p s f).2.1 []
    exact ⟨h7.1.trans (h4.1.trans h3.1), h7.2.trans (h4.2.trans h3.2)⟩

/-- nothing linked up to stage 2 is unlinked by the rest of the field -/
theorem stage2_to_field_ext (p : Bool) (s : St) (f : AField) : Ext (stage2 p s f).1 (writeField p s f) := by
  have e3 : Step (stage2 p s f).1 (stage3 p s f).1 := writeDans_step f _ _ _
  have e4 : Step (stage3 p s f).1 (stage4 p s f).1 := writePlains_step _ _ _ _ _ _
  have e5 : Step (stage4 p s f).1 (stage5 p s f) := writeFTs_step f _ _ _
  have e6 : Step (stage5 p s f) (stage6 p s f).1 := writeGMs_step _ _ _ _ _
  have e7 : Step (stage6 p s f).1 (stage7 p s f).1 := by
    unfold stage7
    split
    · exact Step.refl _
    · exact writePlains_step _ _ _ _ _ _
  have e9 : Step (stage7 p s f).1 (stage9 p s f) := (createName_same _ _ _ _).step.trans (emitData_step _ _)
  rw [writeField_eq]
  exact ((((((e3.trans e4).trans e5).trans e6).trans e7).trans e9).trans (end_of_field_step _ _ _)).ext

theorem lookupN_mem {β} {l : List (Nat × β)} {a : Nat} {n : β} (h : lookupN l a = some n) : (a, n) ∈ l := by
  unfold lookupN at h
  cases hf : l.find? (·.1 == a) with
  | none => simp [hf] at h
  | some q =>
    simp only [hf, Option.map_some, Option.some.injEq] at h
    have h1 := List.mem_of_find?_eq_some hf
    have h2 := List.find?_some hf
    simp only [beq_iff_eq] at h2
    obtain ⟨q1, q2⟩ := q
    simp only at h h2
    subst h; subst h2
    exact h1

/-- **the names of the cell-method axes**: when the field being written has a scalar coordinate variable for axis
`a` (created for it, or shared with an earlier field), the cell methods name `a` by that variable, and that
variable is the one this field's own scalar coordinate on `a` is linked to -/
theorem cmAxisName_scalar (p : Bool) (s : St) (f : AField) (a : Nat) (n : Name)
    (h : lookupN (stage7 p s f).2.1.axisScalar.reverse a = some n) :
    cmAxisName (stage7 p s f).2.1 (.inl a) = n ∧ n ∈ (stage7 p s f).2.1.coords ∧
    ScalarBacked f s.nf (writeField p s f).links a n := by
  refine ⟨by simp [cmAxisName, h], ?_, ?_⟩
  · have hm : (a, n) ∈ (stage2 p s f).2.axisScalar := by
      rw [← (stage7_fs p s f).1]; exact List.mem_reverse.mp (lookupN_mem h)
    rw [(stage7_fs p s f).2]
    exact (stage2_scalarInv p s f).coords (a, n) hm
  · have hm : (a, n) ∈ (stage2 p s f).2.axisScalar := by
      rw [← (stage7_fs p s f).1]; exact List.mem_reverse.mp (lookupN_mem h)
    exact ((stage2_scalarInv p s f).backed (a, n) hm).mono (stage2_to_field_ext p s f).links

/-- the data variable of the field is in the dataset once the field is written … -/
theorem fieldVar_mem (p : Bool) (s : St) (f : AField) : fieldVar p s f ∈ (writeField p s f).vars := by
  rw [writeField_eq]
  show fieldVar p s f ∈ (stage9 p s f).vars
  unfold stage9 emitData
  split <;> simp [emitVar]

/-- … and stays there (up to `formula_terms`) whatever is written afterwards -/
theorem fieldVar_kept (pre post : List AField) (f : AField) :
    (fieldVar true (writeAll pre) f).core ∈ (writeAll (pre ++ f :: post)).vars.map Var.core := by
  have h : writeAll (pre ++ f :: post) = writeAllFrom true (writeField true (writeAll pre) f) post := by
    unfold writeAll; rw [writeAllFrom_append]; rfl
  rw [h]
  exact (writeAllFrom_step true post _).ext.vars.subset (List.mem_map_of_mem (fieldVar_mem true _ f))

theorem links_kept (pre post : List AField) (f : AField) :
    (writeField true (writeAll pre) f).links <+: (writeAll (pre ++ f :: post)).links := by
  have h : writeAll (pre ++ f :: post) = writeAllFrom true (writeField true (writeAll pre) f) post := by
    unfold writeAll; rw [writeAllFrom_append]; rfl
  rw [h]
  exact (writeAllFrom_step true post _).ext.links

end Cfdm.Sharing
