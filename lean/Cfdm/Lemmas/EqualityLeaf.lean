import Cfdm.Model.EqualityLeaf
import Cfdm.Lemmas.EqualitySymm
/-
Helper lemmas for C05, leaf level: `Container._equals` on two numpy arrays — as coded, with
numpy's `np.allclose` / `np.ma.allclose` spelled out — decides the declarative relation
"same shape, compatible data type, same mask, every commonly unmasked pair close".
-/
namespace Cfdm.Equality.Leaf
open Cfdm.Equality Cfdm.Equality.Spec

/-! ### specification -/

/-- Two unmasked elements agree.  `tolerant`: both arrays are numeric, so the tolerance of the
call applies; otherwise only identity counts.  NaN agrees with nothing (numpy: `nan != nan`),
an infinity only with itself. -/
def ValClose (close : Int → Int → Bool) (tolerant : Bool) : Val → Val → Prop
  | .num a, .num b => if tolerant then close a b = true else a = b
  | .pinf, .pinf => True
  | .ninf, .ninf => True
  | .tok s, .tok t => tolerant = false ∧ s = t
  | _, _ => False

/-- One position: the mask bits agree and, where unmasked, the values agree.  What lies under
the mask is never looked at. -/
def CellOK (close : Int → Int → Bool) (tolerant : Bool) (c : Cell) : Prop :=
  c.mx = c.my ∧ (c.mx = false → ValClose close tolerant c.vx c.vy)

def bothNumeric (x y : LArr) : Bool := x.kind == Kind.numeric && y.kind == Kind.numeric

/-- **The specification of the leaf comparison.** -/
def LeafEq (close : Int → Int → Bool) (idt : Bool) (x y : LArr) : Prop :=
  x.shape = y.shape
  ∧ (idt = true ∨ x.dtype = y.dtype ∨ x.kind = Kind.str ∨ y.kind = Kind.str)
  ∧ ∀ c ∈ cells x y, CellOK close (bothNumeric x y) c

def Val.isTok : Val → Bool
  | .tok _ => true
  | _ => false

def listProd : List Nat → Nat
  | [] => 1
  | n :: ns => n * listProd ns

/-- Well-formed array record: as many elements as the shape says, a mask array (if any) of
that size, no mask on a plain `ndarray`, and no string token inside a numeric array. -/
structure LArr.WF (x : LArr) : Prop where
  size : x.vals.length = listProd x.shape
  maskSize : ∀ m, x.mask = some m → m.length = x.vals.length
  plain : x.isMA = false → x.mask = none
  numeric : x.kind = Kind.numeric → ∀ v ∈ x.vals, v.isTok = false

/-! ### cells -/

theorem mem_cells4 {a : List Bool} {b : List Val} {c : List Bool} {d : List Val} {e : Cell}
    (h : e ∈ cells4 a b c d) : e.mx ∈ a ∧ e.vx ∈ b ∧ e.my ∈ c ∧ e.vy ∈ d := by
  induction a generalizing b c d with
  | nil => simp [cells4] at h
  | cons m ms ih =>
    cases b with
    | nil => simp [cells4] at h
    | cons v vs =>
      cases c with
      | nil => simp [cells4] at h
      | cons m' ms' =>
        cases d with
        | nil => simp [cells4] at h
        | cons v' vs' =>
          simp only [cells4, List.mem_cons] at h
          rcases h with h | h
          · subst h; simp
          · obtain ⟨h1, h2, h3, h4⟩ := ih h
            exact ⟨List.mem_cons_of_mem _ h1, List.mem_cons_of_mem _ h2, List.mem_cons_of_mem _ h3,
              List.mem_cons_of_mem _ h4⟩

theorem length_cells4 (a : List Bool) (b : List Val) (c : List Bool) (d : List Val) (n : Nat)
    (ha : a.length = n) (hb : b.length = n) (hc : c.length = n) (hd : d.length = n) :
    (cells4 a b c d).length = n := by
  induction a generalizing b c d n with
  | nil => simp at ha; subst ha; simp [cells4]
  | cons m ms ih =>
    cases b with
    | nil => simp at hb; subst hb; simp at ha
    | cons v vs =>
      cases c with
      | nil => simp at hc; subst hc; simp at ha
      | cons m' ms' =>
        cases d with
        | nil => simp at hd; subst hd; simp at ha
        | cons v' vs' =>
          cases n with
          | zero => simp at ha
          | succ k =>
            simp only [cells4, List.length_cons, Nat.add_right_cancel_iff] at *
            exact ih vs ms' vs' k ha hb hc hd

theorem getElem_cells4 (a : List Bool) (b : List Val) (c : List Bool) (d : List Val) (i : Nat)
    (h : i < (cells4 a b c d).length) (ha : i < a.length) (hb : i < b.length) (hc : i < c.length)
    (hd : i < d.length) : (cells4 a b c d)[i] = ⟨a[i], b[i], c[i], d[i]⟩ := by
  induction a generalizing b c d i with
  | nil => simp at ha
  | cons m ms ih =>
    cases b with
    | nil => simp at hb
    | cons v vs =>
      cases c with
      | nil => simp at hc
      | cons m' ms' =>
        cases d with
        | nil => simp at hd
        | cons v' vs' =>
          cases i with
          | zero => simp [cells4]
          | succ k =>
            simp only [cells4, List.getElem_cons_succ]
            exact ih vs ms' vs' k _ _ _ _ _

theorem length_maskArr (x : LArr) (hx : x.WF) : x.maskArr.length = x.vals.length := by
  unfold LArr.maskArr
  split
  · split
    · rename_i m hm; exact hx.maskSize m hm
    · simp
  · simp

theorem maskArr_plain (x : LArr) (h : x.isMA = false) : ∀ b ∈ x.maskArr, b = false := by
  intro b hb
  simp only [LArr.maskArr, h, Bool.false_eq_true, ↓reduceIte, List.mem_replicate] at hb
  exact hb.2

/-! ### elementwise -/

def valCloseB (close : Int → Int → Bool) (tolerant : Bool) : Val → Val → Bool
  | .num a, .num b => if tolerant then close a b else a == b
  | .pinf, .pinf => true
  | .ninf, .ninf => true
  | .tok s, .tok t => !tolerant && s == t
  | _, _ => false

theorem valCloseB_iff (close : Int → Int → Bool) (tolerant : Bool) (a b : Val) :
    valCloseB close tolerant a b = true ↔ ValClose close tolerant a b := by
  cases a <;> cases b <;> cases tolerant <;> simp [valCloseB, ValClose]

theorem npIsClose_eq (close : Int → Int → Bool) (hc : CloseRefl close) (rp : Bool) (a b : Val)
    (ha : a.isTok = false) : npIsClose close rp a b = valCloseB close true a b := by
  cases a <;> cases b <;> simp_all [npIsClose, leAbsDiff, Val.isFinite, Val.eqv, valCloseB, Val.isTok]
  rename_i a b
  intro h; subst h; exact hc a

theorem eqv_eq (close : Int → Int → Bool) (a b : Val) : a.eqv b = valCloseB close false a b := by
  cases a <;> cases b <;> simp [Val.eqv, valCloseB]

/-- Per position, what the masked branch decides once the masks agree. -/
def goodB (close : Int → Int → Bool) (tolerant : Bool) (c : Cell) : Bool :=
  c.mx || valCloseB close tolerant c.vx c.vy

/-- The shape of numpy's `np.ma.allclose`: a global test, then two ways of going through the
positions; it is a pointwise test whenever the pieces are pointwise related. -/
theorem split_all {α} (xi yi d e good : α → Bool) (cs : List α)
    (key : ∀ c ∈ cs, (xi c == yi c) = true → (good c = true ↔ (if xi c then e c else d c) = true))
    (bad : ∀ c ∈ cs, (xi c == yi c) = false → good c = false) :
    (if !(cs.all (fun c => xi c == yi c)) then false
     else if !(cs.any xi) then cs.all d
     else if !((cs.filter xi).all e) then false
     else (cs.filter (fun c => !xi c)).all d) = true ↔ ∀ c ∈ cs, good c = true := by
  cases hall : cs.all (fun c => xi c == yi c) with
  | false =>
    simp only [Bool.not_false, ↓reduceIte, Bool.false_eq_true, false_iff]
    intro h
    have : ¬ ∀ c ∈ cs, (xi c == yi c) = true := by
      intro hh
      have := List.all_eq_true.mpr hh
      rw [hall] at this; exact absurd this (by simp)
    apply this
    intro c hc
    cases hb : (xi c == yi c) with
    | true => rfl
    | false =>
      have := bad c hc hb
      rw [h c hc] at this; exact absurd this (by simp)
  | true =>
    have hall' := List.all_eq_true.mp hall
    simp only [Bool.not_true, Bool.false_eq_true, ↓reduceIte]
    cases hany : cs.any xi with
    | false =>
      simp only [Bool.not_false, ↓reduceIte]
      have hnone : ∀ c ∈ cs, xi c = false := by
        intro c hc
        cases hx : xi c with
        | false => rfl
        | true =>
          have : cs.any xi = true := List.any_eq_true.mpr ⟨c, hc, hx⟩
          rw [hany] at this; exact absurd this (by simp)
      rw [List.all_eq_true]
      constructor
      · intro h c hc
        rw [key c hc (hall' c hc), hnone c hc]
        simpa using h c hc
      · intro h c hc
        have := (key c hc (hall' c hc)).mp (h c hc)
        simpa [hnone c hc] using this
    | true =>
      simp only [Bool.not_true, Bool.false_eq_true, ↓reduceIte]
      cases h3 : (cs.filter xi).all e with
      | false =>
        simp only [Bool.not_false, ↓reduceIte, Bool.false_eq_true, false_iff]
        intro h
        have : (cs.filter xi).all e = true := by
          apply List.all_eq_true.mpr
          intro c hc
          obtain ⟨hc1, hc2⟩ := List.mem_filter.mp hc
          have := (key c hc1 (hall' c hc1)).mp (h c hc1)
          simpa [hc2] using this
        rw [h3] at this; exact absurd this (by simp)
      | true =>
        have h3' := List.all_eq_true.mp h3
        simp only [Bool.not_true, Bool.false_eq_true, ↓reduceIte]
        rw [List.all_eq_true]
        constructor
        · intro h c hc
          rw [key c hc (hall' c hc)]
          cases hx : xi c with
          | true => simpa using h3' c (List.mem_filter.mpr ⟨hc, hx⟩)
          | false => simpa using h c (List.mem_filter.mpr ⟨hc, by simp [hx]⟩)
        · intro h c hc
          obtain ⟨hc1, hc2⟩ := List.mem_filter.mp hc
          have hx : xi c = false := by simpa using hc2
          have := (key c hc1 (hall' c hc1)).mp (h c hc1)
          simpa [hx] using this

/-- `np.ma.allclose` is the pointwise test on the unmasked positions. -/
theorem maAllclose_iff (close : Int → Int → Bool) (rp : Bool) (cs : List Cell)
    (hm : ∀ c ∈ cs, c.mx = c.my) (ht : ∀ c ∈ cs, c.vx.isTok = false ∧ c.vy.isTok = false) :
    maAllclose close rp cs = true ↔ ∀ c ∈ cs, goodB close true c = true := by
  unfold maAllclose
  apply split_all Cell.xinf Cell.yinf (Cell.d close rp) Cell.e (goodB close true) cs
  · intro c hc
    have h1 := hm c hc
    obtain ⟨t1, t2⟩ := ht c hc
    obtain ⟨mx, vx, my, vy⟩ := c
    simp only at h1 t1 t2
    subst h1
    cases mx <;> cases vx <;> cases vy <;>
      simp_all [goodB, valCloseB, leAbsDiff, Val.eqv, Val.isInf, Val.isTok, Cell.xinf, Cell.yinf, Cell.d, Cell.e, Cell.m]
  · intro c hc
    have h1 := hm c hc
    obtain ⟨mx, vx, my, vy⟩ := c
    simp only at h1
    subst h1
    cases mx <;> cases vx <;> cases vy <;>
      simp [goodB, valCloseB, Val.isInf, Cell.xinf, Cell.yinf, Cell.m]

/-- The values once the masks have been accepted. -/
theorem maValues_iff (close : Int → Int → Bool) (rp : Bool) (numeric : Bool) (cs : List Cell)
    (hm : ∀ c ∈ cs, c.mx = c.my)
    (ht : numeric = true → ∀ c ∈ cs, c.vx.isTok = false ∧ c.vy.isTok = false) :
    maValues close rp numeric cs = true ↔ ∀ c ∈ cs, goodB close numeric c = true := by
  unfold maValues
  cases numeric with
  | true => simpa using maAllclose_iff close rp cs hm (ht rfl)
  | false =>
    simp only [Bool.false_eq_true, ↓reduceIte, List.all_eq_true, List.mem_filter, and_imp]
    constructor
    · intro h c hc
      have h1 := hm c hc
      cases hmx : c.mx with
      | true => simp [goodB, hmx]
      | false =>
        have := h c hc (by simp [Cell.m, hmx, ← h1])
        simp [goodB, hmx, ← eqv_eq, this]
    · intro h c hc hmm
      have hmx' : c.mx = false := by
        cases hx : c.mx with
        | false => rfl
        | true => simp [Cell.m, hx] at hmm
      have := h c hc
      simpa [goodB, hmx', ← eqv_eq] using this

theorem goodB_iff (close : Int → Int → Bool) (tolerant : Bool) (c : Cell) (hm : c.mx = c.my) :
    goodB close tolerant c = true ↔ CellOK close tolerant c := by
  unfold goodB CellOK
  rw [Bool.or_eq_true, valCloseB_iff]
  constructor
  · intro h
    refine ⟨hm, fun h0 => ?_⟩
    rcases h with h | h
    · rw [h0] at h; exact absurd h (by simp)
    · exact h
  · rintro ⟨_, h⟩
    cases hx : c.mx with
    | true => exact Or.inl rfl
    | false => exact Or.inr (h hx)

/-! ### the leaf -/

theorem cells_noTok (x y : LArr) (hx : x.WF) (hy : y.WF) (hn : bothNumeric x y = true) :
    ∀ c ∈ cells x y, c.vx.isTok = false ∧ c.vy.isTok = false := by
  intro c hc
  obtain ⟨_, h2, _, h4⟩ := mem_cells4 hc
  simp only [bothNumeric, Bool.and_eq_true, beq_iff_eq] at hn
  exact ⟨hx.numeric hn.1 _ h2, hy.numeric hn.2 _ h4⟩

/-- **`Container._equals` decides the specification**, for all arrays. -/
theorem leafEquals_iff (close : Int → Int → Bool) (hc : CloseRefl close) (rp idt : Bool) (x y : LArr)
    (hx : x.WF) (hy : y.WF) :
    leafEquals close rp idt x y = true ↔ LeafEq close idt x y := by
  unfold leafEquals LeafEq
  by_cases hs : x.shape = y.shape
  swap
  · have : (x.shape != y.shape) = true := by simpa using hs
    simp [this, hs]
  have hs' : (x.shape != y.shape) = false := by simpa using hs
  simp only [hs', Bool.false_eq_true, ↓reduceIte]
  refine Iff.trans ?_ (and_iff_right hs).symm
  by_cases hd : (!idt && x.dtype != y.dtype && x.kind != Kind.str && y.kind != Kind.str) = true
  · simp only [hd, ↓reduceIte, Bool.false_eq_true, false_iff, not_and]
    intro h
    simp only [Bool.and_eq_true, Bool.not_eq_true', bne_iff_ne, ne_eq] at hd
    obtain ⟨⟨⟨h1, h2⟩, h3⟩, h4⟩ := hd
    rcases h with h | h | h | h
    · rw [h1] at h; exact absurd h (by simp)
    · exact absurd h h2
    · exact absurd h h3
    · exact absurd h h4
  have hd' : (!idt && x.dtype != y.dtype && x.kind != Kind.str && y.kind != Kind.str) = false := by
    simpa using hd
  have hdt : idt = true ∨ x.dtype = y.dtype ∨ x.kind = Kind.str ∨ y.kind = Kind.str := by
    cases idt with
    | true => exact Or.inl rfl
    | false =>
      by_cases e1 : x.dtype = y.dtype
      · exact Or.inr (Or.inl e1)
      · by_cases e2 : x.kind = Kind.str
        · exact Or.inr (Or.inr (Or.inl e2))
        · by_cases e3 : y.kind = Kind.str
          · exact Or.inr (Or.inr (Or.inr e3))
          · exfalso
            have : (!false && x.dtype != y.dtype && x.kind != Kind.str && y.kind != Kind.str) = true := by
              simp [e1, e2, e3]
            rw [hd'] at this; exact absurd this (by simp)
  simp only [hd', Bool.false_eq_true, ↓reduceIte, hdt, true_and]
  -- the three mask situations
  have hfold : (x.kind == Kind.numeric && y.kind == Kind.numeric) = bothNumeric x y := rfl
  rw [hfold]
  have tok := cells_noTok x y hx hy
  by_cases hxm : x.isMA = true <;> by_cases hym : y.isMA = true
  · -- both masked arrays
    simp only [hxm, hym, Bool.not_true, Bool.and_self, Bool.false_eq_true, ↓reduceIte]
    by_cases hne : (cells x y).any (fun c => c.mx != c.my) = true
    · simp only [hne, ↓reduceIte, Bool.false_eq_true, false_iff]
      intro h
      obtain ⟨c, hcm, hcn⟩ := List.any_eq_true.mp hne
      have := (h c hcm).1
      simp [this] at hcn
    · have hne' : (cells x y).any (fun c => c.mx != c.my) = false := by simpa using hne
      have hm : ∀ c ∈ cells x y, c.mx = c.my := by
        intro c hcm
        by_contra hcn
        have : (cells x y).any (fun c => c.mx != c.my) = true :=
          List.any_eq_true.mpr ⟨c, hcm, by simpa using hcn⟩
        rw [hne'] at this; exact absurd this (by simp)
      simp only [hne', Bool.false_eq_true, ↓reduceIte]
      rw [maValues_iff close rp _ _ hm tok]
      constructor
      · intro h c hcm; exact (goodB_iff close _ c (hm c hcm)).mp (h c hcm)
      · intro h c hcm; exact (goodB_iff close _ c (hm c hcm)).mpr (h c hcm)
  · -- x masked array, y plain
    have hym' : y.isMA = false := by simpa using hym
    have hy0 : ∀ c ∈ cells x y, c.my = false := fun c hcm => maskArr_plain y hym' _ (mem_cells4 hcm).2.2.1
    simp only [hxm, hym', Bool.not_true, Bool.not_false, Bool.and_true, Bool.false_eq_true, ↓reduceIte,
      Bool.and_false, Bool.true_and, Bool.false_and, Bool.or_false]
    by_cases hany : (cells x y).any (fun c => c.mx) = true
    · simp only [hany, ↓reduceIte, Bool.false_eq_true, false_iff]
      intro h
      obtain ⟨c, hcm, hcn⟩ := List.any_eq_true.mp hany
      have := (h c hcm).1
      rw [hy0 c hcm, hcn] at this
      exact absurd this (by simp)
    · have hany' : (cells x y).any (fun c => c.mx) = false := by simpa using hany
      have hx0 : ∀ c ∈ cells x y, c.mx = false := by
        intro c hcm
        by_contra hcn
        have : (cells x y).any (fun c => c.mx) = true := List.any_eq_true.mpr ⟨c, hcm, by simpa using hcn⟩
        rw [hany'] at this; exact absurd this (by simp)
      have hm : ∀ c ∈ cells x y, c.mx = c.my := fun c hcm => by rw [hx0 c hcm, hy0 c hcm]
      simp only [hany', Bool.false_eq_true, ↓reduceIte]
      rw [maValues_iff close rp _ _ hm tok]
      constructor
      · intro h c hcm; exact (goodB_iff close _ c (hm c hcm)).mp (h c hcm)
      · intro h c hcm; exact (goodB_iff close _ c (hm c hcm)).mpr (h c hcm)
  · -- x plain, y masked array
    have hxm' : x.isMA = false := by simpa using hxm
    have hx0 : ∀ c ∈ cells x y, c.mx = false := fun c hcm => maskArr_plain x hxm' _ (mem_cells4 hcm).1
    simp only [hxm', hym, Bool.not_true, Bool.not_false, Bool.and_false, Bool.false_eq_true, ↓reduceIte,
      Bool.false_and, Bool.true_and, Bool.false_or]
    by_cases hany : (cells x y).any (fun c => c.my) = true
    · simp only [hany, ↓reduceIte, Bool.false_eq_true, false_iff]
      intro h
      obtain ⟨c, hcm, hcn⟩ := List.any_eq_true.mp hany
      have := (h c hcm).1
      rw [hx0 c hcm, hcn] at this
      exact absurd this (by simp)
    · have hany' : (cells x y).any (fun c => c.my) = false := by simpa using hany
      have hy0 : ∀ c ∈ cells x y, c.my = false := by
        intro c hcm
        by_contra hcn
        have : (cells x y).any (fun c => c.my) = true := List.any_eq_true.mpr ⟨c, hcm, by simpa using hcn⟩
        rw [hany'] at this; exact absurd this (by simp)
      have hm : ∀ c ∈ cells x y, c.mx = c.my := fun c hcm => by rw [hx0 c hcm, hy0 c hcm]
      simp only [hany', Bool.false_eq_true, ↓reduceIte]
      rw [maValues_iff close rp _ _ hm tok]
      constructor
      · intro h c hcm; exact (goodB_iff close _ c (hm c hcm)).mp (h c hcm)
      · intro h c hcm; exact (goodB_iff close _ c (hm c hcm)).mpr (h c hcm)
  · -- two plain arrays: np.allclose, or np.all(x == y) after the TypeError
    have hxm' : x.isMA = false := by simpa using hxm
    have hym' : y.isMA = false := by simpa using hym
    have hx0 : ∀ c ∈ cells x y, c.mx = false := fun c hcm => maskArr_plain x hxm' _ (mem_cells4 hcm).1
    have hy0 : ∀ c ∈ cells x y, c.my = false := fun c hcm => maskArr_plain y hym' _ (mem_cells4 hcm).2.2.1
    simp only [hxm', hym', Bool.not_false, Bool.and_self, ↓reduceIte]
    cases hn : bothNumeric x y with
    | true =>
      simp only [↓reduceIte, List.all_eq_true]
      constructor
      · intro h c hcm
        refine ⟨by rw [hx0 c hcm, hy0 c hcm], fun _ => ?_⟩
        rw [← valCloseB_iff, ← npIsClose_eq close hc rp _ _ (tok hn c hcm).1]
        exact h c hcm
      · intro h c hcm
        rw [npIsClose_eq close hc rp _ _ (tok hn c hcm).1, valCloseB_iff]
        exact (h c hcm).2 (hx0 c hcm)
    | false =>
      simp only [Bool.false_eq_true, ↓reduceIte, List.all_eq_true]
      constructor
      · intro h c hcm
        refine ⟨by rw [hx0 c hcm, hy0 c hcm], fun _ => ?_⟩
        rw [← valCloseB_iff, ← eqv_eq]
        exact h c hcm
      · intro h c hcm
        rw [eqv_eq close, valCloseB_iff]
        exact (h c hcm).2 (hx0 c hcm)

/-! ### index form -/

/-- The mask bit at flat position `i` (`False` beyond the end, for `nomask` and for plain arrays). -/
def LArr.maskAt (x : LArr) (i : Nat) : Bool := x.maskArr.getD i false

theorem length_cells (x y : LArr) (hx : x.WF) (hy : y.WF) (hs : x.shape = y.shape) :
    (cells x y).length = x.vals.length := by
  have hl : y.vals.length = x.vals.length := by rw [hx.size, hy.size, hs]
  exact length_cells4 _ _ _ _ _ (length_maskArr x hx) rfl ((length_maskArr y hy).trans hl) hl

/-- The positions of `cells` are the flat indices of the two arrays. -/
theorem forall_cells_iff (x y : LArr) (hx : x.WF) (hy : y.WF) (hs : x.shape = y.shape) (P : Cell → Prop) :
    (∀ c ∈ cells x y, P c) ↔
      ∀ i (h0 : i < x.vals.length) (h1 : i < y.vals.length),
        P ⟨x.maskAt i, x.vals[i], y.maskAt i, y.vals[i]⟩ := by
  have hl : y.vals.length = x.vals.length := by rw [hx.size, hy.size, hs]
  have hlen := length_cells x y hx hy hs
  have hmx := length_maskArr x hx
  have hmy := length_maskArr y hy
  have hget : ∀ i (h0 : i < x.vals.length) (h1 : i < y.vals.length),
      (cells x y)[i]'(by rw [hlen]; exact h0) = ⟨x.maskAt i, x.vals[i], y.maskAt i, y.vals[i]⟩ := by
    intro i h0 h1
    unfold cells
    rw [getElem_cells4 _ _ _ _ i _ (by rw [hmx]; exact h0) h0 (by rw [hmy]; exact h1) h1]
    simp [LArr.maskAt, List.getD_eq_getElem?_getD, hmx, hmy, h0, h1]
  constructor
  · intro h i h0 h1
    rw [← hget i h0 h1]
    exact h _ (List.getElem_mem _)
  · intro h c hcm
    obtain ⟨i, hi, rfl⟩ := List.mem_iff_getElem.mp hcm
    have h0 : i < x.vals.length := by rw [← hlen]; exact hi
    have h1 : i < y.vals.length := by rw [hl]; exact h0
    rw [hget i h0 h1]
    exact h i h0 h1

/-! ### reflexivity, symmetry -/

theorem ValClose.symm {close} (hs : CloseSymm close) (t : Bool) (a b : Val) (h : ValClose close t a b) :
    ValClose close t b a := by
  cases a <;> cases b <;> cases t <;> simp_all [ValClose]
  rename_i a b; rw [hs b a]; exact h

theorem cells4_swap (a : List Bool) (b : List Val) (c : List Bool) (d : List Val) :
    cells4 c d a b = (cells4 a b c d).map (fun e => ⟨e.my, e.vy, e.mx, e.vx⟩) := by
  induction a generalizing b c d with
  | nil => cases c <;> cases d <;> simp [cells4]
  | cons m ms ih =>
    cases b with
    | nil => cases c <;> cases d <;> simp [cells4]
    | cons v vs =>
      cases c with
      | nil => simp [cells4]
      | cons m' ms' =>
        cases d with
        | nil => simp [cells4]
        | cons v' vs' => simp [cells4, ih]

theorem LeafEq.symm {close} (hs : CloseSymm close) (idt : Bool) (x y : LArr) (h : LeafEq close idt x y) :
    LeafEq close idt y x := by
  obtain ⟨h1, h2, h3⟩ := h
  refine ⟨h1.symm, ?_, ?_⟩
  · rcases h2 with h | h | h | h
    · exact Or.inl h
    · exact Or.inr (Or.inl h.symm)
    · exact Or.inr (Or.inr (Or.inr h))
    · exact Or.inr (Or.inr (Or.inl h))
  · intro c hcm
    unfold cells at hcm
    rw [cells4_swap] at hcm
    obtain ⟨e, he, rfl⟩ := List.mem_map.mp hcm
    obtain ⟨e1, e2⟩ := h3 e he
    have hb : bothNumeric y x = bothNumeric x y := by simp [bothNumeric, Bool.and_comm]
    refine ⟨e1.symm, fun h0 => ?_⟩
    rw [hb]
    exact ValClose.symm hs _ _ _ (e2 (by rw [e1]; exact h0))

/-- Symmetry of the leaf whenever the closeness test is symmetric. -/
theorem leafEquals_symm (close : Int → Int → Bool) (hc : CloseRefl close) (hs : CloseSymm close) (rp idt : Bool)
    (x y : LArr) (hx : x.WF) (hy : y.WF) :
    leafEquals close rp idt x y = leafEquals close rp idt y x := by
  cases h1 : leafEquals close rp idt x y <;> cases h2 : leafEquals close rp idt y x <;> try rfl
  · have := (leafEquals_iff close hc rp idt y x hy hx).mp h2
    have := (leafEquals_iff close hc rp idt x y hx hy).mpr (LeafEq.symm hs idt y x this)
    rw [h1] at this; exact absurd this (by simp)
  · have := (leafEquals_iff close hc rp idt x y hx hy).mp h1
    have := (leafEquals_iff close hc rp idt y x hy hx).mpr (LeafEq.symm hs idt x y this)
    rw [h2] at this; exact absurd this (by simp)

/-- No NaN among the unmasked elements. -/
def NoVisibleNaN (x : LArr) : Prop := ∀ i (h : i < x.vals.length), x.maskAt i = false → x.vals[i] ≠ Val.nan

theorem ValClose.refl {close} (hc : CloseRefl close) (t : Bool) (a : Val) (hnan : a ≠ Val.nan)
    (htok : t = true → a.isTok = false) : ValClose close t a a := by
  cases a <;> cases t <;> simp_all [ValClose, Val.isTok]
  rename_i a; exact hc a

/-- Reflexivity of the leaf: an array equals itself exactly when no unmasked element is NaN
(given the reflexive tolerance of every call). -/
theorem leafEquals_refl_iff (close : Int → Int → Bool) (hc : CloseRefl close) (rp idt : Bool) (x : LArr) (hx : x.WF) :
    leafEquals close rp idt x x = true ↔ NoVisibleNaN x := by
  rw [leafEquals_iff close hc rp idt x x hx hx]
  unfold LeafEq
  rw [forall_cells_iff x x hx hx rfl]
  constructor
  · rintro ⟨_, _, h⟩ i hi hm hn
    have := (h i hi hi).2 hm
    rw [hn] at this
    simp [ValClose] at this
  · intro h
    refine ⟨rfl, Or.inr (Or.inl rfl), fun i h0 _ => ⟨rfl, fun hm => ?_⟩⟩
    apply ValClose.refl hc _ _ (h i h0 hm)
    intro hb
    simp only [bothNumeric, Bool.and_self, beq_iff_eq] at hb
    exact hx.numeric hb _ (List.getElem_mem _)

/-! ### the coarse record of `Model/Equality.lean` -/

theorem embed_WF (a : Arr) (h : a.vals.length = listProd a.shape) : (embed a).WF := by
  refine ⟨by simpa [embed] using h, ?_, by simp [embed], ?_⟩
  · intro m hm
    simp only [embed, Option.some.injEq] at hm
    subst hm; simp [embed]
  · intro hk v hv
    simp only [embed, List.mem_map] at hv hk
    obtain ⟨o, _, rfl⟩ := hv
    cases o with
    | none => rfl
    | some n =>
      cases hs : a.isStr with
      | true => simp [hs] at hk
      | false => simp [Val.isTok]

theorem cells_embed (x y : Arr) :
    cells (embed x) (embed y) =
      cells4 (x.vals.map Option.isNone)
        (x.vals.map (fun v => match v with | none => Val.nan | some n => if x.isStr then Val.tok n else Val.num n))
        (y.vals.map Option.isNone)
        (y.vals.map (fun v => match v with | none => Val.nan | some n => if y.isStr then Val.tok n else Val.num n)) := by
  simp only [cells, embed, LArr.maskArr, ↓reduceIte]
  rfl

theorem cells4_embed_all (sx sy : Bool) (P : Cell → Prop) (l0 l1 : List (Option Int)) (hl : l0.length = l1.length) :
    (∀ c ∈ cells4 (l0.map Option.isNone)
        (l0.map (fun v => match v with | none => Val.nan | some n => if sx then Val.tok n else Val.num n))
        (l1.map Option.isNone)
        (l1.map (fun v => match v with | none => Val.nan | some n => if sy then Val.tok n else Val.num n)), P c)
    ↔ ∀ i (h0 : i < l0.length) (h1 : i < l1.length),
        P ⟨(l0[i]).isNone, (match l0[i] with | none => Val.nan | some n => if sx then Val.tok n else Val.num n),
           (l1[i]).isNone, (match l1[i] with | none => Val.nan | some n => if sy then Val.tok n else Val.num n)⟩ := by
  induction l0 generalizing l1 with
  | nil =>
    cases l1 with
    | nil => simp [cells4]
    | cons b bs => simp at hl
  | cons a as ih =>
    cases l1 with
    | nil => simp at hl
    | cons b bs =>
      simp only [List.length_cons, Nat.add_right_cancel_iff] at hl
      simp only [List.map_cons, cells4, List.mem_cons, forall_eq_or_imp, List.length_cons]
      rw [ih bs hl]
      constructor
      · rintro ⟨h0, h⟩ i hi0 hi1
        cases i with
        | zero => simpa using h0
        | succ k => simpa using h k (by omega) (by omega)
      · intro h
        refine ⟨by simpa using h 0 (by omega) (by omega), fun i h0 h1 => ?_⟩
        have := h (i + 1) (by omega) (by omega)
        simp only [List.getElem_cons_succ] at this
        exact this

/-- The array comparison used inside the construct / field model is the leaf algorithm run on
masked arrays of finite values (both strings or both numbers). -/
theorem arrEquals_eq_leaf (close : Int → Int → Bool) (hc : CloseRefl close) (rp idt : Bool) (x y : Arr)
    (hx : x.vals.length = listProd x.shape) (hy : y.vals.length = listProd y.shape) (hk : x.isStr = y.isStr) :
    arrEquals close idt x y = leafEquals close rp idt (embed x) (embed y) := by
  have key : arrEquals close idt x y = true ↔ leafEquals close rp idt (embed x) (embed y) = true := by
    rw [arrEquals_iff, leafEquals_iff close hc rp idt _ _ (embed_WF x hx) (embed_WF y hy)]
    unfold ArrEq LeafEq
    have e1 : (embed x).shape = x.shape := rfl
    have e2 : (embed y).shape = y.shape := rfl
    have e3 : (embed x).dtype = x.dtype := rfl
    have e4 : (embed y).dtype = y.dtype := rfl
    have k1 : (embed x).kind = Kind.str ↔ x.isStr = true := by
      simp only [embed]; cases x.isStr <;> simp
    have k2 : (embed y).kind = Kind.str ↔ y.isStr = true := by
      simp only [embed]; cases y.isStr <;> simp
    rw [e1, e2, e3, e4, k1, k2]
    constructor
    · rintro ⟨h1, h2, h3, h4⟩
      refine ⟨h1, h2, ?_⟩
      rw [cells_embed, cells4_embed_all _ _ _ _ _ h3]
      intro i h0 h1'
      have := h4 i h0 h1'
      rw [← hk, Bool.or_self] at this
      have hb : bothNumeric (embed x) (embed y) = !x.isStr := by
        simp only [bothNumeric, embed, ← hk]; cases x.isStr <;> simp
      rw [hb, ← hk]
      revert this
      cases x.vals[i] <;> cases y.vals[i] <;> cases x.isStr <;> simp [ElemEq, CellOK, ValClose]
    · rintro ⟨h1, h2, h3⟩
      have hl : x.vals.length = y.vals.length := by rw [hx, hy, h1]
      refine ⟨h1, h2, hl, ?_⟩
      rw [cells_embed, cells4_embed_all _ _ _ _ _ hl] at h3
      intro i h0 h1'
      have := h3 i h0 h1'
      have hb : bothNumeric (embed x) (embed y) = !x.isStr := by
        simp only [bothNumeric, embed, ← hk]; cases x.isStr <;> simp
      rw [hb, ← hk] at this
      rw [← hk, Bool.or_self]
      revert this
      cases x.vals[i] <;> cases y.vals[i] <;> cases x.isStr <;> simp [ElemEq, CellOK, ValClose]
  cases h1 : arrEquals close idt x y <;> cases h2 : leafEquals close rp idt (embed x) (embed y) <;> try rfl
  · rw [key.mpr h2] at h1; exact absurd h1 (by simp)
  · rw [key.mp h1] at h2; exact absurd h2 (by simp)

/-! ### `Data.equals` on the leaf -/

/-- What `Data.equals` demands of two uncompressed `Data`. -/
def LDataEq (close : Int → Int → Bool) (idt ifv : Bool) (x y : LData) : Prop :=
  LeafEq close idt x.arr y.arr
  ∧ (idt = true ∨ x.arr.dtype = y.arr.dtype)
  ∧ (ifv = true ∨ (match x.fill, y.fill with
                   | none, none => True
                   | some a, some b => a.eqv b = true
                   | _, _ => False))
  ∧ x.units = y.units ∧ x.calendar = y.calendar

theorem dataLeafEquals_iff (close : Int → Int → Bool) (hc : CloseRefl close) (rp idt ifv : Bool) (x y : LData)
    (hx : x.arr.WF) (hy : y.arr.WF) :
    dataLeafEquals close rp idt ifv x y = true ↔ LDataEq close idt ifv x y := by
  unfold dataLeafEquals LDataEq
  simp only [Bool.and_eq_true, Bool.or_eq_true, beq_iff_eq, leafEquals_iff close hc rp idt _ _ hx hy]
  constructor
  · rintro ⟨⟨⟨⟨⟨_, h2⟩, h3⟩, h4⟩, h5⟩, h6⟩
    refine ⟨h6, h3, ?_, h4, h5⟩
    rcases h2 with h2 | h2
    · exact Or.inl h2
    · right; revert h2; cases x.fill <;> cases y.fill <;> simp
  · rintro ⟨h6, h3, h2, h4, h5⟩
    refine ⟨⟨⟨⟨⟨h6.1, ?_⟩, h3⟩, h4⟩, h5⟩, h6⟩
    rcases h2 with h2 | h2
    · exact Or.inl h2
    · right; revert h2; cases x.fill <;> cases y.fill <;> simp

theorem Val.eqv_symm (a b : Val) : a.eqv b = b.eqv a := by
  cases a <;> cases b <;> simp [Val.eqv, Bool.beq_eq_decide_eq, eq_comm]

theorem LDataEq.symm {close} (hs : CloseSymm close) (idt ifv : Bool) (x y : LData) (h : LDataEq close idt ifv x y) :
    LDataEq close idt ifv y x := by
  obtain ⟨h1, h2, h3, h4, h5⟩ := h
  refine ⟨LeafEq.symm hs idt _ _ h1, ?_, ?_, h4.symm, h5.symm⟩
  · rcases h2 with h2 | h2
    · exact Or.inl h2
    · exact Or.inr h2.symm
  · rcases h3 with h3 | h3
    · exact Or.inl h3
    · right
      revert h3
      cases x.fill <;> cases y.fill <;> simp
      intro h; rw [Val.eqv_symm]; exact h

/-- Symmetry of `Data.equals` whenever the closeness test is symmetric. -/
theorem dataLeafEquals_symm (close : Int → Int → Bool) (hc : CloseRefl close) (hs : CloseSymm close) (rp idt ifv : Bool)
    (x y : LData) (hx : x.arr.WF) (hy : y.arr.WF) :
    dataLeafEquals close rp idt ifv x y = dataLeafEquals close rp idt ifv y x :=
  bool_symm_of_iff (R := LDataEq close idt ifv) x y (dataLeafEquals_iff close hc rp idt ifv x y hx hy)
    (dataLeafEquals_iff close hc rp idt ifv y x hy hx) (LDataEq.symm hs idt ifv)

/-- Reflexivity of `Data.equals`: no visible NaN in the array, no NaN fill value. -/
theorem dataLeafEquals_refl (close : Int → Int → Bool) (hc : CloseRefl close) (rp idt ifv : Bool) (x : LData)
    (hx : x.arr.WF) (hn : NoVisibleNaN x.arr) (hf : x.fill ≠ some Val.nan) :
    dataLeafEquals close rp idt ifv x x = true := by
  rw [dataLeafEquals_iff close hc rp idt ifv x x hx hx]
  refine ⟨(leafEquals_iff close hc rp idt _ _ hx hx).mp ((leafEquals_refl_iff close hc rp idt _ hx).mpr hn),
    Or.inr rfl, Or.inr ?_, rfl, rfl⟩
  cases hv : x.fill with
  | none => trivial
  | some v =>
    rw [hv] at hf
    cases v <;> simp_all [Val.eqv]

end Cfdm.Equality.Leaf
