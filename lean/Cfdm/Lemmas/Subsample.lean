import Cfdm.Model.Subsample
import Cfdm.Spec.AppendixJ
import Mathlib.Tactic.Ring
import Mathlib.Tactic.FieldSimp
import Mathlib.Tactic.Linarith
import Mathlib.Tactic.NormNum
import Mathlib.Tactic.Push
import Mathlib.Data.List.Chain
/-
Helper lemmas for C16.
-/
namespace Cfdm.Subsample
open Cfdm.Spec.AppendixJ

/-! ### writeBlock -/

theorem writeBlock_length {α} (u : List (Option α)) (s : Nat) (blk : List α) :
    (writeBlock u s blk).length = u.length := by
  fun_induction writeBlock u s blk <;> simp_all

theorem writeBlock_get_out {α} (u : List (Option α)) (s : Nat) (blk : List α) (p : Nat)
    (h : p < s ∨ s + blk.length ≤ p) : (writeBlock u s blk)[p]? = u[p]? := by
  fun_induction writeBlock u s blk generalizing p with
  | case1 => rfl
  | case2 => rfl
  | case3 x u b blk ih =>
    cases p with
    | zero => simp at h
    | succ p =>
      simp only [List.getElem?_cons_succ]
      apply ih
      simp only [List.length_cons] at h
      omega
  | case4 x u s blk ih =>
    cases p with
    | zero => simp
    | succ p =>
      simp only [List.getElem?_cons_succ]
      apply ih
      omega

theorem writeBlock_get_in {α} (u : List (Option α)) (s : Nat) (blk : List α) (p : Nat)
    (h1 : s ≤ p) (h2 : p < s + blk.length) (h3 : p < u.length) :
    (writeBlock u s blk)[p]? = (blk[p - s]?).map some := by
  fun_induction writeBlock u s blk generalizing p with
  | case1 => simp at h3
  | case2 => simp at h2
  | case3 x u b blk ih =>
    cases p with
    | zero => simp
    | succ p =>
      simp only [List.getElem?_cons_succ, Nat.sub_zero]
      simp only [List.length_cons] at h2 h3
      have := ih p (by omega) (by omega) (by omega)
      simpa using this
  | case4 x u s blk ih =>
    cases p with
    | zero => omega
    | succ p =>
      simp only [List.getElem?_cons_succ]
      simp only [List.length_cons] at h3
      have := ih p (by omega) (by omega) (by omega)
      rw [this]
      congr 2
      omega

/-! ### the parameter grid and one block -/

theorem sGrid_length (n : Nat) : (sGrid n).length = n := by simp [sGrid]

theorem sGrid_get (n q : Nat) (h : q < n) :
    (sGrid n)[q]? = some ((q : Rat) / ((n - 1 : Nat) : Rat)) := by
  simp [sGrid, List.getElem?_map, List.getElem?_range h]

/-- The sub that `subsGo` emits for the pair `(a, b)`. -/
def mkSub (i : Nat) (first : Bool) (j a b : Nat) : Sub :=
  { uStart := if first then a else a + 1
    uStop := b + 1
    size := if first then b - a + 1 else b - a + 1 - 1
    tp := i
    first := first
    loc := j }

theorem block1_length (F : Method) (tp : List Rat) (i : Nat) (first : Bool) (j a b : Nat)
    (hab : a + 2 ≤ b) :
    (block1 F tp (mkSub i first j a b)).length = b + 1 - (mkSub i first j a b).uStart := by
  cases first <;> simp [block1, trim, points1, sPoints, mkSub, sGrid_length] <;> omega

theorem block1_get (F : Method) (tp : List Rat) (i : Nat) (first : Bool) (j a b : Nat)
    (hab : a + 2 ≤ b) (p : Nat) (h1 : (mkSub i first j a b).uStart ≤ p) (h2 : p ≤ b) :
    (block1 F tp (mkSub i first j a b))[p - (mkSub i first j a b).uStart]? =
      some (F j (tp.getD i 0) (tp.getD (i + 1) 0) (((p - a : Nat) : Rat) / ((b - a : Nat) : Rat))) := by
  cases first
  · simp only [mkSub, Bool.false_eq_true, if_false] at h1
    simp only [block1, trim, points1, sPoints, mkSub, Bool.false_eq_true, if_false, Bool.not_false,
      Bool.or_true, if_true, List.getElem?_drop, List.getElem?_map]
    rw [sGrid_get _ _ (by omega)]
    simp only [Option.map_some]
    congr 3
    all_goals (congr 1; omega)
  · simp only [mkSub, if_true] at h1
    simp only [block1, trim, points1, sPoints, mkSub, if_true, Bool.not_true, Bool.or_false,
      Bool.false_eq_true, if_false, List.getElem?_map]
    rw [sGrid_get _ _ (by omega)]
    simp only [Option.map_some]
    congr 3

/-! ### the subarea loop -/

theorem subsGo_skip (i : Nat) (first : Bool) (j a b : Nat) (rest : List Nat) (h : b - a ≤ 1) :
    subsGo i first j (a :: b :: rest) = subsGo (i + 1) true j (b :: rest) := by
  simp [subsGo, h]

theorem subsGo_emit (i : Nat) (first : Bool) (j a b : Nat) (rest : List Nat) (h : ¬ b - a ≤ 1) :
    subsGo i first j (a :: b :: rest) =
      mkSub i first j a b :: subsGo (i + 1) false (j + 1) (b :: rest) := by
  simp [subsGo, h, mkSub]

theorem assemble1_length (F : Method) (tp : List Rat) (ss : List Sub) (u : List (Option Rat)) :
    (assemble1 F tp u ss).length = u.length := by
  induction ss generalizing u with
  | nil => rfl
  | cons s ss ih =>
    simp only [assemble1, List.foldl_cons] at ih ⊢
    rw [ih, writeBlock_length]

theorem assemble1_cons (F : Method) (tp : List Rat) (s : Sub) (ss : List Sub) (u : List (Option Rat)) :
    assemble1 F tp u (s :: ss) = assemble1 F tp (writeBlock u s.uStart (block1 F tp s)) ss := rfl

/-- The invariant of the subarea loop + assembly: positions before the current
pair are left alone; every position bracketed by a tie point pair that is not an
area boundary receives the method's value at `s = (p - a) / (b - a)`. -/
theorem assemble1_get (F : Method) (hF0 : ∀ j a b, F j a b 0 = a) (hF1 : ∀ j a b, F j a b 1 = b)
    (tp : List Rat) :
    ∀ (t : List Nat) (i : Nat) (first : Bool) (j : Nat) (u : List (Option Rat)),
      t.Pairwise (· < ·) → (∀ x ∈ t, x < u.length) →
      (∀ p, (∀ a, t.head? = some a → p < (if first then a else a + 1)) →
        (assemble1 F tp u (subsGo i first j t))[p]? = u[p]?) ∧
      (∀ k a b, t[k]? = some a → t[k + 1]? = some b → a + 2 ≤ b →
        ∀ p, a ≤ p → p ≤ b → (k = 0 → p = a → first = true) →
        (assemble1 F tp u (subsGo i first j t))[p]? =
          some (some (F (j + subareaIndex t k) (tp.getD (i + k) 0) (tp.getD (i + k + 1) 0)
            (((p - a : Nat) : Rat) / ((b - a : Nat) : Rat))))) := by
  intro t
  induction t with
  | nil =>
    intro i first j u _ _
    refine ⟨fun p _ => by simp [subsGo, assemble1], fun k a b h => by simp at h⟩
  | cons a t ih =>
    cases t with
    | nil =>
      intro i first j u _ _
      refine ⟨fun p _ => by simp [subsGo, assemble1], fun k a' b _ h => by simp at h⟩
    | cons b rest =>
      intro i first j u hinc hlt
      have hab : a < b := by
        have := List.rel_of_pairwise_cons hinc (List.mem_cons_self)
        exact this
      have hinc' : (b :: rest).Pairwise (· < ·) := (List.pairwise_cons.mp hinc).2
      have hlt' : ∀ x ∈ b :: rest, x < u.length := fun x hx => hlt x (List.mem_cons_of_mem _ hx)
      by_cases hgap : b - a ≤ 1
      · -- area boundary: nothing emitted, the next pair opens a new area
        rw [subsGo_skip _ _ _ _ _ _ hgap]
        obtain ⟨ih1, ih2⟩ := ih (i + 1) true j u hinc' hlt'
        refine ⟨fun p hp => ?_, fun k a' b' ha' hb' hg p h1 h2 hk => ?_⟩
        · apply ih1
          intro a'' ha''
          simp only [List.head?_cons, Option.some.injEq] at ha''
          subst ha''
          have := hp a (by simp)
          simp only [if_true]
          split at this <;> omega
        · cases k with
          | zero =>
            simp only [List.getElem?_cons_zero, Option.some.injEq, Nat.zero_add,
              List.getElem?_cons_succ] at ha' hb'
            omega
          | succ k =>
            simp only [List.getElem?_cons_succ] at ha' hb'
            have := ih2 k a' b' ha' hb' hg p h1 h2 (fun _ _ => rfl)
            rw [this]
            simp only [subareaIndex, hgap, if_true, Nat.zero_add]
            rw [show i + 1 + k = i + (k + 1) by omega]
      · -- an interpolation subarea is emitted
        rw [subsGo_emit _ _ _ _ _ _ hgap, assemble1_cons]
        have hab2 : a + 2 ≤ b := by omega
        have hblen := block1_length F tp i first j a b hab2
        have hustart : (mkSub i first j a b).uStart = if first then a else a + 1 := rfl
        have hb_lt : b < u.length := hlt b (by simp)
        obtain ⟨ih1, ih2⟩ := ih (i + 1) false (j + 1)
          (writeBlock u (mkSub i first j a b).uStart (block1 F tp (mkSub i first j a b))) hinc'
          (by intro x hx; rw [writeBlock_length]; exact hlt' x hx)
        -- what the block leaves at a position up to b
        have hin : ∀ p, (mkSub i first j a b).uStart ≤ p → p ≤ b →
            (assemble1 F tp (writeBlock u (mkSub i first j a b).uStart (block1 F tp (mkSub i first j a b)))
              (subsGo (i + 1) false (j + 1) (b :: rest)))[p]? =
            some (some (F j (tp.getD i 0) (tp.getD (i + 1) 0)
              (((p - a : Nat) : Rat) / ((b - a : Nat) : Rat)))) := by
          intro p h1 h2
          rw [ih1 p (by intro a'' ha''; simp only [List.head?_cons, Option.some.injEq] at ha''; subst ha''; simp; omega)]
          rw [writeBlock_get_in _ _ _ _ h1 (by rw [hblen]; rw [hustart] at h1 ⊢; split at h1 <;> omega) (by omega)]
          rw [block1_get F tp i first j a b hab2 p h1 h2]
          rfl
        refine ⟨fun p hp => ?_, fun k a' b' ha' hb' hg p h1 h2 hk => ?_⟩
        · have hp' := hp a (by simp)
          rw [ih1 p (by intro a'' ha''; simp only [List.head?_cons, Option.some.injEq] at ha''; subst ha''; simp; split at hp' <;> omega)]
          apply writeBlock_get_out
          left
          rw [hustart]
          exact hp'
        · cases k with
          | zero =>
            simp only [List.getElem?_cons_zero, Option.some.injEq, Nat.zero_add,
              List.getElem?_cons_succ] at ha' hb'
            subst ha' hb'
            have hstart : (mkSub i first j a b).uStart ≤ p := by
              rw [hustart]
              by_cases hf : first = true
              · simp [hf]; exact h1
              · have : p ≠ a := fun h => hf (hk rfl h)
                simp [hf]; omega
            rw [hin p hstart h2]
            simp [subareaIndex]
          | succ k =>
            simp only [List.getElem?_cons_succ] at ha' hb'
            by_cases hshared : k = 0 ∧ p = a'
            · -- the shared tie point: written by this block at s = 1, wanted at s = 0
              obtain ⟨hk0, hpa⟩ := hshared
              subst hk0
              simp only [List.getElem?_cons_zero, Option.some.injEq] at ha'
              subst ha'
              subst hpa
              have hstart : (mkSub i first j a p).uStart ≤ p := by
                rw [hustart]; split <;> omega
              rw [hin p hstart (Nat.le_refl _)]
              have h1' : (((p - a : Nat) : Rat) / ((p - a : Nat) : Rat)) = 1 := by
                have : ((p - a : Nat) : Rat) ≠ 0 := by
                  exact_mod_cast (by omega : p - a ≠ 0)
                field_simp
              rw [h1', hF1]
              simp only [Nat.sub_self, Nat.cast_zero, zero_div, hF0]
            · have := ih2 k a' b' ha' hb' hg p h1 h2 (fun hk0 hpa => absurd ⟨hk0, hpa⟩ hshared)
              rw [this]
              simp only [subareaIndex, hgap, if_false]
              rw [show j + 1 + subareaIndex (b :: rest) k = j + (1 + subareaIndex (b :: rest) k) by omega,
                show i + 1 + k = i + (k + 1) by omega]

/-! ### partition -/

theorem covered_subsGo : ∀ (t : List Nat) (i : Nat) (first : Bool) (j a l : Nat),
    wfAreas first t = true → t.head? = some a → t.getLast? = some l →
    a ≤ l ∧ covered (subsGo i first j t) =
      List.range' (lowVertex first a) (l + 1 - lowVertex first a) := by
  intro t
  induction t with
  | nil => intro i first j a l h; simp [wfAreas] at h
  | cons a t ih =>
    cases t with
    | nil =>
      intro i first j a' l h ha hl
      simp only [wfAreas, Bool.not_eq_true'] at h
      simp only [List.head?_cons, Option.some.injEq, List.getLast?_singleton] at ha hl
      subst ha hl h
      simp [subsGo, covered, lowVertex]
    | cons b rest =>
      intro i first j a' l h ha hl
      simp only [List.head?_cons, Option.some.injEq] at ha
      subst ha
      rw [List.getLast?_cons_cons] at hl
      simp only [wfAreas, Bool.and_eq_true, decide_eq_true_eq] at h
      obtain ⟨hab, h⟩ := h
      by_cases hgap : b - a ≤ 1
      · simp only [hgap, if_true, Bool.and_eq_true, Bool.not_eq_true'] at h
        obtain ⟨hf, h⟩ := h
        subst hf
        obtain ⟨hbl, hc⟩ := ih (i + 1) true j b l h (by simp) hl
        rw [subsGo_skip _ _ _ _ _ _ hgap, hc]
        have : b = a + 1 := by omega
        subst this
        simp only [lowVertex, if_true, Bool.false_eq_true, if_false]
        exact ⟨by omega, trivial⟩
      · simp only [hgap, if_false] at h
        obtain ⟨hbl, hc⟩ := ih (i + 1) false (j + 1) b l h (by simp) hl
        rw [subsGo_emit _ _ _ _ _ _ hgap]
        refine ⟨by omega, ?_⟩
        have hcons : covered (mkSub i first j a b :: subsGo (i + 1) false (j + 1) (b :: rest)) =
            List.range' (lowVertex first a) (b + 1 - lowVertex first a) ++
              covered (subsGo (i + 1) false (j + 1) (b :: rest)) := by
          simp [covered, mkSub, lowVertex]
        rw [hcons, hc]
        simp only [lowVertex, Bool.false_eq_true, if_false]
        have hlv : (if first = true then a else a + 1) ≤ b := by split <;> omega
        have e1 : b + 1 = (if first = true then a else a + 1) + (b + 1 - (if first = true then a else a + 1)) := by omega
        conv_lhs => rw [e1]
        rw [← e1, show List.range' (b + 1) (l + 1 - (b + 1)) =
          List.range' ((if first = true then a else a + 1) + (b + 1 - (if first = true then a else a + 1))) (l + 1 - (b + 1)) by rw [← e1]]
        rw [List.range'_append_1]
        congr 1
        omega

theorem wfAreas_isChain : ∀ (t : List Nat) (first : Bool), wfAreas first t = true →
    List.IsChain (· < ·) t := by
  intro t
  induction t with
  | nil => intro f h; simp [wfAreas] at h
  | cons a t ih =>
    cases t with
    | nil => intro f _; simp
    | cons b rest =>
      intro f h
      simp only [wfAreas, Bool.and_eq_true, decide_eq_true_eq] at h
      rw [List.isChain_cons_cons]
      refine ⟨h.1, ?_⟩
      by_cases hgap : b - a ≤ 1
      · simp only [hgap, if_true, Bool.and_eq_true] at h
        exact ih true h.2.2
      · simp only [hgap, if_false] at h
        exact ih false h.2

theorem wfAreas_pairwise (t : List Nat) (first : Bool) (h : wfAreas first t = true) :
    t.Pairwise (· < ·) :=
  List.isChain_iff_pairwise.mp (wfAreas_isChain t first h)

/-- In a well-formed vector every tie point is an end of some tie point pair
that is not an area boundary. -/
theorem wfAreas_pair : ∀ (t : List Nat) (first : Bool), wfAreas first t = true →
    ∀ k a, t[k]? = some a →
      (k = 0 ∧ first = false) ∨ (∃ b, t[k + 1]? = some b ∧ a + 2 ≤ b) ∨
        (∃ k' a', k = k' + 1 ∧ t[k']? = some a' ∧ a' + 2 ≤ a) := by
  intro t
  induction t with
  | nil => intro f h; simp [wfAreas] at h
  | cons a t ih =>
    cases t with
    | nil =>
      intro f h k x hx
      simp only [wfAreas, Bool.not_eq_true'] at h
      cases k with
      | zero => exact Or.inl ⟨rfl, h⟩
      | succ k => simp at hx
    | cons b rest =>
      intro f h k x hx
      simp only [wfAreas, Bool.and_eq_true, decide_eq_true_eq] at h
      obtain ⟨hab, h⟩ := h
      cases k with
      | zero =>
        simp only [List.getElem?_cons_zero, Option.some.injEq] at hx
        subst hx
        by_cases hgap : b - a ≤ 1
        · simp only [hgap, if_true, Bool.and_eq_true, Bool.not_eq_true'] at h
          exact Or.inl ⟨rfl, h.1⟩
        · exact Or.inr (Or.inl ⟨b, by simp, by omega⟩)
      | succ k =>
        simp only [List.getElem?_cons_succ] at hx
        by_cases hgap : b - a ≤ 1
        · simp only [hgap, if_true, Bool.and_eq_true] at h
          rcases ih true h.2 k x hx with ⟨_, hf⟩ | ⟨c, hc, hxc⟩ | ⟨k', a', hk, ha', hax⟩
          · simp at hf
          · exact Or.inr (Or.inl ⟨c, by simpa using hc, hxc⟩)
          · exact Or.inr (Or.inr ⟨k' + 1, a', by omega, by simpa using ha', hax⟩)
        · simp only [hgap, if_false] at h
          rcases ih false h k x hx with ⟨hk0, _⟩ | ⟨c, hc, hxc⟩ | ⟨k', a', hk, ha', hax⟩
          · subst hk0
            simp only [List.getElem?_cons_zero, Option.some.injEq] at hx
            subst hx
            exact Or.inr (Or.inr ⟨0, a, rfl, by simp, by omega⟩)
          · exact Or.inr (Or.inl ⟨c, by simpa using hc, hxc⟩)
          · exact Or.inr (Or.inr ⟨k' + 1, a', by omega, by simpa using ha', hax⟩)

/-! ### bounds tie points, one subsampled dimension -/

theorem cells_length (v : List Rat) : (cells v).length = v.length - 1 := by
  simp [cells, List.length_zipWith]

theorem cells_get (v : List Rat) (q : Nat) (x y : Rat) (hx : v[q]? = some x)
    (hy : v[q + 1]? = some y) : (cells v)[q]? = some [x, y] := by
  have hq : q + 1 < v.length := by
    rcases Nat.lt_or_ge (q + 1) v.length with h | h
    · exact h
    · rw [List.getElem?_eq_none h] at hy; cases hy
  simp only [cells, List.getElem?_zipWith, List.getElem?_drop]
  rw [List.getElem?_dropLast, if_pos (by omega), hx, Nat.add_comm 1 q, hy]

theorem block1b_length (F : Method) (tp : List Rat) (i : Nat) (first : Bool) (j a b : Nat)
    (hab : a + 2 ≤ b) :
    (block1b F tp (mkSub i first j a b)).length = b + 1 - (mkSub i first j a b).uStart := by
  cases first
  · simp [block1b, trim, cells_length, points1, sPoints, mkSub, sGrid_length]
  · simp [block1b, trim, cells_length, points1, sPoints, mkSub, sGrid_length]; omega

theorem block1b_get (F : Method) (tp : List Rat) (i : Nat) (first : Bool) (j a b : Nat)
    (hab : a + 2 ≤ b) (p : Nat) (h1 : lowVertex first a ≤ p) (h2 : p ≤ b) :
    (block1b F tp (mkSub i first j a b))[p - lowVertex first a]? =
      some [F j (tp.getD i 0) (tp.getD (i + 1) 0)
              (((p - lowVertex first a : Nat) : Rat) / ((b + 1 - lowVertex first a : Nat) : Rat)),
            F j (tp.getD i 0) (tp.getD (i + 1) 0)
              (((p + 1 - lowVertex first a : Nat) : Rat) / ((b + 1 - lowVertex first a : Nat) : Rat))] := by
  cases first
  · simp only [lowVertex, Bool.false_eq_true, if_false] at h1 ⊢
    simp only [block1b, trim, if_true]
    apply cells_get
    · simp only [points1, sPoints, mkSub, Bool.false_eq_true, if_false, Bool.true_or, if_true,
        List.getElem?_map]
      rw [sGrid_get _ _ (by omega)]
      simp only [Option.map_some]
      congr 3
      congr 1; omega
    · simp only [points1, sPoints, mkSub, Bool.false_eq_true, if_false, Bool.true_or, if_true,
        List.getElem?_map]
      rw [sGrid_get _ _ (by omega)]
      simp only [Option.map_some]
      congr 3
      all_goals (congr 1; omega)
  · simp only [lowVertex, if_true] at h1 ⊢
    simp only [block1b, trim, if_true]
    apply cells_get
    · simp only [points1, sPoints, mkSub, if_true, Bool.true_or, List.getElem?_map]
      rw [sGrid_get _ _ (by omega)]
      simp only [Option.map_some]
      congr 3
      congr 1; omega
    · simp only [points1, sPoints, mkSub, if_true, Bool.true_or, List.getElem?_map]
      rw [sGrid_get _ _ (by omega)]
      simp only [Option.map_some]
      congr 3
      all_goals (congr 1; omega)

theorem startAt_cons (first : Bool) (a b : Nat) (rest : List Nat) (k : Nat) :
    startAt first (a :: b :: rest) (k + 1) = startAt (decide (b - a ≤ 1)) (b :: rest) k := by
  cases k <;> simp [startAt]

theorem assemble1b_length (F : Method) (tp : List Rat) (ss : List Sub) (u : List (Option (List Rat))) :
    (assemble1b F tp u ss).length = u.length := by
  induction ss generalizing u with
  | nil => rfl
  | cons s ss ih =>
    simp only [assemble1b, List.foldl_cons] at ih ⊢
    rw [ih, writeBlock_length]

theorem assemble1b_cons (F : Method) (tp : List Rat) (s : Sub) (ss : List Sub)
    (u : List (Option (List Rat))) :
    assemble1b F tp u (s :: ss) = assemble1b F tp (writeBlock u s.uStart (block1b F tp s)) ss := rfl

/-- The bounds counterpart of `assemble1_get`: cell `p` of the subarea between
tie points `k`, `k + 1` receives the vertices `p`, `p + 1` of the vertex grid that
runs from the low vertex of the subarea to the upper vertex of cell `b`. -/
theorem assemble1b_get (F : Method) (tp : List Rat) :
    ∀ (t : List Nat) (i : Nat) (first : Bool) (j : Nat) (u : List (Option (List Rat))),
      t.Pairwise (· < ·) → (∀ x ∈ t, x < u.length) →
      (∀ p, (∀ a, t.head? = some a → p < lowVertex first a) →
        (assemble1b F tp u (subsGo i first j t))[p]? = u[p]?) ∧
      (∀ k a b, t[k]? = some a → t[k + 1]? = some b → a + 2 ≤ b →
        ∀ p, lowVertex (startAt first t k) a ≤ p → p ≤ b →
        (assemble1b F tp u (subsGo i first j t))[p]? =
          some (some
            [F (j + subareaIndex t k) (tp.getD (i + k) 0) (tp.getD (i + k + 1) 0)
               (((p - lowVertex (startAt first t k) a : Nat) : Rat) /
                 ((b + 1 - lowVertex (startAt first t k) a : Nat) : Rat)),
             F (j + subareaIndex t k) (tp.getD (i + k) 0) (tp.getD (i + k + 1) 0)
               (((p + 1 - lowVertex (startAt first t k) a : Nat) : Rat) /
                 ((b + 1 - lowVertex (startAt first t k) a : Nat) : Rat))])) := by
  intro t
  induction t with
  | nil =>
    intro i first j u _ _
    refine ⟨fun p _ => by simp [subsGo, assemble1b], fun k a b h => by simp at h⟩
  | cons a t ih =>
    cases t with
    | nil =>
      intro i first j u _ _
      refine ⟨fun p _ => by simp [subsGo, assemble1b], fun k a' b _ h => by simp at h⟩
    | cons b rest =>
      intro i first j u hinc hlt
      have hab : a < b := List.rel_of_pairwise_cons hinc (List.mem_cons_self)
      have hinc' : (b :: rest).Pairwise (· < ·) := (List.pairwise_cons.mp hinc).2
      have hlt' : ∀ x ∈ b :: rest, x < u.length := fun x hx => hlt x (List.mem_cons_of_mem _ hx)
      by_cases hgap : b - a ≤ 1
      · rw [subsGo_skip _ _ _ _ _ _ hgap]
        obtain ⟨ih1, ih2⟩ := ih (i + 1) true j u hinc' hlt'
        refine ⟨fun p hp => ?_, fun k a' b' ha' hb' hg p h1 h2 => ?_⟩
        · apply ih1
          intro a'' ha''
          simp only [List.head?_cons, Option.some.injEq] at ha''
          subst ha''
          have := hp a (by simp)
          simp only [lowVertex, if_true] at this ⊢
          split at this <;> omega
        · cases k with
          | zero =>
            simp only [List.getElem?_cons_zero, Option.some.injEq, Nat.zero_add,
              List.getElem?_cons_succ] at ha' hb'
            omega
          | succ k =>
            simp only [List.getElem?_cons_succ] at ha' hb'
            rw [startAt_cons] at h1 ⊢
            simp only [hgap, decide_true] at h1 ⊢
            have := ih2 k a' b' ha' hb' hg p h1 h2
            rw [this]
            simp only [subareaIndex, hgap, if_true, Nat.zero_add]
            rw [show i + 1 + k = i + (k + 1) by omega]
      · rw [subsGo_emit _ _ _ _ _ _ hgap, assemble1b_cons]
        have hab2 : a + 2 ≤ b := by omega
        have hblen := block1b_length F tp i first j a b hab2
        have hustart : (mkSub i first j a b).uStart = lowVertex first a := rfl
        have hb_lt : b < u.length := hlt b (by simp)
        have hlv : lowVertex first a ≤ b := by simp only [lowVertex]; split <;> omega
        obtain ⟨ih1, ih2⟩ := ih (i + 1) false (j + 1)
          (writeBlock u (mkSub i first j a b).uStart (block1b F tp (mkSub i first j a b))) hinc'
          (by intro x hx; rw [writeBlock_length]; exact hlt' x hx)
        refine ⟨fun p hp => ?_, fun k a' b' ha' hb' hg p h1 h2 => ?_⟩
        · have hp' := hp a (by simp)
          rw [ih1 p (by
            intro a'' ha''
            simp only [List.head?_cons, Option.some.injEq] at ha''
            subst ha''
            simp only [lowVertex, Bool.false_eq_true, if_false]
            omega)]
          apply writeBlock_get_out
          left
          rw [hustart]
          exact hp'
        · cases k with
          | zero =>
            simp only [List.getElem?_cons_zero, Option.some.injEq, Nat.zero_add,
              List.getElem?_cons_succ] at ha' hb'
            subst ha' hb'
            simp only [startAt] at h1 ⊢
            rw [ih1 p (by
              intro a'' ha''
              simp only [List.head?_cons, Option.some.injEq] at ha''
              subst ha''
              simp only [lowVertex, Bool.false_eq_true, if_false]
              omega)]
            rw [hustart, writeBlock_get_in _ _ _ _ h1 (by rw [hblen, hustart]; omega) (by omega)]
            rw [block1b_get F tp i first j a b hab2 p h1 h2]
            simp [subareaIndex]
          | succ k =>
            simp only [List.getElem?_cons_succ] at ha' hb'
            rw [startAt_cons] at h1 ⊢
            simp only [hgap, decide_false] at h1 ⊢
            have := ih2 k a' b' ha' hb' hg p h1 h2
            rw [this]
            simp only [subareaIndex, hgap, if_false]
            rw [show j + 1 + subareaIndex (b :: rest) k = j + (1 + subareaIndex (b :: rest) k) by omega,
              show i + 1 + k = i + (k + 1) by omega]

/-! ### shapes in two dimensions -/

theorem writeBlock2_length {α} (u : List (List (Option α))) (r c : Nat) (blk : List (List α)) :
    (writeBlock2 u r c blk).length = u.length := by
  fun_induction writeBlock2 u r c blk <;> simp_all

theorem writeBlock2_rows {α} (m : Nat) (u : List (List (Option α))) (r c : Nat) (blk : List (List α))
    (h : ∀ row ∈ u, row.length = m) : ∀ row ∈ writeBlock2 u r c blk, row.length = m := by
  fun_induction writeBlock2 u r c blk with
  | case1 => simp
  | case2 => exact h
  | case3 row u c b blk ih =>
    intro x hx
    simp only [List.mem_cons] at hx
    rcases hx with rfl | hx
    · rw [writeBlock_length]; exact h row (by simp)
    · exact ih (fun y hy => h y (by simp [hy])) x hx
  | case4 row u r c blk ih =>
    intro x hx
    simp only [List.mem_cons] at hx
    rcases hx with rfl | hx
    · exact h x (by simp)
    · exact ih (fun y hy => h y (by simp [hy])) x hx

theorem foldl_writeBlock2_shape {α β γ} (n0 n1 : Nat) (l0 : List β) (l1 : List γ)
    (r : β → Nat) (c : γ → Nat) (blk : β → γ → List (List α)) (u : List (List (Option α)))
    (hu : u.length = n0) (hr : ∀ row ∈ u, row.length = n1) :
    let res := l0.foldl (fun u s0 => l1.foldl (fun u s1 => writeBlock2 u (r s0) (c s1) (blk s0 s1)) u) u
    res.length = n0 ∧ ∀ row ∈ res, row.length = n1 := by
  induction l0 generalizing u with
  | nil => exact ⟨hu, hr⟩
  | cons s0 l0 ih =>
    simp only [List.foldl_cons]
    apply ih
    · clear ih
      induction l1 generalizing u with
      | nil => exact hu
      | cons s1 l1 ih1 =>
        simp only [List.foldl_cons]
        exact ih1 _ (by rw [writeBlock2_length]; exact hu) (writeBlock2_rows n1 u _ _ _ hr)
    · clear ih
      induction l1 generalizing u with
      | nil => exact hr
      | cons s1 l1 ih1 =>
        simp only [List.foldl_cons]
        exact ih1 _ (by rw [writeBlock2_length]; exact hu) (writeBlock2_rows n1 u _ _ _ hr)

/-! ### two subsampled dimensions -/

theorem writeBlock2_get_out {α} (u : List (List (Option α))) (r c : Nat) (blk : List (List α)) (p : Nat)
    (h : p < r ∨ r + blk.length ≤ p) : (writeBlock2 u r c blk)[p]? = u[p]? := by
  fun_induction writeBlock2 u r c blk generalizing p with
  | case1 => rfl
  | case2 => rfl
  | case3 row u c b blk ih =>
    cases p with
    | zero => simp at h
    | succ p =>
      simp only [List.getElem?_cons_succ]
      apply ih
      simp only [List.length_cons] at h
      omega
  | case4 row u r c blk ih =>
    cases p with
    | zero => simp
    | succ p =>
      simp only [List.getElem?_cons_succ]
      apply ih
      omega

theorem writeBlock2_get_in {α} (u : List (List (Option α))) (r c : Nat) (blk : List (List α)) (p : Nat)
    (h1 : r ≤ p) (row : List (Option α)) (hrow : u[p]? = some row)
    (brow : List α) (hb : blk[p - r]? = some brow) :
    (writeBlock2 u r c blk)[p]? = some (writeBlock row c brow) := by
  fun_induction writeBlock2 u r c blk generalizing p with
  | case1 => simp at hrow
  | case2 => simp at hb
  | case3 row' u c b blk ih =>
    cases p with
    | zero =>
      simp only [List.getElem?_cons_zero, Option.some.injEq, Nat.sub_zero] at hrow hb ⊢
      subst hrow hb
      rfl
    | succ p =>
      simp only [List.getElem?_cons_succ, Nat.sub_zero] at hrow hb ⊢
      exact ih p (by omega) hrow (by simpa using hb)
  | case4 row' u r c blk ih =>
    cases p with
    | zero => omega
    | succ p =>
      simp only [List.getElem?_cons_succ] at hrow ⊢
      exact ih p (by omega) hrow (by rw [← hb]; congr 1; omega)

/-- Row of tie points interpolated (linearly, parameter `x2`) between the tie point rows
`k0` and `k0 + 1`. -/
def tpRowL (tp : List (List Rat)) (k0 : Nat) (x2 : Rat) (M : Nat) : List Rat :=
  (List.range M).map (fun k1 => linear (get2 tp k0 k1) (get2 tp (k0 + 1) k1) x2)

theorem tpRowL_getD (tp : List (List Rat)) (k0 : Nat) (x2 : Rat) (M k1 : Nat) (h : k1 < M) :
    (tpRowL tp k0 x2 M).getD k1 0 = linear (get2 tp k0 k1) (get2 tp (k0 + 1) k1) x2 := by
  simp [tpRowL, List.getD_eq_getElem?_getD, List.getElem?_map, List.getElem?_range h]

/-- The (trimmed) parameter grid of a subarea along the first dimension. -/
def tgrid (s0 : Sub) : List Rat := trim s0.first false (sGrid (sPoints s0.size s0.first false))

theorem trim_map {α β} (f : α → β) (first bounds : Bool) (l : List α) :
    trim first bounds (l.map f) = (trim first bounds l).map f := by
  cases first <;> cases bounds <;> simp [trim, List.map_drop]

theorem block2_eq (tp : List (List Rat)) (s0 s1 : Sub) (M : Nat) (h : s1.tp + 1 < M) :
    block2 tp s0 s1 = (tgrid s0).map (fun x2 => block1 linearM (tpRowL tp s0.tp x2 M) s1) := by
  simp only [block2, trim2, points2, tgrid, trim_map, List.map_map]
  congr 1
  funext x2
  simp only [Function.comp, block1, points1, linearM, trim_map]
  rw [tpRowL_getD _ _ _ _ _ (by omega), tpRowL_getD _ _ _ _ _ h]
  rfl

theorem tgrid_eq (s0 : Sub) : tgrid s0 = block1 (fun _ _ _ s => s) [] s0 := by
  simp [tgrid, block1, points1]

theorem tgrid_length (i : Nat) (first : Bool) (j a b : Nat) (hab : a + 2 ≤ b) :
    (tgrid (mkSub i first j a b)).length = b + 1 - (mkSub i first j a b).uStart := by
  rw [tgrid_eq]; exact block1_length _ _ i first j a b hab

theorem tgrid_get (i : Nat) (first : Bool) (j a b : Nat) (hab : a + 2 ≤ b) (p : Nat)
    (h1 : (mkSub i first j a b).uStart ≤ p) (h2 : p ≤ b) :
    (tgrid (mkSub i first j a b))[p - (mkSub i first j a b).uStart]? =
      some (((p - a : Nat) : Rat) / ((b - a : Nat) : Rat)) := by
  rw [tgrid_eq]; exact block1_get _ _ i first j a b hab p h1 h2

/-- The inner loop (all subareas of the second dimension for one subarea `s0` of the
first): every row of `s0`'s block is a 1-d linear assembly of an interpolated tie point row. -/
theorem inner_get (tp : List (List Rat)) (s0 : Sub) (M : Nat) (ss1 : List Sub)
    (hss : ∀ s1 ∈ ss1, s1.tp + 1 < M) (u : List (List (Option Rat))) (p : Nat) :
    (p < s0.uStart ∨ s0.uStart + (tgrid s0).length ≤ p →
      (ss1.foldl (fun u s1 => writeBlock2 u s0.uStart s1.uStart (block2 tp s0 s1)) u)[p]? = u[p]?) ∧
    (∀ row x2, s0.uStart ≤ p → (tgrid s0)[p - s0.uStart]? = some x2 → u[p]? = some row →
      (ss1.foldl (fun u s1 => writeBlock2 u s0.uStart s1.uStart (block2 tp s0 s1)) u)[p]? =
        some (assemble1 linearM (tpRowL tp s0.tp x2 M) row ss1)) := by
  induction ss1 generalizing u with
  | nil => exact ⟨fun _ => rfl, fun row x2 _ _ h => by simpa [assemble1] using h⟩
  | cons s1 ss1 ih =>
    have hs1 : s1.tp + 1 < M := hss s1 (by simp)
    have hss' : ∀ s ∈ ss1, s.tp + 1 < M := fun s hs => hss s (by simp [hs])
    have hlen : (block2 tp s0 s1).length = (tgrid s0).length := by
      rw [block2_eq tp s0 s1 M hs1]; simp
    obtain ⟨ih1, ih2⟩ := ih hss' (writeBlock2 u s0.uStart s1.uStart (block2 tp s0 s1))
    simp only [List.foldl_cons]
    constructor
    · intro h
      rw [ih1 h]
      exact writeBlock2_get_out _ _ _ _ _ (by rw [hlen]; exact h)
    · intro row x2 h1 hx hrow
      have hb : (block2 tp s0 s1)[p - s0.uStart]? = some (block1 linearM (tpRowL tp s0.tp x2 M) s1) := by
        rw [block2_eq tp s0 s1 M hs1, List.getElem?_map, hx]; rfl
      rw [ih2 (writeBlock row s1.uStart (block1 linearM (tpRowL tp s0.tp x2 M) s1)) x2 h1 hx
        (writeBlock2_get_in _ _ _ _ _ h1 row hrow _ hb)]
      rfl

theorem inner_length (tp : List (List Rat)) (s0 : Sub) (ss1 : List Sub) (u : List (List (Option Rat))) :
    (ss1.foldl (fun u s1 => writeBlock2 u s0.uStart s1.uStart (block2 tp s0 s1)) u).length = u.length := by
  induction ss1 generalizing u with
  | nil => rfl
  | cons s1 ss1 ih =>
    simp only [List.foldl_cons]
    rw [ih, writeBlock2_length]

theorem subsGo_tp_lt : ∀ (t : List Nat) (i : Nat) (first : Bool) (j : Nat) (s : Sub),
    s ∈ subsGo i first j t → s.tp + 1 < i + t.length := by
  intro t
  induction t with
  | nil => intro i f j s h; simp [subsGo] at h
  | cons a t ih =>
    cases t with
    | nil => intro i f j s h; simp [subsGo] at h
    | cons b rest =>
      intro i f j s h
      by_cases hgap : b - a ≤ 1
      · rw [subsGo_skip _ _ _ _ _ _ hgap] at h
        have := ih (i + 1) true j s h
        simp only [List.length_cons] at this ⊢
        omega
      · rw [subsGo_emit _ _ _ _ _ _ hgap] at h
        simp only [List.mem_cons] at h
        rcases h with rfl | h
        · simp [mkSub]
        · have := ih (i + 1) false (j + 1) s h
          simp only [List.length_cons] at this ⊢
          omega

/-- The outer loop: the row at a position bracketed by a tie point pair of the first
dimension is the 1-d assembly, along the second dimension, of the tie point row
interpolated at `s = (p - a) / (b - a)`. -/
theorem outer_get (tp : List (List Rat)) (M : Nat) (ss1 : List Sub)
    (hss : ∀ s1 ∈ ss1, s1.tp + 1 < M) (row0 : List (Option Rat)) :
    ∀ (t : List Nat) (i : Nat) (first : Bool) (j : Nat) (u : List (List (Option Rat))),
      t.Pairwise (· < ·) → (∀ x ∈ t, x < u.length) →
      (∀ p a, t.head? = some a → (if first then a else a + 1) ≤ p → p < u.length → u[p]? = some row0) →
      (∀ p, (∀ a, t.head? = some a → p < (if first then a else a + 1)) →
        ((subsGo i first j t).foldl (fun u s0 =>
          ss1.foldl (fun u s1 => writeBlock2 u s0.uStart s1.uStart (block2 tp s0 s1)) u) u)[p]? = u[p]?) ∧
      (∀ k a b, t[k]? = some a → t[k + 1]? = some b → a + 2 ≤ b →
        ∀ p, a ≤ p → p ≤ b → (k = 0 → p = a → first = true) →
        ((subsGo i first j t).foldl (fun u s0 =>
          ss1.foldl (fun u s1 => writeBlock2 u s0.uStart s1.uStart (block2 tp s0 s1)) u) u)[p]? =
          some (assemble1 linearM
            (tpRowL tp (i + k) (((p - a : Nat) : Rat) / ((b - a : Nat) : Rat)) M) row0 ss1)) := by
  intro t
  induction t with
  | nil =>
    intro i first j u _ _ _
    refine ⟨fun p _ => by simp [subsGo], fun k a b h => by simp at h⟩
  | cons a t ih =>
    cases t with
    | nil =>
      intro i first j u _ _ _
      refine ⟨fun p _ => by simp [subsGo], fun k a' b _ h => by simp at h⟩
    | cons b rest =>
      intro i first j u hinc hlt hrow0
      have hab : a < b := List.rel_of_pairwise_cons hinc (List.mem_cons_self)
      have hinc' : (b :: rest).Pairwise (· < ·) := (List.pairwise_cons.mp hinc).2
      have hlt' : ∀ x ∈ b :: rest, x < u.length := fun x hx => hlt x (List.mem_cons_of_mem _ hx)
      by_cases hgap : b - a ≤ 1
      · rw [subsGo_skip _ _ _ _ _ _ hgap]
        obtain ⟨ih1, ih2⟩ := ih (i + 1) true j u hinc' hlt' (by
          intro p a'' ha'' hp hpl
          simp only [List.head?_cons, Option.some.injEq] at ha''
          subst ha''
          simp only [if_true] at hp
          exact hrow0 p a (by simp) (by split <;> omega) hpl)
        refine ⟨fun p hp => ?_, fun k a' b' ha' hb' hg p h1 h2 hk => ?_⟩
        · apply ih1
          intro a'' ha''
          simp only [List.head?_cons, Option.some.injEq] at ha''
          subst ha''
          have := hp a (by simp)
          simp only [if_true]
          split at this <;> omega
        · cases k with
          | zero =>
            simp only [List.getElem?_cons_zero, Option.some.injEq, Nat.zero_add,
              List.getElem?_cons_succ] at ha' hb'
            omega
          | succ k =>
            simp only [List.getElem?_cons_succ] at ha' hb'
            have := ih2 k a' b' ha' hb' hg p h1 h2 (fun _ _ => rfl)
            rw [this, show i + 1 + k = i + (k + 1) by omega]
      · rw [subsGo_emit _ _ _ _ _ _ hgap]
        simp only [List.foldl_cons]
        have hab2 : a + 2 ≤ b := by omega
        have hglen := tgrid_length i first j a b hab2
        have hustart : (mkSub i first j a b).uStart = if first then a else a + 1 := rfl
        have hb_lt : b < u.length := hlt b (by simp)
        have hstart_le : (mkSub i first j a b).uStart ≤ b := by rw [hustart]; split <;> omega
        obtain ⟨in1, in2⟩ : (∀ p, (p < (mkSub i first j a b).uStart ∨
              (mkSub i first j a b).uStart + (tgrid (mkSub i first j a b)).length ≤ p →
            (ss1.foldl (fun u s1 => writeBlock2 u (mkSub i first j a b).uStart s1.uStart
              (block2 tp (mkSub i first j a b) s1)) u)[p]? = u[p]?)) ∧
            (∀ p row x2, (mkSub i first j a b).uStart ≤ p →
              (tgrid (mkSub i first j a b))[p - (mkSub i first j a b).uStart]? = some x2 →
              u[p]? = some row →
              (ss1.foldl (fun u s1 => writeBlock2 u (mkSub i first j a b).uStart s1.uStart
                (block2 tp (mkSub i first j a b) s1)) u)[p]? =
              some (assemble1 linearM (tpRowL tp (mkSub i first j a b).tp x2 M) row ss1)) :=
          ⟨fun p => (inner_get tp _ M ss1 hss u p).1, fun p => (inner_get tp _ M ss1 hss u p).2⟩
        generalize hu' : (ss1.foldl (fun u s1 => writeBlock2 u (mkSub i first j a b).uStart s1.uStart
              (block2 tp (mkSub i first j a b) s1)) u) = u' at in1 in2
        have hlen' : u'.length = u.length := by
          rw [← hu']; exact inner_length tp _ ss1 u
        obtain ⟨ih1, ih2⟩ := ih (i + 1) false (j + 1) u' hinc'
          (by intro x hx; rw [hlen']; exact hlt' x hx)
          (by
            intro p a'' ha'' hp hpl
            simp only [List.head?_cons, Option.some.injEq] at ha''
            subst ha''
            simp only [Bool.false_eq_true, if_false] at hp
            rw [in1 p (Or.inr (by rw [hglen]; omega))]
            exact hrow0 p a (by simp) (by rw [← hustart]; omega) (by rw [← hlen']; exact hpl))
        have hin : ∀ p, (mkSub i first j a b).uStart ≤ p → p ≤ b →
            ((subsGo (i + 1) false (j + 1) (b :: rest)).foldl (fun u s0 =>
              ss1.foldl (fun u s1 => writeBlock2 u s0.uStart s1.uStart (block2 tp s0 s1)) u) u')[p]? =
            some (assemble1 linearM
              (tpRowL tp i (((p - a : Nat) : Rat) / ((b - a : Nat) : Rat)) M) row0 ss1) := by
          intro p h1 h2
          rw [ih1 p (by
            intro a'' ha''
            simp only [List.head?_cons, Option.some.injEq] at ha''
            subst ha''
            simp
            omega)]
          exact in2 p row0 _ h1 (tgrid_get i first j a b hab2 p h1 h2)
            (hrow0 p a (by simp) (by rw [← hustart]; exact h1) (by omega))
        refine ⟨fun p hp => ?_, fun k a' b' ha' hb' hg p h1 h2 hk => ?_⟩
        · have hp' := hp a (by simp)
          rw [ih1 p (by
            intro a'' ha''
            simp only [List.head?_cons, Option.some.injEq] at ha''
            subst ha''
            simp
            split at hp' <;> omega)]
          exact in1 p (Or.inl (by rw [hustart]; exact hp'))
        · cases k with
          | zero =>
            simp only [List.getElem?_cons_zero, Option.some.injEq, Nat.zero_add,
              List.getElem?_cons_succ] at ha' hb'
            subst ha' hb'
            have hstart : (mkSub i first j a b).uStart ≤ p := by
              rw [hustart]
              by_cases hf : first = true
              · simp [hf]; exact h1
              · have : p ≠ a := fun h => hf (hk rfl h)
                simp [hf]; omega
            rw [hin p hstart h2]
            rfl
          | succ k =>
            simp only [List.getElem?_cons_succ] at ha' hb'
            by_cases hshared : k = 0 ∧ p = a'
            · obtain ⟨hk0, hpa⟩ := hshared
              subst hk0
              simp only [List.getElem?_cons_zero, Option.some.injEq] at ha'
              subst ha'
              subst hpa
              rw [hin p hstart_le (Nat.le_refl _)]
              have h1' : (((p - a : Nat) : Rat) / ((p - a : Nat) : Rat)) = 1 := by
                have : ((p - a : Nat) : Rat) ≠ 0 := by
                  exact_mod_cast (by omega : p - a ≠ 0)
                field_simp
              rw [h1']
              simp only [Nat.sub_self, Nat.cast_zero, zero_div]
              congr 2
              simp [tpRowL, linear]
            · have := ih2 k a' b' ha' hb' hg p h1 h2 (fun hk0 hpa => absurd ⟨hk0, hpa⟩ hshared)
              rw [this, show i + 1 + k = i + (k + 1) by omega]

end Cfdm.Subsample
