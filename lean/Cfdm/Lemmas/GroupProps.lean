import Cfdm.Lemmas.SharedProps
import Cfdm.Model.GroupProps
/-
C09 — helper lemmas for the group attributes (`Cfdm.GroupProps`).
-/
namespace Cfdm.GroupProps
open Cfdm.Globals Cfdm.SharedProps

theorem mem_bases {fs : List GField} {f : GField} (h : f ∈ fs) : f.base ∈ bases fs := List.mem_map_of_mem h

theorem isUnder_take (path : List String) (i : Nat) : isUnder (path.take (i + 1)) path = true := by
  unfold isUnder
  simp only [List.length_take, beq_iff_eq]
  rw [List.take_eq_take_iff]
  omega

theorem mem_enclosing {path g : List String} (h : g ∈ enclosing path) : isUnder g path = true := by
  unfold enclosing at h
  obtain ⟨i, _, rfl⟩ := List.mem_map.mp h
  exact isUnder_take path i

theorem self_mem_enclosing {path : List String} (h : path ≠ []) : path ∈ enclosing path := by
  unfold enclosing
  refine List.mem_map.mpr ⟨path.length - 1, ?_, ?_⟩
  · have : 0 < path.length := List.length_pos_iff.mpr h
    simp only [List.mem_range]; omega
  · have : 0 < path.length := List.length_pos_iff.mpr h
    have e : path.length - 1 + 1 = path.length := by omega
    rw [e, List.take_length]

/-- with the patched rule a written group attribute is a property of every construct below the group, with
one value; when no field gives group attributes a value of its own, that value is what is written -/
theorem groupAttr_member {fs : List GField} {g : List String} {p : String} {w : Val}
    (h : groupAttr true fs g p = some w) (f : GField) (hf : f ∈ fs) (hu : isUnder g f.path = true) :
    ∃ v0, lookup p f.base.props = some v0 ∧ (NoGroupValues fs → w = v0) := by
  unfold groupAttr at h
  split at h
  · cases h
  · split at h
    · cases h
    · rename_i f0 rest hin
      split at h
      · rename_i req v0 hreq hv0
        split at h
        · rename_i hall
          have hm : f ∈ members true fs g := by
            unfold members
            simp only [if_true]
            exact List.mem_filter.mpr ⟨hf, hu⟩
          have := List.all_eq_true.mp hall f hm
          simp only [beq_iff_eq] at this
          refine ⟨v0, this, ?_⟩
          intro hno
          injection h with h
          -- the request is a flag
          unfold requested at hreq
          obtain ⟨f1, hf1, hl⟩ := List.exists_of_findSome?_eq_some hreq
          have hf1' : f1 ∈ fs := (List.mem_filter.mp (List.mem_reverse.mp hf1)).1
          have := hno f1 hf1' (p, req) (lookup_some_mem hl)
          simp only at this
          subst this
          simpa using h.symm
        · cases h
      · cases h

theorem lookup_varAttrs (patched : Bool) (o : Opts) (fs : List GField) (f : GField) (p : String) :
    lookup p (varAttrs patched o fs f) = if omits patched o fs f p then none else lookup p f.base.props := by
  unfold varAttrs
  have := lookup_filter_key (fun k => !omits patched o fs f k) p f.base.props
  rw [this]
  cases omits patched o fs f p <;> simp

/-- whatever is inherited from an enclosing group is the field's own value -/
theorem inherited_own {fs : List GField} (hno : NoGroupValues fs) {f : GField} (hf : f ∈ fs) {p : String} {v w : Val}
    (hv : lookup p f.base.props = some v) (h : inherited true fs f.path p = some w) : w = v := by
  unfold inherited at h
  obtain ⟨g, hg, hw⟩ := List.exists_of_findSome?_eq_some h
  obtain ⟨v0, h0, hw0⟩ := groupAttr_member hw f hf (mem_enclosing (List.mem_reverse.mp hg))
  rw [hv] at h0
  injection h0 with h0
  rw [hw0 hno, ← h0]

/-- nothing is inherited by a field that lacks the property -/
theorem inherited_none {fs : List GField} {f : GField} (hf : f ∈ fs) {p : String}
    (hv : lookup p f.base.props = none) : inherited true fs f.path p = none := by
  unfold inherited
  rw [List.findSome?_eq_none_iff]
  intro g hg
  cases hw : groupAttr true fs g p with
  | none => rfl
  | some w =>
    obtain ⟨v0, h0, _⟩ := groupAttr_member hw f hf (mem_enclosing (List.mem_reverse.mp hg))
    rw [hv] at h0; cases h0

end Cfdm.GroupProps
