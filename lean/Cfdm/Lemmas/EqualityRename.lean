import Cfdm.Lemmas.EqualityField
/-
Helper lemmas for C05: a field against the same field rebuilt under other construct keys.
-/
namespace Cfdm.Equality
open Cfdm.Equality.Spec

/-! ### renaming -/

def renEntry (π κ : Nat → Nat) (e : Entry) : Entry := { e with key := κ e.key, axes := e.axes.map π }
def renCM (π : Nat → Nat) (m : CellMethod) : CellMethod := { m with axes := m.axes.map π }
def renRef (κ : Nat → Nat) (r : CoordRef) : CoordRef :=
  { r with coords := r.coords.map κ, convAncils := r.convAncils.map (fun tk => (tk.1, tk.2.map κ)) }

/-- The field rebuilt with domain-axis keys renamed by `π`, the keys of the metadata constructs
with data by `κ`, and those of the cell methods and coordinate references by `ρ`. -/
def renField (π κ ρ : Nat → Nat) (f : Field) : Field :=
  { f with
    dataAxes := f.dataAxes.map π
    axes := f.axes.map (fun a => (π a.1, a.2))
    cons := f.cons.map (renEntry π κ)
    cms := f.cms.map (fun km => (ρ km.1, renCM π km.2))
    refs := f.refs.map (fun kr => (ρ kr.1, renRef κ kr.2)) }

theorem dedup_map_inj {α β} [BEq α] [LawfulBEq α] [BEq β] [LawfulBEq β] (f : α → β)
    (hf : Function.Injective f) (l : List α) : dedup (l.map f) = (dedup l).map f := by
  induction l with
  | nil => rfl
  | cons a as ih =>
    simp only [List.map_cons, dedup, ih, List.filter_map, List.cons.injEq, true_and]
    congr 1
    apply List.filter_congr
    intro x _
    simp only [Function.comp]
    by_cases h : x = a
    · simp [h]
    · have : f x ≠ f a := fun e => h (hf e)
      simp [h, this]

theorem groupsOf_ren (π κ : Nat → Nat) (hπ : Function.Injective π) (cons : List Entry) :
    groupsOf (cons.map (renEntry π κ)) =
      (groupsOf cons).map (fun g => (g.1.map π, g.2.map (renEntry π κ))) := by
  have hinj : Function.Injective (List.map π) := List.map_injective_iff.mpr hπ
  unfold groupsOf
  have h1 : (cons.map (renEntry π κ)).map (·.axes) = (cons.map (·.axes)).map (List.map π) := by
    simp [List.map_map, Function.comp, renEntry]
  rw [h1, dedup_map_inj _ hinj, List.map_map, List.map_map]
  apply List.map_congr_left
  intro ax _
  simp only [Function.comp, List.filter_map, Prod.mk.injEq, true_and]
  congr 1
  apply List.filter_congr
  intro e _
  simp only [Function.comp, renEntry]
  by_cases h : e.axes = ax
  · simp [h]
  · have : e.axes.map π ≠ ax.map π := fun e' => h (hinj e')
    simp [h, this]

theorem ofRole_ren (π κ : Nat → Nat) (role : Nat) (g : List Entry) :
    ofRole role (g.map (renEntry π κ)) = (ofRole role g).map (renEntry π κ) := by
  simp only [ofRole, List.filter_map]
  congr 1

theorem forall₂_ren (eq : Construct → Construct → Bool) (π κ : Nat → Nat) (l : List Entry)
    (hl : ∀ e ∈ l, eq e.c e.c = true) :
    List.Forall₂ (fun a b => eq a.c b.c = true) l (l.map (renEntry π κ)) := by
  induction l with
  | nil => exact .nil
  | cons e es ih => exact .cons (hl e (by simp)) (ih (fun e' he' => hl e' (by simp [he'])))

theorem groupPairs_ren (eq : Construct → Construct → Bool) (π κ : Nat → Nat) (g : List Entry)
    (hg : ∀ e ∈ g, eq e.c e.c = true) (rs : List Nat) :
    groupPairs eq g (g.map (renEntry π κ)) rs =
      some (rs.flatMap (fun role => (ofRole role g).zip ((ofRole role g).map (renEntry π κ)))) := by
  induction rs with
  | nil => rfl
  | cons role rest ih =>
    have h1 : rolePairs eq g (g.map (renEntry π κ)) role
        = some ((ofRole role g).zip ((ofRole role g).map (renEntry π κ))) := by
      unfold rolePairs
      rw [ofRole_ren]
      simp only [List.length_map, bne_self_eq_false, Bool.false_eq_true, ↓reduceIte]
      exact greedyPairs_eq_zip _ _ _ (forall₂_ren eq π κ _ (fun e he => hg e (List.mem_of_mem_filter he)))
    simp [groupPairs, h1, ih]

theorem greedy_groups_ren (eq : Construct → Construct → Bool) (π κ : Nat → Nat) (cons : List Entry)
    (hc : ∀ e ∈ cons, eq e.c e.c = true) :
    greedyPairs (groupRel eq) (groupsOf cons)
        ((groupsOf cons).map (fun g => (g.1.map π, g.2.map (renEntry π κ)))) =
      some ((groupsOf cons).zip ((groupsOf cons).map (fun g => (g.1.map π, g.2.map (renEntry π κ))))) := by
  apply greedyPairs_eq_zip
  have : ∀ l : List (List Nat × List Entry), (∀ a ∈ l, ∀ e ∈ a.2, eq e.c e.c = true) →
      List.Forall₂ (fun a b => groupRel eq a b = true) l
        (l.map (fun g => (g.1.map π, g.2.map (renEntry π κ)))) := by
    intro l hl
    induction l with
    | nil => exact .nil
    | cons a rest ih =>
      refine .cons ?_ (ih (fun a' ha' => hl a' (by simp [ha'])))
      simp [groupRel, groupPairs_ren eq π κ a.2 (hl a (by simp))]
  exact this _ (fun a ha e he => hc e (mem_groupsOf ha e he))

/-! ### the axis maps are the graph of the renaming -/

theorem axisPairs_ren (π κ : Nat → Nat) (g : List (List Nat × List Entry)) :
    (∀ p ∈ axisPairs (g.zip (g.map (fun g => (g.1.map π, g.2.map (renEntry π κ))))), p.2 = π p.1)
    ∧ (axisPairs (g.zip (g.map (fun g => (g.1.map π, g.2.map (renEntry π κ)))))).map Prod.fst = g.flatMap (·.1) := by
  have hz : ∀ (l : List Nat), (∀ p ∈ l.zip (l.map π), p.2 = π p.1) ∧ (l.zip (l.map π)).map Prod.fst = l := by
    intro l
    induction l with
    | nil => simp
    | cons x xs ihx =>
      simp only [List.map_cons, List.zip_cons_cons, List.mem_cons, forall_eq_or_imp, true_and, List.cons.injEq]
      exact ⟨ihx.1, ihx.2⟩
  induction g with
  | nil => simp [axisPairs]
  | cons a rest ih =>
    simp only [axisPairs, List.map_cons, List.zip_cons_cons, List.flatMap_cons, List.mem_append, List.map_append] at ih ⊢
    constructor
    · intro p hp
      rcases hp with hp | hp
      · exact (hz a.1).1 p hp
      · exact ih.1 p hp
    · rw [ih.2, (hz a.1).2]

/-- `m01` is (part of) the graph of `π`, `m10` of its inverse, over the same axes. -/
structure Graph (π : Nat → Nat) (m01 m10 : AMap) : Prop where
  fwd : ∀ p ∈ m01, p.2 = π p.1
  bwd : ∀ p ∈ m10, p.1 = π p.2
  dom : ∀ a, (mapGet m01 a).isSome = (mapGet m10 (π a)).isSome

theorem mapGet_mapSet' (m : AMap) (k v b : Nat) :
    (mapGet (mapSet m k v) b).isSome = ((mapGet m b).isSome || (b == k)) := by
  unfold mapSet mapGet
  by_cases hbk : b = k
  · subst hbk
    cases h : (List.lookup b m).isSome with
    | true => simp [h]
    | false =>
      simp only [h, Bool.false_eq_true, ↓reduceIte, Bool.false_or, beq_self_eq_true]
      have : List.lookup b m = none := by simpa using h
      simp [List.lookup_append, this, List.lookup]
  · have hf : (b == k) = false := by simpa using hbk
    split
    · simp [hf]
    · simp [List.lookup_append, List.lookup, hf]

theorem mem_mapSet {m : AMap} {k v : Nat} {p : Nat × Nat} (h : p ∈ mapSet m k v) : p ∈ m ∨ p = (k, v) := by
  unfold mapSet at h
  split at h
  · exact Or.inl h
  · rcases List.mem_append.mp h with h | h
    · exact Or.inl h
    · exact Or.inr (by simpa using h)

theorem Graph.get_fwd {π m01 m10} (g : Graph π m01 m10) {a b : Nat} (h : mapGet m01 a = some b) : b = π a :=
  g.fwd (a, b) (mem_of_lookup m01 a b h)

theorem Graph.get_bwd {π m01 m10} (g : Graph π m01 m10) {c a : Nat} (h : mapGet m10 c = some a) : c = π a :=
  g.bwd (c, a) (mem_of_lookup m10 c a h)

theorem axisMapLoop_graph (π : Nat → Nat) (hπ : Function.Injective π) (ps : List (Nat × Nat))
    (hps : ∀ p ∈ ps, p.2 = π p.1) (m01 m10 : AMap) (hg : Graph π m01 m10) :
    ∃ m01' m10', axisMapLoop ps (m01, m10) = some (m01', m10') ∧ Graph π m01' m10' ∧
      ∀ b, (mapGet m01' b).isSome = ((mapGet m01 b).isSome || (ps.map Prod.fst).contains b) := by
  induction ps generalizing m01 m10 with
  | nil => exact ⟨m01, m10, rfl, hg, by simp⟩
  | cons p rest ih =>
    obtain ⟨a, c⟩ := p
    have : c = π a := hps (a, c) (by simp)
    subst this
    have hstep : axisMapStep (m01, m10) (a, π a) = some (mapSet m01 a (π a), mapSet m10 (π a) a) := by
      unfold axisMapStep
      have e1 : ∀ b, mapGet m01 a = some b → b = π a := fun b h => hg.get_fwd h
      have e2 : ∀ a', mapGet m10 (π a) = some a' → a' = a := fun a' h => hπ (hg.get_bwd h).symm
      cases h : mapGet m01 a with
      | none =>
        cases h' : mapGet m10 (π a) with
        | none => simp [h, h']
        | some a' => simp [h, h', e2 a' h']
      | some b =>
        cases h' : mapGet m10 (π a) with
        | none => simp [h, h', e1 b h]
        | some a' => simp [h, h', e1 b h, e2 a' h']
    have hg' : Graph π (mapSet m01 a (π a)) (mapSet m10 (π a) a) := by
      refine ⟨?_, ?_, ?_⟩
      · intro p hp
        rcases mem_mapSet hp with hp | hp
        · exact hg.fwd p hp
        · subst hp; rfl
      · intro p hp
        rcases mem_mapSet hp with hp | hp
        · exact hg.bwd p hp
        · subst hp; rfl
      · intro b
        rw [mapGet_mapSet', mapGet_mapSet', hg.dom b]
        congr 1
        by_cases hb : b = a
        · simp [hb]
        · have : π b ≠ π a := fun e => hb (hπ e)
          simp [hb, this]
    obtain ⟨m01', m10', h1, h2, h3⟩ := ih (fun p hp => hps p (by simp [hp])) _ _ hg'
    refine ⟨m01', m10', by simp [axisMapLoop, hstep, h1], h2, ?_⟩
    intro b
    rw [h3 b, mapGet_mapSet']
    simp only [List.map_cons, List.contains_cons]
    cases (mapGet m01 b).isSome <;> cases (b == a) <;> simp

theorem Graph.nil (π : Nat → Nat) : Graph π [] [] :=
  ⟨by intro p hp; simp at hp, by intro p hp; simp at hp, by intro a; rfl⟩

/-- Everything `m10` knows is the image of something `m01` knows. -/
theorem Graph.dom_bwd {π m01 m10} (g : Graph π m01 m10) {c : Nat} (h : (mapGet m10 c).isSome = true) :
    ∃ a, c = π a ∧ (mapGet m01 a).isSome = true := by
  cases hc : mapGet m10 c with
  | none => simp [hc] at h
  | some a =>
    have := g.get_bwd hc
    exact ⟨a, this, by rw [g.dom a, ← this, hc]; rfl⟩

/-! ### cell methods under the renaming -/

theorem idxOf_map_append (π : Nat → Nat) (hπ : Function.Injective π) (P T : List Nat) (a : Nat) (h : a ∉ P) :
    ((P ++ a :: T).map π).idxOf (π a) = P.length := by
  rw [List.map_append, List.map_cons]
  have : π a ∉ P.map π := by
    intro hm
    obtain ⟨x, hx, hxe⟩ := List.mem_map.mp hm
    exact h (hπ hxe ▸ hx)
  rw [idxOf_append_cons_self _ _ _ this, List.length_map]

theorem cmOuter_ren (π : Nat → Nat) (hπ : Function.Injective π) (m01 m10 : AMap) (hg : Graph π m01 m10)
    (L : List Nat) (hL : L.Nodup)
    (hok : CMAxesOK (fun a => (mapGet m01 a).isSome) L)
    (hfix : ∀ a ∈ L, (mapGet m01 a).isSome = false → π a = a) :
    ∀ (S P : List Nat), L = P ++ S →
      cmOuter m01 m10 (L.map π) S (S.map π) (List.range P.length) = some (List.range L.length) := by
  intro S
  induction S with
  | nil => intro P h; simp [cmOuter, h]
  | cons a T ih =>
    intro P h
    have haL : a ∈ L := by rw [h]; simp
    have haP : a ∉ P := by
      intro hmem
      rw [h] at hL
      exact (List.nodup_append.mp hL).2.2 a hmem a (by simp) rfl
    have hidx : (L.map π).idxOf (π a) = P.length := by rw [h]; exact idxOf_map_append π hπ P T a haP
    have hnext := ih (P ++ [a]) (by simp [h])
    have hrange : List.range (P ++ [a]).length = List.range P.length ++ [P.length] := by
      simp [List.range_succ]
    rw [hrange] at hnext
    simp only [cmOuter, List.map_cons]
    have hinner : cmInner (mapGet m01 a).isSome (mapGet m01 a) a m10 (L.map π) (π a :: T.map π).length
        (π a :: T.map π) 0 (List.range P.length) = some (T.map π, List.range P.length ++ [P.length]) := by
      simp only [List.length_cons, cmInner, List.getElem?_cons_zero]
      cases hget : mapGet m01 a with
      | some b =>
        have hb := hg.get_fwd hget
        subst hb
        have hin1 : (mapGet m10 (π a)).isSome = true := by rw [← hg.dom a, hget]; rfl
        simp [hin1, hidx]
      | none =>
        have hfa : π a = a := hfix a haL (by simp [hget])
        have hin1 : (mapGet m10 a).isSome = false := by rw [← hfa, ← hg.dom a, hget]; rfl
        rw [hfa] at hidx
        simp only [hfa, Option.isSome_none, Bool.false_and, Bool.false_eq_true, ↓reduceIte, hin1, Bool.or_self,
          beq_self_eq_true, List.erase_cons_head, hidx]
        apply cmInner_skip
        intro j hj hlt
        have hlt' : j < T.length := by simpa using hlt
        have hpos : P.length + 1 + j < L.length := by rw [h]; simp; omega
        have hTj : L[P.length + 1 + j] = T[j] := by
          simp only [h]
          rw [List.getElem_append_right (by omega)]
          simp [show P.length + 1 + j - P.length = j + 1 by omega]
        have hPl : P.length < L.length := by rw [h]; simp
        have hLa : L[P.length] = a := by
          simp only [h]
          rw [List.getElem_append_right (by omega)]
          simp
        have hun : (mapGet m01 T[j]).isSome = false := by
          have := hok P.length (P.length + 1 + j) hPl hpos (by omega) (by simp [hLa, hget])
          simpa [hTj] using this
        have hne : T[j] ≠ a := by
          intro e
          have hnd := List.nodup_iff_injective_getElem.mp hL
          have : (⟨P.length + 1 + j, hpos⟩ : Fin L.length) = ⟨P.length, hPl⟩ := by
            apply hnd
            simp only [hTj, hLa, e]
          have := congrArg Fin.val this
          simp at this
          omega
        simp only [List.getElem_map]
        constructor
        · rw [← hg.dom]; exact hun
        · intro e
          exact hne (hπ (e.trans hfa.symm))
    rw [hinner]
    exact hnext

theorem cmPairEquals_ren {close} (hc : CloseRefl close) (π : Nat → Nat) (hπ : Function.Injective π)
    (m01 m10 : AMap) (hg : Graph π m01 m10) (cm : CellMethod)
    (h1 : CMIntervalsWF cm) (h2 : CellMethodWF cm) (h3 : cm.axes.Nodup)
    (h4 : CMAxesOK (fun a => (mapGet m01 a).isSome) cm.axes)
    (h5 : ∀ a ∈ cm.axes, (mapGet m01 a).isSome = false → π a = a) :
    cmPairEquals close m01 m10 cm (renCM π cm) = .ok true := by
  unfold cmPairEquals
  have := cmOuter_ren π hπ m01 m10 hg cm.axes h3 h4 h5 cm.axes [] rfl
  simp only [List.length_nil, List.range_zero] at this
  simp only [renCM, List.length_map, bne_self_eq_false, Bool.false_eq_true, ↓reduceIte, this, List.length_range,
    sortedIntervals_self _ _ h1]
  have : ({ axes := cm.axes, method := cm.method, quals := cm.quals, intervals := cm.intervals } : CellMethod) = cm := rfl
  rw [this, cellMethodCore_refl hc cm h2]

theorem cmListEquals_ren {close} (hc : CloseRefl close) (π : Nat → Nat) (hπ : Function.Injective π)
    (m01 m10 : AMap) (hg : Graph π m01 m10) (cms : List CellMethod)
    (h : ∀ cm ∈ cms, CMIntervalsWF cm ∧ CellMethodWF cm ∧ cm.axes.Nodup ∧
      CMAxesOK (fun a => (mapGet m01 a).isSome) cm.axes ∧
      ∀ a ∈ cm.axes, (mapGet m01 a).isSome = false → π a = a) :
    cmListEquals close m01 m10 cms (cms.map (renCM π)) = .ok true := by
  induction cms with
  | nil => rfl
  | cons cm rest ih =>
    obtain ⟨h1, h2, h3, h4, h5⟩ := h cm (by simp)
    simp only [List.map_cons, cmListEquals, cmPairEquals_ren hc π hπ m01 m10 hg cm h1 h2 h3 h4 h5]
    exact ih (fun c hc' => h c (by simp [hc']))

/-! ### the key map is the graph of the inverse key renaming -/

theorem mem_zip_map {α β} (f : α → β) (l : List α) (p : α × β) : p ∈ l.zip (l.map f) ↔ p.1 ∈ l ∧ p.2 = f p.1 := by
  induction l with
  | nil => simp
  | cons x xs ih =>
    simp only [List.map_cons, List.zip_cons_cons, List.mem_cons, ih]
    constructor
    · rintro (rfl | ⟨h1, h2⟩)
      · exact ⟨Or.inl rfl, rfl⟩
      · exact ⟨Or.inr h1, h2⟩
    · rintro ⟨h1 | h1, h2⟩
      · left; exact Prod.ext h1 (h2.trans (by rw [h1]))
      · right; exact ⟨h1, h2⟩

theorem keyMap_ren (eq : Construct → Construct → Bool) (π κ : Nat → Nat) (G : List (List Nat × List Entry))
    (hG : ∀ a ∈ G, ∀ e ∈ a.2, eq e.c e.c = true) (p : Nat × Nat) :
    p ∈ keyMap eq (G.zip (G.map (fun g => (g.1.map π, g.2.map (renEntry π κ))))) ↔
      ∃ a ∈ G, ∃ e ∈ a.2, e.c.cls ∈ roles ∧ p = (κ e.key, e.key) := by
  induction G with
  | nil => simp [keyMap]
  | cons a rest ih =>
    have ih' := ih (fun a' ha' => hG a' (by simp [ha']))
    have hcons : keyMap eq ((a :: rest).zip ((a :: rest).map (fun g => (g.1.map π, g.2.map (renEntry π κ))))) =
        keyMap eq [(a, (a.1.map π, a.2.map (renEntry π κ)))]
          ++ keyMap eq (rest.zip (rest.map (fun g => (g.1.map π, g.2.map (renEntry π κ))))) := by
      simp [keyMap]
    have hhead : keyMap eq [(a, (a.1.map π, a.2.map (renEntry π κ)))] =
        (roles.flatMap (fun role => (ofRole role a.2).zip ((ofRole role a.2).map (renEntry π κ)))).map
          (fun p => (p.2.key, p.1.key)) := by
      simp [keyMap, groupPairs_ren eq π κ a.2 (hG a (by simp))]
    rw [hcons, List.mem_append, ih', hhead]
    simp only [List.mem_map, List.mem_flatMap, mem_zip_map, List.mem_cons, exists_eq_or_imp]
    constructor
    · rintro (⟨q, ⟨role, hr, hq1, hq2⟩, rfl⟩ | h)
      · left
        have hq1' := hq1
        simp only [ofRole, List.mem_filter, beq_iff_eq] at hq1'
        exact ⟨q.1, hq1'.1, hq1'.2 ▸ hr, by simp [hq2, renEntry]⟩
      · right; exact h
    · rintro (⟨e, he, hr, rfl⟩ | h)
      · left
        exact ⟨(e, renEntry π κ e), ⟨e.c.cls, hr, by simp [ofRole, he], rfl⟩, by simp [renEntry]⟩
      · right; exact h

theorem mem_group_of_mem (cons : List Entry) (e : Entry) (he : e ∈ cons) :
    ∃ a ∈ groupsOf cons, e ∈ a.2 := by
  refine ⟨(e.axes, cons.filter (fun e' => e'.axes == e.axes)), ?_, by simp [he]⟩
  simp only [groupsOf, List.mem_map]
  exact ⟨e.axes, (mem_dedup _ _).mpr (List.mem_map_of_mem he), rfl⟩

/-- Looking up a renamed key gives the original key back. -/
theorem mapKey_keyMap_ren (eq : Construct → Construct → Bool) (π κ : Nat → Nat) (hκ : Function.Injective κ)
    (cons : List Entry) (hc : ∀ e ∈ cons, eq e.c e.c = true) (hroles : ∀ e ∈ cons, e.c.cls ∈ roles)
    (k : Nat) (hk : ∃ e ∈ cons, e.key = k) :
    mapKey (keyMap eq ((groupsOf cons).zip ((groupsOf cons).map (fun g => (g.1.map π, g.2.map (renEntry π κ))))))
      (κ k) = k := by
  have hG : ∀ a ∈ groupsOf cons, ∀ e ∈ a.2, eq e.c e.c = true := fun a ha e he => hc e (mem_groupsOf ha e he)
  obtain ⟨e, he, rfl⟩ := hk
  obtain ⟨a, ha, hea⟩ := mem_group_of_mem cons e he
  have hmem := (keyMap_ren eq π κ _ hG (κ e.key, e.key)).mpr ⟨a, ha, e, hea, hroles e he, rfl⟩
  unfold mapKey mapGet
  cases hl : List.lookup (κ e.key) (keyMap eq _) with
  | none =>
    exfalso
    have : (List.lookup (κ e.key) (keyMap eq ((groupsOf cons).zip
        ((groupsOf cons).map (fun g => (g.1.map π, g.2.map (renEntry π κ))))))).isSome = true := by
      rw [← lookup_isSome_iff_any]
      simp only [List.any_eq_true, beq_iff_eq]
      exact ⟨_, hmem, rfl⟩
    rw [hl] at this
    exact absurd this (by simp)
  | some v =>
    have hv := mem_of_lookup _ _ _ hl
    obtain ⟨a', _, e', _, _, hp⟩ := (keyMap_ren eq π κ _ hG (κ e.key, v)).mp hv
    simp only [Prod.mk.injEq] at hp
    simp only [Option.getD_some]
    rw [hp.2]
    exact (hκ hp.1).symm

/-! ### coordinate references under the renaming -/

theorem lookup_map_snd {V W} (f : V → W) (l : List (Nat × V)) (t : Nat) :
    (l.map (fun tk => (tk.1, f tk.2))).lookup t = (l.lookup t).map f := by
  induction l with
  | nil => rfl
  | cons kv rest ih =>
    obtain ⟨k, v⟩ := kv
    simp only [List.map_cons, List.lookup]
    cases h : t == k <;> simp [ih]

theorem refRel_ren {close} (hc : CloseRefl close) (κ : Nat → Nat) (K : AMap) (r : CoordRef) (hr : CoordRefWF r)
    (hK1 : ∀ k ∈ r.coords, mapKey K (κ k) = k)
    (hK2 : ∀ tk ∈ r.convAncils, ∀ k, tk.2 = some k → mapKey K (κ k) = k) :
    refRel close K r (renRef κ r) = true := by
  have h1 : (renRef κ r).coords.map (mapKey K) = r.coords := by
    simp only [renRef, List.map_map]
    conv => rhs; rw [← List.map_id r.coords]
    exact List.map_congr_left (fun a ha => hK1 a ha)
  have h2 : (renRef κ r).convAncils.map (fun tk => (tk.1, tk.2.map (mapKey K))) = r.convAncils := by
    simp only [renRef, List.map_map]
    conv => rhs; rw [← List.map_id r.convAncils]
    apply List.map_congr_left
    intro tk htk
    obtain ⟨t, v⟩ := tk
    cases v with
    | none => rfl
    | some v => simp [hK2 (t, some v) htk v rfl]
  have hcore : coordRefCore close r (renRef κ r) = true := by
    apply (coordRefCore_iff close r _ hr).mpr
    refine ⟨by simp [renRef], DictEq.refl (fun a => OptRel.refl' (ArrEq.refl hc true) a) _, ?_,
      DictEq.refl (fun a => OptRel.refl' (ArrEq.refl hc true) a) _⟩
    intro t
    simp only [renRef, lookup_map_snd]
    cases r.convAncils.lookup t with
    | none => trivial
    | some v => cases v <;> simp [OptRel]
  unfold refRel
  rw [hcore, h1, h2, setEq_self]
  simp only [Bool.and_self, Bool.true_and]
  exact (dictEq_iff (fun (a b : Option Nat) => a == b) (fun a b => a = b) (by simp) _ _ hr.2.1).mpr
    (DictEq.refl (fun _ => rfl) _)

theorem refsEqual_ren {close} (hc : CloseRefl close) (κ : Nat → Nat) (K : AMap) (rs : List CoordRef)
    (hr : ∀ r ∈ rs, CoordRefWF r ∧ (∀ k ∈ r.coords, mapKey K (κ k) = k) ∧
      (∀ tk ∈ r.convAncils, ∀ k, tk.2 = some k → mapKey K (κ k) = k)) :
    refsEqual close K rs (rs.map (renRef κ)) = true := by
  unfold refsEqual greedyMatch
  have : greedyPairs (refRel close K) rs (rs.map (renRef κ)) = some (rs.zip (rs.map (renRef κ))) := by
    apply greedyPairs_eq_zip
    induction rs with
    | nil => exact .nil
    | cons r rest ih =>
      obtain ⟨a, b, c⟩ := hr r (by simp)
      exact .cons (refRel_ren hc κ K r a b c) (ih (fun r' h' => hr r' (by simp [h'])))
  simp [this]

/-! ### assembling -/

/-- Side conditions of the renaming theorem. -/
structure RenOK (π κ : Nat → Nat) (x : Field) : Prop where
  axesInj : Function.Injective π
  keysInj : Function.Injective κ
  /-- every construct with data is of one of the seven construct types -/
  roles : ∀ e ∈ x.cons, e.c.cls ∈ roles
  /-- (excluded, open finding) a cell-method axis that no construct spans keeps its key -/
  cmFix : ∀ m ∈ x.cms, ∀ a ∈ m.2.axes, spanned x a = false → π a = a
  /-- coordinate references refer to constructs of the field -/
  refKeys : ∀ r ∈ x.refs, (∀ k ∈ r.2.coords, ∃ e ∈ x.cons, e.key = k) ∧
      (∀ tk ∈ r.2.convAncils, ∀ k, tk.2 = some k → ∃ e ∈ x.cons, e.key = k)

theorem constructsEquals_ren (o : Opts) (hc : CloseRefl o.close) (x : Field) (hx : FieldWF x)
    (hcm : ∀ m ∈ x.cms, CMAxesOK (spanned x) m.2.axes) (π κ ρ : Nat → Nat) (hr : RenOK π κ x) :
    constructsEquals o x (renField π κ ρ x) = .ok true := by
  have hcl : CloseRefl o.inner.close := hc
  have heq : ∀ e ∈ x.cons, constructCore o.inner e.c e.c = true :=
    fun e he => constructCore_refl hcl e.c (hx.cons e he)
  obtain ⟨m01, m10, hloop, hgraph, hdom⟩ := axisMapLoop_graph π hr.axesInj
    (axisPairs ((groupsOf x.cons).zip ((groupsOf x.cons).map (fun g => (g.1.map π, g.2.map (renEntry π κ))))))
    (axisPairs_ren π κ _).1 [] [] (Graph.nil π)
  have hsp : (fun a => (mapGet m01 a).isSome) = spanned x := by
    funext a
    rw [hdom a, (axisPairs_ren π κ _).2, groups_axes_contains]
    simp [mapGet, spanned]
  have hsizes : domainAxesEqual x.axes (renField π κ ρ x).axes = true := by
    have : (renField π κ ρ x).axes.map (·.2) = x.axes.map (·.2) := by
      simp only [renField, List.map_map]
      exact List.map_congr_left (fun a _ => rfl)
    simp [domainAxesEqual, this]
  unfold constructsEquals
  simp only [hsizes, Bool.not_true, Bool.false_eq_true, ↓reduceIte]
  have hcons : (renField π κ ρ x).cons = x.cons.map (renEntry π κ) := rfl
  rw [hcons, groupsOf_ren π κ hr.axesInj]
  simp only [List.length_map, bne_self_eq_false, Bool.false_eq_true, ↓reduceIte,
    greedy_groups_ren _ π κ x.cons heq, hloop]
  have hcms : cellMethodsEqual o.close m01 m10 (x.cms.map (·.2)) ((renField π κ ρ x).cms.map (·.2)) = .ok true := by
    have : (renField π κ ρ x).cms.map (·.2) = (x.cms.map (·.2)).map (renCM π) := by
      simp [renField, List.map_map, Function.comp]
    rw [this]
    unfold cellMethodsEqual
    simp only [List.length_map, bne_self_eq_false, Bool.false_eq_true, ↓reduceIte]
    apply cmListEquals_ren hc π hr.axesInj m01 m10 hgraph
    intro cm hcm'
    obtain ⟨p, hp, rfl⟩ := List.mem_map.mp hcm'
    obtain ⟨h1, h2, h3⟩ := hx.cms p hp
    refine ⟨h1, h2, h3, hsp ▸ hcm p hp, ?_⟩
    intro a ha hun
    apply hr.cmFix p hp a ha
    rw [← hsp]; exact hun
  rw [hcms]
  simp only
  have hrefs : (renField π κ ρ x).refs.map (·.2) = (x.refs.map (·.2)).map (renRef κ) := by
    simp [renField, List.map_map, Function.comp]
  rw [hrefs, refsEqual_ren hc κ]
  intro r hr'
  obtain ⟨p, hp, rfl⟩ := List.mem_map.mp hr'
  obtain ⟨k1, k2⟩ := hr.refKeys p hp
  refine ⟨hx.refs p hp, ?_, ?_⟩
  · intro k hk
    exact mapKey_keyMap_ren _ π κ hr.keysInj x.cons heq hr.roles k (k1 k hk)
  · intro tk htk k hk
    exact mapKey_keyMap_ren _ π κ hr.keysInj x.cons heq hr.roles k (k2 tk htk k hk)

theorem fieldEquals_ren (o : Opts) (hc : CloseRefl o.close) (x : Field) (hx : FieldWF x)
    (hcm : ∀ m ∈ x.cms, CMAxesOK (spanned x) m.2.axes) (π κ ρ : Nat → Nat) (hr : RenOK π κ x) :
    fieldEquals o x (renField π κ ρ x) = .ok true := by
  unfold fieldEquals
  have h1 : (renField π κ ρ x).cls = x.cls := rfl
  have h2 : (renField π κ ρ x).props = x.props := rfl
  have h3 : (renField π κ ρ x).data = x.data := rfl
  simp only [h1, h2, h3, bne_self_eq_false, Bool.false_eq_true, ↓reduceIte, propsEquals_refl hc _ _ hx.props,
    Bool.not_true, optDataEquals_refl hc]
  exact constructsEquals_ren o hc x hx hcm π κ ρ hr

end Cfdm.Equality
