import Cfdm.Model.FieldSubspace
import Cfdm.Lemmas.IndexBackend
import Cfdm.Lemmas.Indexing
/- Helper lemmas for the field part of C03 (`Field.__getitem__` and the construct `__getitem__`s). -/
namespace Cfdm.FieldSubspace
open Cfdm.PySlice Cfdm.Arr Cfdm.Indexing Cfdm.IndexBackend

theorem codeOrder_nodup (sels : List Sel) : (codeOrder sels).Nodup := by
  unfold codeOrder
  rw [List.nodup_append]
  refine ⟨List.Nodup.filter _ List.nodup_range, List.Nodup.filter _ List.nodup_range, ?_⟩
  intro a ha b hb hab
  subst hab
  simp only [List.mem_filter] at ha hb
  have := ha.2; have := hb.2
  simp_all

theorem mem_codeOrder (sels : List Sel) (k : Nat) : k ∈ codeOrder sels ↔ k < sels.length := by
  unfold codeOrder
  simp only [List.mem_append, List.mem_filter, List.mem_range]
  constructor
  · rintro (h | h) <;> exact h.1
  · intro h
    cases hl : isList (sels.getD k full)
    · right; simp [h]
    · left; simp [h]

/-- One axis at a time, in any duplicate-free order covering every axis = the orthogonal take
(the statement of `C03_getitem_order_irrelevant`, on valid indices). -/
theorem seqTake_eqvIn {α} (A : Arr α) (ps : List (List Nat)) (order : List Nat)
    (hps : ps.length = A.shape.length) (hnd : order.Nodup)
    (hcover : ∀ k, k ∈ order ↔ k < ps.length) :
    EqvIn (seqTake A ps order) (takeAll A ps) := by
  have h := seqTake_general A ps hps order [] A
    (by
      constructor
      · simp only [takeSome, maskPs]
        apply List.ext_getElem?
        intro i
        by_cases hi : i < A.shape.length
        · simp [hps, hi, ext]
        · simp [hps, hi]
      · intro idx hidx
        simp only [takeSome, maskPs]
        congr 1
        apply List.ext_getElem?
        intro i
        by_cases hi : i < idx.length
        · simp [hps, hi, hidx ▸ hi, pick]
        · simp [hps, hi, hidx ▸ hi])
    (by intro k _; simp) hnd
  have hm : maskPs ps (order.reverse ++ []) = ps.map some := by
    apply List.ext_getElem?
    intro i
    by_cases hi : i < ps.length
    · have : i ∈ order := (hcover i).mpr hi
      simp [maskPs, hi, this, List.getD_eq_getElem?_getD]
    · simp [maskPs, hi]
  rw [hm] at h
  refine ⟨h.1, fun idx hi => h.2 idx ?_⟩
  have := hi.1
  rw [this]
  have h1 := h.1
  unfold seqTake
  rw [h1]
  simp [takeSome, hps]

/-- `Data.__getitem__` returns the orthogonal per-axis take for the parsed tuple. -/
theorem getData_ok {α} (A : Arr α) (ix : List RawIx) (B : Arr α) (sels : List Sel)
    (h : getData A ix = .ok (B, sels)) :
    parseIndices A.shape ix = .ok sels ∧ selsWf A.shape sels = true ∧
      EqvIn B (takeAll A (positionsNat A.shape sels)) := by
  unfold getData at h
  split at h
  · cases h
  · rename_i sels' hp
    split at h
    · rename_i hwf
      simp only [Except.ok.injEq, Prod.mk.injEq] at h
      obtain ⟨hB, hs⟩ := h
      subst hs
      refine ⟨hp, hwf, ?_⟩
      rw [← hB]
      have hlen : sels'.length = A.shape.length := ((selsWf_iff _ _).mp hwf).1
      have hpl : (positionsNat A.shape sels').length = A.shape.length := by simp [positionsNat, hlen]
      exact seqTake_eqvIn A _ _ hpl (codeOrder_nodup _) (by intro k; rw [mem_codeOrder, hpl, hlen])
    · cases h

/-- The form `_parse_indices` leaves an index in: never a one-element list. -/
def parsedForm : Sel → Bool
  | .list [_] => false
  | _ => true

theorem mapM_id_ok {β} (l : List β) : (l.map (Except.ok (ε := String))).mapM id = .ok l := by
  induction l with
  | nil => rfl
  | cons x xs ih =>
    simp only [List.map_cons, List.mapM_cons, id, ih]
    rfl

theorem mapM_id_inv {β} (l : List (Except String β)) (r : List β) (h : l.mapM id = .ok r) :
    l = r.map .ok := by
  induction l generalizing r with
  | nil =>
    simp only [List.mapM_nil] at h
    cases h; rfl
  | cons x xs ih =>
    simp only [List.mapM_cons, id] at h
    cases x with
    | error e => cases h
    | ok y =>
      cases hx : xs.mapM id with
      | error e => rw [hx] at h; cases h
      | ok ys =>
        rw [hx] at h
        cases h
        rw [ih ys hx]
        rfl

theorem expandEllipsis_toRaw (sels : List Sel) (n len : Nat) :
    expandEllipsis (sels.map toRaw) n len = sels.map toRaw := by
  induction sels generalizing n len with
  | nil => rfl
  | cons s ss ih =>
    cases s <;> simp [toRaw, expandEllipsis, ih]

theorem parseOne_toRaw (n : Nat) (s : Sel) (h : parsedForm s = true) : parseOne n (toRaw s) = .ok s := by
  cases s with
  | slice a b c => rfl
  | list l =>
    match l, h with
    | [], _ => rfl
    | [_], h => simp [parsedForm] at h
    | _ :: _ :: _, _ => rfl

theorem parseOne_parsedForm (n : Nat) (x : RawIx) (s : Sel) (h : parseOne n x = .ok s) : parsedForm s = true := by
  cases x with
  | int i => simp only [parseOne, Except.ok.injEq] at h; subst h; rfl
  | slice a b c => simp only [parseOne, Except.ok.injEq] at h; subst h; rfl
  | ellipsis => simp [parseOne] at h
  | bool b =>
    simp only [parseOne] at h
    split at h
    · cases h
    · split at h
      · simp only [Except.ok.injEq] at h; subst h; rfl
      · rename_i l hl
        simp only [Except.ok.injEq] at h; subst h
        generalize boolPositions b = q at hl
        match q, hl with
        | [], _ => rfl
        | [j], hl => exact absurd rfl (hl j)
        | _ :: _ :: _, _ => rfl
  | list l =>
    match l, h with
    | [], h => simp only [parseOne, Except.ok.injEq] at h; subst h; rfl
    | [i], h => simp only [parseOne, Except.ok.injEq] at h; subst h; rfl
    | _ :: _ :: _, h => simp only [parseOne, Except.ok.injEq] at h; subst h; rfl

/-- What `_parse_indices` returns is in parsed form. -/
theorem parse_parsedForm (shape : List Nat) (ix : List RawIx) (sels : List Sel)
    (h : parseIndices shape ix = .ok sels) : ∀ s ∈ sels, parsedForm s = true := by
  unfold parseIndices at h
  simp only at h
  split at h
  · cases h
  · split at h
    · cases h
    · have := mapM_id_inv _ _ h
      intro s hs
      have hm : Except.ok s ∈ sels.map (Except.ok (ε := String)) := List.mem_map.mpr ⟨s, hs, rfl⟩
      rw [← this, List.mem_iff_getElem] at hm
      obtain ⟨k, hk, hk2⟩ := hm
      simp only [List.getElem_zipWith] at hk2
      exact parseOne_parsedForm _ _ _ hk2

/-- Parsing an already parsed tuple against an array of the same or higher rank: the tuple comes
back unchanged, with `slice(None)` appended for the trailing axes. -/
theorem parse_reparse (shape : List Nat) (sels : List Sel) (hlen : sels.length ≤ shape.length)
    (hne : shape.length = 0 → sels = [])
    (hpf : ∀ s ∈ sels, parsedForm s = true) :
    parseIndices shape (sels.map toRaw) =
      .ok (sels ++ List.replicate (shape.length - sels.length) full) := by
  unfold parseIndices
  simp only [expandEllipsis_toRaw, List.length_map]
  have h1 : ¬ ((shape.length != 0 && decide (sels.length > shape.length)) = true) := by
    simp; omega
  have h2 : ¬ ((shape.length == 0 && !(sels.map toRaw).isEmpty) = true) := by
    simp only [Bool.and_eq_true, beq_iff_eq, Bool.not_eq_true', not_and]
    intro h0
    rw [hne h0]; simp
  rw [if_neg h1, if_neg h2]
  have hz : List.zipWith (fun x n => parseOne n x)
      (sels.map toRaw ++ List.replicate (shape.length - sels.length) (RawIx.slice none none none)) shape =
      (sels ++ List.replicate (shape.length - sels.length) full).map .ok := by
    apply List.ext_getElem?
    intro k
    simp only [List.getElem?_zipWith, List.getElem?_map]
    by_cases hk : k < shape.length
    · rw [List.getElem?_eq_getElem hk]
      by_cases hk2 : k < sels.length
      · rw [List.getElem?_append_left (by simpa using hk2), List.getElem?_append_left hk2]
        simp only [List.getElem?_map, List.getElem?_eq_getElem hk2, Option.map_some]
        rw [parseOne_toRaw _ _ (hpf _ (List.getElem_mem hk2))]
      · rw [List.getElem?_append_right (by simpa using Nat.le_of_not_lt hk2),
          List.getElem?_append_right (Nat.le_of_not_lt hk2)]
        simp only [List.length_map, List.getElem?_replicate]
        have : k - sels.length < shape.length - sels.length := by omega
        simp [this, parseOne, full]
    · have : ¬ k < (sels ++ List.replicate (shape.length - sels.length) full).length := by
        simp; omega
      simp [List.getElem?_eq_none (Nat.le_of_not_lt hk), List.getElem?_eq_none (Nat.le_of_not_lt this)]
  rw [hz]
  exact mapM_id_ok _

theorem positionsNat_append (sh1 sh2 : List Nat) (s1 s2 : List Sel) (h : s1.length = sh1.length) :
    positionsNat (sh1 ++ sh2) (s1 ++ s2) = positionsNat sh1 s1 ++ positionsNat sh2 s2 := by
  unfold positionsNat
  exact List.zipWith_append h

/-- `PropertiesData.__getitem__` on an already parsed tuple (possibly shorter than the rank). -/
theorem getPD_ok {α} (A : Arr α) (sels : List Sel) (B : Arr α) (hlen : sels.length ≤ A.shape.length)
    (hne : A.shape.length = 0 → sels = []) (hpf : ∀ s ∈ sels, parsedForm s = true)
    (h : getPD A (sels.map toRaw) = .ok B) :
    selsWf A.shape (sels ++ List.replicate (A.shape.length - sels.length) full) = true ∧
    EqvIn B (takeAll A (positionsNat A.shape (sels ++ List.replicate (A.shape.length - sels.length) full))) ∧
    B.shape.contains 0 = false := by
  unfold getPD at h
  split at h
  · cases h
  · rename_i B' sels' hg
    split at h
    · cases h
    · rename_i h0
      simp only [Except.ok.injEq] at h
      subst h
      obtain ⟨hp, hwf, he⟩ := getData_ok A _ _ _ hg
      rw [parse_reparse A.shape sels hlen hne hpf] at hp
      simp only [Except.ok.injEq] at hp
      subst hp
      exact ⟨hwf, he, by simpa using h0⟩

theorem dice_pos (a : String) (n : Nat) :
    ∀ (dataAxes : List String) (sels : List Sel) (dshape : List Nat),
      sels.length = dataAxes.length → dshape.length = dataAxes.length →
      (∀ k (h1 : k < dataAxes.length) (h2 : k < dshape.length), dataAxes[k] = a → dshape[k] = n) →
      posNat n (match indexIn a dataAxes with | some k => sels.getD k full | none => full) =
        ((dataAxes.zip (positionsNat dshape sels)).lookup a).getD (List.range n) := by
  intro dataAxes
  induction dataAxes with
  | nil => intro sels dshape _ _ _; simp only [indexIn, List.zip_nil_left, List.lookup, Option.getD_none]; exact posNat_full n
  | cons x xs ih =>
    intro sels dshape hs hd hsz
    match sels, dshape, hs, hd with
    | s :: ss, d :: ds, hs, hd =>
      simp only [List.length_cons, Nat.add_right_cancel_iff] at hs hd
      by_cases hxa : x = a
      · have hdn : d = n := hsz 0 (by simp) (by simp) (by simpa using hxa)
        subst hxa
        simp [indexIn, positionsNat, hdn]
      · have hax : (a == x) = false := by
          simp only [beq_eq_false_iff_ne, ne_eq]; exact fun h => hxa h.symm
        have ih' := ih ss ds hs hd (fun k h1 h2 hk => by
          have := hsz (k + 1) (by simpa using h1) (by simpa using h2) (by simpa using hk)
          simpa using this)
        simp only [indexIn, hxa, if_false, positionsNat, List.zipWith_cons_cons, List.zip_cons_cons,
          List.lookup, hax]
        rw [← positionsNat, ← ih']
        cases indexIn a xs <;> simp

/-- The dice, construct axis by construct axis, selects exactly the positions the specification
names. -/
theorem dice_positions (axes : List (String × Nat)) (dataAxes : List String) (sels : List Sel)
    (caxes : List String)
    (hs : sels.length = dataAxes.length) :
    positionsNat (caxes.map (sizeOf axes)) (diceOf dataAxes sels caxes) =
      specPositions dataAxes (positionsNat (dataAxes.map (sizeOf axes)) sels) caxes (caxes.map (sizeOf axes)) := by
  unfold positionsNat specPositions diceOf axisPositions
  apply List.ext_getElem?
  intro j
  by_cases hj : j < caxes.length
  · simp only [List.getElem?_zipWith, List.getElem?_map, List.getElem?_eq_getElem hj, Option.map_some]
    congr 1
    have := dice_pos caxes[j] (sizeOf axes caxes[j]) dataAxes sels (dataAxes.map (sizeOf axes)) hs (by simp)
      (by intro k h1 h2 hk; simp [hk])
    exact this
  · simp [hj]

theorem boundsIndices_eq (cshape : List Nat) (nv : Nat) (dice : List Sel) (hlen : dice.length = cshape.length) :
    boundsIndices (cshape ++ [nv]) (dice ++ [full]) =
      dice ++ [if vertexReversed cshape nv dice then rev else full] := by
  match cshape, dice, hlen with
  | [], [], _ => simp [boundsIndices, vertexReversed, full]
  | [n], [s], _ =>
    cases s with
    | slice a b c =>
      cases c with
      | none => simp [boundsIndices, vertexReversed, boundsReversed, normSel]
      | some st =>
        by_cases hst : st < 0
        · simp [boundsIndices, vertexReversed, boundsReversed, normSel, hst, setLast]
        · simp [boundsIndices, vertexReversed, boundsReversed, normSel, hst]
    | list l =>
      simp only [boundsIndices, List.cons_append, List.nil_append, List.length_cons, List.length_nil,
        List.head?_cons, List.foldl_cons, List.foldl_nil, Nat.one_mul, List.headD_cons,
        vertexReversed, normSel, boundsReversed, List.head?_map, List.getLast?_map]
      by_cases hsz : 1 < n * nv
      · simp only [hsz, if_true, decide_true, Bool.true_and]
        cases hh : l.head? with
        | none => simp
        | some a =>
          cases hl : l.getLast? with
          | none => simp
          | some b =>
            simp only [Option.map_some]
            by_cases hlt : norm n b < norm n a
            · simp [hlt, setLast]
            · simp [hlt]
      · simp [hsz]
  | _ :: _ :: _, _ :: _ :: _, _ =>
    simp [boundsIndices, vertexReversed]

theorem parsedForm_full : parsedForm full = true := rfl
theorem parsedForm_rev : parsedForm rev = true := rfl


/-- Indexing a trailing-axis companion (bounds, interior ring) of a construct with the construct's
indices followed by `x` on the trailing axis. -/
theorem getPD_trailing {α} (b : Arr α) (cshape : List Nat) (m : Nat) (dice : List Sel) (x : Sel) (b' : Arr α)
    (hb : b.shape = cshape ++ [m]) (hlen : dice.length = cshape.length)
    (hpf : ∀ s ∈ dice, parsedForm s = true) (hx : parsedForm x = true)
    (h : getPD b ((dice ++ [x]).map toRaw) = .ok b') :
    EqvIn b' (takeAll b (positionsNat cshape dice ++ [posNat m x])) := by
  have hl : (dice ++ [x]).length = b.shape.length := by simp [hb, hlen]
  obtain ⟨_, he, _⟩ := getPD_ok b (dice ++ [x]) b' (by omega) (by intro h0; simp [hb] at h0)
    (by intro s hs; simp only [List.mem_append, List.mem_singleton] at hs
        rcases hs with hs | rfl
        · exact hpf s hs
        · exact hx) h
  rw [hl] at he
  simp only [Nat.sub_self, List.replicate_zero, List.append_nil] at he
  rw [hb, positionsNat_append _ _ _ _ hlen] at he
  simpa [positionsNat] using he

theorem positionsNat_fulls (tr : List Nat) :
    positionsNat tr (List.replicate tr.length full) = tr.map List.range := by
  induction tr with
  | nil => rfl
  | cons n ns ih =>
    simp only [List.length_cons, List.replicate_succ, positionsNat, List.zipWith_cons_cons, List.map_cons]
    rw [← positionsNat, ih]
    congr 1
    exact posNat_full n

/-- The same with every trailing axis whole. -/
theorem getPD_trailing_full {α} (b : Arr α) (cshape tr : List Nat) (dice : List Sel) (b' : Arr α)
    (hb : b.shape = cshape ++ tr) (hlen : dice.length = cshape.length)
    (hpf : ∀ s ∈ dice, parsedForm s = true)
    (h : getPD b ((dice ++ List.replicate tr.length full).map toRaw) = .ok b') :
    EqvIn b' (takeAll b (positionsNat cshape dice ++ tr.map List.range)) := by
  have hl : (dice ++ List.replicate tr.length full).length = b.shape.length := by simp [hb, hlen]
  obtain ⟨_, he, _⟩ := getPD_ok b (dice ++ List.replicate tr.length full) b' (by omega)
    (by intro h0
        rw [hb] at h0
        simp only [List.length_append] at h0
        have h1 : tr.length = 0 := by omega
        have h2 : dice.length = 0 := by omega
        rw [List.eq_nil_of_length_eq_zero h2, h1]; rfl)
    (by intro s hs; simp only [List.mem_append, List.mem_replicate] at hs
        rcases hs with hs | ⟨_, rfl⟩
        · exact hpf s hs
        · rfl) h
  rw [hl] at he
  simp only [Nat.sub_self, List.replicate_zero, List.append_nil] at he
  rw [hb, positionsNat_append _ _ _ _ hlen, positionsNat_fulls] at he
  exact he

/-- Bounds with two or more trailing axes: no reversal rule applies. -/
theorem boundsIndices_multi (cshape tr : List Nat) (dice : List Sel) (hlen : dice.length = cshape.length)
    (htr : 2 ≤ tr.length) :
    boundsIndices (cshape ++ tr) (dice ++ List.replicate tr.length full) =
      dice ++ List.replicate tr.length full := by
  match cshape, dice, hlen with
  | [], [], _ =>
    match tr, htr with
    | [_, _], _ => simp [boundsIndices, full]
    | _ :: _ :: _ :: _, _ => simp [boundsIndices]
  | _ :: _, _ :: _, _ =>
    match tr, htr with
    | _ :: _ :: _, _ => simp [boundsIndices]; omega

theorem getConstruct_ok {α} (c c' : Construct α) (dice : List Sel)
    (hlen : dice.length = c.data.shape.length)
    (hpf : ∀ s ∈ dice, parsedForm s = true)
    (h : getConstruct c (dice.map toRaw) = .ok c') :
    c'.key = c.key ∧ c'.axes = c.axes ∧
    EqvIn c'.data (takeAll c.data (positionsNat c.data.shape dice)) ∧
    c'.data.shape.contains 0 = false ∧
    (∀ r np, c.ring = some r → r.shape = c.data.shape ++ [np] →
      ∃ r', c'.ring = some r' ∧
        EqvIn r' (takeAll r (positionsNat c.data.shape dice ++ [List.range np]))) ∧
    (c.ring = none → c'.ring = none) ∧
    (∀ b nv, c.bounds = some b → b.shape = c.data.shape ++ [nv] →
      ∃ b', c'.bounds = some b' ∧
        EqvIn b' (takeAll b (positionsNat c.data.shape dice ++
          [vertexOrder (vertexReversed c.data.shape nv dice) nv]))) ∧
    (∀ b tr, c.bounds = some b → b.shape = c.data.shape ++ tr → 2 ≤ tr.length →
      ∃ b', c'.bounds = some b' ∧
        EqvIn b' (takeAll b (positionsNat c.data.shape dice ++ tr.map List.range))) ∧
    (c.bounds = none → c'.bounds = none) := by
  unfold getConstruct at h
  split at h
  · cases h
  · rename_i d hd
    split at h
    · cases h
    · rename_i ring hring
      split at h
      · cases h
      · rename_i bounds hbounds
        simp only [Except.ok.injEq] at h
        subst h
        obtain ⟨_, hde, hd0⟩ := getPD_ok c.data dice d (by omega)
          (by intro h0; exact List.eq_nil_of_length_eq_zero (by omega)) hpf hd
        simp only [hlen, Nat.sub_self, List.replicate_zero, List.append_nil] at hde
        refine ⟨rfl, rfl, hde, hd0, ?_, ?_, ?_, ?_, ?_⟩
        · intro r np hr hrs
          rw [hr] at hring
          simp only [getOpt] at hring
          split at hring
          · cases hring
          · rename_i r' hr'
            simp only [Except.ok.injEq] at hring
            refine ⟨r', hring.symm, ?_⟩
            -- the ring is indexed with the construct's own tuple: the trailing axis is whole
            have h2 : getPD r (dice.map toRaw) = .ok r' := hr'
            obtain ⟨_, he, _⟩ := getPD_ok r dice r' (by simp [hrs, hlen])
              (by intro h0; simp [hrs] at h0) hpf h2
            have hk : r.shape.length - dice.length = 1 := by simp [hrs, hlen]
            rw [hk] at he
            simp only [List.replicate_one] at he
            rw [hrs, positionsNat_append _ _ _ _ hlen] at he
            simpa [positionsNat, posNat_full, full] using he
        · intro hr
          rw [hr] at hring
          simp only [getOpt, Except.ok.injEq] at hring
          exact hring.symm
        · intro b nv hb hbs
          rw [hb] at hbounds
          simp only [getOpt] at hbounds
          split at hbounds
          · cases hbounds
          · rename_i b' hb'
            simp only [Except.ok.injEq] at hbounds
            refine ⟨b', hbounds.symm, ?_⟩
            have hparse := parse_reparse b.shape dice (by simp [hbs, hlen]) (by intro h0; simp [hbs] at h0) hpf
            have hk : b.shape.length - dice.length = 1 := by simp [hbs, hlen]
            rw [hk] at hparse
            simp only [List.replicate_one] at hparse
            rw [hparse] at hb'
            simp only at hb'
            rw [hbs, boundsIndices_eq _ _ _ hlen] at hb'
            have := getPD_trailing b c.data.shape nv dice
              (if vertexReversed c.data.shape nv dice then rev else full) b' hbs hlen hpf
              (by split <;> rfl) hb'
            convert this using 3
            unfold vertexOrder
            split
            · simp [posNat_revslice, rev]
            · simp [posNat_full, full]
        · intro b tr hb hbs htr
          rw [hb] at hbounds
          simp only [getOpt] at hbounds
          split at hbounds
          · cases hbounds
          · rename_i b' hb'
            simp only [Except.ok.injEq] at hbounds
            refine ⟨b', hbounds.symm, ?_⟩
            have hparse := parse_reparse b.shape dice (by simp [hbs, hlen]) (by intro h0; rw [hbs] at h0; simp only [List.length_append] at h0; omega) hpf
            have hk : b.shape.length - dice.length = tr.length := by simp [hbs, hlen]
            rw [hk] at hparse
            rw [hparse] at hb'
            simp only at hb'
            rw [hbs, boundsIndices_multi _ _ _ hlen htr] at hb'
            exact getPD_trailing_full b c.data.shape tr dice b' hbs hlen hpf hb'
        · intro hb
          rw [hb] at hbounds
          simp only [getOpt, Except.ok.injEq] at hbounds
          exact hbounds.symm

theorem mapE_ok {β γ} (f : β → Except String γ) (l : List β) (r : List γ) (h : mapE f l = .ok r) :
    r.length = l.length ∧ ∀ i (h1 : i < l.length) (h2 : i < r.length), f l[i] = .ok r[i] := by
  induction l generalizing r with
  | nil =>
    simp only [mapE, Except.ok.injEq] at h
    subst h
    exact ⟨rfl, fun i h1 => by simp at h1⟩
  | cons x xs ih =>
    simp only [mapE] at h
    split at h
    · cases h
    · rename_i y hy
      split at h
      · cases h
      · rename_i ys hys
        simp only [Except.ok.injEq] at h
        subst h
        obtain ⟨hl, hi⟩ := ih ys hys
        refine ⟨by simp [hl], ?_⟩
        intro i h1 h2
        cases i with
        | zero => simpa using hy
        | succ i => simpa using hi i (by simpa using h1) (by simpa using h2)

theorem setSize_keys (ax : List (String × Nat)) (k : String) (m : Nat) :
    (setSize ax k m).map Prod.fst = ax.map Prod.fst := by
  simp only [setSize, List.map_map]
  apply List.map_congr_left
  intro kn _
  simp only [Function.comp]
  split <;> rfl

theorem sizeOf_setSize_same (ax : List (String × Nat)) (k : String) (m : Nat) (hk : k ∈ ax.map Prod.fst) :
    sizeOf (setSize ax k m) k = m := by
  induction ax with
  | nil => simp at hk
  | cons kn rest ih =>
    simp only [sizeOf, setSize, List.map_cons, List.lookup] at *
    by_cases h : kn.1 = k
    · simp [h]
    · have hne : (k == kn.1) = false := by simp only [beq_eq_false_iff_ne, ne_eq]; exact fun e => h e.symm
      simp only [h, if_false, hne]
      simp only [List.mem_cons] at hk
      rcases hk with hk | hk
      · exact absurd hk.symm h
      · exact ih hk

theorem sizeOf_setSize_other (ax : List (String × Nat)) (k a : String) (m : Nat) (h : a ≠ k) :
    sizeOf (setSize ax k m) a = sizeOf ax a := by
  induction ax with
  | nil => rfl
  | cons kn rest ih =>
    simp only [sizeOf, setSize, List.map_cons, List.lookup] at *
    by_cases h1 : kn.1 = k
    · have hne : (a == kn.1) = false := by simp only [beq_eq_false_iff_ne, ne_eq]; rw [h1]; exact h
      simp only [h1, if_true]
      rw [← h1, hne]
      simp only
      rw [h1]
      exact ih
    · simp only [h1, if_false]
      cases hb : a == kn.1
      · exact ih
      · rfl

theorem lookup_zip_none {β} (a : String) (l : List String) (P : List β) (h : a ∉ l) :
    (l.zip P).lookup a = none := by
  induction l generalizing P with
  | nil => simp
  | cons x xs ih =>
    cases P with
    | nil => simp
    | cons p ps =>
      simp only [List.mem_cons, not_or] at h
      have hne : (a == x) = false := by simp only [beq_eq_false_iff_ne, ne_eq]; exact h.1
      simp only [List.zip_cons_cons, List.lookup, hne]
      exact ih ps h.2

/-- `for key, size in zip(data_axes, new_data.shape): domain_axis.set_size(size)`. -/
theorem resize_sizeOf (a : String) :
    ∀ (das : List String) (ls : List Nat) (ax : List (String × Nat)), das.Nodup →
      a ∈ ax.map Prod.fst →
      sizeOf ((das.zip ls).foldl (fun ax ks => setSize ax ks.1 ks.2) ax) a =
        ((das.zip ls).lookup a).getD (sizeOf ax a) := by
  intro das
  induction das with
  | nil => intro ls ax _ _; simp
  | cons d ds ih =>
    intro ls ax hnd ha
    cases ls with
    | nil => simp
    | cons l lt =>
      have hnd' := List.nodup_cons.mp hnd
      simp only [List.zip_cons_cons, List.foldl_cons]
      rw [ih lt _ hnd'.2 (by rw [setSize_keys]; exact ha)]
      by_cases had : a = d
      · subst had
        rw [lookup_zip_none a ds lt hnd'.1]
        simp [List.lookup, sizeOf_setSize_same ax a l ha]
      · have hne : (a == d) = false := by simp only [beq_eq_false_iff_ne, ne_eq]; exact had
        simp only [List.lookup, hne]
        rw [sizeOf_setSize_other ax d a l had]

theorem lookup_zip_map_length (a : String) (l : List String) (P : List (List Nat)) :
    (l.zip (P.map List.length)).lookup a = ((l.zip P).lookup a).map List.length := by
  induction l generalizing P with
  | nil => simp
  | cons x xs ih =>
    cases P with
    | nil => simp
    | cons p ps =>
      simp only [List.map_cons, List.zip_cons_cons, List.lookup]
      cases a == x
      · exact ih ps
      · rfl

theorem takeAll_shape' {α} (A : Arr α) (ps : List (List Nat)) (h : ps.length = A.shape.length) :
    (takeAll A ps).shape = ps.map List.length := takeAll_shape A ps h

/-- Taking every position on every axis changes nothing. -/
theorem takeAll_ranges {α} (A : Arr α) : EqvIn A (takeAll A (A.shape.map List.range)) := by
  constructor
  · rw [takeAll_shape A _ (by simp)]
    simp [Function.comp_def]
  · intro idx hidx
    simp only [takeAll, takeSome]
    congr 1
    apply List.ext_getElem?
    intro k
    by_cases hk : k < idx.length
    · have hk2 : k < A.shape.length := by rw [← hidx.1]; exact hk
      have hb := hidx.2 k hk hk2
      simp only [List.getElem?_zipWith, List.getElem?_map, List.getElem?_eq_getElem hk,
        List.getElem?_eq_getElem hk2, Option.map_some, pick]
      simp [List.getD_eq_getElem?_getD, List.getElem?_range hb]
    · simp [hk]

theorem diceOf_parsedForm (dataAxes : List String) (sels : List Sel) (caxes : List String)
    (hpf : ∀ s ∈ sels, parsedForm s = true) : ∀ s ∈ diceOf dataAxes sels caxes, parsedForm s = true := by
  intro s hs
  simp only [diceOf, List.mem_map] at hs
  obtain ⟨a, _, rfl⟩ := hs
  split
  · rename_i k _
    rw [List.getD_eq_getElem?_getD]
    cases hk : sels[k]? with
    | none => rfl
    | some t => exact hpf t (List.mem_of_getElem? hk)
  · rfl

theorem subspaceField_ok {α} (f g : Field α) (ix : List RawIx) (hwf : WF f)
    (h : subspaceField f ix = .ok g) :
    ∃ sels, parseIndices f.data.shape ix = .ok sels ∧ selsWf f.data.shape sels = true ∧
      g.dataAxes = f.dataAxes ∧
      EqvIn g.data (takeAll f.data (positionsNat f.data.shape sels)) ∧
      (∀ p ∈ positionsNat f.data.shape sels, p ≠ []) ∧
      (∀ a ∈ f.axes.map Prod.fst, sizeOf g.axes a =
        ((axisPositions f.dataAxes (positionsNat f.data.shape sels) a).map List.length).getD (sizeOf f.axes a)) ∧
      g.constructs.length = f.constructs.length ∧
      ∀ i (h1 : i < f.constructs.length) (h2 : i < g.constructs.length),
        (needsSlicing f.dataAxes (f.constructs[i]).axes = false → g.constructs[i] = f.constructs[i]) ∧
        (needsSlicing f.dataAxes (f.constructs[i]).axes = true →
          ConstructSpec (f.constructs[i]) (g.constructs[i])
            (specPositions f.dataAxes (positionsNat f.data.shape sels) (f.constructs[i]).axes
              (f.constructs[i]).data.shape)
            (fun nv => vertexReversed (f.constructs[i]).data.shape nv
              (diceOf f.dataAxes sels (f.constructs[i]).axes))) := by
  unfold subspaceField at h
  split at h
  · cases h
  · rename_i newData sels hg
    split at h
    · cases h
    · rename_i h0
      split at h
      · cases h
      · rename_i cs hcs
        simp only [Except.ok.injEq] at h
        subst h
        obtain ⟨hp, hswf, he⟩ := getData_ok f.data ix newData sels hg
        obtain ⟨hslen, _⟩ := (selsWf_iff _ _).mp hswf
        have hpl : (positionsNat f.data.shape sels).length = f.data.shape.length := by
          simp [positionsNat, hslen]
        have hshape : newData.shape = (positionsNat f.data.shape sels).map List.length := by
          rw [he.1, takeAll_shape _ _ hpl]
        have hpf := parse_parsedForm _ _ _ hp
        have hsd : sels.length = f.dataAxes.length := by rw [hslen, hwf.data]; simp
        obtain ⟨hcl, hci⟩ := mapE_ok _ _ _ hcs
        refine ⟨sels, hp, hswf, rfl, he, ?_, ?_, hcl, ?_⟩
        · intro p hp' hnil
          subst hnil
          have : (0 : Nat) ∈ newData.shape := by
            rw [hshape]; exact List.mem_map.mpr ⟨[], hp', rfl⟩
          simp only [Bool.not_eq_true] at h0
          have h0' : newData.shape.contains 0 = false := h0
          simp only [List.contains_eq_mem, decide_eq_false_iff_not] at h0'
          exact h0' this
        · intro a ha
          rw [resize_sizeOf a _ _ _ hwf.nodup ha, hshape, lookup_zip_map_length]
          rfl
        · intro i h1 h2
          have hfi := hci i h1 h2
          constructor
          · intro hns
            rw [hns] at hfi
            simp only [Bool.false_eq_true, if_false, Except.ok.injEq] at hfi
            exact hfi.symm
          · intro hns
            rw [hns] at hfi
            simp only [if_true] at hfi
            have hcmem : f.constructs[i] ∈ f.constructs := List.getElem_mem h1
            have hcs := hwf.cons _ hcmem
            have hdl : (diceOf f.dataAxes sels (f.constructs[i]).axes).length =
                (f.constructs[i]).data.shape.length := by
              rw [hcs]; simp [diceOf]
            obtain ⟨hk, ha, hd, _, hr, hrn, hb, hbm, hbn⟩ :=
              getConstruct_ok _ _ _ hdl (diceOf_parsedForm _ _ _ hpf) hfi
            have hQ : positionsNat (f.constructs[i]).data.shape (diceOf f.dataAxes sels (f.constructs[i]).axes) =
                specPositions f.dataAxes (positionsNat f.data.shape sels) (f.constructs[i]).axes
                  (f.constructs[i]).data.shape := by
              rw [hcs, hwf.data]
              exact dice_positions f.axes f.dataAxes sels _ hsd
            rw [hQ] at hd hr hb hbm
            exact ⟨hk, ha, hd, hr, hrn, hb, hbm, hbn⟩

/-- An empty selection on any data axis is refused. -/
theorem subspaceField_rejects_empty {α} (f : Field α) (ix : List RawIx) (sels : List Sel)
    (hp : parseIndices f.data.shape ix = .ok sels) (hwf : selsWf f.data.shape sels = true)
    (hempty : [] ∈ positionsNat f.data.shape sels) :
    subspaceField f ix = .error "IndexError" := by
  unfold subspaceField getData
  simp only [hp, hwf, if_true]
  have hlen : sels.length = f.data.shape.length := ((selsWf_iff _ _).mp hwf).1
  have hpl : (positionsNat f.data.shape sels).length = f.data.shape.length := by
    simp [positionsNat, hlen]
  have he := seqTake_eqvIn f.data _ (codeOrder sels) hpl (codeOrder_nodup _)
    (by intro k; rw [mem_codeOrder, hpl, hlen])
  have : (seqTake f.data (positionsNat f.data.shape sels) (codeOrder sels)).shape.contains 0 = true := by
    rw [he.1, takeAll_shape _ _ hpl]
    simp only [List.contains_eq_mem, decide_eq_true_eq]
    exact List.mem_map.mpr ⟨[], hempty, rfl⟩
  simp only [List.contains_eq_mem, decide_eq_true_eq] at this
  simp [this]

/-- A construct spanning no data axis: the specification asks for every position of every axis. -/
theorem specPositions_unspanned (dataAxes : List String) (P : List (List Nat)) (caxes : List String)
    (cshape : List Nat) (hlen : cshape.length = caxes.length)
    (h : needsSlicing dataAxes caxes = false) :
    specPositions dataAxes P caxes cshape = cshape.map List.range := by
  unfold specPositions axisPositions
  apply List.ext_getElem?
  intro j
  by_cases hj : j < caxes.length
  · have hj2 : j < cshape.length := by omega
    simp only [List.getElem?_zipWith, List.getElem?_map, List.getElem?_eq_getElem hj,
      List.getElem?_eq_getElem hj2, Option.map_some]
    have : caxes[j] ∉ dataAxes := by
      intro hm
      simp only [needsSlicing, List.any_eq_false] at h
      have := h caxes[j] (List.getElem_mem hj)
      simp [hm] at this
    rw [lookup_zip_none _ _ _ this]
    rfl
  · have hj2 : ¬ j < cshape.length := by omega
    simp [hj, hj2]

/-- The list rule of the bounds reversal: on normalised entries, a strictly decreasing selection
of at least two cells reverses, a strictly increasing one does not. -/
theorem boundsReversed_list_decreasing (a b : Int) (mid : List Int)
    (h : (a :: (mid ++ [b])).Pairwise (· > ·)) : boundsReversed (.list (a :: (mid ++ [b]))) = true := by
  have hab : b < a := by
    have := (List.pairwise_cons.mp h).1 b (by simp)
    omega
  have hl : (a :: (mid ++ [b])).getLast? = some b := by
    rw [← List.cons_append]; exact List.getLast?_concat
  simp [boundsReversed, hl, hab]

theorem boundsReversed_list_increasing (a b : Int) (mid : List Int)
    (h : (a :: (mid ++ [b])).Pairwise (· < ·)) : boundsReversed (.list (a :: (mid ++ [b]))) = false := by
  have hab : a < b := (List.pairwise_cons.mp h).1 b (by simp)
  have : ¬ b < a := by omega
  have hl : (a :: (mid ++ [b])).getLast? = some b := by
    rw [← List.cons_append]; exact List.getLast?_concat
  simp [boundsReversed, hl, this]

/-! ### No spurious refusal -/

theorem mapE_all_ok {β γ} (f : β → Except String γ) (l : List β)
    (h : ∀ x ∈ l, ∃ y, f x = .ok y) : ∃ r, mapE f l = .ok r := by
  induction l with
  | nil => exact ⟨[], rfl⟩
  | cons x xs ih =>
    obtain ⟨y, hy⟩ := h x (by simp)
    obtain ⟨ys, hys⟩ := ih (fun z hz => h z (by simp [hz]))
    exact ⟨y :: ys, by simp [mapE, hy, hys]⟩

theorem selsWf_append (sh1 sh2 : List Nat) (s1 s2 : List Sel)
    (h1 : selsWf sh1 s1 = true) (h2 : selsWf sh2 s2 = true) : selsWf (sh1 ++ sh2) (s1 ++ s2) = true := by
  simp only [selsWf, Bool.and_eq_true, beq_iff_eq] at h1 h2 ⊢
  refine ⟨by simp [h1.1, h2.1], ?_⟩
  rw [List.zipWith_append h1.1, List.all_append, h1.2, h2.2]
  rfl

theorem selsWf_fulls (tr : List Nat) : selsWf tr (List.replicate tr.length full) = true := by
  rw [selsWf_iff]
  refine ⟨by simp, ?_⟩
  intro k h1 h2
  simp [full, Sel.wf]

/-- `PropertiesData.__getitem__` accepts a well-formed parsed tuple (possibly shorter than the
rank) that selects something on every axis. -/
theorem getPD_accepts {α} (A : Arr α) (S : List Sel) (hlen : S.length ≤ A.shape.length)
    (hne0 : A.shape.length = 0 → S = []) (hpf : ∀ s ∈ S, parsedForm s = true)
    (hwf : selsWf A.shape (S ++ List.replicate (A.shape.length - S.length) full) = true)
    (hne : ∀ p ∈ positionsNat A.shape (S ++ List.replicate (A.shape.length - S.length) full), p ≠ []) :
    ∃ B, getPD A (S.map toRaw) = .ok B := by
  unfold getPD getData
  rw [parse_reparse A.shape S hlen hne0 hpf]
  simp only [hwf, if_true]
  generalize hS : S ++ List.replicate (A.shape.length - S.length) full = S' at hwf hne
  have hl : S'.length = A.shape.length := ((selsWf_iff _ _).mp hwf).1
  have hpl : (positionsNat A.shape S').length = A.shape.length := by simp [positionsNat, hl]
  have he := seqTake_eqvIn A _ (codeOrder S') hpl (codeOrder_nodup _)
    (by intro k; rw [mem_codeOrder, hpl, hl])
  have h0 : (seqTake A (positionsNat A.shape S') (codeOrder S')).shape.contains 0 = false := by
    rw [he.1, takeAll_shape _ _ hpl]
    simp only [List.contains_eq_mem, decide_eq_false_iff_not, List.mem_map, not_exists, not_and]
    intro p hp hlen0
    exact hne p hp (List.eq_nil_of_length_eq_zero hlen0)
  simp only [List.contains_eq_mem, decide_eq_false_iff_not] at h0
  simp [h0]

theorem dice_wf (a : String) (n : Nat) :
    ∀ (dataAxes : List String) (sels : List Sel) (dshape : List Nat),
      sels.length = dataAxes.length → dshape.length = dataAxes.length →
      (∀ k (h1 : k < dataAxes.length) (h2 : k < dshape.length), dataAxes[k] = a → dshape[k] = n) →
      selsWf dshape sels = true →
      (match indexIn a dataAxes with | some k => sels.getD k full | none => full).wf n = true := by
  intro dataAxes
  induction dataAxes with
  | nil => intro sels dshape _ _ _ _; simp [indexIn, full, Sel.wf]
  | cons x xs ih =>
    intro sels dshape hs hd hsz hwf
    match sels, dshape, hs, hd with
    | s :: ss, d :: ds, hs, hd =>
      simp only [List.length_cons, Nat.add_right_cancel_iff] at hs hd
      have hw := (selsWf_iff _ _).mp hwf
      by_cases hxa : x = a
      · have hdn : d = n := hsz 0 (by simp) (by simp) (by simpa using hxa)
        have := hw.2 0 (by simp) (by simp)
        simp only [List.getElem_cons_zero] at this
        simp [indexIn, hxa, ← hdn, this]
      · have hss : selsWf ds ss = true := by
          rw [selsWf_iff]
          refine ⟨by omega, ?_⟩
          intro k h1 h2
          have := hw.2 (k + 1) (by simpa using h1) (by simpa using h2)
          simpa using this
        have ih' := ih ss ds hs hd (fun k h1 h2 hk => by
          have := hsz (k + 1) (by simpa using h1) (by simpa using h2) (by simpa using hk)
          simpa using this) hss
        simp only [indexIn, hxa, if_false]
        cases hi : indexIn a xs with
        | none => simp [full, Sel.wf]
        | some k => rw [hi] at ih'; simpa using ih'

theorem diceOf_wf (axes : List (String × Nat)) (dataAxes : List String) (sels : List Sel)
    (caxes : List String) (hs : sels.length = dataAxes.length)
    (hwf : selsWf (dataAxes.map (sizeOf axes)) sels = true) :
    selsWf (caxes.map (sizeOf axes)) (diceOf dataAxes sels caxes) = true := by
  rw [selsWf_iff]
  refine ⟨by simp [diceOf], ?_⟩
  intro j h1 h2
  simp only [diceOf, List.getElem_map]
  exact dice_wf _ _ dataAxes sels (dataAxes.map (sizeOf axes)) hs (by simp)
    (by intro k h1 h2 hk; simp [hk]) hwf

theorem range_ne_nil {n : Nat} (h : 0 < n) : List.range n ≠ [] := by
  intro h0
  have := congrArg List.length h0
  simp at this; omega

/-- A trailing-axis companion (bounds / interior ring) accepts the construct's indices followed by
`X` on its trailing axes. -/
theorem getPD_accepts_trailing {α} (b : Arr α) (cshape tr : List Nat) (dice X : List Sel)
    (hb : b.shape = cshape ++ tr) (hlen : dice.length = cshape.length) (hX : X.length = tr.length)
    (hpf : ∀ s ∈ dice, parsedForm s = true) (hpfX : ∀ s ∈ X, parsedForm s = true)
    (hwf : selsWf cshape dice = true) (hwfX : selsWf tr X = true)
    (hne : ∀ p ∈ positionsNat cshape dice, p ≠ []) (hneX : ∀ p ∈ positionsNat tr X, p ≠ []) :
    ∃ b', getPD b ((dice ++ X).map toRaw) = .ok b' := by
  have hl : (dice ++ X).length = b.shape.length := by simp [hb, hlen, hX]
  apply getPD_accepts b (dice ++ X) (by omega)
  · intro h0
    rw [hb] at h0
    simp only [List.length_append] at h0
    have h1 : dice.length = 0 := by omega
    have h2 : X.length = 0 := by omega
    rw [List.eq_nil_of_length_eq_zero h1, List.eq_nil_of_length_eq_zero h2]; rfl
  · intro s hs
    simp only [List.mem_append] at hs
    rcases hs with hs | hs
    · exact hpf s hs
    · exact hpfX s hs
  · rw [hl]; simp only [Nat.sub_self, List.replicate_zero, List.append_nil]
    rw [hb]; exact selsWf_append _ _ _ _ hwf hwfX
  · rw [hl]; simp only [Nat.sub_self, List.replicate_zero, List.append_nil]
    rw [hb, positionsNat_append _ _ _ _ hlen]
    intro p hp
    simp only [List.mem_append] at hp
    rcases hp with hp | hp
    · exact hne p hp
    · exact hneX p hp

theorem getConstruct_accepts {α} (c : Construct α) (dice : List Sel)
    (hlen : dice.length = c.data.shape.length) (hpf : ∀ s ∈ dice, parsedForm s = true)
    (hwf : selsWf c.data.shape dice = true)
    (hne : ∀ p ∈ positionsNat c.data.shape dice, p ≠ [])
    (hring : ∀ r, c.ring = some r → ∃ np, 0 < np ∧ r.shape = c.data.shape ++ [np])
    (hbounds : ∀ b, c.bounds = some b → ∃ tr, tr ≠ [] ∧ 0 ∉ tr ∧ b.shape = c.data.shape ++ tr) :
    ∃ c', getConstruct c (dice.map toRaw) = .ok c' := by
  unfold getConstruct
  obtain ⟨d, hd⟩ := getPD_accepts c.data dice (by omega)
    (by intro h0; exact List.eq_nil_of_length_eq_zero (by omega)) hpf
    (by simpa [hlen] using hwf) (by simpa [hlen] using hne)
  rw [hd]
  simp only
  -- the interior ring
  have hr : ∃ ring, getOpt c.ring (fun r => getPD r (dice.map toRaw)) = .ok ring := by
    cases hcr : c.ring with
    | none => exact ⟨none, rfl⟩
    | some r =>
      obtain ⟨np, hnp, hrs⟩ := hring r hcr
      -- index the ring with the construct's own tuple: parse pads the trailing axis
      obtain ⟨r', hr'⟩ := getPD_accepts r dice (by simp [hrs, hlen])
        (by intro h0; simp [hrs] at h0) hpf
        (by
          have hk : r.shape.length - dice.length = 1 := by simp [hrs, hlen]
          rw [hk, hrs]
          exact selsWf_append _ _ _ _ hwf (selsWf_fulls [np]))
        (by
          have hk : r.shape.length - dice.length = 1 := by simp [hrs, hlen]
          rw [hk, hrs, List.replicate_one, positionsNat_append _ _ _ _ hlen]
          intro p hp
          simp only [List.mem_append] at hp
          rcases hp with hp | hp
          · exact hne p hp
          · simp only [positionsNat, List.zipWith_cons_cons, List.zipWith_nil_right, List.mem_singleton] at hp
            rw [hp]
            show posNat np (.slice none none none) ≠ []
            rw [posNat_full]; exact range_ne_nil hnp)
      exact ⟨some r', by simp [getOpt, hr']⟩
  obtain ⟨ring, hring'⟩ := hr
  rw [hring']
  simp only
  split
  · rename_i e heq
    exfalso
    cases hcb : c.bounds with
    | none => rw [hcb] at heq; simp [getOpt] at heq
    | some b =>
      rw [hcb] at heq
      obtain ⟨tr, htr, h0, hbs⟩ := hbounds b hcb
      have hparse := parse_reparse b.shape dice (by simp [hbs, hlen])
        (by intro h0'; rw [hbs] at h0'; simp only [List.length_append] at h0'
            have : tr.length = 0 := by omega
            exact absurd (List.eq_nil_of_length_eq_zero this) htr) hpf
      have hk : b.shape.length - dice.length = tr.length := by simp [hbs, hlen]
      rw [hk] at hparse
      have hfulls_ne : ∀ p ∈ positionsNat tr (List.replicate tr.length full), p ≠ [] := by
        rw [positionsNat_fulls]
        intro p hp
        simp only [List.mem_map] at hp
        obtain ⟨n, hn, rfl⟩ := hp
        exact range_ne_nil (by
          have : n ≠ 0 := fun h => h0 (h ▸ hn)
          omega)
      have key : ∃ X : List Sel, boundsIndices b.shape (dice ++ List.replicate tr.length full) = dice ++ X ∧
          X.length = tr.length ∧ (∀ s ∈ X, parsedForm s = true) ∧ selsWf tr X = true ∧
          (∀ p ∈ positionsNat tr X, p ≠ []) := by
        match tr, htr, h0, hbs, hfulls_ne with
        | [nv], _, h0, hbs, hfulls_ne =>
          refine ⟨[if vertexReversed c.data.shape nv dice then rev else full], ?_, rfl, ?_, ?_, ?_⟩
          · rw [hbs]; exact boundsIndices_eq _ _ _ hlen
          · intro s hs; simp only [List.mem_singleton] at hs; rw [hs]; split <;> rfl
          · rw [selsWf_iff]; refine ⟨rfl, ?_⟩
            intro k h1 h2
            have : k = 0 := by simpa using h1
            subst this
            simp only [List.getElem_cons_zero]
            split <;> simp [rev, full, Sel.wf]
          · have hnv : 0 < nv := by
              have : nv ≠ 0 := fun h => h0 (by simp [h])
              omega
            intro p hp
            simp only [positionsNat, List.zipWith_cons_cons, List.zipWith_nil_right, List.mem_singleton] at hp
            rw [hp]
            split
            · show posNat nv (.slice none none (some (-1))) ≠ []
              rw [posNat_revslice]
              intro h
              exact range_ne_nil hnv (by simpa using h)
            · show posNat nv (.slice none none none) ≠ []
              rw [posNat_full]; exact range_ne_nil hnv
        | t1 :: t2 :: rest, _, h0, hbs, hfulls_ne =>
          refine ⟨List.replicate (t1 :: t2 :: rest).length full, ?_, by simp, ?_, selsWf_fulls _, hfulls_ne⟩
          · rw [hbs]; exact boundsIndices_multi _ _ _ hlen (by simp)
          · intro s hs; rw [(List.mem_replicate.mp hs).2]; rfl
      obtain ⟨X, hX1, hX2, hX3, hX4, hX5⟩ := key
      obtain ⟨b', hb'⟩ := getPD_accepts_trailing b c.data.shape tr dice X hbs hlen hX2 hpf hX3 hwf hX4 hne hX5
      simp only [getOpt, hparse, hX1, hb'] at heq
      cases heq
  · exact ⟨_, rfl⟩

theorem lookup_zip_mem {β} (a : String) (l : List String) (P : List β) (p : β)
    (h : (l.zip P).lookup a = some p) : p ∈ P := by
  induction l generalizing P with
  | nil => simp at h
  | cons x xs ih =>
    cases P with
    | nil => simp at h
    | cons q qs =>
      simp only [List.zip_cons_cons, List.lookup] at h
      cases hax : a == x
      · rw [hax] at h
        exact List.mem_cons_of_mem _ (ih qs h)
      · rw [hax] at h
        simp only [Option.some.injEq] at h
        simp [h]

/-- **No spurious refusal.**  A well-formed field whose arrays have no zero extent accepts every
well-formed index expression that selects something on every data axis. -/
theorem subspaceField_accepts {α} (f : Cfdm.FieldSubspace.Field α) (ix : List RawIx) (sels : List Sel)
    (hwf : WF f) (hpos : Positive f)
    (hp : parseIndices f.data.shape ix = .ok sels) (hs : selsWf f.data.shape sels = true)
    (hne : ∀ p ∈ positionsNat f.data.shape sels, p ≠ []) :
    ∃ g, subspaceField f ix = .ok g := by
  unfold subspaceField getData
  simp only [hp, hs, if_true]
  have hlen : sels.length = f.data.shape.length := ((selsWf_iff _ _).mp hs).1
  have hpl : (positionsNat f.data.shape sels).length = f.data.shape.length := by
    simp [positionsNat, hlen]
  have he := seqTake_eqvIn f.data _ (codeOrder sels) hpl (codeOrder_nodup _)
    (by intro k; rw [mem_codeOrder, hpl, hlen])
  have h0 : ¬ (0 ∈ (seqTake f.data (positionsNat f.data.shape sels) (codeOrder sels)).shape) := by
    rw [he.1, takeAll_shape _ _ hpl]
    simp only [List.mem_map, not_exists, not_and]
    intro p hp' hl0
    exact hne p hp' (List.eq_nil_of_length_eq_zero hl0)
  have hsd : sels.length = f.dataAxes.length := by rw [hlen, hwf.data]; simp
  have hpf := parse_parsedForm _ _ _ hp
  have hcons : ∀ c ∈ f.constructs, ∃ y,
      (if needsSlicing f.dataAxes c.axes = true then
        getConstruct c ((diceOf f.dataAxes sels c.axes).map toRaw) else .ok c) = .ok y := by
    intro c hc
    split
    · have hcs := hwf.cons c hc
      apply getConstruct_accepts c _ (by rw [hcs]; simp [diceOf]) (diceOf_parsedForm _ _ _ hpf)
      · rw [hcs]
        exact diceOf_wf f.axes f.dataAxes sels c.axes hsd (by rw [← hwf.data]; exact hs)
      · rw [hcs, dice_positions f.axes f.dataAxes sels c.axes hsd, ← hwf.data, ← hcs]
        intro p hp'
        simp only [specPositions] at hp'
        rw [List.mem_iff_getElem] at hp'
        obtain ⟨j, hj, rfl⟩ := hp'
        simp only [List.length_zipWith] at hj
        have hj1 : j < c.axes.length := by omega
        have hj2 : j < c.data.shape.length := by omega
        simp only [List.getElem_zipWith]
        cases hl : axisPositions f.dataAxes (positionsNat f.data.shape sels) (c.axes[j]'hj1) with
        | none =>
          simp only [Option.getD_none]
          apply range_ne_nil
          have hm : c.data.shape[j]'hj2 ∈ c.data.shape := List.getElem_mem _
          have : c.data.shape[j]'hj2 ≠ 0 := fun h => hpos.cons c hc (h ▸ hm)
          omega
        | some q =>
          simp only [Option.getD_some]
          exact hne q (lookup_zip_mem _ _ _ _ hl)
      · intro r hr
        obtain ⟨np, hnp⟩ := hwf.ring c hc r hr
        refine ⟨np, ?_, hnp⟩
        have := hpos.ring c hc r hr
        rw [hnp] at this
        have : np ≠ 0 := fun h => this (by simp [h])
        omega
      · intro b hb
        obtain ⟨tr, htr, hbs⟩ := hwf.bounds c hc b hb
        refine ⟨tr, htr, ?_, hbs⟩
        have := hpos.bounds c hc b hb
        rw [hbs] at this
        intro h; exact this (by simp [h])
    · exact ⟨c, rfl⟩
  obtain ⟨cs, hcs⟩ := mapE_all_ok _ _ hcons
  simp [h0, hcs]

/-! ### A concrete field for the non-vacuity examples of `Props/C03.lean` -/

/-- 3 x 2 data over (x, y); a 2-d construct stored as (y, x); a 1-d coordinate with 2-vertex
bounds; a coordinate on an axis the data do not span. -/
def exField : Cfdm.FieldSubspace.Field Nat :=
  { axes := [("x", 3), ("y", 2), ("t", 1)], dataAxes := ["x", "y"], data := iota [3, 2],
    constructs := [
      { key := "aux", axes := ["y", "x"], data := iota [2, 3], bounds := none, ring := none },
      { key := "xc", axes := ["x"], data := iota [3], bounds := some (iota [3, 2]), ring := none },
      { key := "tc", axes := ["t"], data := iota [1], bounds := none, ring := none }] }

/-- `f[::-1, [1, 0]]`: a full-length reversal and a full-length permutation of a size-2 axis. -/
def exIndex : List RawIx := [.slice none none (some (-1)), .list [1, 0]]

/-- Axis sizes, data, then per construct: shape, data, bounds (row-major). -/
def exSummary (r : Except String (Cfdm.FieldSubspace.Field Nat)) : List (List Nat) :=
  match r with
  | .ok g => g.axes.map Prod.snd :: toList g.data ::
      g.constructs.flatMap (fun (c : Construct Nat) =>
        [c.data.shape, toList c.data, (c.bounds.map toList).getD []])
  | .error _ => []

theorem exField_wf : WF exField := by
  refine ⟨by decide, rfl, ?_, ?_, ?_⟩
  · intro c hc
    simp only [exField, List.mem_cons, List.mem_nil_iff, or_false] at hc
    rcases hc with rfl | rfl | rfl <;> rfl
  · intro c hc b hb
    simp only [exField, List.mem_cons, List.mem_nil_iff, or_false] at hc
    rcases hc with rfl | rfl | rfl
    · simp at hb
    · simp only [Option.some.injEq] at hb; subst hb; exact ⟨[2], by simp, rfl⟩
    · simp at hb
  · intro c hc r hr
    simp only [exField, List.mem_cons, List.mem_nil_iff, or_false] at hc
    rcases hc with rfl | rfl | rfl <;> simp at hr

theorem exField_positive : Positive exField := by
  refine ⟨?_, ?_, ?_⟩
  · intro c hc
    simp only [exField, List.mem_cons, List.mem_nil_iff, or_false] at hc
    rcases hc with rfl | rfl | rfl <;> decide
  · intro c hc b hb
    simp only [exField, List.mem_cons, List.mem_nil_iff, or_false] at hc
    rcases hc with rfl | rfl | rfl
    · simp at hb
    · simp only [Option.some.injEq] at hb; subst hb; decide
    · simp at hb
  · intro c hc r hr
    simp only [exField, List.mem_cons, List.mem_nil_iff, or_false] at hc
    rcases hc with rfl | rfl | rfl <;> simp at hr

end Cfdm.FieldSubspace
