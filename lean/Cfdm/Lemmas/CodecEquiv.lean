import Cfdm.Lemmas.CodecField
/-
C01: the field read from the data variable is the original up to keys and order.
-/
namespace Cfdm.Codec

theorem roles_nodup (f : MField) (hn : f.axisKeys.Nodup) : (wfAx f).roles.Nodup := by
  unfold wfAx
  simp only
  apply List.Nodup.map
  · intro a b h; injection h
  · exact (sortKeys_perm f.axisKeys).nodup_iff.mpr hn

section
variable {o : Opts} {f : MField} {names : List (Slot × String)} (hwf : WFFieldB f)
include hwf

theorem cons_nodup : f.cons.Nodup := List.Nodup.of_map _ hwf.2.1

theorem sortedType_nodup (t : CType) : (sortEntries (f.ofType t)).Nodup :=
  (sortEntries_perm _).nodup_iff.mpr ((cons_nodup hwf).filter _)

theorem dataDims_nodup : (f.dataAxes.filterMap f.dimCoordOf).Nodup := by
  apply List.Nodup.filterMap _ hwf.2.2.1
  intro a a' e h1 h2
  have e1 := (dimCoordOf_some (Option.mem_def.mp h1)).2.2
  have e2 := (dimCoordOf_some (Option.mem_def.mp h2)).2.2
  rw [e1] at e2
  injection e2

omit hwf in
theorem scalarDims_eq : (wfAx f).roles.filterMap scalarOf = (sortKeys f.axisKeys).filterMap (fun a => scalarOf (a, wfRole f a)) := by
  unfold wfAx
  simp only
  rw [List.filterMap_map]
  rfl

omit hwf in
theorem scalarOf_role {a : Key} {e : Entry} (h : scalarOf (a, wfRole f a) = some e) :
    a ∉ f.dataAxes ∧ f.dimCoordOf a = some e := by
  unfold scalarOf at h
  simp only at h
  unfold wfRole at h
  cases hdc : f.dimCoordOf a with
  | none => rw [hdc] at h; by_cases hd : a ∈ f.dataAxes <;> simp [hd] at h
  | some x =>
    rw [hdc] at h
    by_cases hd : a ∈ f.dataAxes
    · simp [hd] at h
    · simp [hd] at h; exact ⟨hd, by rw [h]⟩

theorem scalarDims_nodup : ((wfAx f).roles.filterMap scalarOf).Nodup := by
  rw [scalarDims_eq]
  apply List.Nodup.filterMap _ ((sortKeys_perm f.axisKeys).nodup_iff.mpr hwf.1)
  intro a a' e h1 h2
  have e1 := (dimCoordOf_some (scalarOf_role (Option.mem_def.mp h1)).2).2.2
  have e2 := (dimCoordOf_some (scalarOf_role (Option.mem_def.mp h2)).2).2.2
  rw [e1] at e2
  injection e2

omit hwf in
theorem mem_scalarDims {e : Entry} : e ∈ (wfAx f).roles.filterMap scalarOf ↔
    ∃ a ∈ f.axisKeys, a ∉ f.dataAxes ∧ f.dimCoordOf a = some e := by
  rw [scalarDims_eq, List.mem_filterMap]
  constructor
  · rintro ⟨a, ha, h⟩
    exact ⟨a, mem_sortKeys.mp ha, scalarOf_role h⟩
  · rintro ⟨a, ha, hd, hdc⟩
    refine ⟨a, mem_sortKeys.mpr ha, ?_⟩
    unfold scalarOf wfRole
    rw [hdc]
    simp [hd]

/-- The constructs of the field other than the domain ancillaries. -/
def consA (f : MField) : List Entry := f.cons.filter (fun e => e.con.ctype != .dan)

omit hwf in
theorem mem_consA {e : Entry} : e ∈ consA f ↔ e ∈ f.cons ∧ e.con.ctype ≠ .dan := by
  unfold consA; simp

/-- The reader creates every construct other than the domain ancillaries exactly once from the
data variable's dimensions and its `coordinates`, `cell_measures`, `ancillary_variables`. -/
theorem readOrder_perm : (readOrder f).Perm (consA f) := by
  have hnd : (consA f).Nodup := by unfold consA; exact (cons_nodup hwf).filter _
  rw [List.perm_ext_iff_of_nodup _ hnd]
  · intro e
    rw [mem_consA]
    unfold readOrder
    simp only [List.mem_append]
    constructor
    · rintro ((((h | h) | h) | h) | h)
      · obtain ⟨a, _, h⟩ := List.mem_filterMap.mp h
        exact ⟨(dimCoordOf_some h).1, by rw [(dimCoordOf_some h).2.1]; decide⟩
      · obtain ⟨a, _, _, h⟩ := mem_scalarDims.mp h
        exact ⟨(dimCoordOf_some h).1, by rw [(dimCoordOf_some h).2.1]; decide⟩
      · have := mem_ofType.mp (mem_sortEntries.mp h)
        exact ⟨this.1, by rw [this.2]; decide⟩
      · have := mem_ofType.mp (mem_sortEntries.mp h)
        exact ⟨this.1, by rw [this.2]; decide⟩
      · have := mem_ofType.mp h
        exact ⟨this.1, by rw [this.2]; decide⟩
    · rintro ⟨he, hnd⟩
      cases ht : e.con.ctype with
      | dim =>
        obtain ⟨a, _, h2, h3⟩ := wf_dim hwf he ht
        by_cases hd : a ∈ f.dataAxes
        · left; left; left; left; exact List.mem_filterMap.mpr ⟨a, hd, h3⟩
        · left; left; left; right; exact mem_scalarDims.mpr ⟨a, h2, hd, h3⟩
      | aux => left; left; right; exact mem_sortEntries.mpr (mem_ofType.mpr ⟨he, ht⟩)
      | msr => left; right; exact mem_sortEntries.mpr (mem_ofType.mpr ⟨he, ht⟩)
      | fan => right; exact mem_ofType.mpr ⟨he, ht⟩
      | dan => exact absurd ht hnd
  · unfold readOrder
    have hdim1 : ∀ e ∈ f.dataAxes.filterMap f.dimCoordOf, e.con.ctype = .dim := by
      intro e he
      obtain ⟨a, _, h⟩ := List.mem_filterMap.mp he
      exact (dimCoordOf_some h).2.1
    have hdim2 : ∀ e ∈ (wfAx f).roles.filterMap scalarOf, e.con.ctype = .dim := by
      intro e he
      obtain ⟨a, _, _, h⟩ := mem_scalarDims.mp he
      exact (dimCoordOf_some h).2.1
    have hty : ∀ t, ∀ e ∈ sortEntries (f.ofType t), e.con.ctype = t := by
      intro t e he; exact (mem_ofType.mp (mem_sortEntries.mp he)).2
    rw [List.nodup_append, List.nodup_append, List.nodup_append, List.nodup_append]
    refine ⟨⟨⟨⟨dataDims_nodup hwf, scalarDims_nodup hwf, ?_⟩, sortedType_nodup hwf .aux, ?_⟩, sortedType_nodup hwf .msr, ?_⟩,
      (cons_nodup hwf).filter _, ?_⟩
    · intro a ha b hb hab
      subst hab
      obtain ⟨x, hx, h1⟩ := List.mem_filterMap.mp ha
      obtain ⟨y, _, hy, h2⟩ := mem_scalarDims.mp hb
      have e1 := (dimCoordOf_some h1).2.2
      have e2 := (dimCoordOf_some h2).2.2
      rw [e1] at e2
      injection e2 with h _
      exact hy (h ▸ hx)
    · intro a ha b hb hab
      subst hab
      have := hty .aux a hb
      rcases List.mem_append.mp ha with h | h
      · rw [hdim1 a h] at this; cases this
      · rw [hdim2 a h] at this; cases this
    · intro a ha b hb hab
      subst hab
      have := hty .msr a hb
      rcases List.mem_append.mp ha with h | h
      · rcases List.mem_append.mp h with h | h
        · rw [hdim1 a h] at this; cases this
        · rw [hdim2 a h] at this; cases this
      · rw [hty .aux a h] at this; cases this
    · intro a ha b hb hab
      subst hab
      have := (mem_ofType.mp hb).2
      rcases List.mem_append.mp ha with h | h
      · rcases List.mem_append.mp h with h | h
        · rcases List.mem_append.mp h with h | h
          · rw [hdim1 a h] at this; cases this
          · rw [hdim2 a h] at this; cases this
        · rw [hty .aux a h] at this; cases this
      · rw [hty .msr a h] at this; cases this

end

end Cfdm.Codec

namespace Cfdm.Codec

def axis1 (e : Entry) : Key := e.axes.headD ""

/-- The domain axes in the order in which the reader creates them. -/
def axisOrder (f : MField) : List Key := f.dataAxes ++ (scalarOrder f).map axis1

def axSig (f : MField) (π : Key → Key) (a : Key) : Key × Nat × Bool :=
  (π a, ((f.axis? a).map (·.size)).getD 0, ((f.axis? a).map (·.unlimited)).getD false)

section
variable {o : Opts} {f : MField} {names : List (Slot × String)} (hwf : WFFieldB f)
include hwf

theorem mem_scalarOrder {e : Entry} : e ∈ scalarOrder f ↔
    e ∈ f.cons ∧ ∃ a, e.axes = [a] ∧ a ∉ f.dataAxes ∧ a ∈ f.axisKeys := by
  unfold scalarOrder
  rw [List.mem_append]
  constructor
  · rintro (h | h)
    · obtain ⟨a, hak, hd, hdc⟩ := mem_scalarDims.mp h
      obtain ⟨h1, _, h3⟩ := dimCoordOf_some hdc
      exact ⟨h1, a, h3, hd, hak⟩
    · obtain ⟨h1, h2⟩ := List.mem_filter.mp h
      obtain ⟨he, _⟩ := mem_ofType.mp (mem_sortEntries.mp h1)
      obtain ⟨a, hax, had⟩ := auxIsScalar_iff.mp h2
      obtain ⟨hs, _, _⟩ := wf_entry hwf he
      exact ⟨he, a, hax, had, hs.2.2.1 a (by rw [hax]; exact List.mem_singleton_self a)⟩
  · rintro ⟨he, a, hax, had, hak⟩
    obtain ⟨_, _, hty⟩ := span_outside hwf had he (by rw [hax]; exact List.mem_singleton_self a)
    rcases hty with ⟨hty, _⟩ | ⟨hty, _⟩
    · left
      obtain ⟨a', h1, _, h3⟩ := wf_dim hwf he hty
      rw [hax] at h1; injection h1 with h1 _; subst h1
      exact mem_scalarDims.mpr ⟨a, hak, had, h3⟩
    · right
      exact List.mem_filter.mpr ⟨mem_sortEntries.mpr (mem_ofType.mpr ⟨he, hty⟩), auxIsScalar_iff.mpr ⟨a, hax, had⟩⟩

theorem scalarOrder_nodup : (scalarOrder f).Nodup := by
  unfold scalarOrder
  rw [List.nodup_append]
  refine ⟨scalarDims_nodup hwf, (sortedType_nodup hwf .aux).filter _, ?_⟩
  intro a ha b hb hab
  subst hab
  obtain ⟨x, _, _, hdc⟩ := mem_scalarDims.mp ha
  have h1 := (dimCoordOf_some hdc).2.1
  have h2 := (mem_ofType.mp (mem_sortEntries.mp (List.mem_filter.mp hb).1)).2
  rw [h1] at h2; cases h2

theorem axisOrder_perm : (axisOrder f).Perm f.axisKeys := by
  rw [List.perm_ext_iff_of_nodup _ hwf.1]
  · intro a
    unfold axisOrder
    rw [List.mem_append, List.mem_map]
    constructor
    · rintro (h | ⟨e, he, rfl⟩)
      · exact hwf.2.2.2.1 a h
      · obtain ⟨_, a, hax, _, hak⟩ := (mem_scalarOrder hwf).mp he
        unfold axis1; rw [hax]; exact hak
    · intro hak
      by_cases hd : a ∈ f.dataAxes
      · exact Or.inl hd
      · right
        obtain ⟨ka, hka, hk⟩ := mem_axisKeys.mp hak
        have hne := (hwf.2.2.2.2.2.1 ka hka (by rw [hk]; exact hd)).2.2
        rw [hk] at hne
        obtain ⟨e, es, hes⟩ := List.exists_cons_of_ne_nil hne
        have he : e ∈ f.spanning a := by rw [hes]; exact List.mem_cons_self
        obtain ⟨hmem, hain⟩ := mem_spanning.mp he
        obtain ⟨hax, _, _⟩ := span_outside hwf hd hmem hain
        exact ⟨e, (mem_scalarOrder hwf).mpr ⟨hmem, a, hax, hd, hak⟩, by unfold axis1; rw [hax]; rfl⟩
  · unfold axisOrder
    rw [List.nodup_append]
    refine ⟨hwf.2.2.1, ?_, ?_⟩
    · apply List.Nodup.map_on _ (scalarOrder_nodup hwf)
      intro x hx y hy hxy
      obtain ⟨hx1, a, hax, had, _⟩ := (mem_scalarOrder hwf).mp hx
      obtain ⟨hy1, b, hbx, _, _⟩ := (mem_scalarOrder hwf).mp hy
      unfold axis1 at hxy
      rw [hax, hbx] at hxy
      simp at hxy
      subst hxy
      have s1 := (span_outside hwf had hx1 (by rw [hax]; exact List.mem_singleton_self a)).2.1
      have s2 := (span_outside hwf had hy1 (by rw [hbx]; exact List.mem_singleton_self a)).2.1
      rw [s1] at s2
      injection s2
    · intro a ha b hb hab
      subst hab
      obtain ⟨e, he, rfl⟩ := List.mem_map.mp hb
      obtain ⟨_, x, hax, had, _⟩ := (mem_scalarOrder hwf).mp he
      unfold axis1 at ha
      rw [hax] at ha
      exact had ha

omit hwf in
theorem axes_eq_keys (hn : f.axisKeys.Nodup) (π : Key → Key) : f.axes.map (axisSig π) = f.axisKeys.map (axSig f π) := by
  unfold MField.axisKeys
  rw [List.map_map]
  apply List.map_congr_left
  intro ka hka
  unfold axisSig axSig
  simp only [Function.comp]
  rw [axis?_of_mem hn hka]
  rfl

/-- An axis outside the data is renamed to the variable name of the construct spanning it. -/
theorem pi_outside {e : Entry} (he : e ∈ f.cons) {a : Key} (hax : e.axes = [a]) (had : a ∉ f.dataAxes) (hak : a ∈ f.axisKeys) :
    piOf f names a = nameOf names (.con e.key) := by
  obtain ⟨_, _, hty⟩ := span_outside hwf had he (by rw [hax]; exact List.mem_singleton_self a)
  rcases hty with ⟨hty, _⟩ | ⟨hty, _⟩
  · obtain ⟨a', h1, _, h3⟩ := wf_dim hwf he hty
    rw [hax] at h1; injection h1 with h1 _; subst h1
    exact pi_scalarDim hwf hak had h3
  · exact pi_scalarAux hwf had he hty hax

theorem read_axes_sig (hg : GoodNames f (wfAx f) names) :
    (readVarA (wfFile o f names) (dataVar o f (wfAx f) names)).axes.map (axisSig id)
      = (axisOrder f).map (axSig f (piOf f names)) := by
  rw [read_axes hwf hg]
  unfold axisOrder
  rw [List.map_append, List.map_append, List.map_map, List.map_map, List.map_map]
  congr 1
  · apply List.map_congr_left
    intro a ha
    have hak := hwf.2.2.2.1 a ha
    obtain ⟨ka, hka, hk⟩ := mem_axisKeys.mp hak
    subst hk
    simp only [Function.comp]
    rw [dimAxis_data hwf hg hka ha]
    unfold axisSig axSig
    rw [axis?_of_mem hwf.1 hka]
    rfl
  · apply List.map_congr_left
    intro e he
    obtain ⟨hmem, a, hax, had, hak⟩ := (mem_scalarOrder hwf).mp he
    obtain ⟨ka, hka, hk⟩ := mem_axisKeys.mp hak
    obtain ⟨h1, h2, _⟩ := hwf.2.2.2.2.2.1 ka hka (by rw [hk]; exact had)
    simp only [Function.comp]
    unfold axisSig axSig axis1
    rw [hax]
    simp only [List.headD_cons, id]
    rw [pi_outside hwf hmem hax had hak]
    have := axis?_of_mem hwf.1 hka
    rw [hk] at this
    rw [this]
    simp [h1, h2]

end

end Cfdm.Codec

namespace Cfdm.Codec

section
variable {o : Opts} {f : MField} {names : List (Slot × String)} (hwf : WFFieldB f) (hg : GoodNames f (wfAx f) names)
include hwf hg

/-- The slot whose name an axis is renamed to. -/
theorem pi_slot {a : Key} (hak : a ∈ f.axisKeys) :
    ∃ s, s ∈ slotsOf names ∧ s.isBdim = false ∧ piOf f names a = nameOf names s ∧
      ((a ∈ f.dataAxes ∧ dimSlot f a = some s) ∨ (a ∉ f.dataAxes ∧ ∃ e ∈ f.cons, e.axes = [a] ∧ s = .con e.key)) := by
  by_cases hd : a ∈ f.dataAxes
  · obtain ⟨s, hs⟩ := dataAxis_slot hd
    obtain ⟨h1, h2⟩ := dimSlot_mem hwf hg hak hs
    exact ⟨s, h1, h2, pi_data hwf hak hd hs, Or.inl ⟨hd, hs⟩⟩
  · obtain ⟨ka, hka, hk⟩ := mem_axisKeys.mp hak
    have hne := (hwf.2.2.2.2.2.1 ka hka (by rw [hk]; exact hd)).2.2
    rw [hk] at hne
    obtain ⟨e, es, hes⟩ := List.exists_cons_of_ne_nil hne
    have he : e ∈ f.spanning a := by rw [hes]; exact List.mem_cons_self
    obtain ⟨hmem, hain⟩ := mem_spanning.mp he
    obtain ⟨hax, _, _⟩ := span_outside hwf hd hmem hain
    exact ⟨.con e.key, slot_con hwf hg hmem, rfl, pi_outside hwf hmem hax hd hak, Or.inr ⟨hd, e, hmem, hax, rfl⟩⟩

theorem pi_inj : InjOn (piOf f names) f.axisKeys := by
  intro a ha b hb hab
  obtain ⟨s, hs1, hs2, hs3, hs4⟩ := pi_slot hwf hg ha
  obtain ⟨t, ht1, _, ht3, ht4⟩ := pi_slot hwf hg hb
  rw [hs3, ht3] at hab
  have hst : s = t := hg.nameOf_inj hs1 ht1 hab (Or.inl hs2)
  subst hst
  rcases hs4 with ⟨had, hsa⟩ | ⟨had, e, he, hax, hse⟩ <;> rcases ht4 with ⟨hbd, hsb⟩ | ⟨hbd, e', he', hbx, hse'⟩
  · exact dimSlot_inj hwf hg ha hb hsa hsb
  · -- a data axis and an axis outside the data cannot share a variable
    exfalso
    subst hse'
    unfold dimSlot at hsa
    cases hr : wfRole f a with
    | coordVar x =>
      rw [hr] at hsa
      have hk : x.key = e'.key := by injection hsa with h; injection h
      obtain ⟨_, hdc⟩ := role_coordVar hwf hg hr
      have := wf_keys_inj hwf (dimCoordOf_some hdc).1 he' hk
      have h2 := (dimCoordOf_some hdc).2.2
      rw [this, hbx] at h2
      injection h2 with h2 _
      exact hbd (h2 ▸ had)
    | plain => rw [hr] at hsa; cases hsa
    | scalarDim x => rw [hr] at hsa; cases hsa
    | none => rw [hr] at hsa; cases hsa
  · exfalso
    subst hse
    unfold dimSlot at hsb
    cases hr : wfRole f b with
    | coordVar x =>
      rw [hr] at hsb
      have hk : x.key = e.key := by injection hsb with h; injection h
      obtain ⟨_, hdc⟩ := role_coordVar hwf hg hr
      have := wf_keys_inj hwf (dimCoordOf_some hdc).1 he hk
      have h2 := (dimCoordOf_some hdc).2.2
      rw [this, hax] at h2
      injection h2 with h2 _
      exact had (h2 ▸ hbd)
    | plain => rw [hr] at hsb; cases hsb
    | scalarDim x => rw [hr] at hsb; cases hsb
    | none => rw [hr] at hsb; cases hsb
  · subst hse
    have hk : e.key = e'.key := by injection hse'
    have := wf_keys_inj hwf he he' hk
    rw [this, hbx] at hax
    injection hax with h _
    exact h.symm

theorem kappa_inj : InjOn (kappaOf names) (f.cons.map Entry.key) := by
  intro a ha b hb hab
  obtain ⟨e, he, rfl⟩ := List.mem_map.mp ha
  obtain ⟨e', he', rfl⟩ := List.mem_map.mp hb
  unfold kappaOf at hab
  have : Slot.con e.key = Slot.con e'.key :=
    hg.nameOf_inj (slot_con hwf hg he) (slot_con hwf hg he') hab (Or.inl rfl)
  injection this

omit hwf hg in
theorem read_props : (readVarA (wfFile o f names) (dataVar o f (wfAx f) names)).props.Perm f.props := by
  unfold readVarA
  simp only
  have hg' : (wfFile o f names).globals = f.props.filter isGlobal := rfl
  have ha : (dataVar o f (wfAx f) names).attrs = f.props.filter (fun p => !isGlobal p) := rfl
  rw [hg', ha]
  have : (f.props.filter isGlobal).filter (fun g => ((f.props.filter (fun p => !isGlobal p)).lookup g.1).isNone)
      = f.props.filter isGlobal := by
    rw [List.filter_eq_self]
    intro g hgm
    have hgl : isGlobal g = true := (List.mem_filter.mp hgm).2
    have : (f.props.filter (fun p => !isGlobal p)).lookup g.1 = none := by
      rw [List.lookup_eq_none_iff]
      intro p hp
      have hpl : isGlobal p = false := by simpa using (List.mem_filter.mp hp).2
      unfold isGlobal at hgl hpl
      by_contra heq
      have heq : g.1 = p.1 := by simpa using heq
      rw [heq, hpl] at hgl
      cases hgl
    rw [this]; rfl
  rw [this]
  exact List.filter_append_perm isGlobal f.props

omit hg in
/-- A name that is not a domain axis is left alone by the renaming. -/
theorem pi_free {a : Key} (ha : a ∉ f.axisKeys) : piOf f names a = a := by
  unfold piOf cmAxisName
  have hnil : (sortEntries (f.ofType .aux)).filter (fun e => auxIsScalar (wfAx f).dataLocal e && e.axes == [a]) = [] := by
    rw [List.filter_eq_nil_iff]
    intro x hx hp
    obtain ⟨h1, _, h3, _⟩ := mem_scalarAuxOn.mp (List.mem_filter.mpr ⟨hx, hp⟩)
    obtain ⟨hs, _, _⟩ := wf_entry hwf h1
    exact ha (hs.2.2.1 a (by rw [h3]; exact List.mem_singleton_self a))
  rw [hnil]
  simp only [List.getLast?_nil]
  have hr : roleOf (wfAx f).roles a = .none := by
    unfold roleOf
    have : (wfAx f).roles.lookup a = none := by
      rw [List.lookup_eq_none_iff]
      intro p hp
      have := (mem_roles_wfAx.mp hp).1
      by_contra heq
      have heq : a = p.1 := by simpa using heq
      exact ha (heq ▸ this)
    rw [this]; rfl
  unfold axisDim
  rw [hr]
  rfl

/-- The keys of the axes read back are names of dimensions or variables of the file. -/
theorem read_axisKeys {a : Key} (ha : a ∈ (readVarA (wfFile o f names) (dataVar o f (wfAx f) names)).axisKeys) :
    a ∈ (wfFile o f names).dims.map (·.name) ∨ a ∈ (wfFile o f names).vars.map (·.name) := by
  unfold MField.axisKeys at ha
  rw [read_axes hwf hg, List.map_append, List.mem_append] at ha
  rcases ha with h | h
  · left
    simp only [List.map_map, List.mem_map, Function.comp] at h
    obtain ⟨x, hx, rfl⟩ := h
    have hak := hwf.2.2.2.1 x hx
    obtain ⟨ka, hka, hk⟩ := mem_axisKeys.mp hak
    subst hk
    obtain ⟨s, hs⟩ := dataAxis_slot hx
    have hd := dim_axis (o := o) hwf hg hka hs
    unfold NcFile.dim? at hd
    have hm := List.mem_of_find?_eq_some hd
    unfold dimAxis
    simp only
    rw [pi_data hwf hak hx hs]
    exact List.mem_map.mpr ⟨_, hm, rfl⟩
  · right
    simp only [List.map_map, List.mem_map, Function.comp] at h
    obtain ⟨e, he, rfl⟩ := h
    obtain ⟨hmem, _⟩ := (mem_scalarOrder hwf).mp he
    have hv := var_con (o := o) hwf hg hmem
    obtain ⟨h1, h2⟩ : mainVar f names (wfAx f) e ∈ (wfFile o f names).vars ∧ (mainVar f names (wfAx f) e).name = nameOf names (.con e.key) := by
      unfold NcFile.var? at hv
      exact ⟨List.mem_of_find?_eq_some hv, mainVar_name _ _ _ _⟩
    exact List.mem_map.mpr ⟨_, h1, h2⟩

end

end Cfdm.Codec
